"""C17 (c, arguable): two k=v items in one query.  RFC 6690 4.1 defines one; the code builds one lambda
per item but the lambdas late-bind k and matchexp, so every item is evaluated as the LAST one.
exit 1 = result differs from the conjunction of the two filters."""
from C17_common import *
async def main():
    root = resource.Site()
    root.add_resource(["t"], Rec("t", rt="temp", **{"if": "sensor"}))
    root.add_resource(["l"], Rec("l", rt="light", **{"if": "sensor"}))
    root.add_resource([".well-known", "core"], resource.WKCResource(root.get_resources_as_linkheader, impl_info=None))
    a = await get(root, [".well-known", "core"], ["rt=temp", "if=sensor"])
    b = await get(root, [".well-known", "core"], ["if=sensor", "rt=temp"])
    print("?rt=temp&if=sensor ->", a); print("?if=sensor&rt=temp ->", b)
    return a != b
bad = run(main()); sys.exit(1 if bad else 0)
