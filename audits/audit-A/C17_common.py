import sys, asyncio
sys.path.insert(0, "/repo")
import aiocoap
from aiocoap import Message, GET, error
from aiocoap import resource

class Rec(resource.Resource):
    def __init__(self, name, **desc):
        super().__init__(); self.name = name; self.desc = desc
    def get_link_description(self):
        return dict(self.desc)
    async def render_get(self, request):
        return Message(payload=("%s saw %r" % (self.name, list(request.opt.uri_path))).encode())

class FakeRemote:
    scheme = "coap"; hostinfo = "client.example"; hostinfo_local = "srv.example"
    is_multicast = False; is_multicast_locally = False
    maximum_block_size_exp = 6; maximum_payload_size = 1124; blockwise_key = ("x",)

async def get(site, path, query=()):
    req = Message(code=GET, uri_path=tuple(path), uri_query=tuple(query))
    req.remote = FakeRemote()
    req.direction = aiocoap.message.Direction.INCOMING
    try:
        r = await site.render(req)
    except error.NotFound:
        return "4.04"
    return r.payload.decode()

def run(coro):
    return asyncio.new_event_loop().run_until_complete(coro)
