"""C16 (b, doubtful): get_request_uri with Uri-Port but without Uri-Host takes the host from the remote's
hostinfo (already in URI-escaped form) and escapes it again.  The harness never sets Uri-Port
(message_from_opts(..., None, ...) everywhere), so this branch of get_request_uri is never executed.
exit 1 = the composed URI names a different host."""
import sys
sys.path.insert(0, "/repo")
from aiocoap import Message, GET
m = Message(code=GET)
m.set_request_uri("coap://a%2Fb/x", set_uri_host=False)
base = m.get_request_uri()
m.opt.uri_port = 5
u = m.get_request_uri()
m2 = Message(code=GET); m2.set_request_uri(u)
m3 = Message(code=GET); m3.set_request_uri(base)
print("without Uri-Port:", base, "-> Uri-Host", repr(m3.opt.uri_host))
print("with Uri-Port 5 :", u, "-> Uri-Host", repr(m2.opt.uri_host))
sys.exit(1 if m2.opt.uri_host != m3.opt.uri_host else 0)
