"""C16: independent fuzz of set_request_uri on arbitrary strings: only MalformedUrlError/IncompleteUrlError may
escape; an accepted text must recompose (get_request_uri) to a text that is accepted again with the same
Uri-Path/Uri-Query/Uri-Host/remote.  exit 1 on violation.  (Known classes reported separately are filtered:
junk next to a bracket.)"""
import sys, random, collections
sys.path.insert(0, "/repo")
from aiocoap import Message, GET, error
rng = random.Random(int(sys.argv[1]) if len(sys.argv) > 1 else 1)
ALPH = ":/?#[]@%&=+.-~ \t\n;," + "coapstcws" + "0123456789" + "AZaz" + "éKİ" + "\x00\x7f%%%::://"
SEEDS = ["coap://h/", "coap://example.com:5683/a/b?c=d&e", "coaps://[2001:db8::1]:5684/x", "coap+tcp://1.2.3.4/%C3%A5?%26",
         "coap://[fe80::1%25eth0]/", "coap://h:1/a//b/?&", "coap://%41%2f/%2F?%26", "coap://1.2.3.4:80/"]
def obs(m): return (m.remote.scheme, m.remote.hostinfo.lower(), m.opt.uri_host, m.opt.uri_path, m.opt.uri_query)
bad = collections.Counter(); ex = {}
for i in range(300000):
    if rng.random() < 0.4:
        s = "coap://" + "".join(rng.choice(ALPH) for _ in range(rng.choice([1, 2, 5, 9, 14, 22])))
    else:
        s = list(rng.choice(SEEDS))
        for _ in range(rng.choice([1, 1, 2, 3])):
            pos = rng.randrange(len(s) + 1); op = rng.randrange(3)
            if op == 0 and s: del s[min(pos, len(s) - 1)]
            elif op == 1: s.insert(pos, rng.choice(ALPH))
            elif s: s[min(pos, len(s) - 1)] = rng.choice(ALPH)
        s = "".join(s)
    m = Message(code=GET)
    try:
        m.set_request_uri(s)
    except (error.MalformedUrlError, error.IncompleteUrlError):
        continue
    except Exception as e:
        k = "escape:" + type(e).__name__; bad[k] += 1; ex.setdefault(k, s); continue
    if m.opt.proxy_uri is not None: continue
    try:
        u = m.get_request_uri()
    except Exception as e:
        k = "compose:" + type(e).__name__; bad[k] += 1; ex.setdefault(k, s); continue
    m2 = Message(code=GET)
    try:
        m2.set_request_uri(u)
    except Exception as e:
        k = "normalform-rejected:" + type(e).__name__; bad[k] += 1; ex.setdefault(k, (s, u)); continue
    a, b = obs(m), obs(m2)
    if a[3:] != b[3:]:
        k = "path/query differ"; bad[k] += 1; ex.setdefault(k, (s, u, a, b)); continue
    if a[2] != b[2]:
        t = s.replace("\t", "").replace("\n", "").replace("\r", "")
        nl = t.split("//", 1)[-1].split("/")[0]
        junk = "[" in nl and not nl.startswith("[")
        k = "uri-host differs" + (" (junk before bracket)" if junk else ""); bad[k] += 1; ex.setdefault(k, (s, u, a, b))
for k, v in bad.items(): print(v, k, repr(ex[k])[:300])
hard = [k for k in bad if "junk" not in k]
sys.exit(1 if hard else 0)
