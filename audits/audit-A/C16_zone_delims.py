"""C16 (c): a Uri-Host value that `ipaddress` takes for an IPv6 address with a zone identifier is put
into the composed URI verbatim, whatever the zone contains (`?`, `#`, `]`, `@`, blank, LF).
Property text: "every option set with non-degenerate path and query composes to a URI that
decomposes to the same options, so distinct resources never collapse".
exit 1 = violated on /repo HEAD."""
import sys
sys.path.insert(0, "/repo")
from aiocoap import Message, GET
from aiocoap.message import UndecidedRemote

def compose(uri_host, path=("p",)):
    m = Message(code=GET)
    m.remote = UndecidedRemote("coap", "h")
    m.opt.uri_host = uri_host
    m.opt.uri_path = path
    return m.get_request_uri()

def decompose(u):
    m = Message(code=GET)
    try:
        m.set_request_uri(u)
    except Exception as e:
        return "rejected: %s" % type(e).__name__
    return (m.remote.hostinfo, m.opt.uri_host, m.opt.uri_path, m.opt.uri_query)

bad = 0
seen = {}
for host in ["fe80::1%a?b", "fe80::1%a#b", "::1%a]b", "::1%a", "[::1%x]y]", "::1%a@b", "::1%a b", "::1%a\nb", "::1%ab"]:
    u = compose(host)
    back = decompose(u)
    # same destination = the address+zone text comes back, either as Uri-Host or as the remote's literal
    ok = isinstance(back, tuple) and (back[1] == host or back[0] in ("[%s]" % host.strip("[]"),)) and back[2] == ("p",)
    print("Uri-Host %-14r -> %-28r -> %r%s" % (host, u, back, "" if ok else "   <-- VIOLATION"))
    if not ok:
        bad += 1
    if isinstance(back, tuple):
        if back in seen and seen[back] != host:
            print("   distinct Uri-Host values %r and %r collapse into %r" % (seen[back], host, back))
        seen.setdefault(back, host)
print("violations:", bad)
sys.exit(1 if bad else 0)
