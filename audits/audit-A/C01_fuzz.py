"""C01: independent fuzz of Message.decode: only UnparsableMessage may escape; accepted messages
re-encode and re-decode to the same field tuple.  exit 1 on violation."""
import sys, random
sys.path.insert(0, "/repo")
from aiocoap import Message, error
from aiocoap.message import Direction
rng = random.Random(int(sys.argv[1]) if len(sys.argv) > 1 else 1)

def canon(m):
    return (int(m.mtype), int(m.code), m.mid, bytes(m.token), bytes(m.payload),
            tuple((int(o.number), type(o).__name__, o.encode()) for o in m.opt.option_list()))

def check(data):
    try:
        m = Message.decode(data)
    except error.UnparsableMessage:
        return None
    except BaseException as e:
        return "escape %s on %s" % (type(e).__name__, data.hex())
    c = m.copy(); c.direction = Direction.OUTGOING
    try:
        b2 = c.encode()
    except BaseException as e:
        return "reencode %r on %s" % (e, data.hex())
    try:
        m2 = Message.decode(b2)
    except BaseException as e:
        return "redecode %r on %s" % (e, data.hex())
    if canon(m2) != canon(m):
        return "no roundtrip %s -> %s" % (data.hex(), b2.hex())
    return None

bad = []
N = 30000
for i in range(N):
    r = rng.random()
    hdr = bytes([0x40 | rng.randrange(64), rng.randrange(256), rng.randrange(256), rng.randrange(256)])
    tkl = hdr[0] & 15
    body = bytearray(rng.randbytes(min(tkl, rng.randrange(17))))
    # grammar-ish option generator with random corruption
    for _ in range(rng.randrange(6)):
        dn = rng.choice([0,1,2,3,4,6,7,8,11,12,13,14,15])
        ln = rng.choice([0,1,2,3,4,8,12,13,14,15])
        body.append(dn << 4 | ln)
        if dn == 13: body += rng.randbytes(1)
        if dn == 14: body += rng.choice([b"\x00\x00", b"\xff\xff", rng.randbytes(2)])
        L = ln
        if ln == 13:
            x = rng.randrange(256); body.append(x); L = 13 + x
        if ln == 14:
            x = rng.choice([0, 1, 300, 65535]); body += x.to_bytes(2, "big"); L = 269 + x
        if rng.random() < 0.8:
            body += rng.choice([rng.randbytes(L), b"a" * L, b"\x00" * L, b"\xff" * L])
        else:
            body += rng.randbytes(rng.randrange(L + 1))
    if rng.random() < 0.5:
        body += b"\xff" + rng.randbytes(rng.randrange(5))
    data = hdr + bytes(body)
    if rng.random() < 0.3 and len(data) > 4:
        k = rng.randrange(len(data)); data = data[:k] + bytes([rng.randrange(256)]) + data[k + 1:]
    v = check(data)
    if v:
        bad.append(v)
        if len(bad) > 5: break
print("cases", N, "violations", len(bad))
for b in bad: print(b[:300])
sys.exit(1 if bad else 0)
