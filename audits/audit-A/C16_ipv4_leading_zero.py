"""C16 (c, minor): dotted quads with leading zeros are not RFC 3986 IPv4address (dec-octet has no leading
zeros; ipaddress refuses them too), so they are reg-names and RFC 7252 6.4 step 5 wants a Uri-Host option.
set_request_uri treats them as IP literals (no Uri-Host).  The C16 generator's expectation
(harness/props/C16.py:540 `int(o) <= 255`) follows the code.  exit 1 = no Uri-Host on /repo HEAD."""
import sys, ipaddress
sys.path.insert(0, "/repo")
from aiocoap import Message, GET
bad = 0
for host in ["01.2.3.4", "1.2.3.0255", "0000001.2.3.4", "1.2.3.4"]:
    m = Message(code=GET); m.set_request_uri("coap://%s/" % host)
    try:
        ipaddress.IPv4Address(host); is_ip = True
    except ValueError:
        is_ip = False
    v = (m.opt.uri_host is None) != is_ip
    bad += v
    print("%-16s IPv4address=%-5s Uri-Host=%r%s" % (host, is_ip, m.opt.uri_host, "  <-- VIOLATION" if v else ""))
sys.exit(1 if bad else 0)
