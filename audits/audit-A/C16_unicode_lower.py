"""C16 (b, doubtful): a raw non-ASCII host is lower-cased with full Unicode rules by urllib's .hostname
(KELVIN SIGN U+212A -> ASCII 'k'), while the same host written with percent-escapes keeps the character
(set_request_uri only ASCII-lower-cases after unquoting).  Two spellings of one URI give different Uri-Host
options, and two different hosts ("hK" with U+212A, "hk") collapse.  DESIGN section 7 lists this as outside the quantifier
(raw non-ASCII is not RFC 3986 syntax); harness ASSUMPTIONS: "judged by the oracle only".
exit 1 = the two spellings decompose differently."""
import sys
sys.path.insert(0, "/repo")
from aiocoap import Message, GET
def host(u):
    m = Message(code=GET); m.set_request_uri(u); return m.opt.uri_host
a, b, c = host("coap://hK/"), host("coap://h%E2%84%AA/"), host("coap://hk/")
print("raw U+212A   ->", ascii(a)); print("escaped      ->", ascii(b)); print("ascii hk     ->", ascii(c))
sys.exit(1 if a != b else 0)
