"""C17 (c, arguable): get_resources_as_linkheader joins path components verbatim; with URI-reserved
characters in a component the listing does not name the registered resource (the href leads to another
resource or to none, or breaks the link-format syntax).  Property: "the /.well-known/core listing names exactly
the registered resources ..., with their full paths"; quantifier "all trees of registrations".
harness ASSUMPTIONS: "path components free of URI-reserved characters ...: get_resources_as_linkheader does not
escape them (outside the property's quantifier)".
The check follows each listed href the way a client does (set_request_uri) and looks at who answers.
exit 1 = a listed link does not lead to the resource it was generated for."""
from C17_common import *
import re
async def main():
    bad = 0
    root = resource.Site()
    regs = {("a/b",): "slash", ("a", "b"): "ab", ("%41",): "pct", ("A",): "A", ("q?x",): "qm", ("s p",): "space",
            ('x>;rt="oops",</y',): "inject"}
    for p, n in regs.items():
        root.add_resource(list(p), Rec(n, title=n))
    root.add_resource([".well-known", "core"], resource.WKCResource(root.get_resources_as_linkheader, impl_info=None))
    l = await get(root, [".well-known", "core"])
    print("listing:", l)
    from aiocoap.util.linkformat import parse
    try:
        links = parse(l).links
    except Exception as e:
        print("listing is not parseable link-format:", repr(e)); links = []; bad += 1
    for link in links:
        if link.href == '/.well-known/core':
            continue
        title = dict((k, v) for k, v in link.attr_pairs).get("title")
        m = Message(code=GET)
        try:
            m.set_request_uri("coap://srv.example" + link.href)
        except Exception as e:
            print("  href %r (for %s): not a URI (%s)" % (link.href, title, type(e).__name__)); bad += 1; continue
        a = await get(root, m.opt.uri_path, m.opt.uri_query)
        ok = a.startswith(str(title) + " saw")
        print("  href %-12r generated for %-6s -> answered by: %s%s" % (link.href, title, a, "" if ok else "   <-- VIOLATION"))
        bad += not ok
    return bad
bad = run(main()); print("violations:", bad); sys.exit(1 if bad else 0)
