"""C16 (c, arguable): text with junk next to a bracketed IP literal is no RFC 3986 authority, yet
set_request_uri accepts it and silently drops the junk (or turns the literal into a Uri-Host).
Property text: "Text that is not an acceptable CoAP URI ... is rejected with the documented URL errors";
"lower-cased host name as Uri-Host unless it is an IP literal"; quantifier "arbitrary strings as URIs".
exit 1 = accepted on /repo HEAD."""
import sys
sys.path.insert(0, "/repo")
from aiocoap import Message, GET, error
bad = 0
for u in ["coap://a[::1]/", "coap://evil.example[::1]:7/x", "coap://[::1]x/", "coap://[::1]x:7/", "coap://[::1]evil.example/", "coap://a[fe80::1%25eth0]/"]:
    m = Message(code=GET)
    try:
        m.set_request_uri(u)
    except (error.MalformedUrlError, error.IncompleteUrlError) as e:
        print("%-32r rejected (%s)" % (u, type(e).__name__)); continue
    bad += 1
    u2 = m.get_request_uri()
    m2 = Message(code=GET); m2.set_request_uri(u2)
    print("%-32r ACCEPTED: remote=%r Uri-Host=%r -> %r -> remote=%r Uri-Host=%r" % (u, m.remote.hostinfo, m.opt.uri_host, u2, m2.remote.hostinfo, m2.opt.uri_host))
sys.exit(1 if bad else 0)
