"""C17 (c, arguable): a nested site registered at the empty path is never routed to although the empty
path is a proper prefix of every non-empty request path ("otherwise by the nested site registered at the
longest proper prefix of the path"), and its resources are listed as <//x> (a network-path reference).
Model/oracle say "longest NON-EMPTY proper prefix" (Properties/C17.lean:24, harness/props/C17.py:394) and the
harness ASSUMPTIONS call it "never routable ... compared model~code only".
Second part: a resource registered at [""] inside a nested site is listed as </k/> but 4.04; registered
next to the nested site's [] resource both are listed under the same href.
exit 1 = observed on /repo HEAD."""
from C17_common import *
async def main():
    bad = 0
    root = resource.Site(); sub = resource.Site()
    sub.add_resource(["x"], Rec("X"))
    root.add_resource([], sub)
    root.add_resource([".well-known", "core"], resource.WKCResource(root.get_resources_as_linkheader, impl_info=None))
    a = await get(root, ["x"]); l = await get(root, [".well-known", "core"])
    print("sub-site at []: GET /x ->", a, "; listing:", l)
    if a == "4.04" or "<//x>" in l: bad += 1
    root = resource.Site(); sub = resource.Site()
    sub.add_resource([""], Rec("E")); sub.add_resource([], Rec("R"))
    root.add_resource(["k"], sub)
    root.add_resource([".well-known", "core"], resource.WKCResource(root.get_resources_as_linkheader, impl_info=None))
    l = await get(root, [".well-known", "core"])
    print("sub-site k with resources at [] (R) and [''] (E): listing:", l)
    for p in (["k", ""], ["k", "", ""]):
        print("   GET", p, "->", await get(root, p))
    sub.remove_resource([])
    a = await get(root, ["k", ""]); l = await get(root, [".well-known", "core"])
    print("after removing R: listing:", l, "; GET ['k',''] ->", a)
    if a == "4.04" and "</k/>" in l: bad += 1
    return bad
bad = run(main()); print("violations:", bad); sys.exit(1 if bad else 0)
