#!/usr/bin/env python3
"""F4 / C20 (c): the two places where the RD still writes client-supplied text UNESCAPED into its lookup answers
(neighbours of round-4 notes N1/N2, which were fixed for `\\` in values and for urljoin failures only):

  1. registration parameter NAMES  -> link-param names of the endpoint lookup   (Registration.get_host_link)
  2. the `base` parameter          -> link TARGET `<...>` of the resource lookup (Registration._based_links / Link.__str__)

One accepted (2.01) registration makes the lookup unreadable for every client -- judged with aiocoap's OWN parser --
or makes it list an endpoint / a link nobody registered.  exit 1 = shown on /repo HEAD."""
import sys
sys.path.insert(0, "/tmp/audit/F4/notes/C20")
import rdharness
rdharness.setup("/repo")
shown = []

async def main():
    from aiocoap.util.linkformat import parse
    def read(payload):
        try:
            return [(l.href, [tuple(p) for p in l.attr_pairs]) for l in parse(payload).links]
        except Exception as e:
            return "UNREADABLE (%s)" % type(e).__name__

    print("--- 1. parameter names")
    for key in ["k y", 'x"y', "a<b", "a,</evil>;ep"]:
        rd = rdharness.RD()
        await rd.register(["ep=good", "lt=600"], b'</s>;rt="t"')
        code, _, loc = await rd.register(["ep=n1", key + "=1"], b"</r>")
        c2, payload = await rd.ep_lookup()
        got = read(payload)
        eps = None if isinstance(got, str) else sorted(dict(a).get("ep") for _, a in got)
        bad = code == "2.01" and eps != ["good", "n1"]
        print("%s POST ?ep=n1&%s=1 -> %s ; endpoint lookup %s %r\n      read by aiocoap's parser: %s"
              % ("DEFECT" if bad else "ok    ", key, code, c2, payload, got if isinstance(got, str) else "endpoints %r" % eps))
        if bad: shown.append("name " + key)
        # the same through a POST update of an existing registration
        rd = rdharness.RD()
        _, _, loc = await rd.register(["ep=good", "lt=600"], b'</s>;rt="t"')
        code = (await rd.update(loc, [key + "=1"]))[0]
        got = read((await rd.ep_lookup())[1])
        bad = code == "2.04" and (isinstance(got, str) or len(got) != 1)
        print("%s POST /reg/1/?%s=1 -> %s ; endpoint lookup read: %s" % ("DEFECT" if bad else "ok    ", key, code, got))
        if bad: shown.append("name(update) " + key)

    print("--- 2. base")
    for base in ["coap://h>", "coap://h1>,<coap://victim.example"]:
        rd = rdharness.RD()
        await rd.register(["ep=good", "lt=600"], b'</s>;rt="t"')
        code, _, loc = await rd.register(["ep=n1", "base=" + base], b'</r>;rt="t"')
        c2, payload = await rd.res_lookup()
        got = read(payload)
        hrefs = None if isinstance(got, str) else sorted(h for h, _ in got)
        bad = code == "2.01" and (hrefs is None or len(hrefs) != 2)
        print("%s POST ?ep=n1&base=%s </r> -> %s ; resource lookup %s %r\n      read by aiocoap's parser: %s"
              % ("DEFECT" if bad else "ok    ", base, code, c2, payload, got if isinstance(got, str) else "targets %r (two links were registered)" % hrefs))
        if bad: shown.append("base " + base)
        # POST update that changes only the base of an existing registration
        rd = rdharness.RD()
        _, _, loc = await rd.register(["ep=good", "lt=600"], b'</s>;rt="t"')
        code = (await rd.update(loc, ["base=" + base]))[0]
        got = read((await rd.res_lookup())[1])
        bad = code == "2.04" and (isinstance(got, str) or len(got) != 1)
        print("%s POST /reg/1/?base=%s -> %s ; resource lookup read: %s" % ("DEFECT" if bad else "ok    ", base, code, got))
        if bad: shown.append("base(update) " + base)

rdharness.run(main())
print("SHOWN:", shown)
sys.exit(1 if shown else 0)
