#!/usr/bin/env python3
"""F4 / C17: link descriptions whose attribute NAME is a valid RFC 6690 parmname (so the hypothesis `ParmName`
of C17_listing_wire_roundtrip holds) but collides with a parameter of link_header.Link.__init__: the whole
/.well-known/core listing fails, i.e. the other registered resources are not named.
exit 1 = listing not obtained / other resources missing."""
import sys
sys.path.insert(0, "/repo"); sys.path.insert(1, "/tmp/audit/F4/notes/C17")
from aiocoap import resource
from c17_harness import Tagged, ask, run
from aiocoap.util.linkformat import parse

class Desc(resource.Resource):
    def __init__(self, d): super().__init__(); self.d = d
    def get_link_description(self): return dict(self.d)
    async def render_get(self, request):
        import aiocoap; return aiocoap.Message(payload=b"x")

async def main():
    bad = 0
    for name in ("href", "attr_pairs", "self", "title", "to_py"):
        root = resource.Site()
        root.add_resource([".well-known", "core"], resource.WKCResource(root.get_resources_as_linkheader, impl_info=None))
        root.add_resource(["a"], Desc({name: "v"}))
        root.add_resource(["b"], Desc({"rt": "x"}))
        try:
            r = await ask(root, (".well-known", "core"))
            hrefs = sorted(l.href for l in parse(r.payload).links) if r.code.is_successful() else None
            out = "%s %r" % (r.code, r.payload[:80])
        except Exception as e:
            hrefs, out = None, "exception " + repr(e)[:100]
        ok = hrefs == ["/.well-known/core", "/a", "/b"]
        print(("ok       " if ok else "VIOLATION") + " attribute name %-11r -> %s" % (name, out))
        bad += not ok
    return 1 if bad else 0
sys.exit(run(main()))
