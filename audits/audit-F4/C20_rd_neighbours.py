#!/usr/bin/env python3
"""F4 / C20: neighbours of the two round-4 RD fixes (54e32e7 unresolvable base/links refused; f3bc044 escaping).

 A. registrations RFC 9176 allows must be accepted and listed (relative targets, base with a path, IPv6 literal,
    targets / anchors with other schemes)
 B. one accepted write must not make lookups unreadable / failing for everybody: other entry points and other
    characters than the reported ones
exit 1 = a lookup answer after an ACCEPTED (2.xx) write is an error, is not link-format by an RFC 6690 reader, or
lists links nobody registered; or an RFC-valid registration is refused.
"""
import sys, os
sys.path.insert(0, "/tmp/audit/F4/notes/C20")
import rdharness
rdharness.setup("/repo")
sys.path.insert(0, "/tmp/audit/F4")

shown = []


def report(name, bad, detail):
    print(("VIOLATION " if bad else "ok        ") + name + ": " + detail)
    if bad:
        shown.append(name)


# own RFC 6690 reader (same as in C17_linkformat.py, strict names)
NAMECHAR = set("!#$&+-.^_`|~*0123456789abcdefghijklmnopqrstuvwxyzABCDEFGHIJKLMNOPQRSTUVWXYZ")


def rfc_read(s):
    i, n, out = 0, len(s), []
    if n == 0:
        return out
    while True:
        if i >= n or s[i] != "<":
            raise ValueError("expected < at %d" % i)
        j = s.find(">", i)
        if j < 0:
            raise ValueError("no >")
        href = s[i + 1 : j]
        i = j + 1
        attrs = []
        while i < n and s[i] == ";":
            i += 1
            k = i
            while i < n and s[i] in NAMECHAR:
                i += 1
            name = s[k:i]
            if not name:
                raise ValueError("empty/illegal parmname at %d: %r" % (i, s[i : i + 12]))
            if i < n and s[i] == "=":
                i += 1
                if not (i < n and s[i] == '"'):
                    raise ValueError("unquoted")
                i += 1
                v = []
                while True:
                    if i >= n:
                        raise ValueError("open quote")
                    c = s[i]
                    if c == '"':
                        i += 1
                        break
                    if c == "\\":
                        v.append(s[i + 1])
                        i += 2
                    else:
                        v.append(c)
                        i += 1
                attrs.append((name, "".join(v)))
            else:
                attrs.append((name, None))
        out.append((href, attrs))
        if i == n:
            return out
        if s[i] != ",":
            raise ValueError("expected , at %d: %r" % (i, s[i : i + 12]))
        i += 1


async def safe(coro):
    try:
        return await coro
    except Exception as e:
        return ("5.00", "EXC " + repr(e)[:100])


async def lookups_ok(rd, name, expect_res_hrefs=None, expect_eps=None, filt="rt=t"):
    """all four lookups answer 2.05 and are RFC-readable; returns parsed (eps, res)"""
    bad = False
    parsed = {}
    for what, coro in (("ep", rd.ep_lookup()), ("ep?" + filt, rd.ep_lookup(filt)),
                       ("res", rd.res_lookup()), ("res?" + filt, rd.res_lookup(filt))):
        code, payload = (await safe(coro))[:2]
        if code != "2.05":
            report(name + " " + what, True, "lookup answered %s %r" % (code, payload))
            bad = True
            continue
        try:
            parsed[what] = rfc_read(payload)
        except Exception as e:
            from aiocoap.util.linkformat import parse as own_parse
            try:
                own_parse(payload); own = "aiocoap's own parser reads it"
            except Exception as e2:
                own = "aiocoap's own parser: " + type(e2).__name__
            report(name + " " + what, True, "lookup payload is not link-format (%s; %s): %r" % (e, own, payload))
            bad = True
    if not bad:
        if expect_res_hrefs is not None:
            got = sorted(h for h, _ in parsed["res"])
            if got != sorted(expect_res_hrefs):
                report(name + " res", True, "resource lookup lists %r, registered (resolved) %r" % (got, sorted(expect_res_hrefs)))
                bad = True
        if expect_eps is not None:
            got = sorted(dict(a).get("ep") for h, a in parsed["ep"])
            if got != sorted(expect_eps):
                report(name + " ep", True, "endpoint lookup lists %r, live %r" % (got, sorted(expect_eps)))
                bad = True
    return not bad, parsed


async def main():
    # ------------------------------------------------------------------ A: RFC-valid registrations
    # RFC 9176 5: base is any URI ("scheme://authority" typical, a path is not forbidden for third-party
    # registrants: 'base ... MUST be a URI'); links may be relative references resolved against the base;
    # targets of other schemes are plain links (RFC 9176 examples: <http://www.example.com/sensors/t123>;anchor=...)
    A = [
        ("relative target, base with path", ["ep=a1", "base=coap://h1/p/"], b'<sensors/temp>;rt="t"', ["coap://h1/p/sensors/temp"]),
        ("dot-dot target, base with path", ["ep=a2", "base=coap://h1/p/q"], b'<../x>;rt="t"', ["coap://h1/x"]),
        ("query-only target", ["ep=a3", "base=coap://h1/p"], b'<?k=v>;rt="t"', ["coap://h1/p?k=v"]),
        ("IPv6 literal base", ["ep=a4", "base=coap://[2001:db8::7]:5683"], b'</a>;rt="t"', ["coap://[2001:db8::7]:5683/a"]),
        ("IPv6 zone base", ["ep=a5", "base=coap://[fe80::1%25eth0]"], b'</a>;rt="t"', ["coap://[fe80::1%25eth0]/a"]),
        ("http target", ["ep=a6"], b'<http://www.example.com/sensors/t123>;rt="t"', ["http://www.example.com/sensors/t123"]),
        ("coaps / coap+tcp / coap+ws targets", ["ep=a7"], b'<coaps://h/x>;rt="t",<coap+tcp://[::1]/y>;rt="t",<coap+ws://h/z>;rt="t"',
         ["coaps://h/x", "coap+tcp://[::1]/y", "coap+ws://h/z"]),
        ("urn / mailto targets", ["ep=a8"], b'<urn:dev:ow:10e2073a01080063>;rt="t",<mailto:a@b.example>;rt="t"',
         ["urn:dev:ow:10e2073a01080063", "mailto:a@b.example"]),
        ("RFC 9176 anchor example", ["ep=a9", "base=coap://h9"],
         b'</sensors/temp>;rt="t";anchor="coap://other.example/",<http://www.example.com/s>;anchor="/sensors/temp";rel="describedby";rt="t"',
         ["coap://h9/sensors/temp", "http://www.example.com/s"]),
        ("base with other scheme + relative target", ["ep=a10", "base=coap+tcp://h10"], b'</a>;rt="t"', ["coap+tcp://h10/a"]),
        ("base http", ["ep=a11", "base=http://h11"], b'</a>;rt="t"', ["http://h11/a"]),
        ("base unknown scheme", ["ep=a12", "base=foo://h12"], b'</a>;rt="t"', ["foo://h12/a"]),
        ("uppercase scheme base", ["ep=a13", "base=COAP://H13"], b'</a>;rt="t"', None),
    ]
    for name, q, links, want in A:
        rd = rdharness.RD()
        code, payload, loc = await rd.register(q, links)
        if code != "2.01":
            report("A " + name, True, "RFC-valid registration %r %r refused: %s %r" % (q, links, code, payload))
            continue
        ok, parsed = await lookups_ok(rd, "A " + name, want, [q[0][3:]])
        if ok:
            report("A " + name, False, "2.01; resource lookup %r" % ([h for h, _ in parsed["res"]],))

    # ------------------------------------------------------------------ B: poisoning through other inputs
    good = (["ep=good", "lt=600"], b'</s>;rt="t"')

    async def fresh():
        rd = rdharness.RD()
        c, _, loc = await rd.register(*good)
        assert c == "2.01"
        return rd, loc

    # B1 the reported inputs at every entry point
    bad_links = [b"<//[>", b'</a>;anchor="//["', b"<coap://[::1/x>", b"</ok>,<//[zz]/x>"]
    bad_bases = ["coap://[", "coap://[zz]", "//[", "coap://h]"]
    for bl in bad_links:
        rd, loc = await fresh()
        c1 = (await rd.register(["ep=evil"], bl))[0]
        c2 = (await rd.put(loc, [], bl))[0]
        c3 = (await rd.register(["ep=good", "lt=600"], bl))[0]     # re-registration
        ok, _ = await lookups_ok(rd, "B1 links %r (register %s, PUT %s, re-register %s)" % (bl, c1, c2, c3),
                                 ["coap://[2001:db8::1]/s"], ["good"])
        if ok:
            report("B1 links %r" % bl, any(c.startswith("2.") for c in (c1, c2, c3)),
                   "register %s, PUT %s, re-register %s; lookups intact" % (c1, c2, c3))
    for bb in bad_bases:
        rd, loc = await fresh()
        c1 = (await rd.register(["ep=evil", "base=" + bb], b"</z>"))[0]
        c2 = (await rd.update(loc, ["base=" + bb]))[0]
        c3 = (await rd.put(loc, ["base=" + bb], b"</z>"))[0]
        c4 = (await rd.register(["ep=evil2", "base=" + bb], b""))[0]      # no links: nothing to resolve now ...
        c5 = "-"
        if c4 == "2.01":
            # ... but a later PUT of links / update must then be checked against that base
            c5 = (await rd.put(("reg", "2", ""), [], b"</z>"))[0]
        ok, _ = await lookups_ok(rd, "B1 base %r (register %s, POST %s, PUT %s, register w/o links %s then PUT links %s)"
                                 % (bb, c1, c2, c3, c4, c5), ["coap://[2001:db8::1]/s"], None)
        if ok:
            report("B1 base %r" % bb, False, "register %s, POST %s, PUT %s, linkless register %s, then PUT links %s; lookups intact"
                   % (c1, c2, c3, c4, c5))

    # B2 the remote changes under an implicit base: links that resolved under the old remote
    rd, loc = await fresh()
    c = (await rd.update(loc, [], remote=rdharness.Remote("[2001:db8::2]:61616")))[0]
    ok, _ = await lookups_ok(rd, "B2 update from another remote (%s)" % c, ["coap://[2001:db8::2]:61616/s"], ["good"])
    if ok:
        report("B2 update from another remote", False, c)

    # B3 characters that are not escaped where they are written
    #   (a) registration parameter NAMES become link-param names of the endpoint lookup
    for key in ['x"y', "a;b", "a,</evil>;ep", "k y", "ä", "a<b"]:
        rd, loc = await fresh()
        c = (await rd.register(["ep=n1", key + "=1"], b'</r>;rt="t"'))[0]
        ok, parsed = await lookups_ok(rd, "B3a parameter name %r (register %s)" % (key, c), None, ["good", "n1"] if c == "2.01" else ["good"])
        if ok:
            report("B3a parameter name %r" % key, False, "register %s; endpoint lookup readable" % c)
    #   (b) the base is written into the link TARGET of the resource lookup
    for base in ["coap://h>", "coap://h/>,</evil>;rt=\"t\";x=\"", "coap://h1>,<coap://victim", "coap://h 1"]:
        rd, loc = await fresh()
        c = (await rd.register(["ep=n1", "base=" + base], b'</r>;rt="t"'))[0]
        want = ["coap://[2001:db8::1]/s"] + ([None] if c == "2.01" else [])
        code, payload = (await safe(rd.res_lookup()))[:2]
        try:
            got = rfc_read(payload)
            hrefs = [h for h, _ in got]
            from urllib.parse import urljoin
            expect = ["coap://[2001:db8::1]/s"] + ([urljoin(base, "/r")] if c == "2.01" else [])
            badb = code != "2.05" or sorted(hrefs) != sorted(expect)
            report("B3b base %r (register %s)" % (base, c), badb,
                   "resource lookup %s %r reads as targets %r; registered %r" % (code, payload, hrefs, expect))
        except Exception as e:
            report("B3b base %r (register %s)" % (base, c), True,
                   "resource lookup %s is not link-format (%s): %r" % (code, e, payload))
    #   (c) anchor values / ep / d with every special character are VALUES: escaped
    rd, loc = await fresh()
    c = (await rd.register(['ep=n"1\\', 'd=s;1,<x>', "note=a\\"], b'</r>;rt="t";title="C:\\\\"'))[0]
    ok, parsed = await lookups_ok(rd, "B3c special characters in values (%s)" % c, None, ["good", 'n"1\\'])
    if ok:
        report("B3c special characters in values", False, "%s; %r" % (c, parsed["ep"]))

    # B4 simple registration (entry point the harness leaves out): the RD fetches /.well-known/core itself
    import aiocoap
    from aiocoap.numbers import ContentFormat

    class FakeRequest:
        def __init__(self, payload):
            async def r():
                m = aiocoap.Message(code=aiocoap.CONTENT, payload=payload, content_format=ContentFormat.LINKFORMAT)
                return m
            self.response_raising = r()

    class FakeContext:
        def __init__(self, payload):
            self.payload = payload
            self.asked = []

        def request(self, msg):
            self.asked.append(msg)
            return FakeRequest(self.payload)

    for pl in (b"<//[>", b'</a>;anchor="//["', b'</fine>;rt="t"'):
        rd, loc = await fresh()
        ctx = FakeContext(pl)
        for r in rd.site._resources.values():
            if hasattr(r, "context"):
                r.context = ctx
        rem = rdharness.Remote("[2001:db8::9]")
        try:
            c = (await rd.request(aiocoap.POST, (".well-known", "rd"), ["ep=simple", "lt=600"], remote=rem))[0]
        except Exception as e:
            c = "EXC " + repr(e)[:200]
        want = ["coap://[2001:db8::1]/s"] + (["coap://[2001:db8::9]/fine"] if pl.startswith(b"</fine") and c.startswith("2.") else [])
        ok, _ = await lookups_ok(rd, "B4 simple registration, fetched %r (%s)" % (pl, c), want, None)
        if ok:
            report("B4 simple registration, fetched %r" % pl, False, "answered %s; lookups intact" % c)


rdharness.run(main())
print("SHOWN:", shown)
sys.exit(1 if shown else 0)
