#!/usr/bin/env python3
"""F4 / C19 sanity of the round-4 claims on /repo HEAD (no sockets): block-wise fetch after observation + change
(+/- refresh round) equals the present content, for all szx; servers built from command lines without a --write
token refuse PUT/DELETE and leave the tree alone; hostile paths with write enabled have no effect.
exit 1 = a violation was observed."""
import sys, os, asyncio, logging, tempfile, shutil, hashlib
sys.path.insert(0, "/repo"); sys.path.insert(1, "/tmp/audit/F4/notes/C19")
from pathlib import Path
import aiocoap
from aiocoap.numbers.codes import Code
from aiocoap.cli.fileserver import FileServer, FileServerProgram
from aiocoap.optiontypes import BlockOption
import c19_driver as drv

bad = []
def tree(root):
    h = hashlib.sha256()
    for dp, dn, fn in sorted(os.walk(root)):
        for f in sorted(fn):
            p = os.path.join(dp, f); h.update(p.encode()); h.update(open(p, "rb").read())
        for d in sorted(dn): h.update(os.path.join(dp, d).encode())
    return h.hexdigest()

class FakeObs:
    def __init__(self): self.cancel = None; self.triggered = 0
    def accept(self, cb): self.cancel = cb
    def trigger(self, *a, **k): self.triggered += 1

async def fetch(fs, comps, szx):
    out, n = b"", 0
    while True:
        req = drv.build_request(Code.GET, comps, block2=BlockOption.BlockwiseTuple(n, False, szx))
        r = await fs.render(req)
        if not r.code.is_successful(): return ("code", r.code)
        out += r.payload
        if r.opt.block2 is None or not r.opt.block2.more: return out
        n += 1
        if n > 10000: return ("endless",)

async def main():
    base = Path(tempfile.mkdtemp(suffix="-f4c19"))
    try:
        root = base / "srv"; root.mkdir(); (base / "outside.txt").write_bytes(b"secret")
        (root / "d").mkdir()
        fs = FileServer(root, logging.getLogger("fs"), write=True)
        def content(n, salt=0): return bytes((i * 7 + salt) % 251 for i in range(n))
        for s1, s2 in ((600, 100), (100, 600), (1024, 1025), (1025, 1024), (17, 0), (0, 5000)):
            for how in ("put", "inplace", "rename"):
                for tick in ("none", "before", "after"):
                    f = root / "d" / "f.bin"; f.write_bytes(content(s1))
                    fo = FakeObs()
                    await fs.add_observation(drv.build_request(Code.GET, ("d", "f.bin"), observe=0), fo)
                    await fs.render(drv.build_request(Code.GET, ("d", "f.bin")))   # sets last_stat
                    async def one_round():
                        calls = 0
                        real = asyncio.sleep
                        async def fake(d):
                            nonlocal calls
                            calls += 1
                            if calls > 1:
                                raise asyncio.CancelledError
                            await real(0)
                        asyncio.sleep = fake
                        try:
                            try:
                                await fs.check_files_for_refreshes()
                            except asyncio.CancelledError:
                                pass
                        finally:
                            asyncio.sleep = real
                    if tick == "before":
                        await one_round()
                    new = content(s2, 3)
                    if how == "put":
                        r = await fs.render(drv.build_request(Code.PUT, ("d", "f.bin"), payload=new))
                        assert r.code == Code.CHANGED, r.code
                    elif how == "inplace":
                        f.write_bytes(new)
                    else:
                        t = root / "d" / "tmpx"; t.write_bytes(new); t.rename(f)
                    if tick == "after":
                        await one_round()
                    for szx in range(0, 7):
                        got = await fetch(fs, ("d", "f.bin"), szx)
                        if got != new:
                            bad.append(("blockwise", s1, s2, how, szx)); print("VIOLATION blockwise", s1, s2, how, szx, got if isinstance(got, tuple) else len(got))
                    fs._observations.clear()
        print("block-wise after change: checked 6 size pairs x 3 ways x refresh round none/before/after the change x szx 0..6")
        # hostile paths, write enabled
        before = tree(base)
        for comps in (("", "etc", "hostname"), ("..", "outside.txt"), ("d", "..", "..", "outside.txt"), ("/etc/passwd",),
                      ("a/b",), ("d", "", "x"), (".",), ("..",), ("d", "."), ("x\0y",), ("",  ""), ("", str(base)[1:], "outside.txt")):
            for code in (Code.GET, Code.PUT, Code.DELETE):
                try:
                    r = await drv.request(fs, code, comps, payload=b"evil" if code == Code.PUT else b"")
                    c = r.code
                except Exception as e:
                    c = "exc " + type(e).__name__
                if getattr(c, "is_successful", lambda: False)():
                    bad.append(("hostile", comps, code)); print("VIOLATION hostile", comps, code, c)
        if tree(base) != before:
            bad.append("hostile changed tree"); print("VIOLATION: tree changed by hostile requests")
        print("hostile paths: no success, tree unchanged:", tree(base) == before)
        # command lines without a --write token
        p = FileServerProgram.build_parser()
        for argv in ([], [str(root)], ["-v", str(root)], ["--etag-length", "0", str(root)], [str(root), "--register"],
                     ["--register", "coap://rd.example", str(root)], ["--bind", "[::1]:5683", str(root)],
                     ["--register=--write", str(root)], ["--", str(root)], ["--tls-server-key", "--write".replace("--", "w"), str(root)]):
            o = p.parse_args(argv)
            from aiocoap.cli.common import extract_server_arguments
            extract_server_arguments(o)
            kw = vars(o)
            fs2 = FileServer(kw["path"] if argv and str(root) in argv else root, logging.getLogger("fs"), write=kw["write"], etag_length=kw["etag_length"])
            before = tree(base)
            r1 = await drv.request(fs2, Code.PUT, ("new.txt",), payload=b"x")
            r2 = await drv.request(fs2, Code.DELETE, ("d", "f.bin"))
            if r1.code.is_successful() or r2.code.is_successful() or tree(base) != before:
                bad.append(("cli", argv)); print("VIOLATION cli", argv, r1.code, r2.code)
        print("command lines without --write: PUT/DELETE refused")
    finally:
        shutil.rmtree(base, ignore_errors=True)
    print("RESULT:", bad or "nothing reproduced")
    return 1 if bad else 0

sys.exit(asyncio.run(main()))
