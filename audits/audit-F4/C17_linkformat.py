#!/usr/bin/env python3
"""F4 / C17+C20: link-format writer (Link.__str__) and reader (link_header.parse) after f3bc044.

 1. parse(str(L)) == L for all values over a path-significant alphabet up to length 4 (+ every ASCII char,
    selected non-ASCII, line separators)
 2. an own RFC 6690 reader (written from the ABNF, quoted-pair = "\\" CHAR) reads str(L) as L
 3. wire texts NOT produced by aiocoap (third-party registrations at the RD): aiocoap's parse against the own
    reader; and against the pre-fix parser, to see whether f3bc044 changed the reading of a text that was read
    correctly before.
exit 1 = a disagreement with RFC 6690 that matters for C17/C20 was observed.
"""
import sys, itertools, re
sys.path.insert(0, "/repo")
from aiocoap.util.linkformat import Link, LinkFormat, parse
from aiocoap.util.vendored import link_header

bad = []

# ------------------------------------------------------------------ own reader (RFC 6690 section 2)
PTOKENCHAR = set("!#$%&'()*+-./:<=>?@[]^_`{|}~") | set("0123456789") | set(
    "abcdefghijklmnopqrstuvwxyzABCDEFGHIJKLMNOPQRSTUVWXYZ")
NAMECHAR = set("!#$&+-.^_`|~*") | set("0123456789") | set(
    "abcdefghijklmnopqrstuvwxyzABCDEFGHIJKLMNOPQRSTUVWXYZ")


class NotLF(Exception):
    pass


def rfc_read(s):
    i, n, out = 0, len(s), []
    if n == 0:
        return out
    while True:
        if i >= n or s[i] != "<":
            raise NotLF("expected < at %d" % i)
        j = s.find(">", i)
        if j < 0:
            raise NotLF("no >")
        href = s[i + 1 : j]
        i = j + 1
        attrs = []
        while i < n and s[i] == ";":
            i += 1
            k = i
            while i < n and s[i] in NAMECHAR:
                i += 1
            name = s[k:i]
            if not name:
                raise NotLF("empty name at %d" % i)
            if i < n and s[i] == "=":
                i += 1
                if i < n and s[i] == '"':
                    i += 1
                    v = []
                    while True:
                        if i >= n:
                            raise NotLF("open quote")
                        c = s[i]
                        if c == '"':
                            i += 1
                            break
                        if c == "\\":
                            if i + 1 >= n:
                                raise NotLF("open pair")
                            v.append(s[i + 1])
                            i += 2
                        else:
                            v.append(c)
                            i += 1
                    attrs.append([name, "".join(v)])
                else:
                    k = i
                    # ptoken; ';' and ',' end it ('<' '>' '=' are ptokenchars!)
                    while i < n and s[i] in PTOKENCHAR:
                        i += 1
                    if k == i:
                        raise NotLF("empty ptoken")
                    attrs.append([name, s[k:i]])
            else:
                attrs.append([name, None])
        out.append((href, attrs))
        if i == n:
            return out
        if s[i] != ",":
            raise NotLF("expected , at %d: %r" % (i, s[i : i + 10]))
        i += 1


def old_parse_value(quoted):  # what link_header.parse did before f3bc044
    return quoted.replace(r"\"", '"')


def as_list(lf):
    return [(l.href, [list(p) for p in l.attr_pairs]) for l in lf.links]


# ------------------------------------------------------------------ 1 + 2
alpha = ["\\", '"', "a", ",", ";", "<", ">", "=", " ", "\n"]
values = [""]
for ln in range(1, 5):
    values += ["".join(t) for t in itertools.product(alpha, repeat=ln)]
values += [chr(c) for c in range(0, 128)] + ["a" + chr(c) + "b" for c in range(0, 128)]
values += ["\\" + chr(c) for c in range(0, 128)] + [chr(c) + "\\" for c in range(0, 128)]
values += [" ", "\\ ", "\u0085", "\\\u0085", "ä\\", "\\ä", "\r\n", "\\\r", "\x0b\\", "\x0c", "\x1c\\\x1d"]
n1 = n2 = 0
for v in values:
    L = LinkFormat([Link("/s", [["title", v], ["obs", None]]), Link("/t", [["rt", "x " + v], ["x", v]]), Link("/u")])
    want = as_list(L)
    text = str(L)
    try:
        got = as_list(parse(text))
    except Exception as e:
        got = repr(e)
    if got != want:
        n1 += 1
        if n1 <= 5:
            print("1: parse(str(L)) != L for value %r: text %r -> %r" % (v, text, got))
    try:
        got2 = [(h, a) for h, a in rfc_read(text)]
    except NotLF as e:
        got2 = repr(e)
    if got2 != want:
        n2 += 1
        if n2 <= 5:
            print("2: RFC reader of str(L) != L for value %r: text %r -> %r" % (v, text, got2))
print("1: %d values, parse(str(L)) != L for %d" % (len(values), n1))
print("2: %d values, own RFC reader of str(L) != L for %d" % (len(values), n2))
if n1:
    bad.append("parse(str) not identity")
if n2:
    bad.append("str not RFC-readable")

# bytes path (the RD decodes the payload first, the WKC encodes)
for v in ["ä\\", "\\ "]:
    L = LinkFormat([Link("/s", [["title", v]])])
    assert as_list(parse(str(L).encode("utf8"))) == as_list(L)

# ------------------------------------------------------------------ 3 third-party texts
texts = {
    # quoted-pairs
    'qp-quote': '</a>;title="x\\"y",</b>',
    'qp-backslash': '</a>;title="x\\\\y",</b>',
    'qp-backslash-end': '</a>;title="x\\\\",</b>',
    'qp-other': '</a>;title="x\\ny",</b>',
    'qp-bs-bs-quote': '</a>;title="\\\\\\"",</b>',
    'qp-newline': '</a>;title="x\\\ny",</b>',
    'qp-comma': '</a>;title="x\\,y",</b>',
    # framing characters inside quoted strings
    'q-semi': '</a>;title="x;y",</b>',
    'q-comma': '</a>;title="x,y",</b>',
    'q-angle': '</a>;title="x,</c>;rt=\\"z\\"",</b>',
    'q-gt': '</a>;title=">",</b>',
    'q-eq': '</a>;title="a=b";rt="t"',
    # ptoken values RFC 6690 allows
    'pt-digits': '</a>;ct=40',
    'pt-word': '</a>;rt=temperature-c;if=sensor',
    'pt-colon': '</a>;rt=urn:x',
    'pt-slash': '</a>;type=text/plain',
    'pt-paren': '</a>;x=(a)',
    'pt-at': '</a>;x=a@b',
    'pt-question': '</a>;x=a?b',
    'pt-brackets': '</a>;x=[a]',
    'pt-braces': '</a>;x={a}',
    'pt-eq': '</a>;x=a=b',
    'pt-lt': '</a>;x=a<b',
    'pt-backslash': '</a>;x=a\\b',       # not a ptoken (RFC): refusal would be fine
    'ext-value': "</a>;title*=UTF-8'en'%e2%82%ac",
    # structure
    'two-links-space': '</a>;rt="x", </b>',     # not RFC 6690 (no space allowed) - tolerated?
    'empty-attr': '</a>;;rt="x"',
    'trailing-comma': '</a>,',
    'empty': '',
    'href-space': '< /a >',
    'valueless-then-link': '</a>;obs,</b>;rt="x"',
    'eq-nothing': '</a>;rt=,</b>',
}
print("3: third-party texts: aiocoap parse (HEAD) / pre-fix reading of the quoted values / own RFC reader")
n3 = 0
for name, t in texts.items():
    try:
        new = as_list(parse(t))
    except Exception as e:
        new = "REFUSED " + type(e).__name__
    try:
        ref = [(h, a) for h, a in rfc_read(t)]
    except NotLF as e:
        ref = "NOT-LF (%s)" % e
    # pre-fix: same scanner, other unescape
    saved = link_header.re.sub
    try:
        link_header.re.sub = lambda pat, rep, s, *a, **k: (
            old_parse_value(s) if pat == r"\\(.)" else saved(pat, rep, s, *a, **k))
        try:
            old = as_list(parse(t))
        except Exception as e:
            old = "REFUSED " + type(e).__name__
    finally:
        link_header.re.sub = saved
    mark = ""
    if new != ref:
        mark = "  <-- HEAD differs from RFC reading"
        n3 += 1
    if old == ref and new != ref:
        mark += "  <-- READ CORRECTLY BEFORE f3bc044, NOT NOW"
        bad.append("regression on " + name)
    print("  %-20s %r\n      HEAD %r\n      old  %r\n      RFC  %r%s" % (name, t, new, old, ref, mark))

print("3: %d of %d texts are read differently from the RFC reader (see marks)" % (n3, len(texts)))
print("RESULT:", bad or "no regression, parse(str) identity, str RFC-readable")
sys.exit(1 if bad else 0)
