#!/usr/bin/env python3
"""F4: side effect of f3bc044 outside the properties: aiocoap-client's pretty printer parses with the (now
unescaping) reader and writes with the vendored writer, which still does not escape backslashes."""
import sys
sys.path.insert(0, "/repo")
import aiocoap
from aiocoap.util import prettyprint
from aiocoap.util.linkformat import parse
m = aiocoap.Message(code=aiocoap.CONTENT, payload=b'</a>;title="C:\\\\",</b>;rt="x"', content_format=40)
infos, mime, text = prettyprint.pretty_print(m)
print("payload       :", m.payload.decode())
print("pretty printed:", text.replace("\n", ""), infos)
try:
    print("re-read       :", parse(text.replace("\n", "").replace("; ", ";")))
    sys.exit(0)
except Exception as e:
    print("the printed text is not link-format any more:", type(e).__name__)
    sys.exit(1)
