"""C18, "mid block-wise transfer": shutdown() called k loop iterations (k = 0..8) after the answer to block j arrived,
i.e. in every loop iteration between "blockrequest.response is set" and "the request for block j+1 is registered with
the token manager / is on the wire" (BlockwiseRequest._run resumes -> Context.request creates the send task -> the send
task runs find_remote_and_interface -> TokenManager.request).  Upload (Block1) and download (Block2), default API.
exit 1 = response not ended with LibraryShutdown when shutdown returned (+ a few iterations), datagram after shutdown
returned, loop exception, shutdown raising."""
from g2common import *


def scenario(kind, j, k):
    async def main(loop):
        with netsim.Pins():
            ctx, net = await netsim.make_context(loop)
            peer = netsim.peer(0)
            seen = []
            go = loop.create_future()

            def on_send(tick, dest, data):
                m = W.parse(data)
                if m["mtype"] != "CON" or not (1 <= m["code"] < 32):
                    return
                b1 = [v for (n, v) in m["options"] if n == 27]
                b2 = [v for (n, v) in m["options"] if n == 23]
                if kind == "upload":
                    v = int.from_bytes(b1[0], "big")
                    num, more = v >> 4, bool(v & 8)
                    reply = W.build("ACK", 95 if more else 68, m["mid"], m["token"], [(27, b1[0])], b"")
                else:
                    num = (int.from_bytes(b2[0], "big") >> 4) if b2 else 0
                    more = num < 3
                    reply = W.build("ACK", 69, m["mid"], m["token"],
                                    [(23, bytes([(num << 4) | (8 if more else 0)]))], bytes([65 + num]) * (16 if more else 3))
                seen.append(num)

                def deliver():
                    if net.sock.closed:
                        return                       # nothing arrives through a closed socket
                    if num == j and not go.done() and k < 0:
                        # k = -1 / -2: shutdown() was called (-2: and has taken its first step) just before the datagram
                        # arrives in the same loop iteration
                        t = loop.create_task(shut()) if k == -1 else asyncio.Task(shut(), loop=loop, eager_start=True)
                        go.set_result(t)
                    net.inject(reply, dest)
                    if num == j and not go.done():
                        # k = 0: shutdown() is called in the callback in which the datagram arrived
                        hop(k)

                def hop(n):
                    if n == 0:
                        go.set_result(loop.create_task(shut()))
                    else:
                        loop.call_soon(hop, n - 1)

                loop.call_later(0.001, deliver)

            net.on_send = on_send
            msg = aiocoap.Message(code=aiocoap.POST if kind == "upload" else aiocoap.GET,
                                  payload=bytes(range(60)) if kind == "upload" else b"")
            msg.remote = netsim.remote_for(net, peer)
            msg.remote.maximum_block_size_exp = 0
            req = ctx.request(msg)
            req.response.add_done_callback(lambda f: f.cancelled() or f.exception())
            out = {}

            async def shut():
                out["sent_before"] = len(seen)
                try:
                    await ctx.shutdown()
                    out["shutdown"] = "returned"
                except BaseException as e:
                    out["shutdown"] = "raised " + repr(e)
                out["mark"] = len(net.sent)
                out["at_return"] = fstate(req.response)

            await (await go)
            mark = out.pop("mark")
            for _ in range(5):
                await asyncio.sleep(0)
            out["soon_after"] = fstate(req.response)
            await asyncio.sleep(400)
            out["sent_after_return"] = [d.hex() for (_, _, d) in net.sent[mark:]]
            out["blocks_seen"] = seen
            return out

    return run(main)


worst = {}
for kind in ("upload", "download"):
    for j in (0, 1, 2):
        for k in range(-2, 9):
            out, errs = scenario(kind, j, k)
            ok_state = out["soon_after"].startswith("exception:LibraryShutdown") or \
                (out["soon_after"].startswith("result:") )     # the transfer may have completed before the shutdown
            bad = out["shutdown"] != "returned" or not ok_state or out["sent_after_return"] or errs
            if bad:
                verdict(f"{kind} after block {j} +{k} iterations", True, f"{out} loop_errors={errs}")
            worst.setdefault((kind, "requests on the wire when shutdown() was called: %d" % out["sent_before"], out["at_return"].split("(")[0], out["soon_after"].split("(")[0]), []).append((j, k))
if not any(v for _, v in VERDICTS):
    verdict("shutdown around the hand-over to the next block (66 instants)", False, "all ended with LibraryShutdown "
            "(or had completed), nothing sent afterwards, no loop exception")
for key, where in sorted(worst.items()):
    print("   ", key, "at (block, iterations):", where)
finish()
