"""a2d9ac1 (every rendered notification is `response.copy()`-ed in interfaces.ObservableResource._render_to_pipe).
usage: B_a2d9ac1_notification_copy.py [repo-root]   (default /repo)
 1. regression probe: a render() whose response serializes but can not be deep-copied (opaque option = memoryview; the
    case commits 3d61542/1a58f17 treat as a legitimate response): first response vs notifications.
 2. the fixed case (two CON observers, kept rendering, first notification lost): retransmitted to the right observer?
 3. the FIRST-response path (not changed by the commit): kept rendering, first responses sent as separate CONs to two
    observers, the first one's lost -- where does its retransmission go?
exit 1 if 1 or 2 misbehave on the given tree (3 is reported)."""
import sys
REPO = sys.argv[1] if len(sys.argv) > 1 else "/repo"
sys.path[:0] = [REPO, "/verif/harness", "/verif/harness/shims"]
import asyncio, logging
import vloop, netsim, wire as W
import aiocoap, aiocoap.resource as resource

logging.getLogger("coap-server").addHandler(logging.NullHandler()); logging.getLogger("coap-server").propagate = False


def show(d):
    m = W.parse(d)
    obs = [int.from_bytes(v, "big") for n, v in m["options"] if n == 6]
    return f"{m['mtype']} {m['code'] >> 5}.{m['code'] & 31:02d} mid={m['mid']} tok={m['token'].hex()} obs={obs} {m['payload']!r}"


def scenario(kind):
    async def main(loop):
        class Res(resource.ObservableResource):
            def __init__(self):
                super().__init__()
                self.n = 0
                self.kept = None

            async def render_get(self, request):
                if kind == "uncopyable":
                    return aiocoap.Message(payload=b"v%d" % self.n, etag=memoryview(b"e%d" % self.n))
                if kind == "first-separate":
                    await asyncio.sleep(0.3)               # longer than EMPTY_ACK_DELAY: separate CON response
                if self.kept is None:
                    self.kept = aiocoap.Message(payload=b"v%d" % self.n)
                return self.kept                            # the resource caches its rendering

            def change(self):
                self.n += 1
                self.kept = None
                self.updated_state()

        res = Res()
        site = resource.Site()
        site.add_resource(["r"], res)
        with netsim.Pins():
            ctx, net = await netsim.make_context(loop, site=site)
            A, B = netsim.peer(0), netsim.peer(1)
            reg = lambda mid, tok: W.build("CON", 1, mid, tok, [(6, b""), (11, b"r")], b"")
            if kind == "uncopyable":
                net.inject(reg(1, b"\xaa"), A)
                await asyncio.sleep(1)
                res.change()
                await asyncio.sleep(1)
                res.change()
                await asyncio.sleep(1)
                out = [show(d) for (_, dst, d) in net.sent]
                await ctx.shutdown()
                return out
            if kind == "two-con-observers":
                net.inject(reg(1, b"\xaa"), A)
                net.inject(reg(2, b"\xbb"), B)
                await asyncio.sleep(1)
                res.change()                                  # both notified from ONE kept message; nobody ACKs
                await asyncio.sleep(10)
                out = [("A" if dst == tuple(A) else "B") + " <- " + show(d) for (_, dst, d) in net.sent]
                await ctx.shutdown()
                return out
            if kind == "first-separate":
                net.inject(reg(1, b"\xaa"), A)
                await asyncio.sleep(0.05)
                net.inject(reg(2, b"\xbb"), B)                # render for B returns the SAME kept message
                await asyncio.sleep(10)                       # nobody ACKs the separate CON responses
                out = [("A" if dst == tuple(A) else "B") + " <- " + show(d) for (_, dst, d) in net.sent]
                await ctx.shutdown()
                return out
    res, loop = vloop.run(main)
    return res, [repr(c.get("exception") or c.get("message")) for c in loop.exceptions]


bad = 0
out, errs = scenario("uncopyable")
print("1. uncopyable rendering (etag=memoryview):")
for l in out: print("     ", l)
ok = sum(" 2.05 " in l for l in out) == 3 and not errs
print("   ", "ok" if ok else "VIOLATION: the two changes were not notified with 2.05 (the observation was ended with an error "
      "although the first response from the same render() went out)", "loop_errors=", errs)
bad += not ok

out, errs = scenario("two-con-observers")
print("2. two CON observers, kept rendering, notification never ACKed:")
for l in out: print("     ", l)
a = [l for l in out if l.startswith("A") and "obs=[1]" in l]
b = [l for l in out if l.startswith("B") and "obs=[1]" in l]
ok = len(a) >= 3 and len(b) >= 3 and all("tok=aa" in l for l in a) and all("tok=bb" in l for l in b) and not errs
print("   ", "ok" if ok else "VIOLATION", "loop_errors=", errs)
bad += not ok

out, errs = scenario("first-separate")
print("3. first responses as separate CONs from one kept message (path not touched by a2d9ac1):")
for l in out: print("     ", l)
a = [l for l in out if l.startswith("A") and "CON 2.05" in l]
b = [l for l in out if l.startswith("B") and "CON 2.05" in l]
ok3 = len(a) >= 3 and all("tok=aa" in l for l in a) and all("tok=bb" in l for l in b) and not errs
print("   ", "ok" if ok3 else "OBSERVATION: same aliasing on the first-response path (A's retransmissions: %d, with A's token: %d)"
      % (len(a), sum("tok=aa" in l for l in a)), "loop_errors=", errs)
sys.exit(1 if bad else 0)
