"""How strong is the 'other contexts are unaffected' probe (msglayer.probe_context)?  In-process stand-in for a mutant:
TokenManager.outgoing_requests shared by all contexts of the process (a class-level dict), so that the shutdown sweep of
context 1 also fails the client requests of context 2.  The probe only makes context 2 SERVE a request; context 2 has
no client request or observation of its own.  Runs the harness' own scripts + oracle (read-only import).
Prints whether the C18 oracle notices.  (exit 0 always: this measures the check, not aiocoap.)"""
import sys, random
sys.path[:0] = ["/repo", "/verif/harness", "/verif/harness/shims"]
import aiocoap, aiocoap.tokenmanager as tm
import msglayer, msglayer_gen as G, msglayer_props as P

shared = {}
orig_init = tm.TokenManager.__init__


def mutant_init(self, context):
    orig_init(self, context)
    self.outgoing_requests = shared          # one table for the whole process

# direct demonstration that the stand-in mutant hurts another context
import asyncio, vloop, netsim


async def demo(loop):
    shared.clear()
    c1, n1 = await netsim.make_context(loop)
    c2, n2 = await netsim.make_context(loop)
    m = aiocoap.Message(code=aiocoap.GET)
    m.remote = netsim.remote_for(n2, netsim.peer(1))
    f = c2.request(m, handle_blockwise=False).response
    f.add_done_callback(lambda f: f.exception())
    await asyncio.sleep(0.5)
    await c1.shutdown()
    await asyncio.sleep(0.1)
    out = "pending (unaffected)" if not f.done() else "failed with " + type(f.exception()).__name__
    try:
        await c2.shutdown()
    except Exception as e:
        out += "; and shutdown of context 2 raised " + type(e).__name__
    return out

for label, init in (("unchanged code", orig_init), ("stand-in mutant", mutant_init)):
    tm.TokenManager.__init__ = init
    try:
        res, loop = vloop.run(demo)
    except Exception as e:
        res = "demo raised %r" % e
    print(f"{label}: context 2's own outstanding request after context 1 was shut down: {res}")
    rng = random.Random(5)
    cfg = msglayer.default_cfg()
    verdicts = {}
    for i in range(150):
        shared.clear()
        s = G.c18_random(rng, cfg)
        s["second_context"] = "busy" if i % 3 == 0 else True
        r = msglayer.run_script(s); r["script"] = s
        v = "crash" if "crash" in r else (P.oracle_c18(r) or ("loop-exception" if r["loop_exceptions"] else "") or
                                          ("escaped" if r["errors"] else ""))
        verdicts[v.split(":")[0]] = verdicts.get(v.split(":")[0], 0) + 1
    print(f"   harness verdicts over 150 c18_random scripts with a second context: {verdicts}")
tm.TokenManager.__init__ = orig_init
