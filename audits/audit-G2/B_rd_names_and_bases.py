"""2bfc083 / 596f94b: the RD refuses parameter names that are no parmname, bases and targets with '>'.
Neighbouring inputs: every single ASCII character (and some non-ASCII) as / in a parameter name on registration, POST
update and simple registration parameters; the RD's own parameters (lt, base, ep, d, proxy, et); names with '*' suffix
(ext-name-star of RFC 6690), '%', "'"; bases with other characters that end or confuse <...> for a strict reader.
After every accepted write both lookups must be readable by a STRICT RFC 6690 reader and list exactly what was written.
exit 1 = an accepted write makes a lookup unreadable / list something else, or a plainly valid RFC 9176 write is refused."""
import sys, re, asyncio
sys.path[:0] = ["/repo", "/verif/harness", "/verif/harness/shims"]
import aiocoap, aiocoap.error as error
import aiocoap.cli.rd as rd
from c20_vloop import VLoop

ATTR_CHAR = set("abcdefghijklmnopqrstuvwxyzABCDEFGHIJKLMNOPQRSTUVWXYZ0123456789!#$&+-.^_`|~")


def strict_read(text):
    """RFC 6690 link-value list; returns [(href, [(name, value|None)])] or raises ValueError"""
    out, i, n = [], 0, len(text)
    if text == "":
        return out
    while True:
        if i >= n or text[i] != "<":
            raise ValueError("expected < at %d" % i)
        j = text.index(">", i)
        href = text[i + 1:j]
        if any(c in href for c in '<" ') or not href.isascii():
            raise ValueError("bad URI-reference %r" % href)
        i = j + 1
        attrs = []
        while i < n and text[i] == ";":
            i += 1
            j = i
            while j < n and text[j] in ATTR_CHAR:
                j += 1
            name = text[i:j]
            if not name:
                raise ValueError("empty parmname at %d" % i)
            i = j
            val = None
            if i < n and text[i] == "=":
                i += 1
                if i < n and text[i] == '"':
                    i += 1
                    buf = []
                    while True:
                        if i >= n:
                            raise ValueError("open quoted-string")
                        if text[i] == "\\":
                            buf.append(text[i + 1]); i += 2
                        elif text[i] == '"':
                            i += 1; break
                        else:
                            buf.append(text[i]); i += 1
                    val = "".join(buf)
                else:
                    j = i
                    while j < n and text[j] not in ';,"':
                        j += 1
                    val = text[i:j]; i = j
            attrs.append((name, val))
        out.append((href, attrs))
        if i == n:
            return out
        if text[i] != ",":
            raise ValueError("expected , at %d: %r" % (i, text[i:i + 10]))
        i += 1


class Remote:
    is_multicast = is_multicast_locally = False
    scheme = "coap"
    uri = uri_base = "coap://[2001:db8::9]"


class Rd:
    def __init__(self):
        self.loop = VLoop()
        asyncio.set_event_loop(self.loop)
        self.site = rd.StandaloneResourceDirectory(context=None)

    def req(self, code, path, query=(), payload=b"", cf=None):
        m = aiocoap.Message(code=code, uri_path=path, uri_query=tuple(query), payload=payload)
        if cf is not None:
            m.opt.content_format = cf
        m.remote = Remote()
        m.direction = aiocoap.message.Direction.INCOMING

        async def go():
            try:
                return await self.site.render(m)
            except error.RenderableError as e:
                return e.to_message()
        try:
            return self.loop.call(go())
        except Exception as e:
            return e

    def lookups(self):
        res = {}
        for kind in ("ep", "res"):
            r = self.req(aiocoap.GET, ("endpoint-lookup" if kind == "ep" else "resource-lookup", ""))
            if isinstance(r, Exception) or not r.code.is_successful():
                res[kind] = "FAILS %r" % (r,)
                continue
            try:
                res[kind] = strict_read(r.payload.decode())
            except ValueError as e:
                res[kind] = "UNREADABLE %s: %r" % (e, r.payload.decode()[:200])
        return res

    def close(self):
        self.loop.dispose(); asyncio.set_event_loop(None)


def code_of(r):
    return repr(r) if isinstance(r, Exception) else str(r.code)


bad = []
note = []
LINKS = b'</s>;rt="x"'

# --- 1. parameter names ------------------------------------------------------------------------------------------------
names = [chr(c) for c in range(0x20, 0x7f)] + ["a" + chr(c) + "b" for c in range(0x20, 0x7f)] + \
        ["", "é", "aé", "title*", "t*", "*", "a%20b", "a'b", "k\\y", "\t", "a\nb", "a\x00b", "lt ", " lt", "Lt", "base*"]
refused, accepted = [], []
for where in ("register", "update"):
    for name in names:
        if "=" in name:
            continue                  # the first '=' of a Uri-Query option ends the name
        d = Rd()
        if where == "register":
            r = d.req(aiocoap.POST, ("resourcedirectory", ""), ["ep=n1", name + "=1"], LINKS, 40)
        else:
            r0 = d.req(aiocoap.POST, ("resourcedirectory", ""), ["ep=n1"], LINKS, 40)
            assert str(r0.code).startswith("2.01"), r0
            loc = r0.opt.location_path
            r = d.req(aiocoap.POST, loc, [name + "=1"])
        c = code_of(r)
        valid = name != "" and set(name) <= ATTR_CHAR and name not in ("page", "count", "rt", "href", "anchor", "ep", "d")
        lk = d.lookups()
        unread = [k for k, v in lk.items() if isinstance(v, str)]
        if c.startswith("2."):
            accepted.append((where, name))
            if unread:
                bad.append(f"{where} ?{name!r}=1 answered {c}; lookups afterwards: { {k: lk[k] for k in unread} }")
            else:
                eps = lk["ep"]
                if len(eps) != 1 or (name, "1") not in eps[0][1]:
                    bad.append(f"{where} ?{name!r}=1 answered {c}; endpoint lookup lists {eps}")
        else:
            refused.append((where, name, c))
            if valid:
                bad.append(f"{where} ?{name}=1 (a parmname) refused: {c}")
            if unread or len(lk["ep"]) != (0 if where == "register" else 1):
                bad.append(f"{where} ?{name!r}=1 refused with {c} but lookups changed: {lk}")
        d.close()
print("parameter names: accepted", len(accepted), "refused", len(refused))
print("  refused names that are not framing characters of link-format (stricter than necessary? informational):",
      sorted({n for w, n, c in refused if n in ("title*", "t*", "base*", "a'b", "a%20b", "a%b", "a*b", "a'b", "a/b", "a:b", "a@b")}))
print("  codes of refusals:", sorted({c for w, n, c in refused}))

# --- 2. the RD's own parameters still work ------------------------------------------------------------------------------
d = Rd()
r = d.req(aiocoap.POST, ("resourcedirectory", ""), ["ep=n1", "d=dom", "lt=600", "base=coap://h1", "et=oic.d", "flag"], LINKS, 40)
lk = d.lookups()
ok = code_of(r).startswith("2.01") and not isinstance(lk["ep"], str) and \
    dict((k, v) for k, v in lk["ep"][0][1]) .get("base") == "coap://h1"
print("own parameters ep,d,lt,base,et,flag:", code_of(r), lk["ep"])
if not ok:
    bad.append("registration with the RD's own parameters: %s %s" % (code_of(r), lk))
d.close()

# --- 3. bases ------------------------------------------------------------------------------------------------------------
for ch in [chr(c) for c in range(0x20, 0x7f)] + ["é"]:
    for base in ("coap://h1" + ch, "coap://h1/p" + ch + "q", "coap://h1" + ch + ",<coap://victim.example"):
        if "&" in base:
            continue
        d = Rd()
        r = d.req(aiocoap.POST, ("resourcedirectory", ""), ["ep=n1", "base=" + base], LINKS, 40)
        c = code_of(r)
        lk = d.lookups()
        if c.startswith("2."):
            v = lk["res"]
            if isinstance(v, str):
                (note if ch != ">" else bad).append(f"base={base!r} accepted; resource lookup for a strict reader: {v[:160]}")
            elif [h for h, _ in v] not in ([base.rstrip("/") + "/s"], [base + "/s"]) and len(v) != 1:
                bad.append(f"base={base!r} accepted; resource lookup lists {v}")
        d.close()
print("bases accepted although a strict RFC 3986/6690 reader rejects the target (informational, aiocoap's own reader takes them):")
seen = set()
for l in note:
    key = l.split("accepted")[0]
    ch = key
    if len(seen) < 8:
        print("   ", l[:230])
    seen.add(key)
print("   ...", len(note), "such bases in total")
print()
for l in bad[:20]:
    print("VIOLATION", l)
print("--", len(bad), "violations")
sys.exit(1 if bad else 0)
