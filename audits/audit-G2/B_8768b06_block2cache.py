"""8768b06 (Block2Cache drops the kept rendering when a new request for the beginning ARRIVES).
usage: B_8768b06_block2cache.py [repo-root]
History per case: rendering A (3 blocks of 16) kept by GET block 0; then a NEW block-0 request B whose builder ...
ends in various ways; block 1 is asked (a) while B's builder is still running, (b) after B ended.
C06: "every Block2 response is the slice of the single rendering made for the LATEST block-0 request ... a later block
without such a rendering 4.08".  Prints what block 1 gets; exit 1 if block 1 is ever served from rendering A after B
arrived, or if B=chunked-success does not serve block 1 from B."""
import sys
REPO = sys.argv[1] if len(sys.argv) > 1 else "/repo"
sys.path.insert(0, REPO)
import asyncio
import aiocoap
from aiocoap import Message, GET
from aiocoap.blockwise import Block2Cache, IncompleteException


class Remote:
    blockwise_key = "peer"
    maximum_payload_size = 1024
    maximum_block_size_exp = 6


def req(num):
    m = Message(code=GET, block2=(num, False, 0))
    m.remote = Remote()
    return m


async def case(b_kind):
    c = Block2Cache()

    async def build_a():
        return Message(code=aiocoap.CONTENT, payload=b"A" * 40)
    first = await c.extract_or_insert(req(0), build_a)
    assert first.payload == b"A" * 16 and first.opt.block2.more

    gate = asyncio.get_running_loop().create_future()

    async def build_b():
        await gate
        if b_kind == "raises":
            raise RuntimeError("handler failed")
        if b_kind == "returns None":
            return None
        if b_kind == "returns str":
            return "not a message"
        if b_kind == "complete (no chunking)":
            return Message(code=aiocoap.CONTENT, payload=b"B" * 10)
        if b_kind == "chunked":
            return Message(code=aiocoap.CONTENT, payload=b"B" * 40)
        if b_kind == "message without payload attr":
            class M:            # quacks like nothing
                pass
            return M()

    async def ask(num):
        try:
            r = await c.extract_or_insert(req(num), build_a)
            return bytes(r.payload)
        except IncompleteException:
            return "4.08"
        except Exception as e:
            return "raises " + type(e).__name__

    tb = asyncio.ensure_future(c.extract_or_insert(req(0), build_b))
    await asyncio.sleep(0)
    during = await ask(1)
    if b_kind == "cancelled":
        tb.cancel()
    else:
        gate.set_result(None)
    try:
        rb = await tb
        b_out = bytes(rb.payload)
    except BaseException as e:
        b_out = "raises " + type(e).__name__
    after = await ask(1)
    return during, b_out, after


async def main():
    bad = 0
    for k in ("raises", "returns None", "returns str", "message without payload attr", "cancelled", "complete (no chunking)", "chunked"):
        during, b_out, after = await case(k)
        stale = during == b"A" * 16 or after == b"A" * 16
        wrong = k == "chunked" and after != b"B" * 16
        print(("VIOLATION " if stale or wrong else "ok        ") +
              f"B {k:32s} block 1 while B is being built: {during!r:8}  B answered: {b_out!r:24}  block 1 afterwards: {after!r}")
        bad += stale or wrong
    return bad

sys.exit(1 if asyncio.run(main()) else 0)
