"""C18 level `multi-endpoint` (props/C18.py run_multi) shuts down at ONE instant (0.5 s after the requests came in: the
empty ACKs are out, no piggy-back timer is pending), has no observation, and submits nothing afterwards.  Here, on the
same `netsim.make_server_context_multi`: shutdown 0.05 s after CON requests arrived on every endpoint (empty-ACK timers
pending on each MessageManager), an established observation through the last endpoint with an `async for` consumer, a
request awaiting its ACK through the first; afterwards a request by remote through each endpoint and one by URI.
exit 1 on any C18 clause failing."""
from g2common import *
from aiocoap.transports import udp6


async def fake_getaddrinfo(loop_, log, host, port):
    await asyncio.sleep(0)
    yield ("2001:db8::77", port, 0, 0)


def scenario(n, delay):
    async def main(loop):
        cancelled = []

        class SlowSite:
            async def render_to_pipe(self, pipe):
                try:
                    await loop.create_future()
                except asyncio.CancelledError:
                    cancelled.append(bytes(pipe.request.payload))
                    raise

            def get_resources_as_linkheader(self):
                return []

        orig = udp6.getaddrinfo
        udp6.getaddrinfo = fake_getaddrinfo
        try:
            with netsim.Pins():
                ctx, nets = await netsim.make_server_context_multi(loop, SlowSite(), n)
                last = nets[-1]

                def answer(tick, dest, data):
                    m = W.parse(data)
                    if m["mtype"] == "CON" and m["code"] == 1 and any(o == 6 for o, _ in m["options"]):
                        loop.call_later(0.001, lambda: last.sock.closed or last.inject(
                            W.build("ACK", 69, m["mid"], m["token"], [(6, b"\x01")], b"o"), dest))
                last.on_send = answer
                om = aiocoap.Message(code=aiocoap.GET, observe=0)
                om.remote = netsim.remote_for(last, netsim.peer(5))
                oreq = ctx.request(om)
                await oreq.response
                cons = {"end": "pending"}

                async def consume():
                    try:
                        async for _ in oreq.observation:
                            pass
                        cons["end"] = "stopped"
                    except Exception as e:
                        cons["end"] = type(e).__name__
                ct = loop.create_task(consume())
                am = aiocoap.Message(code=aiocoap.GET)
                am.remote = netsim.remote_for(nets[0], netsim.peer(6))
                areq = ctx.request(am, handle_blockwise=False).response
                areq.add_done_callback(lambda f: f.cancelled() or f.exception())
                for i, net in enumerate(nets):
                    net.inject(W.build("CON", 1, 100 + i, bytes([0x70 + i]), [], b"pre%d" % i), netsim.peer(0))
                await asyncio.sleep(delay)
                t0 = loop.time()
                res = {}
                try:
                    await ctx.shutdown()
                    res["shutdown"] = "returned after %.3f s" % (loop.time() - t0)
                except BaseException as e:
                    res["shutdown"] = "raised " + repr(e)
                marks = [len(net.sent) for net in nets]
                res["cancelled"] = sorted(cancelled)
                res["awaiting_ack"] = fstate(areq)
                lates = []
                for net in nets:
                    m = aiocoap.Message(code=aiocoap.GET)
                    m.remote = netsim.remote_for(net, netsim.peer(7))
                    lates.append(ctx.request(m, handle_blockwise=False).response)
                lates.append(ctx.request(aiocoap.Message(code=aiocoap.GET, uri="coap://late.example/x")).response)
                for f in lates:
                    f.add_done_callback(lambda f: f.cancelled() or f.exception())
                for _ in range(10):
                    await asyncio.sleep(0)
                res["late"] = [fstate(f) for f in lates]
                res["consumer"] = cons["end"]
                await asyncio.sleep(400)
                res["sent_after"] = [len(net.sent) - marks[i] for i, net in enumerate(nets)]
                res["sockets_closed"] = [net.sock.closed for net in nets]
                ct.cancel()
                return res
        finally:
            udp6.getaddrinfo = orig

    out, errs = run(main)
    bad = (errs or not out["shutdown"].startswith("returned") or out["cancelled"] != sorted(b"pre%d" % i for i in range(n))
           or "LibraryShutdown" not in out["awaiting_ack"] or any("LibraryShutdown" not in s for s in out["late"])
           or out["consumer"] != "LibraryShutdown" or any(out["sent_after"]) or not all(out["sockets_closed"]))
    verdict(f"{n} endpoints, shutdown {delay} s after the requests", bad, f"{out} loop_errors={errs}")


for n in (1, 2, 3):
    for delay in (0.0, 0.05, 0.0999, 0.1, 0.5):
        scenario(n, delay)
finish()
