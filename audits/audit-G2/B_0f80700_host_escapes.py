"""0f80700: non-UTF-8 escapes in the host are rejected also with set_uri_host=False.  Neighbouring inputs and both modes;
both modes must agree on accept/reject, and an accepted URI must recompose to something set_request_uri accepts again."""
import sys
sys.path.insert(0, "/repo")
import aiocoap
from aiocoap import Message, GET, error
uris = ["coap://%ff%fe/", "coap://a%ffb:5683/x", "coap://%C3%28/", "coap://%c3%a4/", "coaps+tcp://%ff/", "coap+ws://h%FE/",
        "coap://%41/", "coap://[::1]/", "coap://1.2.3.4/", "coap://%31.2.3.4/", "coap://h%2",
        "coap://%e2%84%aa/", "coap://%ED%A0%80/", "coap://%F4%90%80%80/", "coap://%C0%80/"]
bad = 0
for u in uris:
    res = []
    for mode in (True, False):
        m = Message(code=GET)
        try:
            m.set_request_uri(u, set_uri_host=mode)
            back = m.get_request_uri()
            try:
                Message(code=GET).set_request_uri(back, set_uri_host=mode)
                again = "re-accepted"
            except Exception as e:
                again = "RECOMPOSED URI REJECTED: " + type(e).__name__
            res.append(f"accepted host={m.opt.uri_host!r} remote={m.remote.hostinfo!r} -> {back} ({again})")
        except (error.MalformedUrlError, error.IncompleteUrlError) as e:
            res.append("rejected " + type(e).__name__)
        except Exception as e:
            res.append("OTHER " + repr(e))
    agree = res[0].split()[0] == res[1].split()[0]
    ok = agree and not any("OTHER" in r or "RECOMPOSED" in r for r in res)
    bad += not ok
    print(("ok        " if ok else "VIOLATION ") + u, "\n      set_uri_host=True :", res[0], "\n      set_uri_host=False:", res[1])
sys.exit(1 if bad else 0)
