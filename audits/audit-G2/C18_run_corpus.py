"""runs the C18 corpus scripts and 300 generated consumer scripts through the harness' Runner + oracle (read-only import)"""
import sys, json, glob, random
sys.path[:0] = ["/repo", "/verif/harness", "/verif/harness/shims"]
import aiocoap
import msglayer, msglayer_gen as G, msglayer_props as P
for f in sorted(glob.glob("/verif/corpus/C18/*.json")):
    s = json.load(open(f))["script"]
    r = msglayer.run_script(s); r["script"] = s
    print(f.split("/")[-1], "->", repr(P.oracle_c18(r)), r["loop_exceptions"], r["errors"], "consumers:", r.get("consumers"))
rng = random.Random(11)
tags = {}
for i in range(300):
    s = G.c18_obs_consumer(rng)
    r = msglayer.run_script(s); r["script"] = s
    v = P.oracle_c18(r) or (r["loop_exceptions"] and "loop") or (r["errors"] and "escaped") or ""
    ends = tuple(sorted(c["end"].split(":")[-1].split(",")[0] for c in r["consumers"].values()))
    tags[(s["tag"], v, ends)] = tags.get((s["tag"], v, ends), 0) + 1
for k, n in sorted(tags.items()):
    print(n, k)
