"""C18: "every outstanding client request ... terminates with a library error within the shutdown time-out".
A request addressed by host name is outstanding while udp6.determine_remote awaits name resolution (the send task of
Context.request / the BlockwiseRequest runner is suspended in find_remote_and_interface).  Context.shutdown() only
sweeps TokenManager.outgoing_requests, where that request is not registered yet.
Real Context + udp6 over the harness' fake socket, virtual clock; only the resolver is replaced (no sockets).
exit 1 = the request is still pending after shutdown() returned / after SHUTDOWN_TIMEOUT."""
from g2common import *
from aiocoap.transports import udp6


def scenario(api_blockwise, resolves_after):
    async def main(loop):
        gate = loop.create_future()

        async def slow_getaddrinfo(loop_, log, host, port):
            await gate                                  # the resolver is busy (DNS time-outs take 5..30 s in real life)
            yield ("2001:db8::77", port, 0, 0)

        orig = udp6.getaddrinfo
        udp6.getaddrinfo = slow_getaddrinfo
        try:
            ctx, net = await netsim.make_context(loop)
            t0 = loop.time()
            req = ctx.request(aiocoap.Message(code=aiocoap.GET, uri="coap://slow.example/x"),
                              handle_blockwise=api_blockwise)
            req.response.add_done_callback(lambda f: f.cancelled() or f.exception())
            await asyncio.sleep(1)
            if resolves_after is not None:
                loop.call_later(resolves_after, gate.set_result, None)
            ts = loop.time()
            await ctx.shutdown()
            out = {"shutdown_took": loop.time() - ts, "at_return": fstate(req.response)}
            mark = len(net.sent)
            await asyncio.sleep(3.0)                    # SHUTDOWN_TIMEOUT
            out["after_timeout"] = fstate(req.response)
            await asyncio.sleep(700)
            out["after_700s"] = fstate(req.response)
            out["sent_after"] = len(net.sent) - mark
            return out
        finally:
            udp6.getaddrinfo = orig

    return run(main)


def after_shutdown(api_blockwise):
    """'requests submitted afterwards fail immediately with the shutdown error instead of hanging'"""
    async def main(loop):
        gate = loop.create_future()
        asked = []

        async def slow_getaddrinfo(loop_, log, host, port):
            asked.append(host)                          # a real resolver would now send DNS queries
            await gate
            yield ("2001:db8::77", port, 0, 0)

        orig = udp6.getaddrinfo
        udp6.getaddrinfo = slow_getaddrinfo
        try:
            ctx, net = await netsim.make_context(loop)
            await ctx.shutdown()
            req = ctx.request(aiocoap.Message(code=aiocoap.GET, uri="coap://slow.example/x"),
                              handle_blockwise=api_blockwise)
            req.response.add_done_callback(lambda f: f.cancelled() or f.exception())
            for _ in range(10):
                await asyncio.sleep(0)
            out = {"at_once": fstate(req.response), "resolver_asked_for": list(asked)}
            await asyncio.sleep(30)
            out["after_30s"] = fstate(req.response)
            gate.set_result(None)
            await asyncio.sleep(1)
            out["after_resolver_answered"] = fstate(req.response)
            return out
        finally:
            udp6.getaddrinfo = orig
    return run(main)


for bw in (False, True):
    out, errs = after_shutdown(bw)
    verdict(f"request by host name submitted AFTER shutdown returned, api={'BlockwiseRequest' if bw else 'Request'}",
            "LibraryShutdown" not in out["at_once"] or bool(errs), f"{out} loop_errors={errs}")

for bw in (False, True):
    for after in (10, None):
        out, errs = scenario(bw, after)
        name = f"name-resolution api={'BlockwiseRequest' if bw else 'Request'} resolver answers " \
               f"{'%d s after shutdown' % after if after else 'never'}"
        bad = out["after_timeout"] == "pending" or errs or out["sent_after"]
        verdict(name, bad, f"{out} loop_errors={errs}")
finish()
