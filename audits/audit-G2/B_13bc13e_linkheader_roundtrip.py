"""13bc13e: does vendored link_header.Link.__str__ now round-trip through link_header.parse for every value?
(neighbouring inputs: values that are TOKENs containing a backslash, empty values, keys ending in '*', two links)"""
import sys, itertools
sys.path.insert(0, "/repo")
from aiocoap.util.vendored import link_header as lh
from aiocoap.util import linkformat as lf

alphabet = ['a', '\\', '"', ' ', ';', ',', '=', '<', '>']
bad = {}
n = 0
for L in range(0, 5):
    for tup in itertools.product(alphabet, repeat=L):
        v = "".join(tup)
        for key in ("title", "title*"):
            for cls, parse, name in ((lh.Link, lh.parse, "vendored"), (lf.Link, lf.parse, "linkformat")):
                n += 1
                text = str(cls("/x", [[key, v]])) + ("," if name == "linkformat" else ", ") + str(cls("/sentinel", [["rt", "s"]]))
                try:
                    back = parse(text)
                    got = [(l.href, l.attr_pairs) for l in back.links]
                except Exception as e:
                    got = "raises " + type(e).__name__
                want = [("/x", [[key, v]]), ("/sentinel", [["rt", "s"]])]
                if got != want:
                    bad.setdefault((name, key), []).append((v, text, got))
print(n, "cases")
for k, items in bad.items():
    print(k, len(items), "values do not round-trip; first:", items[0])
sys.exit(1 if any(k[1] == "title" for k in bad) else 0)
