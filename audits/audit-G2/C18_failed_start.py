"""C18 / "a context whose transport failed to start".  create_server_context over two udp6 endpoints (bind= a name with
two addresses); the SECOND endpoint's bind() fails (EADDRINUSE).  create_server_context raises; the context object is
never returned, so nobody can shut it down.  What is left running?  Also: a context without any transport.
exit 1 = shutdown() of an empty context raises (the stored reviewer's item 4); the half-created context is reported as an
observation only (its sockets are closed by the transports' __del__ once the cyclic GC has run)."""
from g2common import *
from aiocoap.transports import udp6
from aiocoap.util.asyncio.recvmsg import create_recvmsg_datagram_endpoint
import aiocoap.resource as resource
import errno, gc, weakref


def failed_second_endpoint():
    async def main(loop):
        nets = [netsim.Net(loop) for _ in range(2)]

        def failing_bind(addr):
            raise OSError(errno.EADDRINUSE, "Address already in use")
        nets[1].sock.bind = failing_bind

        async def fake_prepare(cls, *, params, log, loop):
            for net in nets:
                transport, protocol = await create_recvmsg_datagram_endpoint(
                    loop, lambda: cls(bind=("::", 0, 0, 0), log=log, loop=loop), sock=net.sock)
                await protocol.ready
                net.mint_ref = weakref.ref(protocol)     # no strong reference from the replay
                yield protocol
                del transport, protocol

        class Hello(resource.Resource):
            async def render_get(self, request):
                return aiocoap.Message(payload=b"hello")
        site = resource.Site()
        site.add_resource(["hello"], Hello())

        orig = udp6.MessageInterfaceUDP6.__dict__["prepare_transport_endpoints"]
        udp6.MessageInterfaceUDP6.prepare_transport_endpoints = classmethod(fake_prepare)
        res = {}
        try:
            try:
                ctx = await aiocoap.Context.create_server_context(site, transports=["udp6"], loop=loop)
                res["create"] = "returned"
            except OSError as e:
                res["create"] = "raised " + repr(e)
        finally:
            udp6.MessageInterfaceUDP6.prepare_transport_endpoints = orig
        await asyncio.sleep(1)
        res["sockets_closed_before_gc"] = [n.sock.closed for n in nets]
        if not nets[0].sock.closed:
            nets[0].mint = nets[0].mint_ref()
            nets[0].inject(W.build("CON", 1, 76, b"\x02", [(11, b"hello")], b""), netsim.peer(0))
            nets[0].mint = None
            await asyncio.sleep(1)
            res["first_endpoint_answers_before_gc"] = [d.hex() for (_, _, d) in nets[0].sent]
        gc.collect()
        await asyncio.sleep(1)
        gc.collect()
        res["sockets_closed"] = [n.sock.closed for n in nets]
        if not nets[0].sock.closed:
            nets[0].mint = nets[0].mint_ref()
            nets[0].inject(W.build("CON", 1, 77, b"\x01", [(11, b"hello")], b""), netsim.peer(0))
            await asyncio.sleep(1)
            res["first_endpoint_answers"] = [d.hex() for (_, _, d) in nets[0].sent]
        return res

    out, errs = run(main)
    bad = bool(errs) or not all(out["sockets_closed"])
    if not all(out["sockets_closed_before_gc"]):
        print("OBSERVATION (not a violation of the letter: nobody can call shutdown): the endpoints of the context that "
              "was never returned stay open and the first one serves requests until the cyclic GC finds the objects")
    verdict("second udp6 endpoint fails to bind during create_server_context", bad, f"{out} loop_errors={errs}")


def no_transports():
    async def main(loop):
        ctx = await aiocoap.Context.create_client_context(transports=[], loop=loop)
        try:
            await ctx.shutdown()
            return "returned"
        except Exception as e:
            return "raised " + repr(e)
    out, errs = run(main)
    verdict("shutdown() of a context without transports (stored reviewer item 4, DESIGN section 7 'not claimed')",
            out != "returned", out)


failed_second_endpoint()
no_transports()
finish()
