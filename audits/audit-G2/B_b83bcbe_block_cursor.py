"""b83bcbe (`or block_cursor > 0` in BlockwiseRequest._run): drive the real _run over a scripted peer.
 1. limits grow after block 0 (the fixed case) -- with server keeping / reducing the block size
 2. unfragmented request answered 4.13 + Block1 size hint (RFC 7959 2.9.3): must not turn block-wise by the cursor
 3. unfragmented request answered 2.04 + Block1 (0, M=0): one request only
 4. limits grow after block 0 in a BERT (szx 7) upload
exit 1 = a body is sent twice / unfragmented request followed by a block / wrong offsets."""
import sys, asyncio, logging
sys.path.insert(0, "/repo")
import aiocoap
from aiocoap import Message, POST, error
from aiocoap.numbers.codes import Code
from aiocoap.protocol import BlockwiseRequest


class Remote:
    def __init__(self, mps, szx):
        self.maximum_payload_size, self.maximum_block_size_exp = mps, szx
        self.is_multicast = False


def run(body_len, remote, script, grow=None):
    """script(n, request) -> response Message for the n-th request"""
    sent = []

    class FakeReq:
        def __init__(self, resp):
            self.response = asyncio.get_event_loop().create_future()
            self.response.set_result(resp)
            self.observation = None

    class Proto:
        log = logging.getLogger("x")

        async def find_remote_and_interface(self, m):
            return None

        def request(self, m, handle_blockwise=False):
            b1 = m.opt.block1
            sent.append((None if b1 is None else (b1.block_number, b1.more, b1.size_exponent), len(m.payload)))
            resp = script(len(sent) - 1, m)
            resp.remote = remote
            if grow and len(sent) == 1:
                remote.maximum_payload_size, remote.maximum_block_size_exp = grow
            return FakeReq(resp)

    async def main():
        p = Proto()
        p.loop = asyncio.get_running_loop()
        req = Message(code=POST, payload=bytes(body_len))
        req.remote = remote
        fut = p.loop.create_future()
        try:
            await BlockwiseRequest._run(req, fut, lambda: None, p, p.log)
            return sent, str(fut.result().code)
        except Exception as e:
            return sent, "raised " + repr(e)
    return asyncio.run(main())


def ack(code, b1=None):
    def f(n, m):
        r = Message(code=code)
        if b1 == "echo" and m.opt.block1 is not None:
            r.opt.block1 = (m.opt.block1.block_number, m.opt.block1.more, m.opt.block1.size_exponent)
        elif isinstance(b1, tuple):
            r.opt.block1 = b1
        return r
    return f


bad = 0
def check(name, got, ok):
    global bad
    print(("ok        " if ok else "VIOLATION ") + name + ": " + repr(got))
    bad += not ok

# 1. TCP before CSM: mps 1152, szx 6; after block 0 the CSM arrives: mps 1 MiB, szx 7
def s1(n, m):
    last = not m.opt.block1.more
    r = Message(code=Code.CHANGED if last else Code.CONTINUE)
    r.opt.block1 = (m.opt.block1.block_number, m.opt.block1.more, m.opt.block1.size_exponent)
    return r
got = run(3000, Remote(1152, 6), s1, grow=(1 << 20, 7))
check("limits grow after block 0", got, got == ([((0, True, 6), 1024), ((1, True, 6), 1024), ((2, False, 6), 952)], "2.04 Changed"))

# 1b. same, server reduces to szx 4 in its first 2.31
def s1b(n, m):
    last = not m.opt.block1.more
    r = Message(code=Code.CHANGED if last else Code.CONTINUE)
    r.opt.block1 = (m.opt.block1.block_number, m.opt.block1.more, min(4, m.opt.block1.size_exponent))
    return r
got = run(1300, Remote(1152, 6), s1b, grow=(1 << 20, 7))
offs = [(b[0] * 2 ** (b[2] + 4), l) for b, l in got[0]]
check("limits grow + server reduces the size", (got, offs), offs == [(0, 1024), (1024, 256), (1280, 20)])

# 2. unfragmented, answered 4.13 with a Block1 size hint
got = run(500, Remote(1152, 6), ack(Code.REQUEST_ENTITY_TOO_LARGE, (0, False, 2)))
check("unfragmented request answered 4.13 + Block1 hint szx 2 (no automatic retry exists: exactly one request, 4.13 handed on)",
      got, got == ([(None, 500)], "4.13 Request Entity Too Large"))

# 3. unfragmented answered 2.04 + Block1 (0, False, 6)
got = run(500, Remote(1152, 6), ack(Code.CHANGED, (0, False, 6)))
check("unfragmented request answered 2.04 + Block1", got, got == ([(None, 500)], "2.04 Changed"))

# 3b. unfragmented answered 2.31 + Block1 (0, True, 2): server asks for more at the end of the body -> error, no second request
got = run(500, Remote(1152, 6), ack(Code.CONTINUE, (0, True, 2)))
check("unfragmented request answered 2.31 + Block1 M=1", got, len(got[0]) == 1 and got[1].startswith("raised UnexpectedBlock1Option"))

# 4. BERT from the start, limits grow
def s4(n, m):
    last = not m.opt.block1.more
    r = Message(code=Code.CHANGED if last else Code.CONTINUE)
    r.opt.block1 = (m.opt.block1.block_number, m.opt.block1.more, 7)
    return r
got = run(10000, Remote(2100, 7), s4, grow=(1 << 20, 7))
check("BERT upload, limits grow after the first block", got, got == ([((0, True, 7), 2048), ((2, False, 7), 7952)], "2.04 Changed"))
sys.exit(1 if bad else 0)
