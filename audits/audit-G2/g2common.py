"""shared by the G2 replays: real aiocoap Context over the harness' fake socket and virtual clock (read-only imports)"""
import sys
sys.path[:0] = ["/repo", "/verif/harness", "/verif/harness/shims"]
import asyncio, logging, warnings

import vloop, netsim
import wire as W
import aiocoap
from aiocoap import error

logging.getLogger("coap").addHandler(logging.NullHandler())
logging.getLogger("coap-server").addHandler(logging.NullHandler())
logging.getLogger("coap").propagate = False
logging.getLogger("coap-server").propagate = False
logging.getLogger("coap").setLevel(logging.DEBUG)
logging.getLogger("coap-server").setLevel(logging.DEBUG)


def fstate(f):
    if not f.done():
        return "pending"
    if f.cancelled():
        return "cancelled"
    e = f.exception()
    if e is not None:
        return "exception:" + type(e).__name__ + ("(library error)" if isinstance(e, error.Error) else "(NOT a library error)")
    return "result:" + str(f.result())


def loop_errors(loop):
    return [repr(c.get("exception") or c.get("message")) for c in loop.exceptions]


def run(main, **kw):
    res, loop = vloop.run(main, **kw)
    return res, loop_errors(loop)


VERDICTS = []


def verdict(name, violated, text):
    VERDICTS.append((name, violated))
    print(("VIOLATION " if violated else "ok        ") + name + ": " + text)


def finish():
    bad = [n for n, v in VERDICTS if v]
    print("--", len(bad), "of", len(VERDICTS), "scenarios violate the property text:", bad)
    sys.exit(1 if bad else 0)
