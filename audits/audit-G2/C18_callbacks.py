"""C18 oracle-only clauses, instants the generators do not place a shutdown at: shutdown() called from inside a server
handler, from a response done-callback, from inside an observation callback / the body of `async for`; requests
submitted from done-callbacks that run during the shutdown (by remote, by URI; plain and default API); several
concurrent shutdown() calls, one of them cancelled.  Real Context + udp6 over the fake socket.
exit 1 on: request/observation not ended with a library error when shutdown has returned (+3 s), datagrams after the
return, loop exceptions, sockets left open, shutdown raising to a caller that was not cancelled."""
from g2common import *
import aiocoap.resource as resource
from aiocoap.transports import udp6


async def fake_getaddrinfo(loop_, log, host, port):
    await asyncio.sleep(0)
    yield ("2001:db8::77", port, 0, 0)


def con(mid, tok, path, payload=b"", code=1):
    return W.build("CON", code, mid, tok, [(11, p) for p in path], payload)


# ---------------------------------------------------------------------------------------------------------------------
def handler_calls_shutdown():
    async def main(loop):
        log = []

        class Quit(resource.Resource):
            async def render_post(self, request):
                log.append("quit: calling shutdown")
                try:
                    await holder["ctx"].shutdown()
                    log.append("quit: shutdown returned")
                except BaseException as e:
                    log.append("quit: shutdown raised " + type(e).__name__)
                    raise
                return aiocoap.Message(code=aiocoap.CHANGED)

        class Slow(resource.Resource):
            async def render_get(self, request):
                try:
                    await asyncio.sleep(1000)
                except asyncio.CancelledError:
                    log.append("slow: cancelled")
                    raise

        site = resource.Site()
        site.add_resource(["quit"], Quit())
        site.add_resource(["slow"], Slow())
        holder = {}
        with netsim.Pins():
            ctx, net = await netsim.make_context(loop, site=site)
            holder["ctx"] = ctx
            net.inject(con(10, b"\x01", [b"slow"]), netsim.peer(0))
            out_msg = aiocoap.Message(code=aiocoap.GET)
            out_msg.remote = netsim.remote_for(net, netsim.peer(2))
            own = ctx.request(out_msg, handle_blockwise=False).response
            own.add_done_callback(lambda f: f.cancelled() or f.exception())
            await asyncio.sleep(0.01)
            net.inject(con(11, b"\x02", [b"quit"], code=2), netsim.peer(1))
            await asyncio.sleep(5)
            mark = len(net.sent)
            res = {"log": list(log), "own": fstate(own), "socket_closed": net.sock.closed,
                   "sent_until_now": [W.parse(d)["mtype"] + ":%d" % W.parse(d)["code"] for (_, _, d) in net.sent]}
            await asyncio.sleep(400)
            res["sent_later"] = len(net.sent) - mark
            return res

    out, errs = run(main)
    bad = errs or not out["socket_closed"] or out["sent_later"] or "LibraryShutdown" not in out["own"] \
        or "slow: cancelled" not in out["log"]
    verdict("server handler awaits ctx.shutdown()", bad, f"{out} loop_errors={errs}")
    if "quit: shutdown returned" not in out["log"]:
        print("          note: the handler's own `await ctx.shutdown()` ended with CancelledError (the handler is one of the "
              "'running server handlers'); the shutdown went on in the background")


# ---------------------------------------------------------------------------------------------------------------------
def from_client_callbacks(where):
    async def main(loop):
        with netsim.Pins():
            ctx, net = await netsim.make_context(loop)
            peer = netsim.peer(0)
            info = {}
            shut_tasks = []

            async def shut(tag):
                try:
                    await ctx.shutdown()
                    info[tag] = "returned"
                except BaseException as e:
                    info[tag] = "raised " + type(e).__name__
                info["mark"] = len(net.sent)

            def reply(tick, dest, data):
                m = W.parse(data)
                if m["mtype"] == "CON" and 1 <= m["code"] < 32 and m["payload"] == b"answer-me":
                    loop.call_later(0.001, lambda: net.sock.closed or net.inject(
                        W.build("ACK", 69, m["mid"], m["token"], [(6, b"\x01")] if any(n == 6 for n, _ in m["options"]) else [],
                                b"r"), dest))
            net.on_send = reply

            def mk(payload, observe=False, remote=peer):
                m = aiocoap.Message(code=aiocoap.GET, payload=payload)
                if observe:
                    m.opt.observe = 0
                m.remote = netsim.remote_for(net, remote)
                return m

            pending = ctx.request(mk(b"silence", remote=netsim.peer(3)), handle_blockwise=False)   # awaits its ACK for ever
            pending.response.add_done_callback(lambda f: f.cancelled() or f.exception())
            pend_obs = ctx.request(mk(b"answer-me", observe=True, remote=netsim.peer(4)))           # default API, established
            await pend_obs.response
            cons = {"end": "pending", "items": 0}

            async def consume_other():
                try:
                    async for _ in pend_obs.observation:
                        cons["items"] += 1
                    cons["end"] = "stopped"
                except Exception as e:
                    cons["end"] = type(e).__name__
            ct = loop.create_task(consume_other())

            if where == "response-done-callback":
                r = ctx.request(mk(b"answer-me"), handle_blockwise=False)
                r.response.add_done_callback(lambda f: shut_tasks.append(loop.create_task(shut("s"))))
            elif where == "response-done-callback-eager":
                r = ctx.request(mk(b"answer-me"), handle_blockwise=False)
                r.response.add_done_callback(
                    lambda f: shut_tasks.append(asyncio.Task(shut("s"), loop=loop, eager_start=True)))
            elif where in ("observation-callback", "observation-callback-eager"):
                r = ctx.request(mk(b"answer-me", observe=True), handle_blockwise=False)
                await r.response
                with warnings.catch_warnings():
                    warnings.simplefilter("ignore")
                    if where.endswith("eager"):
                        r.observation.register_callback(
                            lambda m: shut_tasks.append(asyncio.Task(shut("s"), loop=loop, eager_start=True)))
                    else:
                        r.observation.register_callback(lambda m: shut_tasks.append(loop.create_task(shut("s"))))
                    errs_seen = []
                    r.observation.register_errback(lambda e: errs_seen.append(type(e).__name__))
                info["errs_seen"] = errs_seen
                tok = W.parse(net.sent[-1][2])["token"]
                # a CON notification: the empty ACK is owed after the callback returns
                loop.call_later(0.5, net.inject, W.build("CON", 69, 900, tok, [(6, b"\x02")], b"n2"), peer)
            elif where == "async-for-body":
                r = ctx.request(mk(b"answer-me", observe=True))
                await r.response

                async def consume():
                    try:
                        async for n in r.observation:
                            await shut("s")
                        info["consumer"] = "stopped"
                    except Exception as e:
                        info["consumer"] = "raised " + type(e).__name__
                shut_tasks.append(loop.create_task(consume()))
                tok = [W.parse(d)["token"] for (_, dst, d) in net.sent if dst == tuple(peer)][-1]
                loop.call_later(0.5, net.inject, W.build("CON", 69, 901, tok, [(6, b"\x02")], b"n2"), peer)
            await asyncio.sleep(2)
            for t in shut_tasks:
                await t
            await asyncio.sleep(3)
            mark = info.get("mark", len(net.sent))
            await asyncio.sleep(400)
            res = {k: v for k, v in info.items() if k != "mark"}
            res.update(pending=fstate(pending.response), other_observation_consumer=cons["end"],
                       sent_after_return=[d.hex() for (_, _, d) in net.sent[mark:]], socket_closed=net.sock.closed)
            ct.cancel()
            return res

    out, errs = run(main)
    bad = (errs or out.get("s") != "returned" or "LibraryShutdown" not in out["pending"]
           or out["other_observation_consumer"] != "LibraryShutdown" or out["sent_after_return"] or not out["socket_closed"]
           or out.get("consumer", "raised LibraryShutdown") != "raised LibraryShutdown"
           or out.get("errs_seen", ["LibraryShutdown"]) != ["LibraryShutdown"])
    verdict("shutdown() called from " + where, bad, f"{out} loop_errors={errs}")


# ---------------------------------------------------------------------------------------------------------------------
def submit_from_done_callback(how, api_default):
    async def main(loop):
        orig = udp6.getaddrinfo
        udp6.getaddrinfo = fake_getaddrinfo
        try:
            with netsim.Pins():
                ctx, net = await netsim.make_context(loop)
                new = []

                def resubmit(f):
                    # "retry on failure": the application's done-callback sends the request again
                    if len(new) >= 3:
                        return
                    if how == "uri":
                        m = aiocoap.Message(code=aiocoap.GET, uri="coap://again.example/x")
                    else:
                        m = aiocoap.Message(code=aiocoap.GET)
                        m.remote = netsim.remote_for(net, netsim.peer(0))
                    r = ctx.request(m, handle_blockwise=api_default)
                    new.append((loop.time(), r))
                    r.response.add_done_callback(resubmit)
                    r.response.add_done_callback(lambda f: f.cancelled() or f.exception())

                m = aiocoap.Message(code=aiocoap.GET)
                m.remote = netsim.remote_for(net, netsim.peer(0))
                first = ctx.request(m, handle_blockwise=False)
                first.response.add_done_callback(resubmit)
                first.response.add_done_callback(lambda f: f.cancelled() or f.exception())
                await asyncio.sleep(1)
                sent_before = len(net.sent)
                ts = loop.time()
                await ctx.shutdown()
                tr = loop.time()
                mark = len(net.sent)
                for _ in range(20):
                    await asyncio.sleep(0)
                res = {"first": fstate(first.response), "resubmitted": [(round(t - ts, 6), fstate(r.response)) for t, r in new],
                       "shutdown_took": tr - ts}
                await asyncio.sleep(400)
                res["resubmitted_later"] = [fstate(r.response) for t, r in new]
                res["sent_during_shutdown"] = mark - sent_before
                res["sent_after_return"] = len(net.sent) - mark
                return res
        finally:
            udp6.getaddrinfo = orig

    out, errs = run(main)
    bad = errs or out["sent_after_return"] or out["sent_during_shutdown"] or not out["resubmitted"] or \
        any("LibraryShutdown" not in s for _, s in out["resubmitted"])
    verdict(f"request re-submitted from a done-callback during shutdown ({how}, {'default API' if api_default else 'plain'})",
            bad, f"{out} loop_errors={errs}")


# ---------------------------------------------------------------------------------------------------------------------
def concurrent_shutdowns(variant):
    async def main(loop):
        with netsim.Pins():
            class Slow:
                async def render_to_pipe(self, pipe):
                    await loop.create_future()

                def get_resources_as_linkheader(self):
                    return []
            ctx, net = await netsim.make_context(loop, site=Slow())
            net.inject(con(10, b"\x01", [b"slow"]), netsim.peer(0))
            m = aiocoap.Message(code=aiocoap.GET, observe=0)
            m.remote = netsim.remote_for(net, netsim.peer(1))
            r = ctx.request(m)
            r.response.add_done_callback(lambda f: f.cancelled() or f.exception())
            await asyncio.sleep(0.05)
            res = {}
            if variant == "gather3":
                rs = await asyncio.gather(ctx.shutdown(), ctx.shutdown(), ctx.shutdown(), return_exceptions=True)
                res["calls"] = [repr(x) for x in rs]
            elif variant == "first-caller-cancelled":
                t1 = loop.create_task(ctx.shutdown())
                await asyncio.sleep(0)            # t1 has created the per-interface tasks and waits
                t1.cancel()
                try:
                    await t1
                    res["first"] = "returned"
                except asyncio.CancelledError:
                    res["first"] = "cancelled"
                t0 = loop.time()
                res["second"] = repr(await asyncio.gather(ctx.shutdown(), return_exceptions=True))
                res["second_took"] = loop.time() - t0
                res["socket_closed_when_second_returned"] = net.sock.closed
            elif variant == "second-returns-before-first":
                order = []

                async def call(tag):
                    await ctx.shutdown()
                    order.append((tag, net.sock.closed, hasattr(net.mint, "_ctx")))
                t1 = loop.create_task(call("first"))
                await asyncio.sleep(0)
                await asyncio.sleep(0)
                t2 = loop.create_task(call("second"))
                await asyncio.gather(t1, t2)
                res["return_order(tag, socket closed, transport still wired)"] = order
            mark = len(net.sent)
            res["own"] = fstate(r.response)
            await asyncio.sleep(400)
            res["sent_after"] = len(net.sent) - mark
            res["socket_closed"] = net.sock.closed
            return res

    out, errs = run(main)
    bad = errs or out["sent_after"] or not out["socket_closed"] or "LibraryShutdown" not in out["own"] or \
        any("Error" in c or "Exception" in c for c in out.get("calls", [])) or "Error" in out.get("second", "")
    verdict("concurrent shutdown() calls: " + variant, bad, f"{out} loop_errors={errs}")


handler_calls_shutdown()
for w in ("response-done-callback", "response-done-callback-eager", "observation-callback", "observation-callback-eager",
          "async-for-body"):
    from_client_callbacks(w)
for how in ("remote", "uri"):
    for api in (False, True):
        submit_from_done_callback(how, api)
for v in ("gather3", "first-caller-cancelled", "second-returns-before-first"):
    concurrent_shutdowns(v)
finish()
