"""C18: "every outstanding ... observation terminates with a library error within the shutdown time-out".
The harness' `async for` consumers (early and late) exist only for handle_blockwise=False requests (msglayer.py do_S
returns before the consumer code for "blockwise" scripts); the block-wise scripts judge the response future only.
Here: the DEFAULT API (BlockwiseRequest) with an established observation; consumers that iterate from the start, and
consumers that start only after shutdown() has returned; quiet observation / notifications seen / shutdown while the
later blocks of a notification are being fetched.
exit 1 = a consumer is still pending after shutdown (+3 s), or ended without a library error although the observation
was live at shutdown, or something reached the loop's exception handler."""
from g2common import *


def scenario(kind, late, deprecated_api=False):
    async def main(loop):
        with netsim.Pins():
            ctx, net = await netsim.make_context(loop)
            peer = netsim.peer(0)
            state = {"n": 0}

            def on_send(tick, dest, data):
                m = W.parse(data)
                if m["mtype"] != "CON" or not (1 <= m["code"] < 32):
                    return
                b2 = [v for (n, v) in m["options"] if n == 23]
                num = (int.from_bytes(b2[0], "big") >> 4) if b2 else 0
                state["n"] += 1
                if kind == "bw-notification-stalls" and num > 0:
                    return                                  # the peer falls silent for later blocks
                opts = []
                if num == 0 and not state.get("established"):
                    state["established"] = m["token"]
                    opts.append((6, b"\x01"))
                if kind.startswith("bw") and False:
                    pass
                loop.call_later(0.0005, net.inject,
                                W.build("ACK", 69, m["mid"], m["token"], opts, b"first"), dest)

            net.on_send = on_send
            msg = aiocoap.Message(code=aiocoap.GET, observe=0)
            msg.remote = netsim.remote_for(net, peer)
            req = ctx.request(msg)                           # default API
            first = await req.response
            cons = {"items": [], "end": "pending"}

            async def consume():
                try:
                    async for n in req.observation:
                        cons["items"].append(bytes(n.payload))
                    cons["end"] = "stopped (StopAsyncIteration: no error)"
                except asyncio.CancelledError:
                    raise
                except Exception as e:
                    cons["end"] = "raised " + type(e).__name__ + (" (library error)" if isinstance(e, error.Error) else " (NOT a library error)")

            errs = []
            if deprecated_api:
                with warnings.catch_warnings():
                    warnings.simplefilter("ignore")
                    if not late:
                        req.observation.register_errback(lambda e: errs.append(type(e).__name__))
            tasks = []
            if not late and not deprecated_api:
                tasks.append(loop.create_task(consume()))
            await asyncio.sleep(1)
            tok = state["established"]
            if kind == "notified":
                net.inject(W.build("NON", 69, 7001, tok, [(6, b"\x05")], b"second"), peer)
                await asyncio.sleep(1)
            if kind == "bw-notification-stalls":
                # a notification whose body has more blocks: the runner fetches block 1, the peer never answers
                net.inject(W.build("NON", 69, 7002, tok, [(6, b"\x06"), (23, b"\x08")], b"0123456789abcdef"), peer)
                await asyncio.sleep(0.5)
            await ctx.shutdown()
            at_return = dict(cons)
            obs_cancelled_at_return = req.observation.cancelled
            if late:
                if deprecated_api:
                    with warnings.catch_warnings():
                        warnings.simplefilter("ignore")
                        req.observation.register_errback(lambda e: errs.append(type(e).__name__))
                else:
                    tasks.append(loop.create_task(consume()))
            await asyncio.sleep(3.0)
            out = {"first": bytes(first.payload), "consumer_at_return": at_return["end"],
                   "observation.cancelled_at_return": obs_cancelled_at_return,
                   "consumer_after_3s": cons["end"], "items": cons["items"], "errbacks": errs,
                   "reason": type(getattr(req.observation, "_cancellation_reason", None)).__name__}
            for t in tasks:
                t.cancel()
            return out

    return run(main)


for kind in ("quiet", "notified", "bw-notification-stalls"):
    for late in (False, True):
        for dep in (False, True):
            out, errs = scenario(kind, late, dep)
            if dep:
                bad = out["errbacks"] != ["LibraryShutdown"]
            else:
                bad = "library error" not in out["consumer_after_3s"] or "NOT" in out["consumer_after_3s"]
            bad = bad or bool(errs)
            verdict(f"default-API observation {kind}, consumer {'late' if late else 'early'}, "
                    f"{'errback' if dep else 'async for'}", bad, f"{out} loop_errors={errs}")
finish()
