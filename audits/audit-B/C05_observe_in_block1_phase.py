"""C05: FETCH with Observe and a 3-block body; the server (mis)answers the first block's 2.31 with an
Observe option.  Code intends to cancel the erroneous observation and carry on (protocol.py ~1003),
but `blockrequest.observe.cancel()` is a typo (attribute is `.observation`): the whole request
ends with AttributeError -- not an aiocoap.error.Error (the C05 oracle's own "fail loudly" rule),
against a server whose block sequencing is otherwise impeccable."""
import sys; sys.path.insert(0, "/tmp/audit/audit-B")
from c05_lib import *
body = bytes(range(256)) * 12
def server(v, i):
    b1 = v[0]
    if b1 and b1[1]:
        return {"code": 95, "block1": b1, "observe": 7}
    return {"code": 69, "block1": b1, "payload": b"result", "observe": 8}
(kind, res), wire = run(Message(code=aiocoap.FETCH, payload=body, uri_path=("r",), observe=0), server)
print("outcome:", kind, repr(res), "blocks sent:", len(wire))
if kind == "err" and not isinstance(res, error.Error):
    print("VIOLATION: request died with foreign exception", type(res).__name__)
    sys.exit(1)
