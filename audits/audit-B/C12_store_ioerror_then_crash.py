"""C12/C13 (doubtful b -- I/O error with a surviving process is in neither quantifier):
_replay_window_changed clears replay_window_persisted BEFORE the _store() that is meant to put
"unknown" on disk.  If that one store fails (ENOSPC), no later strike ever stores again; the disk keeps
the initialised window of the last clean stop.  After a crash, requests accepted in the dead lifetime
are accepted a second time without any Echo exchange.
exit 1 = one protected request was accepted twice."""
import sys, os, json, tempfile, shutil, warnings
sys.path.insert(0, "/repo"); sys.path.insert(1, "/verif/harness/shims"); sys.path.insert(2, "/verif/harness")
warnings.simplefilter("ignore")
import aiocoap, aiocoap.oscore as oscore, oscore_util
from aiocoap.message import Direction
TA, HC = oscore_util.make(oscore)
alg = TA(); oscore.algorithms["t"] = alg
d = tempfile.mkdtemp(prefix="auditB-c12-")
json.dump({"algorithm": "t", "sender-id_hex": "01", "recipient-id_hex": "02", "secret_ascii": "0123456789abcdef"},
          open(os.path.join(d, "settings.json"), "w"))
client = HC(b"\x02", b"\x01", secret=b"0123456789abcdef", alg=alg)
def request(seq):
    client.sender_sequence_number = seq
    m = aiocoap.Message(code=aiocoap.GET, uri_path=("x",)); m.direction = Direction.OUTGOING
    outer, _ = client.protect(m); outer.mid = seq; outer.token = b""; outer.mtype = aiocoap.NON
    return outer.encode()
def arrive(ctx, wire):
    m = aiocoap.Message.decode(wire); m.direction = Direction.INCOMING
    try:
        ctx.unprotect(m); return "accepted"
    except Exception as e:
        return type(e).__name__
def kill(ctx):
    ctx.lockfile = None
    try: os.unlink(os.path.join(d, "lock"))
    except FileNotFoundError: pass
try:
    c1 = oscore.FilesystemSecurityContext(d); c1._destroy()          # lifetime 1: clean stop, window on disk
    c2 = oscore.FilesystemSecurityContext(d)                           # lifetime 2
    r5, r6 = request(5), request(6)
    real = os.fsync
    def failing(fd): raise OSError(28, "No space left on device")
    os.fsync = failing
    print("request 5 (store of 'unknown' fails):", arrive(c2, r5))
    os.fsync = real
    print("request 6:", arrive(c2, r6))
    print("replay of 6 in the same lifetime:", arrive(c2, r6))
    print("disk:", open(os.path.join(d, "sequence.json")).read())
    kill(c2)                                                           # crash
    c3 = oscore.FilesystemSecurityContext(d)                           # lifetime 3
    again = arrive(c3, r6)
    print("replay of 6 after crash + reload:", again, "(window initialised: %s)" % c3.recipient_replay_window.is_initialized())
    kill(c3)
    if again == "accepted":
        print("VIOLATION: request 6 accepted twice, no Echo exchange in between")
        sys.exit(1)
finally:
    shutil.rmtree(d, ignore_errors=True)
