"""Tiny in-process driver for BlockwiseRequest: real Context.request with a fake RequestInterface.
A scripted server function answers each block request."""
import sys, asyncio, logging
sys.path.insert(0, "/repo")
import aiocoap
from aiocoap import interfaces, error, Message
from aiocoap.numbers.codes import Code
logging.getLogger("coap").setLevel(logging.CRITICAL)

class Remote(interfaces.EndpointAddress):
    hostinfo = "srv"; hostinfo_local = "me"; uri_base = "coap://srv"; uri_base_local = "coap://me"
    is_multicast = False; is_multicast_locally = False; scheme = "coap"; blockwise_key = ("x",)
    maximum_block_size_exp = 6; maximum_payload_size = 1124
    def __init__(self, exp=6): self.maximum_block_size_exp = exp

def run(request_msg, server, exp=6, observe_cb=None):
    """server(view) -> dict(code=, block1=, block2=, etag=, payload=, observe=) ; view = (block1, block2, payload)"""
    loop = asyncio.new_event_loop()
    wire = []
    class Iface(interfaces.RequestInterface):
        async def recognize_remote(self, m): return isinstance(m.remote, Remote)
        async def determine_remote(self, m): return None
        def request(self, pipe):
            r = pipe.request
            b1, b2 = r.opt.block1, r.opt.block2
            v = (tuple(b1) if b1 else None, tuple(b2) if b2 else None, bytes(r.payload))
            wire.append(v)
            a = server(v, len(wire) - 1)
            if a is None: return
            m = Message(code=Code(a["code"]), payload=a.get("payload", b""))
            for k in ("block1", "block2", "etag", "observe"):
                if a.get(k) is not None: setattr(m.opt, k, a[k])
            m.remote = r.remote
            pipe.add_response(m, is_last=a.get("observe") is None)
    async def main():
        ctx = aiocoap.Context(loop=loop)
        ctx.request_interfaces.append(Iface())
        request_msg.remote = Remote(exp)
        req = ctx.request(request_msg)
        try:
            resp = await asyncio.wait_for(req.response, 2)
            return ("ok", resp)
        except Exception as e:
            return ("err", e)
    try:
        return loop.run_until_complete(main()), wire
    finally:
        loop.close()
