"""C05 (doubtful b): in mid-download the server answers the request for block 1 with a 2.05 that has
NO Block2 option but carries the second kilobyte of the body (a server that lost the option).  The
client hands exactly that fragment to the caller as the complete response ("accepting single
response").  Harness class TOLERATED/drop_block2: only 'payload equals some single reply' is checked.
exit 1 = the caller got a strict fragment of the representation as a successful result."""
import sys; sys.path.insert(0, "/tmp/audit/audit-B")
from c05_lib import *
rep = bytes((i * 13 + i // 256) & 255 for i in range(3000))
def server(v, i):
    b2 = v[1]
    if b2 is None:
        return {"code": 69, "block2": (0, True, 6), "payload": rep[:1024], "etag": b"\x01"}
    off = b2[0] * (16 << b2[2])
    return {"code": 69, "payload": rep[off:off + 1024], "etag": b"\x01"}      # Block2 option missing
(kind, res), wire = run(Message(code=aiocoap.GET, uri_path=("r",)), server)
print("outcome:", kind, (res.code, len(res.payload)) if kind == "ok" else repr(res))
if kind == "ok" and res.payload != rep and res.payload in rep:
    print("caller received bytes [%d:%d] of the %d-byte representation as a complete 2.05" % (
        rep.index(res.payload), rep.index(res.payload) + len(res.payload), len(rep)))
    sys.exit(1)
