"""C20 (b): `lt` without a value (`?ep=n2&lt`, `POST /reg/1/?lt`) -> int(None) raises TypeError ->
the stack answers 5.00, not 4.00.  The directory is unchanged, so the property's 4.xx clause is not
violated; but the C20 oracle has no verdict at all for an exception token ("X:TypeError"), and the
model refuses valueless options as out-of-model, so nothing in the check looks at this path.
Also `GET endpoint-lookup?page=0` (page without count) -> TypeError instead of the intended 4.00.
exit 1 = a request ended in a non-renderable exception (would be 5.00)."""
import sys; sys.path.insert(0, "/tmp/audit/audit-B")
from c20_lib import *
d = RD()
print(show(d.register(["ep=n1", "lt=60"])))
before = d.dump()
bad = 0
for what, r in (("register ?ep=n2&lt", d.register(["ep=n2", "lt"])),
                ("update POST /reg/1/?lt", d.req(aiocoap.POST, ("reg", "1", ""), ["lt"])),
                ("lookup ?page=0", d.req(aiocoap.GET, ("endpoint-lookup", ""), ["page=0"]))):
    print(what, "->", show(r))
    if isinstance(r, Exception): bad = 1
print("directory unchanged:", d.dump() == before)
sys.exit(bad)
