"""C05: server violates the Block1 sequencing rules in mid-upload by answering a non-final block
with 2.31 Continue (or 2.04) WITHOUT a Block1 option.  Property: "If ... the server violates the
sequencing rules ... the request ends with an error".  Observed: the 2.31 is handed to the caller as
the final, successful response although only the first block was ever sent."""
import sys; sys.path.insert(0, "/tmp/audit/audit-B")
from c05_lib import *
bad = 0
for code, name in ((95, "2.31 Continue"), (68, "2.04 Changed")):
    body = bytes(range(256)) * 12    # 3072 bytes -> 3 blocks at szx 6
    def server(v, i):
        return {"code": code}        # no Block1 option at all
    (kind, res), wire = run(Message(code=aiocoap.PUT, payload=body, uri_path=("r",)), server)
    sent = sum(len(v[2]) for v in wire)
    print("%s without Block1 after block 0: outcome=%s %s; blocks sent=%d (%d of %d body bytes)" % (
        name, kind, res.code if kind == "ok" else repr(res), len(wire), sent, len(body)))
    if kind == "ok" and sent < len(body):
        print("  -> VIOLATION: request 'succeeded' with %s although the upload is truncated" % res.code)
        bad = 1
sys.exit(bad)
