import sys, asyncio, logging, warnings
sys.path.insert(0, "/repo"); sys.path.insert(1, "/verif/harness/shims")
warnings.simplefilter("ignore")
import aiocoap, aiocoap.error as error
import aiocoap.cli.rd as rd
logging.getLogger("resource-directory").setLevel(logging.CRITICAL)
logging.getLogger("asyncio").setLevel(logging.CRITICAL)

class VLoop(asyncio.SelectorEventLoop):
    def __init__(self): super().__init__(); self._now = 0.0
    def time(self): return self._now
class Remote:
    is_multicast = False; is_multicast_locally = False; scheme = "coap"
    def __init__(self, uri): self._uri = uri
    @property
    def uri(self):
        if self._uri is None: raise error.AnonymousHost()
        return self._uri
    uri_base = uri
class RD:
    def __init__(self, **kw):
        self.loop = VLoop(); asyncio.set_event_loop(self.loop)
        self.site = rd.StandaloneResourceDirectory(context=None, **kw)
        self.common = self.site.common_rd
    def advance(self, secs):
        async def go():
            # step time in small quanta, letting timers fire
            end = self.loop._now + secs
            while True:
                nxt = min([h._when for h in self.loop._scheduled if not h._cancelled] + [end])
                self.loop._now = max(self.loop._now, min(nxt, end))
                for _ in range(5): await asyncio.sleep(0)
                if self.loop._now >= end: break
        self.loop.run_until_complete(go())
    def req(self, code, path, query=(), payload=b"", cf=None, remote="coap://[2001:db8::1]"):
        m = aiocoap.Message(code=code, uri_path=path, uri_query=tuple(query), payload=payload)
        if cf is not None: m.opt.content_format = cf
        m.remote = Remote(remote); m.direction = aiocoap.message.Direction.INCOMING
        async def go():
            try: return await self.site.render(m)
            except error.RenderableError as e: return e.to_message()
            except Exception as e: return e
        r = self.loop.run_until_complete(go())
        self.loop.run_until_complete(asyncio.sleep(0))
        return r
    def register(self, q, body=b'</a>;rt="temp"', **kw): return self.req(aiocoap.POST, ("resourcedirectory", ""), q, body, 40, **kw)
    def eps(self, q=()): 
        r = self.req(aiocoap.GET, ("endpoint-lookup", ""), q); return r if isinstance(r, Exception) else (str(r.code), r.payload.decode())
    def res(self, q=()):
        r = self.req(aiocoap.GET, ("resource-lookup", ""), q); return r if isinstance(r, Exception) else (str(r.code), r.payload.decode())
    def dump(self):
        return sorted((k, "/".join(v.path), v.lt, getattr(v, "base", None)) for k, v in self.common._by_key.items()), sorted(self.common._by_path)
def show(r): return repr(r) if isinstance(r, Exception) else "%s %s %r" % (r.code, r.opt.location_path, r.payload[:80])
