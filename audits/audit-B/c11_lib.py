import sys, warnings, logging
sys.path.insert(0, "/repo"); sys.path.insert(1, "/verif/harness/shims"); sys.path.insert(2, "/verif/harness")
warnings.simplefilter("ignore")
import aiocoap, aiocoap.oscore as oscore
from aiocoap.message import Direction
import c11_util
TransparentAead, HarnessContext = c11_util.make(oscore)
def pair(cid=b"\x01", sid=b"\x02", idctx=None):
    alg = TransparentAead()
    C = HarnessContext(alg, cid, sid, idctx, b"secret-secret-16", b"salt")
    S = HarnessContext(alg, sid, cid, idctx, b"secret-secret-16", b"salt")
    return C, S
def incoming(m):
    if m.direction is Direction.INCOMING:
        return m
    m2 = aiocoap.Message.decode(m.encode())
    m2.direction = Direction.INCOMING
    return m2
def send(ctx, msg, rid=None):
    msg.direction = Direction.OUTGOING
    outer, r = ctx.protect(msg, rid)
    outer.mid = 1; outer.token = b""; outer.mtype = aiocoap.NON
    return outer, r
def try_unprotect(ctx, outer, rid=None):
    ctx.fresh_window()
    try:
        m, r = ctx.unprotect(incoming(outer), rid)
        return ("ok", m)
    except Exception as e:
        return ("err", e)
