import sys; sys.path.insert(0, "/tmp/audit/audit-B")
from c11_lib import *
C, S = pair(idctx=b"ctx")
C.sender_sequence_number = 0x14
req = aiocoap.Message(code=aiocoap.GET, uri_path=("secret",), payload=b"")
outer, rid_c = send(C, req)
print("oscore option:", outer.opt.oscore.hex(), "code", outer.code)
print("authentic:", try_unprotect(S, outer))
def variant(optval=None, code=None):
    m = aiocoap.Message.decode(outer.encode())
    if optval is not None: m.opt.oscore = optval
    if code is not None: m.code = code
    m.mid = 1
    return m
o = outer.opt.oscore
print("K flag cleared (1 bit):", try_unprotect(S, variant(bytes([o[0] & ~0x08]) + o[1:])))
print("H flag cleared (1 bit):", try_unprotect(S, variant(bytes([o[0] & ~0x10]) + o[1:])))
print("outer code GET:", try_unprotect(S, variant(code=aiocoap.GET)))
print("outer code 0.00:", try_unprotect(S, variant(code=aiocoap.EMPTY)))
print("outer code 2.05 on request:", try_unprotect(S, variant(code=aiocoap.CONTENT)))
