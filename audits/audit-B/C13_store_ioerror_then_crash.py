"""C13 (doubtful b -- I/O error is not in the quantifier, which names crashes and clean stops):
one failing _store() (e.g. ENOSPC at fsync) inside post_seqnoincrease leaves
sequence_number_persisted advanced IN MEMORY but not on disk.  The process survives, keeps issuing
numbers without ever storing again (it believes the chunk is on disk); a later crash + reload
re-issues the same sender sequence numbers under the same key.
exit 1 = a (sender key, nonce) pair was used twice."""
import sys, os, json, tempfile, shutil, warnings
sys.path.insert(0, "/repo"); sys.path.insert(1, "/verif/harness/shims"); sys.path.insert(2, "/verif/harness")
warnings.simplefilter("ignore")
import aiocoap, aiocoap.oscore as oscore, oscore_util
from aiocoap.message import Direction
TA, HC = oscore_util.make(oscore)
oscore.algorithms["t"] = TA()
d = tempfile.mkdtemp(prefix="auditB-c13-")
json.dump({"algorithm": "t", "sender-id_hex": "01", "recipient-id_hex": "02", "secret_ascii": "0123456789abcdef"},
          open(os.path.join(d, "settings.json"), "w"))
def protect(ctx):
    m = aiocoap.Message(code=aiocoap.GET, uri_path=("x",)); m.direction = Direction.OUTGOING
    outer, rid = ctx.protect(m)
    return int.from_bytes(rid.partial_iv, "big")
def kill(ctx):
    ctx.lockfile = None
    try: os.unlink(os.path.join(d, "lock"))
    except FileNotFoundError: pass
issued = []
try:
    ctx = oscore.FilesystemSecurityContext(d)
    real_fsync = os.fsync
    def failing(fd): raise OSError(28, "No space left on device")
    os.fsync = failing
    try:
        protect(ctx)
    except OSError as e:
        print("protect #1 failed with", e, "(no message produced)")
    os.fsync = real_fsync
    print("memory: ssn=%d persisted=%d ; disk: %s" % (ctx.sender_sequence_number, ctx.sequence_number_persisted,
          open(os.path.join(d, "sequence.json")).read() if os.path.exists(os.path.join(d, "sequence.json")) else "no sequence.json"))
    for _ in range(5): issued.append(protect(ctx))
    print("lifetime 1 issued", issued)
    kill(ctx)                                  # process dies
    ctx2 = oscore.FilesystemSecurityContext(d)
    second = [protect(ctx2) for _ in range(5)]
    print("lifetime 2 issued", second)
    kill(ctx2)
    dup = sorted(set(issued) & set(second))
    if dup:
        print("VIOLATION: sender sequence numbers issued twice:", dup)
        sys.exit(1)
finally:
    shutil.rmtree(d, ignore_errors=True)
