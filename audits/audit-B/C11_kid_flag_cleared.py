"""C11 (literal text vs. documented carve-out): one bit of the OSCORE option of an authentic request is
flipped -- the k flag (0x08).  The KID bytes become trailing bytes that _uncompress ignores, the
'absent' KID is not checked (unprotected.pop(COSE_KID, self.recipient_id)), KID is not in the AAD:
CanUnprotect.unprotect() returns the message.  Property text: "Any change ... to the ... key ID ... in
the OSCORE option ... makes unprotection fail with a protection error and never yields a message";
quantifier: "all single-bit ... manipulations".  The verification states this as theorem
C11_request_without_kid_accepted and oracle class 'representation'.  (In the full stack the server picks
the context by KID before calling unprotect -- get_oscore_context_for -- so such a request gets 4.01.)
Second part: outer code GET on an OSCORE request -> plain ValueError (not a ProtectionInvalid).
exit 1 = unprotect() accepted the request whose k flag was flipped."""
import sys; sys.path.insert(0, "/tmp/audit/audit-B")
from c11_lib import *
C, S = pair(idctx=b"ctx")
C.sender_sequence_number = 0x14
outer, _ = send(C, aiocoap.Message(code=aiocoap.GET, uri_path=("secret",)))
o = outer.opt.oscore
def variant(optval=None, code=None):
    m = aiocoap.Message.decode(outer.encode())
    if optval is not None: m.opt.oscore = optval
    if code is not None: m.code = code
    return m
print("authentic option", o.hex(), "->", try_unprotect(S, variant()))
flipped = bytes([o[0] ^ 0x08]) + o[1:]
r = try_unprotect(S, variant(flipped))
print("k flag flipped   ", flipped.hex(), "->", r)
noctx = bytes([o[0] & ~0x10]) + o[1:2] + o[2 + 1 + o[2]:]      # h flag cleared, length byte and ID context removed
print("ID context removed", noctx.hex(), "->", try_unprotect(S, variant(noctx)))
r2 = try_unprotect(S, variant(code=aiocoap.GET))
print("outer code GET ->", r2, "| is ProtectionInvalid:", isinstance(r2[1], oscore.ProtectionInvalid))
sys.exit(1 if r[0] == "ok" else 0)
