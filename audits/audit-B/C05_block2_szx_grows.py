"""C05 wire clause "the size exponent never grows": a server that answers Block2 requests of szx 0
with LARGER blocks (offsets happen to align).  The client follows it: its own Block2 requests go
0 -> 2 (capped only by its own maximum).  Body stays correct; the literal wire clause is not kept."""
import sys; sys.path.insert(0, "/tmp/audit/audit-B")
from c05_lib import *
rep = bytes((i * 7) & 255 for i in range(400))
def server(v, i):
    b2 = v[1]
    if b2 is None:
        return {"code": 69, "block2": (0, True, 0), "payload": rep[:16]}
    off = b2[0] * (16 << b2[2])
    if off == 64:                       # grow 16 -> 64 byte blocks where the offset allows it
        return {"code": 69, "block2": (1, True, 2), "payload": rep[64:128]}
    szx = b2[2]
    size = 16 << szx
    return {"code": 69, "block2": (off // size, off + size < len(rep), szx), "payload": rep[off:off + size]}
(kind, res), wire = run(Message(code=aiocoap.GET, uri_path=("r",)), server)
szxs = [v[1][2] for v in wire if v[1]]
print("outcome:", kind, "body ok:", kind == "ok" and res.payload == rep, "client Block2 request exponents:", szxs)
if any(b > a for a, b in zip(szxs, szxs[1:])):
    print("VIOLATION (literal): size exponent of the client's Block2 requests grew")
    sys.exit(1)
