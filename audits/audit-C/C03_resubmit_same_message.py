"""C03 (doubtful; DESIGN.md section 7 judges it outside the quantifier): the retry idiom
    for _ in range(3):
        try: return await asyncio.wait_for(ctx.request(msg).response, 3)
        except TimeoutError: pass
re-submits the SAME Message object while the message layer still retransmits it for the cancelled
request.  send_message re-labels the object (new token, new message ID) that the first exchange's
timer closure holds: the copies are no longer byte-identical, the old timer pops the NEW exchange /
raises KeyError in the event loop, and the request "hangs" instead of failing with a time-out.
exit 1 = copies of one message ID differ / an exception reached the event loop / the retried
request neither completes nor fails within MAX_TRANSMIT_WAIT."""
import asyncio, sys
import stack
import aiocoap
from aiocoap import CON, GET


async def main(loop):
    ctx, net = await stack.make_context(loop)
    P = stack.peer(1)
    msg = aiocoap.Message(code=GET, uri_path=("x",))
    msg.remote = stack.remote_for(net, P)
    r1 = ctx.request(msg, handle_blockwise=False)
    try:
        await asyncio.wait_for(r1.response, 3)
    except asyncio.TimeoutError:
        pass
    r2 = ctx.request(msg, handle_blockwise=False)          # retry with the same object
    await asyncio.sleep(200)
    state = "pending" if not r2.response.done() else repr(r2.response.exception())
    lines = net.show()
    await ctx.shutdown()
    return state, lines


((state, lines), loop) = stack.run(main)
print("\n".join(lines))
esc = [repr(c.get("exception")) for c in loop.exceptions]
print("second request after 200 s:", state)
print("exceptions in the event loop:", esc)
if state == "pending" or esc:
    print("VIOLATION (if application re-use of a message is admitted): retried request hangs / timers raise")
    sys.exit(1)
print("ok")
