"""C08: "after any burst of state changes a notification rendered at or after the last change is
eventually sent (earlier ones may be coalesced)".

A resource whose render() samples its state and then suspends (any I/O).  State change 1 ->
trigger(); while that render is suspended: state change 2 + trigger(is_last=True) ("this is the
final value, registration over").  ServerObservation.trigger sets _late_deregister at once, so the
render that STARTED BEFORE the last change is sent as the final (Observe-less) response and the
pending trigger is dropped: the observer's final view of the resource is the stale state, the last
state is never sent, and the registration is over so nothing will correct it.
exit 1 = the last thing the observer was sent is older than the last state change."""
import asyncio, sys
import stack
import aiocoap, aiocoap.resource as resource
from aiocoap import CON, ACK, GET


class R(resource.ObservableResource):
    def __init__(self):
        super().__init__()
        self.state = "v0"
        self.gate = None

    async def render_get(self, request):
        sampled = self.state                 # read the state ...
        if self.gate is not None:            # ... then some I/O before the response is ready
            await self.gate.wait()
        return aiocoap.Message(payload=sampled.encode())


async def main(loop):
    r = R()
    site = resource.Site()
    site.add_resource(["r"], r)
    ctx, net = await stack.make_context(loop, site)
    P = stack.peer(1)
    net.inject(stack.dgram(CON, GET, 10, b"\xaa", uri_path=("r",), observe=0), P)
    await asyncio.sleep(1)
    obs = next(iter(r._observations))
    r.gate = asyncio.Event()
    r.state = "v1"
    r.updated_state()                         # render of v1 starts, suspends
    await asyncio.sleep(1)
    r.state = "v2-final"
    if EXPLICIT:                              # the last change; "no more responses will be sent"
        obs.trigger(aiocoap.Message(code=aiocoap.CONTENT, payload=b"v2-final"), is_last=True)
    else:
        obs.trigger(is_last=True)
    await asyncio.sleep(1)
    r.gate.set()
    await asyncio.sleep(1)
    # acknowledge whatever CON went out, let everything settle
    for (t, dest, data) in list(net.sent):
        m = aiocoap.Message.decode(data)
        if m.mtype is CON:
            net.inject(stack.dgram(ACK, aiocoap.EMPTY, m.mid), P)
    await asyncio.sleep(300)
    lines = net.show()
    payloads = [aiocoap.Message.decode(d).payload for (_, _, d) in net.sent if aiocoap.Message.decode(d).code.is_response()]
    await ctx.shutdown()
    return lines, payloads, len(r._observations)


bad = False
for EXPLICIT in (False, True):
    print("--- trigger(%sis_last=True) while the previous render is suspended" % ("Message('v2-final'), " if EXPLICIT else ""))
    (res, loop) = stack.run(main)
    lines, payloads, nobs = res
    print("\n".join(lines))
    print("observers left:", nobs, " payloads sent:", payloads)
    if payloads and payloads[-1] != b"v2-final":
        print("VIOLATION: last state change produced 'v2-final', the final notification carries", payloads[-1],
              "and the registration has ended; the latest state was never sent")
        bad = True
sys.exit(1 if bad else 0)
