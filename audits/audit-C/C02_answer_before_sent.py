"""C02 (doubtful): "A response is handed to the application only as the result of the still-outstanding
request that carries the same token and was SENT to the endpoint the response comes from".

A confirmable request B waits in the NSTART backlog behind an unacknowledged CON A to the same peer:
B has a token (the 64-bit counter: A's token + 1, guessable) and is in outgoing_requests, but was
never transmitted.  A response carrying B's token from the peer's address (spoofable over UDP) is
delivered as B's result before B ever went on the wire -- and B is still transmitted later, when A's
exchange ends (the server executes a request whose "result" the application already holds).
The C02 oracle skips such requests ("never transmitted (held back): its token is not observable",
msglayer_props.py:608-609 and :659).  exit 1 = a request got its result before it was sent."""
import asyncio, sys
import stack
import aiocoap
from aiocoap import CON, NON, GET, ACK, PUT


async def main(loop):
    ctx, net = await stack.make_context(loop)
    P = stack.peer(1)
    a = aiocoap.Message(code=GET, uri_path=("a",)); a.remote = stack.remote_for(net, P)
    b = aiocoap.Message(code=PUT, uri_path=("b",), payload=b"switch on"); b.remote = stack.remote_for(net, P)
    ra = ctx.request(a, handle_blockwise=False)
    rb = ctx.request(b, handle_blockwise=False)
    await asyncio.sleep(0.5)
    ma = aiocoap.Message.decode(net.sent[0][2])
    guessed = (int.from_bytes(ma.token, "big") + 1).to_bytes(8, "big").lstrip(b"\0")
    print("on the wire so far:", net.show())
    net.inject(stack.dgram(NON, aiocoap.CHANGED, 4242, guessed, payload=b"forged"), P)
    await asyncio.sleep(0.1)
    got = rb.response.result().payload if rb.response.done() else None
    n_before = len(net.sent)
    net.inject(stack.dgram(ACK, aiocoap.EMPTY, ma.mid), P)      # A is acknowledged: the backlog moves on
    await asyncio.sleep(0.5)
    later = net.show(n_before)
    await ctx.shutdown()
    return got, n_before, later


((got, n_before, later), loop) = stack.run(main)
print("request B result after the forged datagram:", got, "(datagrams sent by then: %d, none of them B)" % n_before)
print("sent after A was acknowledged:", later)
if got == b"forged":
    print("VIOLATION: B completed with a response although it had not been sent; it was transmitted afterwards anyway")
    sys.exit(1)
print("ok")
