"""C10: "A response suppressed by the No-Response option is not sent (a confirmable request still
gets its empty ACK)".  (C09: "... exactly one final response ... unless No-Response or multicast
rules suppress it".)

No-Response (RFC 7967) is an option of the REQUEST.  aiocoap copies it into the response only in
resource.Resource.render (for messages a handler RETURNS); every response built from an exception
(4.04 unknown path, 4.05, handler raising NotFound/BadRequest, 5.00) is sent although the request
asked for that class to be suppressed.  Both harnesses set No-Response on the response object / in
`expectedFinal` (`noResponse := none` for every exception outcome) and so never look at this.
exit 1 = a response of a class the request's No-Response option suppresses was sent."""
import asyncio, sys
import stack
import aiocoap, aiocoap.resource as resource, aiocoap.error as error
from aiocoap import CON, NON, GET, PUT


class R(resource.Resource):
    async def render_get(self, request):
        return aiocoap.Message(payload=b"x")

    async def render_put(self, request):
        raise error.BadRequest("no")

    async def render_post(self, request):
        raise RuntimeError("boom")


CASES = [  # (what, type, code, path, No-Response, class that must not appear)
    ("returned 2.05 (control: handled correctly)", NON, GET, "r", 2, 2),
    ("unknown path -> 4.04", NON, GET, "nope", 8, 4),
    ("unknown path -> 4.04, CON", CON, GET, "nope", 26, 4),
    ("unimplemented method -> 4.05", NON, aiocoap.DELETE, "r", 8, 4),
    ("handler raises BadRequest -> 4.00", NON, PUT, "r", 8, 4),
    ("handler raises RuntimeError -> 5.00", NON, aiocoap.POST, "r", 16, 5),
]


async def main(loop):
    site = resource.Site()
    site.add_resource(["r"], R())
    ctx, net = await stack.make_context(loop, site)
    P = stack.peer(1)
    bad = 0
    for i, (what, mt, code, path, nr, cls) in enumerate(CASES):
        n = len(net.sent)
        net.inject(stack.dgram(mt, code, 100 + i, bytes([0xa0 + i]), uri_path=(path,), no_response=nr), P)
        await asyncio.sleep(2)
        for (_, _, d) in list(net.sent[n:]):       # acknowledge separate CONs
            m = aiocoap.Message.decode(d)
            if m.mtype is CON:
                net.inject(stack.dgram(aiocoap.ACK, aiocoap.EMPTY, m.mid), P)
        await asyncio.sleep(2)
        sent = [aiocoap.Message.decode(d) for (_, _, d) in net.sent[n:]]
        viol = [m for m in sent if m.code.is_response() and m.code.class_ == cls]
        print("%-45s No-Response=%-2d -> %s%s" % (what, nr, [f"{m.mtype.name} {m.code}" for m in sent] or "nothing",
                                                 "   <-- VIOLATION" if viol else ""))
        bad += bool(viol)
    return bad


(bad, loop) = stack.run(main)
sys.exit(1 if bad else 0)
