import asyncio, sys
import stack
import aiocoap, aiocoap.resource as resource, aiocoap.error as error
from aiocoap import CON, NON, GET
class R(resource.Resource):
    def __init__(s, f): super().__init__(); s.f=f
    async def render_get(self, request): return self.f()
class Slow(resource.Resource):
    async def render_get(self, request):
        await asyncio.sleep(1); return aiocoap.Message(payload=b"slow")
async def main(loop):
    site = resource.Site()
    site.add_resource(["g"], R(lambda: aiocoap.Message(code=GET)))
    site.add_resource(["e"], R(lambda: aiocoap.Message(code=aiocoap.EMPTY)))
    site.add_resource(["c"], R(lambda: aiocoap.Message(code=aiocoap.Code(7<<5|1))))
    site.add_resource(["s"], Slow())
    ctx, net = await stack.make_context(loop, site)
    P = stack.peer(1)
    for i,(p,t) in enumerate([("g",CON),("e",CON),("c",CON),("g",NON)]):
        n=len(net.sent)
        net.inject(stack.dgram(t, GET, 10+i, bytes([0xa0+i]), uri_path=(p,)), P)
        await asyncio.sleep(400)
        print(p,t, *net.show(n), sep="\n   ")
        print("   left", [(k[0].hex()) for k in ctx.request_interfaces[0].incoming_requests], [repr(c.get("exception")) for c in loop.exceptions])
stack.run(main)
