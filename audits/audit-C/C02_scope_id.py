"""C02: "A response is handed to the application only as the result of the still-outstanding request
that carries the same token and was sent to the endpoint the response comes from; a response ...
from another endpoint, is never delivered and, if confirmable, is answered with a Reset."
Quantifier: "... injected forged responses (guessed or sniffed tokens, wrong source address) ...".

UDP6EndpointAddress.__eq__/__hash__ ignore the scope id of a link-local address.  A request sent to
fe80::1%2 (interface 2) is answered -- with a sniffed/guessed token -- by the host that owns fe80::1
on interface 3 (link-local addresses are only unique per link): delivered as the result.  The same
identity is a recorded *known finding* for C04 (C04:scope-id-merged) but is not listed for C02; the
C02 generator's "wrong source" is always another IP/port, the model's remotes are plain numbers.
exit 1 = the response from the other endpoint was delivered to the application."""
import asyncio, sys
import stack
import aiocoap
from aiocoap import CON, NON, GET, ACK, RST

A = ("fe80::1", 5683, 0, 2)      # where the request goes
B = ("fe80::1", 5683, 0, 3)      # same address, other link: another endpoint


async def main(loop):
    ctx, net = await stack.make_context(loop)
    req = aiocoap.Message(code=GET, uri_path=("x",), mtype=NON)
    req.remote = stack.remote_for(net, A)
    r = ctx.request(req, handle_blockwise=False)
    await asyncio.sleep(0.5)
    sent = aiocoap.Message.decode(net.sent[0][2])
    print("request sent to", net.sent[0][1], "token", sent.token.hex())
    net.inject(stack.dgram(CON, aiocoap.CONTENT, 999, sent.token, payload=b"forged"), B, local="fe80::99")
    await asyncio.sleep(0.5)
    out = net.show(1)
    if r.response.done():
        res = r.response.result()
        got = (res.payload, res.remote.sockaddr)
    else:
        got = None
    await ctx.shutdown()
    return got, out


((got, out), loop) = stack.run(main)
print("reaction on the wire:", out)
print("application got:", got)
if got is not None and got[0] == b"forged":
    print("VIOLATION: the response from %r was delivered as the result of the request sent to %r" % (B, A))
    sys.exit(1)
print("ok")
