"""C09: "... a raised renderable error is sent with its own code and diagnostic payload, and any
other exception, a non-message return value or a failing error renderer produce a bare 5.00 ...
A failure in one request neither affects requests in flight at the same time nor any later request."

An error renderer (RenderableError.to_message) that fails by returning a Message without a code
(it forgot `code=`; the Message type check added by 7c9a80f passes).  The C09 harness lists exactly
this under ASSUMPTIONS as "outside the quantifier".
exit 1 = the request got no response at all / an exception escaped into the event loop."""
import asyncio, sys
import stack
import aiocoap, aiocoap.resource as resource, aiocoap.error as error
from aiocoap import CON, NON, GET


class Broken(error.RenderableError):
    def to_message(self):
        return aiocoap.Message(payload=b"oops")          # no code


class BrokenRepr(error.BadRequest):                     # variant 2: a perfectly renderable error whose repr() raises
    def __repr__(self):                                  # (error_to_message logs repr(e) outside its try block)
        raise RuntimeError("repr")


class R(resource.Resource):
    async def render_get(self, request):
        raise Broken()

    async def render_put(self, request):
        raise BrokenRepr("diagnostic")


class Fine(resource.Resource):
    async def render_get(self, request):
        return aiocoap.Message(payload=b"fine")


async def main(loop):
    site = resource.Site()
    site.add_resource(["r"], R())
    site.add_resource(["f"], Fine())
    ctx, net = await stack.make_context(loop, site)
    P = stack.peer(1)
    net.inject(stack.dgram(NON, GET, 10, b"\xaa", uri_path=("r",)), P)
    await asyncio.sleep(5)
    net.inject(stack.dgram(NON, aiocoap.PUT, 12, b"\xcc", uri_path=("r",)), P)
    await asyncio.sleep(5)
    net.inject(stack.dgram(NON, GET, 11, b"\xbb", uri_path=("f",)), P)
    await asyncio.sleep(5)
    left = [(k[0].hex(), k[1].hostinfo) for k in ctx.request_interfaces[0].incoming_requests]
    lines = net.show()
    return lines, left


(res, loop) = stack.run(main)
lines, left = res
print("\n".join(lines) or "(nothing sent)")
print("incoming_requests left:", left)
esc = [repr(c.get("exception")) for c in loop.exceptions]
print("exceptions that reached the event loop:", esc)
answered = [l for l in lines if "token=aa" in l]
answered2 = [l for l in lines if "token=cc" in l]
if len(answered) != 1 or len(answered2) != 1 or esc or left:
    print("VIOLATION: request aa (renderer returns a code-less Message) got %d responses (expected one bare 5.00); "
          "request cc (BadRequest whose repr() raises) got %d responses (expected 4.00 or 5.00); table entries left: %s"
          % (len(answered), len(answered2), left))
    sys.exit(1)
print("ok")
