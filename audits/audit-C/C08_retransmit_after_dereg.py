"""C08: "The registration ends ... when the same endpoint sends a new request on the same token ...
Once ended, ... no further notification is ever sent for that registration".

A CON notification is in flight (its ACK was lost).  The observer deregisters (GET Observe:1 on the
same token, RFC 7641 3.6) and gets its answer.  The old registration's notification keeps being
retransmitted (4 more copies over 45 s, with an Observe option, after the observer was told the
observation is over), and when it times out, ConRetransmitsExceeded is dispatched for the endpoint.
The C08 oracle only looks at the FIRST transmission of a datagram when it checks "nothing after the
end"; the known finding C08:queued-notification-sent-after-end covers only notifications that were
still in the backlog.  exit 1 = copies of the ended registration's notification went out after the end."""
import asyncio, sys
import stack
import aiocoap, aiocoap.resource as resource
from aiocoap import CON, NON, GET, ACK


class R(resource.ObservableResource):
    state = b"v0"

    async def render_get(self, request):
        return aiocoap.Message(payload=self.state)


async def main(loop):
    r = R()
    site = resource.Site()
    site.add_resource(["r"], r)
    ctx, net = await stack.make_context(loop, site)
    P = stack.peer(1)
    net.inject(stack.dgram(CON, GET, 10, b"\xaa", uri_path=("r",), observe=0), P)
    await asyncio.sleep(1)
    r.state = b"v1"
    r.updated_state()                       # CON notification, never acknowledged (ACK lost)
    await asyncio.sleep(0.5)
    t_end = loop.t()
    net.inject(stack.dgram(CON, GET, 11, b"\xaa", uri_path=("r",), observe=1), P)   # deregister
    await asyncio.sleep(120)
    after = [(t, aiocoap.Message.decode(d)) for (t, _, d) in net.sent if t > t_end]
    lines = net.show()
    n = len(r._observations)
    await ctx.shutdown()
    return t_end, after, lines, n


((t_end, after, lines, n), loop) = stack.run(main)
print("\n".join(lines))
print("registration ended at t=%s (new request on the token); observers now: %d" % (t_end, n))
late = [(t, m) for (t, m) in after if m.opt.observe is not None]
if late:
    print("VIOLATION: %d notification datagram(s) (Observe=%s) of the ended registration sent after its end, at t=%s"
          % (len(late), late[0][1].opt.observe, [t for t, _ in late]))
    sys.exit(1)
print("ok")
