"""C10: "A confirmable request is acknowledged exactly once under its message ID ... a
non-confirmable request is never acknowledged" -- quantifier: "... and sequences of such messages".

(1) Two different CON requests (message IDs 100, 101) from one endpoint on the same token within
EMPTY_ACK_DELAY (RFC 7641 re-registration / cancellation re-uses the token on purpose; so does a
client that gave up on the first).  MessageManager._process_request cancels the first request's
empty-ACK timer ("Cancelling ACK to ward off any further confusion"): message ID 100 is never
acknowledged -- not now, not when the client retransmits it (the duplicate finds no stored reply).
(2) CON request then NON request on the same token: the NON request's response takes the CON's
piggy-back opportunity and leaves as an ACK.
The C10 oracle excuses (1) explicitly (`killed`), the trace theorems only bound ACKs from above.
exit 1 = a confirmable request was never acknowledged under its message ID."""
import asyncio, sys
import stack
import aiocoap, aiocoap.resource as resource
from aiocoap import CON, NON, GET, ACK


class Slow(resource.Resource):
    async def render_get(self, request):
        await asyncio.sleep(0.5)
        return aiocoap.Message(payload=b"slow")


class Fast(resource.Resource):
    async def render_get(self, request):
        return aiocoap.Message(payload=b"fast")


async def scenario(loop, second_type, second_path):
    site = resource.Site()
    site.add_resource(["slow"], Slow())
    site.add_resource(["fast"], Fast())
    ctx, net = await stack.make_context(loop, site)
    P = stack.peer(1)
    first = stack.dgram(CON, GET, 100, b"\xaa", uri_path=("slow",))
    net.inject(first, P)
    await asyncio.sleep(0.05)                       # within EMPTY_ACK_DELAY (0.1 s)
    net.inject(stack.dgram(second_type, GET, 101, b"\xaa", uri_path=(second_path,)), P)
    # the client retransmits the unacknowledged first request like RFC 7252 4.2 says
    for gap in (2, 4, 8, 16):
        await asyncio.sleep(gap)
        for (_, _, d) in list(net.sent):            # be a good peer: ACK separate CON responses
            m = aiocoap.Message.decode(d)
            if m.mtype is CON:
                net.inject(stack.dgram(ACK, aiocoap.EMPTY, m.mid), P)
        net.inject(first, P)
    await asyncio.sleep(60)
    msgs = [aiocoap.Message.decode(d) for (_, _, d) in net.sent]
    lines = net.show()
    await ctx.shutdown()
    return msgs, lines


bad = False
for (name, t, p) in (("CON mid=100 then CON mid=101 on one token", CON, "slow"),
                     ("CON mid=100 then NON mid=101 on one token", NON, "fast")):
    (res, loop) = stack.run(lambda loop: scenario(loop, t, p))
    msgs, lines = res
    print("---", name)
    print("\n".join(lines))
    acks100 = [m for m in msgs if m.mtype is ACK and m.mid == 100]
    acks101 = [m for m in msgs if m.mtype is ACK and m.mid == 101]
    print("ACKs under mid 100:", len(acks100), " under mid 101:", len(acks101))
    if len(acks100) == 0:
        print("VIOLATION: confirmable request mid=100 (sent 5 times) was never acknowledged")
        bad = True
    if t is NON and acks100 and acks100[0].payload == b"fast":
        print("NOTE: the response to the NON request left as the ACK of the CON request (type ACK, mid 100)")
        bad = True
sys.exit(1 if bad else 0)
