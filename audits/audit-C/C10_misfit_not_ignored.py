"""C10: "... messages whose code and type do not fit are ignored."
Theorem C10_misfits_ignored is stated for `recvCode` only, i.e. AFTER dispatch_message has run
duplicate detection (for every request code, whatever the type) and `_remove_exchange` (for every
ACK/RST, whatever the code).  So a misfit is not ignored:
 (a) an ACK carrying a request code (0.01) with the message ID of our pending CON request stops its
     retransmission (the request then waits for ever: no copy, no time-out);
 (b) a RST carrying a request code fails the request with MessageError;
 (c) an ACK/RST carrying a request code is entered in the duplicate table, and a genuine CON request
     using that message ID afterwards is dropped as a "duplicate": neither delivered nor acknowledged.
exit 1 = a message whose code and type do not fit changed what the stack does."""
import asyncio, sys
import stack
import aiocoap, aiocoap.resource as resource
from aiocoap import CON, NON, GET, ACK, RST


class Fast(resource.Resource):
    async def render_get(self, request):
        return aiocoap.Message(payload=b"fast")


async def client_case(loop, mtype):
    ctx, net = await stack.make_context(loop)
    P = stack.peer(1)
    req = aiocoap.Message(code=GET, uri_path=("x",))
    req.remote = stack.remote_for(net, P)
    r = ctx.request(req, handle_blockwise=False)
    await asyncio.sleep(0.5)
    mid = aiocoap.Message.decode(net.sent[0][2]).mid
    net.inject(stack.dgram(mtype, GET, mid, b""), P)           # misfit: request code, type ACK/RST
    await asyncio.sleep(200)                                    # > MAX_TRANSMIT_WAIT
    copies = len(net.sent)
    state = "pending" if not r.response.done() else repr(r.response.exception() or r.response.result())
    await ctx.shutdown()
    return copies, state


async def server_case(loop):
    site = resource.Site()
    site.add_resource(["fast"], Fast())
    ctx, net = await stack.make_context(loop, site)
    P = stack.peer(1)
    net.inject(stack.dgram(RST, GET, 77, b""), P)               # misfit
    await asyncio.sleep(1)
    net.inject(stack.dgram(CON, GET, 77, b"\xaa", uri_path=("fast",)), P)
    await asyncio.sleep(5)
    lines = net.show()
    await ctx.shutdown()
    return lines


bad = False
(res, _) = stack.run(lambda loop: client_case(loop, ACK))
print("(a) CON request, peer sends ACK with code 0.01 under its message ID: copies on the wire =", res[0], "; request:", res[1])
if res[0] != 5 or res[1] == "pending":
    print("    VIOLATION: the misfit stopped the retransmission (expected 5 copies and ConRetransmitsExceeded)"); bad = True
(res, _) = stack.run(lambda loop: client_case(loop, RST))
print("(b) same with RST + code 0.01: copies =", res[0], "; request:", res[1])
if res[0] != 5 or "MessageError" in res[1]:
    print("    VIOLATION: the misfit failed the request"); bad = True
(lines, _) = stack.run(server_case)
print("(c) RST with code 0.01 mid=77, then a CON GET mid=77: sent =", lines or "nothing")
if not lines:
    print("    VIOLATION: the misfit made the later confirmable request a 'duplicate': not acknowledged, not answered"); bad = True
sys.exit(1 if bad else 0)
