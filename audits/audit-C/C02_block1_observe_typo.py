"""C02: "The result of every request completes exactly once, either with such a matching response or
with an error derived from the library's error base class".

Default API (Context.request -> BlockwiseRequest): a PUT with Observe and a body of several blocks;
the server answers the first block with 2.31 Continue carrying an Observe option.
BlockwiseRequest._run then executes `blockrequest.observe.cancel()` (typo for `.observation`):
the response future fails with AttributeError, which is not an aiocoap.error.Error.
DESIGN.md section 7 lists this as "outside C02's anchors (Request._run, TokenManager)"; the C02
harness always passes handle_blockwise=False.  exit 1 = the request failed with a foreign exception."""
import asyncio, sys
import stack
import aiocoap, aiocoap.error
from aiocoap import CON, NON, GET, ACK, PUT
from aiocoap.optiontypes import BlockOption


async def main(loop):
    ctx, net = await stack.make_context(loop)
    P = stack.peer(1)
    req = aiocoap.Message(code=PUT, uri_path=("x",), payload=b"A" * 3000, observe=0)
    req.remote = stack.remote_for(net, P)
    r = ctx.request(req)                      # handle_blockwise=True, the default
    await asyncio.sleep(0.5)
    first = aiocoap.Message.decode(net.sent[0][2])
    print("first block:", first.mtype.name, first.code, "Block1 =", first.opt.block1, "Observe =", first.opt.observe)
    ans = aiocoap.Message(code=aiocoap.CONTINUE, observe=7)
    ans.opt.block1 = first.opt.block1
    ans.mtype, ans.mid, ans.token = ACK, first.mid, first.token
    net.inject(ans.encode(), P)
    await asyncio.sleep(1)
    if not r.response.done():
        out = "pending"
    else:
        out = r.response.exception()
    await ctx.shutdown()
    return out


(out, loop) = stack.run(main)
print("response future:", repr(out))
if isinstance(out, BaseException) and not isinstance(out, aiocoap.error.Error):
    print("VIOLATION: the request completed with %s, not an aiocoap.error.Error" % type(out).__name__)
    sys.exit(1)
print("ok")
