"""C10 (doubtful; DESIGN.md section 7 judges it outside the table): "A confirmable request is
acknowledged exactly once under its message ID: by the piggybacked response if it is ready within
EMPTY_ACK_DELAY, otherwise by an empty ACK ...".

A fast handler returns a message that cannot be serialised (Message(payload="text")).  send_message
pops the piggy-back opportunity and cancels the empty-ACK timer BEFORE the failing encode(); the 5.00
that C09 promises then leaves as a separate CON, and the request's message ID is never acknowledged:
the client's retransmissions of the request find no stored reply.
exit 1 = the confirmable request was never acknowledged under its message ID."""
import asyncio, sys
import stack
import aiocoap, aiocoap.resource as resource
from aiocoap import CON, GET, ACK


class R(resource.Resource):
    async def render_get(self, request):
        return aiocoap.Message(payload="text")        # str, not bytes


async def main(loop):
    site = resource.Site()
    site.add_resource(["r"], R())
    ctx, net = await stack.make_context(loop, site)
    P = stack.peer(1)
    req = stack.dgram(CON, GET, 100, b"\xaa", uri_path=("r",))
    net.inject(req, P)
    for gap in (2, 4, 8):
        await asyncio.sleep(gap)
        for (_, _, d) in list(net.sent):
            m = aiocoap.Message.decode(d)
            if m.mtype is CON:
                net.inject(stack.dgram(ACK, aiocoap.EMPTY, m.mid), P)
        net.inject(req, P)                            # the client retransmits its unacknowledged request
    await asyncio.sleep(30)
    msgs = [aiocoap.Message.decode(d) for (_, _, d) in net.sent]
    lines = net.show()
    await ctx.shutdown()
    return msgs, lines


((msgs, lines), loop) = stack.run(main)
print("\n".join(lines))
acks = [m for m in msgs if m.mtype is ACK and m.mid == 100]
print("ACKs under the request's message ID 100:", len(acks))
if not acks:
    print("VIOLATION: CON request mid=100 (sent 4 times) never acknowledged under its message ID")
    sys.exit(1)
print("ok")
