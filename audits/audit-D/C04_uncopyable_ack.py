"""C04: "Every further copy of a confirmable request is answered with a byte-identical repetition of the
acknowledgement already sent for it (the piggybacked response or the empty ACK), or with nothing if none has been
sent yet".

fix 3d61542 (made for C09) wraps the `message.copy()` of MessageManager._store_response_for_duplicates in
try/except and comments "A duplicate of the request just finds no response to repeat" -- i.e. it accepts that an
acknowledgement HAS been sent and a copy of the request is answered with nothing.  A response that serialises but
cannot be deep-copied (an option value held as a memoryview -- the case of that commit) is sent as the piggy-backed
ACK; when the ACK is lost and the client retransmits, the server stays silent for the whole EXCHANGE_LIFETIME (the
request is not executed again either), so the client runs into its retransmission time-out although the server
answered.  Neither the C04 generator nor its oracle exercises this; theorem C04_reply_is_what_was_sent assumes the
store succeeds.  (Keeping the encoded datagram instead of a Message copy would need no copy at all.)

exit 1 = a CON copy arriving after the ACK was sent got no answer."""
import asyncio, sys
import dstack as S
import aiocoap
from aiocoap import Message, GET, CON
import aiocoap.resource as resource


class R(resource.Resource):
    def __init__(self):
        super().__init__()
        self.calls = 0

    async def render_get(self, request):
        self.calls += 1
        return Message(payload=b"hello", etag=memoryview(b"\x01\x02"))


async def main(loop):
    S.pin()
    site = resource.Site()
    r = R()
    site.add_resource(["r"], r)
    ctx, net = await S.make_context(loop, site)
    d = S.dgram(CON, GET, 0x1234, b"\xaa", uri_path=("r",))
    net.inject(d, S.peer(1))
    await asyncio.sleep(0.5)
    first = list(net.sent)
    net.inject(d, S.peer(1))          # the client did not get the ACK and retransmits
    await asyncio.sleep(3)
    net.inject(d, S.peer(1))
    await asyncio.sleep(3)
    later = net.sent[len(first):]
    lines = net.show()
    await ctx.shutdown()
    return first, later, lines, r.calls


(first, later, lines, calls), loop = S.run(main)
for l in lines:
    print("   ", l)
print("handler calls: %d; datagrams after the first copy of the request: %d" % (calls, len(later)))
ok_first = len(first) == 1 and aiocoap.Message.decode(first[0][2]).mtype is aiocoap.ACK
if ok_first and not later:
    print("VIOLATION: the ACK %s was sent for mid 0x1234, two later copies of the CON request got no answer"
          % first[0][2].hex())
    sys.exit(1)
if ok_first and any(x[2] != first[0][2] for x in later):
    print("VIOLATION: copies answered with different bytes")
    sys.exit(1)
sys.exit(0)
