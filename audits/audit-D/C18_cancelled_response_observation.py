"""C18: "every outstanding client request and observation terminates with a library error within the shutdown
time-out".

An observing request whose `response` future the application cancelled before the first response arrived
(`asyncio.wait_for(req.response, t)` does that on time-out) while a consumer task iterates `req.observation`:
Request._response_cancellation_handler / BlockwiseRequest._response_cancellation_handler withdraw the interest in
the request (token retired, `_run` returns / runner task cancelled, `_run_outer` swallows the CancelledError with
"results already set") -- but nobody ever tells the ClientObservation: `observation.cancelled` stays False, no
error is pushed, the consumer's `async for` waits for ever.  Context.shutdown() does not know the request any more,
so it does not end the observation either: after shutdown has returned the consumer is still pending.

The C18 scripts combine "C" (response.cancel()) only with requests nobody iterates over, and the `async for`
consumers (c18_obs_consumer) only with requests that are never cancelled.

exit 1 = a consumer of an observation is still pending after Context.shutdown() returned."""
import asyncio, sys
import dstack as S
import aiocoap
from aiocoap import Message, GET


async def scenario(loop, blockwise, cancel):
    S.pin()
    ctx, net = await S.make_context(loop)
    m = Message(code=GET, observe=0)
    m.remote = S.remote_for(net, S.peer(1))
    req = ctx.request(m, handle_blockwise=blockwise)
    st = {"end": "pending"}

    async def consume():
        try:
            async for _ in req.observation:
                pass
            st["end"] = "ended"
        except Exception as e:
            st["end"] = "raised " + type(e).__name__

    task = loop.create_task(consume())
    if cancel:
        try:
            await asyncio.wait_for(req.response, 1.0)      # the peer is slow: time-out, the future gets cancelled
        except asyncio.TimeoutError:
            pass
    else:
        await asyncio.sleep(1.0)
    await asyncio.sleep(1.0)
    await ctx.shutdown()
    await asyncio.sleep(300)
    out = (st["end"], req.observation.cancelled)
    task.cancel()
    return out


bad = False
for blockwise in (False, True):
    for cancel in (False, True):
        (end, oc), loop = S.run(lambda loop: scenario(loop, blockwise, cancel))
        print("handle_blockwise=%-5s response cancelled by wait_for=%-5s -> consumer %s, observation.cancelled=%s, "
              "loop exceptions %s" % (blockwise, cancel, end, oc, S.fmt_exc(loop.exceptions)))
        if end == "pending":
            bad = True
sys.exit(1 if bad else 0)
