"""C14: "Exchanges with different endpoints, and non-confirmable messages, are never delayed by this."
"Every held-back message is eventually either transmitted or its request failed".

Two link-local peers with the same address and port on two interfaces (fe80::1%2 and fe80::1%3) are two
endpoints (the C04 and C02 checks record exactly this as known findings C04:scope-id-merged /
C02:scope-id-merged) -- but the NSTART queue (`_backlogs`, `_active_exchanges`) is keyed by the same
UDP6EndpointAddress.__eq__/__hash__, which ignore the scope id.  Seen from C14:

 (1) a confirmable request to B (%3) submitted while one to A (%2) is unacknowledged is held back, although B has
     nothing in flight; when A never answers, B's request fails with ConRetransmitsExceeded after 62 s WITHOUT
     EVER HAVING BEEN TRANSMITTED;
 (2) an ACK coming from B (%3) that happens to carry the message ID of the CON in flight to A ends A's exchange:
     retransmission to A stops although A never acknowledged.

The C14 generator never uses the two link-local remotes (6, 7) of the harness, and neither known_findings.json nor
DESIGN.md section 7 lists the finding for C14.

exit 1 = observed as described (the property text is violated on /repo HEAD)."""
import asyncio, sys
import dstack as S
import aiocoap
from aiocoap import Message, GET, CON, ACK, EMPTY

A = ("fe80::1", 5683, 0, 2)
B = ("fe80::1", 5683, 0, 3)


def request(ctx, net, dest, tag):
    m = Message(code=GET, payload=tag, transport_tuning=aiocoap.Reliable)
    m.remote = S.remote_for(net, dest)
    r = ctx.request(m, handle_blockwise=False)
    r.response.add_done_callback(lambda f: f.cancelled() or f.exception())
    return r


async def part1(loop):
    S.pin()
    ctx, net = await S.make_context(loop)
    ra = request(ctx, net, A, b"to-A")
    await asyncio.sleep(0.5)
    rb = request(ctx, net, B, b"to-B")
    await asyncio.sleep(100)                 # A stays silent: 2+4+8+16+32 = 62 s
    lines = ["t=%-8s to %s%%%d  %s mid=%d %r" % (t, d[0], d[3], m.mtype.name, m.mid, m.payload) for (t, d, m) in net.msgs()]
    to_b = [1 for (t, d, m) in net.msgs() if d[3] == 3]
    eb = rb.response.exception() if rb.response.done() else None
    await ctx.shutdown()
    return lines, to_b, eb


async def part2(loop):
    S.pin()
    ctx, net = await S.make_context(loop)
    ra = request(ctx, net, A, b"to-A")
    await asyncio.sleep(0.5)
    mid = net.msgs()[0][2].mid
    net.inject(S.dgram(ACK, EMPTY, mid), B)          # an ACK from the OTHER endpoint
    await asyncio.sleep(100)
    copies = [t for (t, d, m) in net.msgs() if m.mid == mid]
    state = "pending" if not ra.response.done() else repr(ra.response.exception())
    await ctx.shutdown()
    return copies, state


bad = False
(lines, to_b, eb), loop = S.run(part1)
print("--- (1) CON to fe80::1%2 unanswered; CON to fe80::1%3 submitted 0.5 s later")
for l in lines:
    print("   ", l)
print("    datagrams sent to %%3: %d; request to %%3 ended with: %r" % (len(to_b), eb))
if not to_b:
    print("    VIOLATION: the request to the second endpoint was held back behind the first endpoint's exchange and "
          "failed without ever being transmitted")
    bad = True

(copies, state), loop = S.run(part2)
print("--- (2) CON to fe80::1%2, then an empty ACK with its message ID arrives from fe80::1%3")
print("    transmissions of the CON to %%2 at %s; its request is %s" % (copies, state))
if len(copies) == 1:
    print("    VIOLATION: the exchange with %2 was ended by the other endpoint's ACK (no retransmission, request left "
          "waiting for a response that can only come if the single copy was not lost)")
    bad = True
sys.exit(1 if bad else 0)
