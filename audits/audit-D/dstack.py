"""Self-contained helper for the audit-D replay scripts: the real aiocoap udp6 stack (real
Context / TokenManager / MessageManager / MessageInterfaceUDP6 / RecvmsgSelectorDatagramTransport)
on a fake socket object and a virtual clock.  Same technique as /verif/harness/netsim.py + vloop.py,
re-typed here so that the replays do not import the verification machinery.  No real sockets, no
real time."""
import sys
sys.dont_write_bytecode = True
sys.path.insert(0, "/repo")
import asyncio, heapq, os, socket, struct, logging, warnings

warnings.simplefilter("ignore")
logging.disable(logging.CRITICAL)

TICK = 2.0 ** -20


def q(t):
    return int(t * (1 << 20) + 0.5) * TICK


class VLoop(asyncio.SelectorEventLoop):
    def __init__(self):
        super().__init__()
        self._vnow = 1000.0
        self.exceptions = []
        self.set_exception_handler(lambda loop, ctx: self.exceptions.append(ctx))

    def time(self):
        return self._vnow

    def t(self):
        return round(self._vnow - 1000.0, 4)

    def call_at(self, when, callback, *args, context=None):
        return super().call_at(q(when), callback, *args, context=context)

    def _run_once(self):
        if not self._ready and self._scheduled:
            while self._scheduled and self._scheduled[0]._cancelled:
                h = heapq.heappop(self._scheduled)
                h._scheduled = False
            if self._scheduled and self._scheduled[0]._when > self._vnow:
                self._vnow = self._scheduled[0]._when
        super()._run_once()


LOCAL = "2001:db8::100"
MCAST = "ff02::fd"


def peer(n, port=5683, scope=0):
    return ("2001:db8::%x" % (n + 1), port, 0, scope)


class FakeSocket:
    def __init__(self, net):
        self.net = net
        self._r, self._w = os.pipe()
        self.closed = False

    def fileno(self): return self._r
    def setblocking(self, f): pass
    def bind(self, a): pass
    def getsockname(self): return ("::", 5683, 0, 0)
    def setsockopt(self, *a): pass
    def recvmsg(self, *a): raise BlockingIOError()

    def sendmsg(self, buffers, ancdata, flags, address):
        if self.closed:
            raise OSError(9, "Bad file descriptor")
        err = self.net.send_errors.get(tuple(address))
        if err is not None:
            self.net.failed.append((self.net.loop.t(), tuple(address)))
            raise err
        data = b"".join(bytes(b) for b in buffers)
        self.net.sent.append((self.net.loop.t(), tuple(address), data))
        if self.net.on_send:
            self.net.on_send(self.net.loop.t(), tuple(address), data)

    def close(self):
        self.closed = True


class Net:
    def __init__(self, loop):
        self.loop, self.sent, self.mint = loop, [], None
        self.send_errors, self.failed, self.on_send = {}, [], None
        self.sock = FakeSocket(self)

    def inject(self, data, src, local=LOCAL):
        pktinfo = struct.pack("16sI", socket.inet_pton(socket.AF_INET6, local), 0)
        self.mint.datagram_msg_received(data, [(socket.IPPROTO_IPV6, socket.IPV6_PKTINFO, pktinfo)], 0, src)

    def inject_error(self, errno_value, src):
        from aiocoap.util import socknumbers
        ee = struct.pack("IbbbbII", errno_value, 2, 0, 0, 0, 0, 0)
        self.mint.datagram_errqueue_received(
            b"", [(socket.IPPROTO_IPV6, socknumbers.IPV6_RECVERR, ee)], socknumbers.MSG_ERRQUEUE, src)

    def msgs(self, since=0):
        import aiocoap
        return [(t, dest, aiocoap.Message.decode(data)) for (t, dest, data) in self.sent[since:]]

    def show(self, since=0):
        out = []
        for (t, dest, m) in self.msgs(since):
            out.append("t=%-9s to %s  %s %s mid=%d token=%s observe=%s payload=%r" % (
                t, dest[0], m.mtype.name, m.code, m.mid, m.token.hex() or "-", m.opt.observe, m.payload[:40]))
        return out


async def make_context(loop, site=None, server=False):
    import aiocoap
    from aiocoap.transports import udp6
    from aiocoap.util.asyncio.recvmsg import create_recvmsg_datagram_endpoint
    net = Net(loop)

    async def fake_prepare(cls, *, params, log, loop):
        transport, protocol = await create_recvmsg_datagram_endpoint(
            loop, lambda: cls(bind=("::", 0, 0, 0), log=log, loop=loop), sock=net.sock)
        await protocol.ready
        net.mint = protocol
        yield protocol

    orig = udp6.MessageInterfaceUDP6.__dict__["prepare_transport_endpoints"]
    udp6.MessageInterfaceUDP6.prepare_transport_endpoints = classmethod(fake_prepare)
    try:
        if site is not None or server:
            ctx = await aiocoap.Context.create_server_context(site, transports=["udp6"], loop=loop)
        else:
            ctx = await aiocoap.Context.create_client_context(transports=["udp6"], loop=loop)
    finally:
        udp6.MessageInterfaceUDP6.prepare_transport_endpoints = orig
    return ctx, net


def remote_for(net, src):
    from aiocoap.transports.udp6 import UDP6EndpointAddress
    return UDP6EndpointAddress(src, net.mint)


def dgram(mtype, code, mid, token=b"", **opts):
    """encode a datagram with the real codec; opts: uri_path=(..), observe=, payload="""
    import aiocoap
    payload = opts.pop("payload", b"")
    m = aiocoap.Message(code=code, payload=payload, **opts)
    m.mtype, m.mid, m.token = mtype, mid, token
    return m.encode()


def pin(mid=0x1000, token=0x20):
    """deterministic message ids / tokens / time-out draws (lower bound of the interval)"""
    import aiocoap.messagemanager as mm, aiocoap.tokenmanager as tm, random as _r

    class R:
        def __init__(self, v): self.v = v
        def __getattr__(self, n): return getattr(_r, n)
        def randint(self, a, b): return self.v
        def uniform(self, lo, hi): return lo
    mm.random, tm.random = R(mid), R(token)


def run(coro_fn):
    loop = VLoop()
    asyncio.set_event_loop(loop)
    try:
        res = loop.run_until_complete(coro_fn(loop))
        loop.run_until_complete(asyncio.sleep(0))
        return res, loop
    finally:
        pending = [t for t in asyncio.all_tasks(loop) if not t.done()]
        for t in pending:
            t.cancel()
        if pending:
            loop.run_until_complete(asyncio.gather(*pending, return_exceptions=True))
        asyncio.set_event_loop(None)


def fmt_exc(ctxs):
    return ["%s: %r" % (c.get("message"), c.get("exception")) for c in ctxs]
