"""C18: "Whenever a context is shut down ... shutdown itself completes."

The Lean model makes a repeated shutdown a no-op (`shutdown s = if s.shutTok then (s, []) ...`,
MsgLayer/Model.lean:507-508) and the docstring of theorem C18_silent_after lists "a second shutdown" among the
later events that are inert (Properties/C18.lean:48-51).  No generated script ever contains two X events, so the
correspondence check never compares that branch with the code.  The code:

  * a second `await ctx.shutdown()` (explicit call + a clean-up `finally:`, two owners of one context) raises
    AttributeError out of Context.shutdown(): MessageManager.shutdown() iterates `self._active_exchanges.values()`
    and `_active_exchanges` is None since the first shutdown (messagemanager.py:79,83);
  * the same happens when two tasks shut the context down concurrently (signal handler + main task): the second
    caller gets AttributeError while the first is still waiting for the transport to close.

exit 1 = a shutdown call raised instead of completing."""
import asyncio, sys
import dstack as S
import aiocoap
from aiocoap import Message, GET


async def sequential(loop):
    S.pin()
    ctx, net = await S.make_context(loop)
    m = Message(code=GET)
    m.remote = S.remote_for(net, S.peer(1))
    r = ctx.request(m, handle_blockwise=False)
    r.response.add_done_callback(lambda f: f.cancelled() or f.exception())
    await asyncio.sleep(1)
    await ctx.shutdown()
    try:
        await ctx.shutdown()
        return "second shutdown completed"
    except BaseException as e:
        return "second shutdown raised %s: %s" % (type(e).__name__, e)


async def concurrent(loop):
    S.pin()
    ctx, net = await S.make_context(loop)
    res = await asyncio.gather(ctx.shutdown(), ctx.shutdown(), return_exceptions=True)
    return ["completed" if x is None else "raised %s: %s" % (type(x).__name__, x) for x in res]


bad = False
res, loop = S.run(sequential)
print("sequential:", res, "| loop exceptions:", S.fmt_exc(loop.exceptions))
bad |= "raised" in res
res, loop = S.run(concurrent)
print("concurrent:", res, "| loop exceptions:", S.fmt_exc(loop.exceptions))
bad |= any("raised" in x for x in res)
sys.exit(1 if bad else 0)
