"""Replay program for out3/notes.md: inputs on which the UNCHANGED code's
behaviour is questionable with respect to C15.  No sockets.
usage: probe_unchanged.py <repo root>"""
import sys, os, logging, warnings
sys.path.insert(0, os.path.abspath(sys.argv[1]))
sys.path.insert(1, os.path.dirname(os.path.abspath(__file__)))
warnings.simplefilter("ignore")
logging.disable(logging.CRITICAL)
from aiocoap.transports.tcp import TcpConnection
import c15util as u


class FakeTransport:
    def __init__(self):
        self.written = b""
        self.closed = False
    def get_extra_info(self, key, default=None):
        return {"sockname": ("127.0.0.1", 5683), "peername": ("127.0.0.1", 40000)}.get(key, default)
    def write(self, data):
        if not self.closed:
            self.written += data
    def close(self):
        self.closed = True
    def is_closing(self):
        return self.closed


class StubCtx:
    _scheme = "coap+tcp"
    _default_port = 5683
    def __init__(self):
        self.dispatched = []
        self.errors = []
    def _dispatch_incoming(self, conn, msg):
        self.dispatched.append(msg)
    def _dispatch_error(self, conn, exc):
        self.errors.append(exc)


CSM_OK = u.enc_frame(u.CSM, b"", bytes.fromhex("23100000") + b"\x20")


def run(label, stream):
    ctx = StubCtx()
    conn = TcpConnection(ctx, logging.getLogger("probe"), None, is_server=True)
    t = FakeTransport()
    conn.connection_made(t)
    try:
        conn.data_received(stream)
        exc = None
    except Exception as e:
        exc = e
    frames, rest = u.split_frames(t.written)
    print("%-60s sent=%s closed=%s dispatched=%s raised=%r" % (
        label, [u.codestr(c) for c, _, _ in frames[1:]], t.closed,
        [(str(m.code), m.token.hex(), m.payload) for m in ctx.dispatched], exc))


run("GET with payload marker and no payload (10 01 ff)", CSM_OK + bytes.fromhex("1001ff"))
run("Ping with payload marker and no payload", CSM_OK + bytes.fromhex("10e2ff"))
run("empty message with unparsable options (10 00 d0)", CSM_OK + bytes.fromhex("1000d0"))
run("empty message with TKL 9", CSM_OK + bytes.fromhex("0900") + b"x" * 9)
run("Ping ahead of the CSM", bytes.fromhex("01e2aa"))
run("unknown signalling code 7.06", CSM_OK + bytes.fromhex("00e6"))
run("Release with elective option 8 = ff fe", CSM_OK + bytes.fromhex("30e482fffe"))
run("Abort with non-UTF-8 payload", CSM_OK + bytes.fromhex("30e5fffffe"))
run("request code 1.00 (class 1)", CSM_OK + bytes.fromhex("0020"))
run("CSM with payload marker only", bytes.fromhex("10e1ff") + bytes.fromhex("0001"))
run("response with option 65000+ (ext delta)", CSM_OK + bytes.fromhex("3045e0fdcc"))
