"""Replay of three inputs on which the UNCHANGED tree violates C09.

Usage: python notes_replay.py <path-to-repo-root>
Opens no sockets (see wire.py).  Prints what is observed; exit status 1 when
at least one of the three violations shows, 0 when none does.
"""

import sys
import os

sys.path.insert(0, os.path.dirname(os.path.abspath(__file__)))
sys.path.insert(0, os.path.abspath(sys.argv[1]))

import asyncio

import aiocoap
import aiocoap.resource as resource
import aiocoap.error as error
from aiocoap import Message, Code
from aiocoap.numbers.types import CON

from wire import Bench, Addr, quiet, describe


class StrPayloadError(error.RenderableError):
    """An error renderer with an easy mistake: the payload is text"""

    def to_message(self):
        return Message(code=Code.BAD_REQUEST, payload="text, not bytes")


class RaisesIt(resource.Resource):
    async def render_get(self, request):
        raise StrPayloadError()


class Slow(resource.Resource):
    def __init__(self, delay, payload):
        super().__init__()
        self.delay = delay
        self.payload = payload

    async def render_get(self, request):
        await asyncio.sleep(self.delay)
        return Message(payload=self.payload)


class MemoryviewOption(resource.Resource):
    async def render_get(self, request):
        m = Message(payload=b"ok")
        m.opt.etag = memoryview(b"abcd")  # encodes fine, can not be deep-copied
        return m


async def main():
    quiet()
    site = resource.Site()
    site.add_resource(["renderer"], RaisesIt())
    site.add_resource(["slow-ok"], Slow(0.2, b"fine"))
    site.add_resource(["slow-str"], Slow(0.3, "a str payload"))
    site.add_resource(["mv"], MemoryviewOption())
    b = Bench(site)
    violations = 0

    # 1. error renderer whose message can not be serialized
    a = Addr("client-a")
    b.request(a, Code.GET, ["renderer"], b"\x01")
    await b.settle(0.4)
    got = b.responses(a, b"\x01")
    print("1. renderable error whose to_message() has a str payload:")
    print("   responses:", [describe(m) for m in got], "- empty ACKs:", len(b.empty_acks(a)))
    if len(got) != 1:
        violations += 1
        print("   VIOLATION: expected one bare 5.00")

    # 2. unserializable response that waits in the per-remote backlog
    c = Addr("client-c")
    b.request(c, Code.GET, ["slow-ok"], b"\x11")
    b.request(c, Code.GET, ["slow-str"], b"\x12")
    await b.settle(0.6)
    first = b.responses(c, b"\x11")[0]  # separate CON, not acknowledged so far
    try:
        b.ack(c, first.mid)
        print("2. ACK processed")
    except Exception as e:
        print("2. processing the client's ACK raised into the transport: %r" % e)
    await b.settle(0.4)
    got = b.responses(c, b"\x12")
    print("   responses to the request whose handler returned a str payload:",
          [describe(m) for m in got])
    if len(got) != 1:
        violations += 1
        print("   VIOLATION: expected one bare 5.00")

    # 3. response that encodes but can not be copied: two responses
    d = Addr("client-d")
    b.request(d, Code.GET, ["mv"], b"\x21")
    await b.settle(0.3)
    got = b.responses(d, b"\x21")
    print("3. response with a memoryview as ETag value:")
    print("   responses:", [describe(m) for m in got])
    if len(got) != 1:
        violations += 1
        print("   VIOLATION: expected exactly one response")

    await b.shutdown()
    return 1 if violations else 0


sys.exit(asyncio.run(main()))
