"""Socket-free test bench: a server Context with the real TokenManager and
MessageManager on top of a message interface that records what is put "on the
wire" (every message is really encoded to bytes and decoded again).

No sockets are opened; time is the real event loop clock."""

import asyncio
import logging

import aiocoap
from aiocoap import interfaces, Message
from aiocoap.protocol import Context
from aiocoap.tokenmanager import TokenManager
from aiocoap.messagemanager import MessageManager
from aiocoap.numbers.types import CON, NON, ACK, RST
from aiocoap.numbers.codes import Code


class Addr(interfaces.EndpointAddress):
    scheme = "coap"
    is_multicast = False
    is_multicast_locally = False

    def __init__(self, name):
        self.name = name

    def __eq__(self, other):
        return isinstance(other, Addr) and other.name == self.name

    def __hash__(self):
        return hash(self.name)

    def __repr__(self):
        return "<Addr %s>" % self.name

    hostinfo = property(lambda self: self.name)
    hostinfo_local = "server.invalid"
    uri_base = property(lambda self: "coap://" + self.name)
    uri_base_local = "coap://server.invalid"
    blockwise_key = property(lambda self: self.name)


class Wire(interfaces.MessageInterface):
    def __init__(self):
        self.sent = []  # list of (remote, decoded message)
        self.send_errors = []

    async def shutdown(self):
        pass

    def send(self, message):
        raw = message.encode()
        self.sent.append((message.remote, Message.decode(raw, message.remote)))

    async def recognize_remote(self, remote):
        return isinstance(remote, Addr)

    async def determine_remote(self, message):
        return None


class Bench:
    def __init__(self, site):
        self.ctx = Context(serversite=site, loggername="coap-demo")
        self.tman = TokenManager(self.ctx)
        self.mman = MessageManager(self.tman)
        self.wire = Wire()
        self.mman.message_interface = self.wire
        self.tman.token_interface = self.mman
        self.ctx.request_interfaces.append(self.tman)
        self._mid = 0x1000

    def next_mid(self):
        self._mid += 1
        return self._mid

    def inject(self, msg, remote):
        """Encode the message like a client would, decode it like the
        transport would, and hand it to the message manager"""
        raw = msg.encode()
        incoming = Message.decode(raw, remote)
        self.mman.dispatch_message(incoming)

    def request(self, remote, code, path, token, mtype=CON, mid=None, **opts):
        m = Message(code=code, uri_path=tuple(path), **opts)
        m.mtype = mtype
        m.mid = mid if mid is not None else self.next_mid()
        m.token = token
        self.inject(m, remote)
        return m.mid

    def ack(self, remote, mid):
        m = Message(code=Code.EMPTY)
        m.mtype = ACK
        m.mid = mid
        self.inject(m, remote)

    def responses(self, remote=None, token=None):
        return [
            m
            for (r, m) in self.wire.sent
            if m.code.is_response()
            and (remote is None or r == remote)
            and (token is None or m.token == token)
        ]

    def empty_acks(self, remote=None):
        return [
            m
            for (r, m) in self.wire.sent
            if m.code is Code.EMPTY and m.mtype is ACK and (remote is None or r == remote)
        ]

    async def settle(self, seconds=0.05):
        await asyncio.sleep(seconds)

    async def shutdown(self):
        await self.ctx.shutdown()


def quiet():
    logging.basicConfig(level=logging.CRITICAL)
    logging.getLogger("coap-demo").setLevel(logging.CRITICAL)
    logging.getLogger("asyncio").setLevel(logging.CRITICAL)


def describe(m):
    return "%s %s token=%s payload=%r" % (m.mtype, m.code, m.token.hex(), m.payload)
