"""Replay for out3/notes.md: on the UNCHANGED tree, a held-back confirmable
message whose transmission raises when its turn comes is forgotten.

usage: notes_replay.py <path-to-repo-root>     (opens no sockets)
exit status 0 = nothing wrong observed, 1 = the finding reproduces
"""

import asyncio
import logging
import os
import sys
import warnings

sys.path.insert(0, os.path.abspath(sys.argv[1]))
sys.path.insert(1, os.path.dirname(os.path.abspath(__file__)))
warnings.simplefilter("ignore", DeprecationWarning)

from c14lib import Stack, FastTuning, settle, outcome  # noqa: E402

logging.basicConfig(level=logging.CRITICAL)


async def main():
    s = Stack()
    A = s.remote("2001:db8::1")

    r1 = s.request(A, "one", tuning=FastTuning())
    await settle()
    r2 = s.request(A, "two", tuning=FastTuning())
    r3 = s.request(A, "three", tuning=FastTuning())
    await settle()
    print("on the wire:", s.paths_sent(A))

    s.mint.fail_send = lambda m: (
        OSError("session to peer is gone")
        if m.code.is_request() and m.opt.uri_path == ("two",)
        else None
    )

    escaped = None
    try:
        # A answers "one" with a piggy-backed 2.05
        s.piggyback(s.last_sent("one"), b"answer-one")
    except Exception as e:
        escaped = e
    print("exception escaping dispatch_message:", repr(escaped))
    await settle()
    # "three" is released correctly; acknowledge it so that nothing times out
    s.piggyback(s.last_sent("three"), b"answer-three")
    await asyncio.sleep(1.0)

    o1, o2, o3 = [await outcome(r, 0.05) for r in (r1, r2, r3)]
    print("on the wire:", s.paths_sent(A))
    print("request one  :", o1, "   <- its response was in the datagram that was being processed")
    print("request two  :", o2, "   <- never transmitted, never failed")
    print("request three:", o3)
    print(
        "message layer: exchanges=%r backlogs=%r; token layer still waits for %d request(s)"
        % (
            list(s.mman._active_exchanges),
            dict(s.mman._backlogs),
            len(s.tman.outgoing_requests),
        )
    )
    bad = []
    if o2 == "pending" and "two" not in s.paths_sent(A):
        bad.append("'two' forgotten (neither transmitted nor failed)")
    if o1 == "pending":
        bad.append("piggy-backed response to 'one' lost, request pending for ever")
    for r in (r1, r2, r3):
        r.response.cancel()
    await s.shutdown()
    for b in bad:
        print("FINDING:", b)
    return 1 if bad else 0


if __name__ == "__main__":
    sys.exit(asyncio.run(main()))
