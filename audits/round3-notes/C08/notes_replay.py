#!/usr/bin/env python3
"""Replay for out3/notes.md (unchanged tree).  Usage: notes_replay.py <repo-root>"""
import asyncio, os, sys, logging

root = os.path.abspath(sys.argv[1])
sys.path.insert(0, root)
sys.path.insert(1, os.path.dirname(os.path.abspath(__file__)))
import aiocoap, aiocoap.resource as resource
from aiocoap.numbers.types import CON, NON, ACK, RST
from aiocoap.numbers.codes import CONTENT
import fakenet

logging.basicConfig(level=logging.ERROR)


class Res(resource.ObservableResource):
    def __init__(self):
        super().__init__()
        self.state = b"v0"
        self.counts = []

    def update_observation_count(self, n):
        self.counts.append(n)

    async def render_get(self, request):
        return aiocoap.Message(code=CONTENT, payload=self.state)


async def case1():
    print("== case 1: transport error reported from inside send() of a notification")
    res = Res()
    site = resource.Site()
    site.add_resource(["r"], res)
    ctx, net = await fakenet.make_server(site)
    a = fakenet.FakeAddress("a")
    net.deliver(fakenet.get_observe(["r"], b"\x01", 1, NON), a)
    await fakenet.settle()

    def failing(m):
        if m.payload == b"v1":
            net.mman.dispatch_error(OSError(111, "Connection refused"), m.remote)

    net.send_hook = failing
    res.state = b"v1"
    res.updated_state()
    await fakenet.settle(50)
    net.send_hook = None
    res.state = b"v2"
    res.updated_state()
    await fakenet.settle(50)
    print("counts:", res.counts, "sent:", [fakenet.describe(m) for m in net.sent])
    await ctx.shutdown()


async def case2():
    print("== case 2: ACK then RST for the same CON notification")
    res = Res()
    site = resource.Site()
    site.add_resource(["r"], res)
    ctx, net = await fakenet.make_server(site)
    a = fakenet.FakeAddress("a")
    net.deliver(fakenet.get_observe(["r"], b"\x01", 1, CON), a)
    await fakenet.settle()
    res.state = b"v1"
    res.updated_state()
    await fakenet.settle(50)
    n1 = [m for m in net.sent if m.mtype is CON][0]
    net.deliver(fakenet.empty(ACK, n1.mid), a)
    net.deliver(fakenet.empty(RST, n1.mid), a)
    await fakenet.settle(50)
    res.state = b"v2"
    res.updated_state()
    await fakenet.settle(50)
    print("counts:", res.counts, "sent:", [fakenet.describe(m) for m in net.sent])
    await ctx.shutdown()


asyncio.run(case1())
asyncio.run(case2())
