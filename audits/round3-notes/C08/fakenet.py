"""Helper for the C08 round-3 demos: an aiocoap server Context whose
MessageManager/TokenManager stack sits on an in-memory message interface.

No sockets are opened.  Datagrams "from the network" are fed in with
``net.deliver(bytes, addr)`` (they go through Message.decode and
MessageManager.dispatch_message just like in the UDP transports), and
everything the stack sends is recorded (encoded and decoded again) in
``net.sent``.
"""

import asyncio

import aiocoap
from aiocoap import interfaces
from aiocoap.message import Message
from aiocoap.numbers.types import CON, NON, ACK, RST
from aiocoap.numbers.codes import GET, EMPTY


class FakeAddress(interfaces.EndpointAddress):
    scheme = "coap"
    is_multicast = False
    is_multicast_locally = False

    def __init__(self, name):
        self.name = name

    def __hash__(self):
        return hash(self.name)

    def __eq__(self, other):
        return isinstance(other, FakeAddress) and self.name == other.name

    def __repr__(self):
        return "<FakeAddress %s>" % self.name

    hostinfo = property(lambda self: self.name)
    hostinfo_local = "server.invalid"
    uri_base = property(lambda self: "coap://" + self.name)
    uri_base_local = "coap://server.invalid"

    def as_response_address(self):
        return self

    @property
    def blockwise_key(self):
        return self.name


class FakeMessageInterface(interfaces.MessageInterface):
    def __init__(self, mman):
        self.mman = mman
        self.sent = []  # decoded copies of everything sent, in order
        self.send_hook = None

    async def shutdown(self):
        pass

    def send(self, message):
        raw = message.encode()
        m = Message.decode(raw, message.remote)
        self.sent.append(m)
        if self.send_hook is not None:
            self.send_hook(m)

    async def recognize_remote(self, remote):
        return isinstance(remote, FakeAddress)

    async def determine_remote(self, message):
        return None

    # test side

    def deliver(self, message, addr):
        """Feed a message (built by the test) into the stack as if received
        from addr."""
        raw = message.encode()
        m = Message.decode(raw, addr)
        self.mman.dispatch_message(m)

    def sent_to(self, addr, token=None):
        return [
            m
            for m in self.sent
            if m.remote == addr and (token is None or m.token == token)
        ]


async def make_server(site):
    ctx = aiocoap.Context(serversite=site, loggername="coap-demo")
    holder = {}

    async def construct(mman):
        holder["mi"] = FakeMessageInterface(mman)
        return holder["mi"]

    await ctx._append_tokenmanaged_messagemanaged_transport(construct)
    return ctx, holder["mi"]


def get_observe(path, token, mid, mtype=CON, observe=0):
    m = Message(code=GET, uri_path=tuple(path))
    if observe is not None:
        m.opt.observe = observe
    m.mtype = mtype
    m.mid = mid
    m.token = token
    return m


def empty(mtype, mid):
    m = Message(code=EMPTY)
    m.mtype = mtype
    m.mid = mid
    m.token = b""
    return m


async def settle(n=20):
    for _ in range(n):
        await asyncio.sleep(0)


def describe(m):
    return "%s %s mid=%d token=%s observe=%r payload=%r" % (
        m.mtype.name if m.mtype is not None else None,
        m.code,
        m.mid,
        m.token.hex(),
        m.opt.observe,
        m.payload,
    )
