#!/usr/bin/env python3
"""Replay for out3/notes.md: on the UNCHANGED tree, a symbolic link inside the
root that points outside of it is followed by GET (file content and directory
listing). Usage: replay_symlink.py <path-to-repo-root>; no sockets.
Exit status 1 if content from outside the root was served."""
import asyncio, logging, os, shutil, sys, tempfile
from pathlib import Path

sys.path.insert(0, os.path.abspath(sys.argv[1]))
from aiocoap import Message
from aiocoap.message import Direction
from aiocoap.numbers.codes import GET
from aiocoap.cli.fileserver import FileServer


async def main():
    base = Path(tempfile.mkdtemp(prefix="c19-symlink-"))
    try:
        (base / "secret.txt").write_bytes(b"outside the root\n")
        (base / "private").mkdir()
        (base / "private" / "key").write_bytes(b"k")
        root = base / "served"
        root.mkdir()
        (root / "link").symlink_to("../secret.txt")
        (root / "dirlink").symlink_to("../private")
        server = FileServer(root, logging.getLogger("replay"), write=False)
        leaked = 0
        for uri_path in (("link",), ("dirlink", ""), ("dirlink", "key")):
            msg = Message(code=GET, uri_path=uri_path)
            msg.direction = Direction.INCOMING
            try:
                r = await server.render(msg)
                print(uri_path, "->", r.code, r.payload)
                leaked += r.code.is_successful()
            except Exception as e:
                print(uri_path, "->", type(e).__name__, e)
        return 1 if leaked else 0
    finally:
        shutil.rmtree(base, ignore_errors=True)


sys.exit(asyncio.run(main()))
