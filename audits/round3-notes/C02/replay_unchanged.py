#!/usr/bin/env python3
"""Replays for notes.md (observations on the UNCHANGED code).

Run as:  python replay_unchanged.py <path-to-repo-root>      (about 8 s)
Opens UDP sockets on ::1 only.  Prints what it observes; exit status 1 if any
of the observations below shows.

1. A response datagram whose header announces a token length the datagram does
   not contain (TKL 9..15 are reserved and "MUST be processed as a message
   format error"; TKL <= 8 but datagram shorter than 4+TKL is malformed as
   well) is parsed with whatever bytes are there as its token and delivered to
   the request carrying those bytes.
2. A NON request that the peer rejects with a matching RST never completes.
3. One Message object handed to Context.request() twice while the first
   request is outstanding (same remote): the second send overwrites token and
   message ID on the shared object, the retransmission timer of the first
   request then looks its exchange up under the new message ID and dies with
   KeyError in the event loop.  Nothing is ever retransmitted, the exchange
   never times out, both requests (and every later CON request to that remote,
   queued behind the zombie exchange) stay pending until the context is shut
   down.
"""

import asyncio
import logging
import os
import struct
import sys

sys.path.insert(0, os.path.abspath(sys.argv[1]))
sys.path.insert(1, os.path.dirname(os.path.abspath(__file__)))

import aiocoap  # noqa: E402
from aiocoap import Message, GET, CONTENT  # noqa: E402
from aiocoap.numbers.types import ACK, CON, NON, RST  # noqa: E402, F401

from fakepeer import FakePeer, path_of, outcome  # noqa: E402


def describe(o):
    kind, value = o
    if kind == "response":
        return "response %s %r" % (value.code, value.payload)
    if kind == "error":
        return "error %r" % (value,)
    return "STILL PENDING"


async def main():
    print("aiocoap imported from", os.path.dirname(aiocoap.__file__))
    found = []
    ctx = await aiocoap.Context.create_client_context()

    # ------------------------------------------------------------ 1
    def bad_tkl(peer, msg, addr):
        if msg.code.is_request():
            # NON 2.05, TKL nibble = 9 (reserved), followed by nothing but the
            # bytes of the request's token: no options, no payload
            tkl = 9
            data = struct.pack("!BBH", (1 << 6) | (NON << 4) | tkl, 0x45, 0x7777)
            data += msg.token
            peer.send_raw(addr, data)

    p = FakePeer(bad_tkl)
    o = await outcome(
        ctx.request(
            Message(code=GET, uri="coap://[::1]:%d/x" % p.port),
            handle_blockwise=False,
        ).response,
        1.5,
    )
    print("1. request answered by a datagram with TKL=9 and a 2-byte token:", describe(o))
    if o[0] == "response":
        found.append("1: malformed datagram (TKL 9) delivered as the response")
    p.close()

    # ------------------------------------------------------------ 2
    def reject(peer, msg, addr):
        if msg.code.is_request():
            peer.send(addr, mtype=RST, code=aiocoap.numbers.codes.EMPTY, mid=msg.mid)

    p = FakePeer(reject)
    o = await outcome(
        ctx.request(
            Message(
                code=GET,
                uri="coap://[::1]:%d/x" % p.port,
                transport_tuning=aiocoap.Unreliable,
            )
        ).response,
        2,
    )
    print("2. NON request answered with a matching RST:", describe(o))
    if o[0] == "pending":
        found.append("2: NON request rejected with RST never completes")
    p.close()

    # ------------------------------------------------------------ 3
    p = FakePeer(lambda *a: None)  # a peer that is silent (all datagrams lost)
    shared = Message(code=GET, uri="coap://[::1]:%d/x" % p.port)
    r1 = ctx.request(shared)
    await asyncio.sleep(0.2)
    r2 = ctx.request(shared)
    # ACK_TIMEOUT * ACK_RANDOM_FACTOR = 3 s: the first retransmission is due
    await asyncio.sleep(3.5)
    wire = [(str(m.mtype), m.mid, m.token.hex()) for m, _ in p.received]
    print("3. datagrams seen within 3.7 s for two requests sharing one Message object:")
    for w in wire:
        print("     %s mid=%d token=%s" % w)
    mm = ctx.request_interfaces[0].token_interface
    print("     exchanges:", list(mm._active_exchanges), "backlog lengths:",
          [len(v) for v in mm._backlogs.values()])
    if len(wire) < 2:
        found.append(
            "3: no retransmission of the first request (its timer died with KeyError, see "
            "the asyncio error log); the exchange is stuck and with it the remote"
        )
    r1.response.cancel()
    r2.response.cancel()
    p.close()

    await ctx.shutdown()
    print()
    for f in found:
        print("OBSERVED", f)
    return 1 if found else 0


if __name__ == "__main__":
    logging.basicConfig(level=logging.ERROR)
    sys.exit(asyncio.run(main()))
