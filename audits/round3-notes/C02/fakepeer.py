"""Helper for the C02 demos: a scripted CoAP peer on a plain UDP socket bound to
[::1]:<ephemeral>, driven from the asyncio loop of the demo (no threads).

Opens UDP sockets on ::1 only.  aiocoap's own codec is used to parse and build
the datagrams, nothing else of the library is involved on the peer's side."""

import asyncio
import socket

from aiocoap import Message
from aiocoap.numbers.codes import EMPTY
from aiocoap.numbers.types import ACK, CON, NON, RST  # noqa: F401


class FakePeer:
    def __init__(self, on_message):
        self.loop = asyncio.get_running_loop()
        self.sock = socket.socket(socket.AF_INET6, socket.SOCK_DGRAM)
        self.sock.bind(("::1", 0))
        self.sock.setblocking(False)
        self.port = self.sock.getsockname()[1]
        self.on_message = on_message
        #: every datagram received, as (Message, address)
        self.received = []
        self._mid = 0x4000
        self.loop.add_reader(self.sock.fileno(), self._readable)
        self.closed = False

    def _readable(self):
        while True:
            try:
                data, addr = self.sock.recvfrom(4096)
            except (BlockingIOError, InterruptedError):
                return
            msg = Message.decode(data)
            self.received.append((msg, addr))
            self.on_message(self, msg, addr)

    def next_mid(self):
        self._mid = (self._mid + 1) & 0xFFFF
        return self._mid

    def send(self, addr, *, mtype, code, mid, token=b"", payload=b""):
        m = Message(code=code, payload=payload)
        m.mtype = mtype
        m.mid = mid
        m.token = token
        self.sock.sendto(m.encode(), addr)

    def send_raw(self, addr, data):
        self.sock.sendto(data, addr)

    def empty_ack(self, addr, mid):
        self.send(addr, mtype=ACK, code=EMPTY, mid=mid)

    def later(self, delay, fn, *args, **kwargs):
        def run():
            if not self.closed:
                fn(*args, **kwargs)

        self.loop.call_later(delay, run)

    def close(self):
        if not self.closed:
            self.closed = True
            self.loop.remove_reader(self.sock.fileno())
            self.sock.close()


def path_of(msg):
    return "/" + "/".join(msg.opt.uri_path)


async def outcome(awaitable, timeout):
    """Wait for a request's response; return ('response', msg), ('error', exc)
    or ('pending', None) when nothing happened within the timeout."""
    try:
        return ("response", await asyncio.wait_for(asyncio.shield(awaitable), timeout))
    except asyncio.TimeoutError:
        return ("pending", None)
    except BaseException as e:  # noqa: BLE001 -- reporting whatever comes
        return ("error", e)
