#!/usr/bin/env python3
"""Replay for notes.md item 2 (UNCHANGED code, needs a fault): if the one
write that is to replace the persisted replay window by "unknown" fails
(disk full, read-only remount, ...), the context nevertheless considers the
file dealt with; everything accepted afterwards is accepted again after a
crash.

Run as:  /venv/bin/python notes_replay_store_failure.py <repo-root>
Exit 0 = no request accepted twice, 1 = replays accepted after the restart.
"""
import errno
import os
import sys
import tempfile

import c12_common as c

c.setup(sys.argv[1])
from aiocoap import error  # noqa: E402

base = tempfile.mkdtemp(prefix="c12-notes2-")
clidir, srvdir = os.path.join(base, "cli"), os.path.join(base, "srv")
c.write_context_dir(clidir, b"\x01", b"\x02")
c.write_context_dir(srvdir, b"\x02", b"\x01")
cli = c.open_context(clidir)
messages = {n: c.make_request(cli, seqno=n)[0] for n in range(8)}

# run 1: accepts 0..2, orderly shutdown -> sequence.json holds the window
srv = c.open_context(srvdir)
for n in range(3):
    srv.unprotect(c.as_incoming(messages[n]))
c.close_context(srv)
print("after run 1:", open(os.path.join(srvdir, "sequence.json")).read())

# run 2: the first strike-out wants to write "unknown"; that write fails once
srv = c.open_context(srvdir)
real_replace = os.replace


def failing_replace(src, dst, **kw):
    os.replace = real_replace
    os.unlink(src)
    raise OSError(errno.ENOSPC, "No space left on device (injected)")


os.replace = failing_replace
try:
    srv.unprotect(c.as_incoming(messages[3]))
    print("#3 accepted")
except OSError as e:
    print("#3: unprotect raised %r (request not delivered)" % (e,))
os.replace = real_replace
for n in (4, 5, 6):
    srv.unprotect(c.as_incoming(messages[n]))
    print("#%d accepted in run 2" % n)
print("file while run 2 is alive:", open(os.path.join(srvdir, "sequence.json")).read())
print("replay_window_persisted =", srv.replay_window_persisted)
c.abandon_context(srv)  # crash

# run 3
srv = c.open_context(srvdir)
print("run 3 starts with window", srv.recipient_replay_window.persist())
twice = []
for n in (4, 5, 6):
    try:
        srv.unprotect(c.as_incoming(messages[n]))
    except (error.Error, ValueError) as e:
        print("replay of #%d: %r" % (n, e))
    else:
        twice.append(n)
        print("replay of #%d: ACCEPTED A SECOND TIME" % n)
c.abandon_context(srv)
c.abandon_context(cli)
sys.exit(1 if twice else 0)
