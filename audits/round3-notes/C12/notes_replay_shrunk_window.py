#!/usr/bin/env python3
"""Replay for notes.md item 1 (UNCHANGED code): after the "window" setting of
a FilesystemSecurityContext was reduced between two orderly runs, the only
thing that keeps replays of the upper part of the old window from being
accepted is an `assert` statement in ReplayWindow.strike_out().

Run as:   /venv/bin/python    notes_replay_shrunk_window.py <repo-root>   -> exit 0, replays fail with AssertionError
          /venv/bin/python -O notes_replay_shrunk_window.py <repo-root>   -> exit 1, replays are accepted
"""
import json
import os
import sys
import tempfile

import c12_common as c

c.setup(sys.argv[1])
from aiocoap import error  # noqa: E402

base = tempfile.mkdtemp(prefix="c12-notes1-")
clidir, srvdir = os.path.join(base, "cli"), os.path.join(base, "srv")
c.write_context_dir(clidir, b"\x01", b"\x02")
c.write_context_dir(srvdir, b"\x02", b"\x01", window=32)
cli = c.open_context(clidir)
srv = c.open_context(srvdir)
messages = {}
for n in range(21):
    messages[n], _ = c.make_request(cli, seqno=n)
    srv.unprotect(c.as_incoming(messages[n]))
c.close_context(srv)

settings = json.load(open(os.path.join(srvdir, "settings.json")))
settings["window"] = 8
json.dump(settings, open(os.path.join(srvdir, "settings.json"), "w"))

srv = c.open_context(srvdir)
print("assertions are", "ENABLED" if __debug__ else "DISABLED (-O)")
print("window loaded:", srv.recipient_replay_window.persist(), "size", srv.recipient_replay_window._size)
accepted = []
for n in (15, 20, 9):
    before = srv.recipient_replay_window.persist()
    try:
        srv.unprotect(c.as_incoming(messages[n]))
    except (error.Error, ValueError, AssertionError) as e:
        print("replay of #%d: %r; window %s -> %s" % (n, e, before, srv.recipient_replay_window.persist()))
    else:
        accepted.append(n)
        print("replay of #%d: ACCEPTED A SECOND TIME; window %s -> %s" % (n, before, srv.recipient_replay_window.persist()))
c.abandon_context(srv)
c.abandon_context(cli)
sys.exit(1 if accepted else 0)
