#!/usr/bin/env python3
"""Replay for out3/notes.md: the UNCHANGED FilesystemSecurityContext after a
*failed* (not crashed) store of sequence.json.

usage: replay_notes.py <path-to-repo-root>
exit 1 = the behaviour described in notes.md was reproduced, 0 = not reproduced
"""

import errno
import os
import sys
import tempfile

repo = os.path.abspath(sys.argv[1])
sys.path.insert(0, repo)
sys.path.insert(1, os.path.dirname(os.path.abspath(__file__)))

import c13_harness as H  # noqa: E402
from c13_harness import oscore  # noqa: E402
from aiocoap import Message, GET  # noqa: E402

H.banner(repo)
reproduced = []


def piv_of(outer):
    opt = outer.opt.oscore
    return int.from_bytes(opt[1 : 1 + (opt[0] & 7)], "big")


class DiskFullOnce:
    """tempfile.mkstemp fails once with ENOSPC."""

    def __enter__(self):
        self.real = tempfile.mkstemp
        self.fired = False

        def mkstemp(*a, **k):
            if not self.fired:
                self.fired = True
                raise OSError(errno.ENOSPC, "No space left on device")
            return self.real(*a, **k)

        tempfile.mkstemp = mkstemp
        return self

    def __exit__(self, *exc):
        tempfile.mkstemp = self.real


with tempfile.TemporaryDirectory() as base:
    # ---- N1: sender side
    tdir = H.make_context_dir(os.path.join(base, "n1"), "01", "02")
    ctx = H.load(tdir)
    issued = []
    for _ in range(10):  # numbers 0..9; sequence.json says next-to-send = 10
        issued.append(piv_of(ctx.protect(Message(code=GET, uri_path=["s"]))[0]))
    with DiskFullOnce():
        try:
            ctx.protect(Message(code=GET, uri_path=["s"]))  # wants to reserve 10..29
            print("N1: unexpected: protect succeeded")
        except OSError as e:
            print("N1: protect failed as the disk is full:", e)
    print("N1: in memory persisted=%d, on disk %s" % (ctx.sequence_number_persisted, H.read_sequence_file(tdir)))
    for _ in range(5):  # the disk has space again; no store is attempted
        issued.append(piv_of(ctx.protect(Message(code=GET, uri_path=["s"]))[0]))
    print("N1: issued so far:", issued, "- on disk", H.read_sequence_file(tdir))
    H.crash(ctx)
    ctx = H.load(tdir)
    again = [piv_of(ctx.protect(Message(code=GET, uri_path=["s"]))[0]) for _ in range(6)]
    dup = sorted(set(again) & set(issued))
    print("N1: after crash and reload issued:", again, "-> duplicates:", dup)
    if dup:
        reproduced.append("N1")
    H.clean_stop(ctx)

    # ---- N2: recipient side
    peer = H.load(H.make_context_dir(os.path.join(base, "peer"), "02", "01"))
    raws = []
    for i in range(3):
        outer, _ = peer.protect(Message(code=GET, uri_path=["r"], payload=b"%d" % i))
        raws.append(H.wire(outer)[1])
    tdir = H.make_context_dir(os.path.join(base, "n2"), "01", "02")
    ctx = H.load(tdir)
    ctx.unprotect(H.unwire(raws[0]))
    H.clean_stop(ctx)  # sequence.json now holds a definite window {0}
    ctx = H.load(tdir)
    with DiskFullOnce():
        try:
            ctx.unprotect(H.unwire(raws[1]))
            print("N2: unexpected: unprotect succeeded")
        except OSError as e:
            print("N2: unprotect of request 1 failed as the disk is full:", e)
    ctx.unprotect(H.unwire(raws[2]))
    print("N2: request 2 accepted; on disk:", H.read_sequence_file(tdir))
    H.crash(ctx)
    ctx = H.load(tdir)
    try:
        ctx.unprotect(H.unwire(raws[2]))
        print("N2: after crash and reload request 2 is accepted AGAIN, no Echo")
        reproduced.append("N2")
    except (oscore.ReplayError, oscore.ReplayErrorWithEcho) as e:
        print("N2: after crash and reload request 2 is refused:", type(e).__name__)
    H.clean_stop(ctx)
    H.clean_stop(peer)

print("reproduced:", reproduced or "nothing")
sys.exit(1 if reproduced else 0)
