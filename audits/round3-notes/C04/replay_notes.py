"""Replay for out3/notes.md: on the UNCHANGED tree, the acknowledgement kept
for a request is replaced by a Reset that the server sends to the same peer
under the same message ID for another reason (CoAP ping, or a confirmable
response nobody waits for).  A later copy of the request is then answered
with the Reset instead of a repetition of the ACK.

Run: /venv/bin/python replay_notes.py <repo-root>   (no sockets; exit 1 = shows)
"""

import asyncio
import sys

import c04harness as H

H.setup(sys.argv)

import aiocoap  # noqa: E402
import aiocoap.resource as resource  # noqa: E402


class Counter(resource.Resource):
    def __init__(self):
        super().__init__()
        self.calls = 0

    async def render_get(self, request):
        self.calls += 1
        return aiocoap.Message(payload=b"call %d" % self.calls)


def run(name, intruder):
    loop = H.VLoop()
    asyncio.set_event_loop(loop)
    site = resource.Site()
    res = Counter()
    site.add_resource(["c"], res)
    ctx, mman, mint, wire = H.build_server(loop, site)
    peer = ("2001:db8::7", 40001)
    req = H.request_bytes(0, 0x1234, b"\x01", "c")
    loop.call_at(1.0, H.inject, mman, mint, req, peer)
    loop.call_at(2.0, H.inject, mman, mint, intruder, peer)
    loop.call_at(3.0, H.inject, mman, mint, req, peer)
    H.run_until(loop, 10)
    print(name)
    for t, _a, d in wire.sent:
        print("   t=%4.1f  %s  %s" % (t, H.describe(d), d.hex()))
    print("   handler calls:", res.calls)
    first = [d for t, _a, d in wire.sent if t == 1.0]
    copy = [d for t, _a, d in wire.sent if t == 3.0]
    loop.close()
    return first == copy


ok = run("CON request 0x1234, CoAP ping 0x1234, copy of the request", bytes.fromhex("40001234"))
ok = run(
    "CON request 0x1234, CON 2.05 with unknown token 0x1234, copy of the request",
    bytes.fromhex("42451234beef"),
) and ok
print("copy re-answered identically" if ok else "copy NOT re-answered identically")
sys.exit(0 if ok else 1)
