#!/usr/bin/env python3
"""Replay of the observations in notes.md on the UNCHANGED code.

Run as ``notes_replay.py <repo-root>`` inside a network namespace with lo up
(opens UDP sockets on ::1 only).  Prints one block per note; exit status is
the number of notes that reproduced (so non-zero = the unchanged code shows
the behaviour described in notes.md).
"""

import sys

sys.path.insert(0, sys.argv[1] if len(sys.argv) > 1 else ".")

import asyncio  # noqa: E402
import logging  # noqa: E402
import time  # noqa: E402
import warnings  # noqa: E402

import aiocoap  # noqa: E402
import aiocoap.error  # noqa: E402
import aiocoap.resource as resource  # noqa: E402
from aiocoap.numbers.constants import SHUTDOWN_TIMEOUT  # noqa: E402

warnings.simplefilter("ignore")
PORT = 56851


class Obs(resource.ObservableResource):
    async def render_get(self, request):
        return aiocoap.Message(payload=b"state")


async def note1_resolution_in_progress():
    """A request whose name resolution is still going on when the context is
    shut down is not failed by the shutdown; it stays pending until the
    resolver comes back (here: 5 s, longer than SHUTDOWN_TIMEOUT)."""
    loop = asyncio.get_running_loop()
    client = await aiocoap.Context.create_client_context(transports=["udp6"])

    real_getaddrinfo = loop.getaddrinfo

    async def slow_getaddrinfo(host, port, **kwargs):
        # stands for a resolver that takes its time (DNS time-outs are
        # typically 5 s per attempt)
        await asyncio.sleep(5)
        return await real_getaddrinfo("::1", port, **kwargs)

    loop.getaddrinfo = slow_getaddrinfo
    try:
        req = client.request(
            aiocoap.Message(code=aiocoap.GET, uri="coap://slow.example/x")
        )
        await asyncio.sleep(0.1)
        t0 = time.monotonic()
        await client.shutdown()
        t_shutdown = time.monotonic() - t0
        try:
            await asyncio.wait_for(asyncio.shield(req.response), SHUTDOWN_TIMEOUT)
            outcome = "a response"
        except asyncio.TimeoutError:
            outcome = None
        except Exception as e:
            outcome = repr(e)
        waited = time.monotonic() - t0
        if outcome is None:
            try:
                await asyncio.wait_for(req.response, 10)
                late = "a response"
            except Exception as e:
                late = repr(e)
            print(
                "note 1 REPRODUCED: shutdown returned after %.2f s, but the request was "
                "still pending %.1f s (> SHUTDOWN_TIMEOUT) later; it ended with %s only "
                "%.1f s after the shutdown call" % (t_shutdown, waited, late, time.monotonic() - t0)
            )
            return True
        print("note 1 not reproduced: request ended with %s within %.2f s" % (outcome, waited))
        return False
    finally:
        loop.getaddrinfo = real_getaddrinfo


async def note2_unresolvable_after_shutdown():
    """A request submitted after shutdown for a host name that does not
    resolve fails with ResolutionError (after consulting the resolver), not
    with LibraryShutdown."""
    client = await aiocoap.Context.create_client_context(transports=["udp6"])
    await client.shutdown()
    try:
        await asyncio.wait_for(
            client.request(
                aiocoap.Message(code=aiocoap.GET, uri="coap://does-not-exist.invalid/x")
            ).response,
            20,
        )
        print("note 2 not reproduced: got a response?!")
        return False
    except aiocoap.error.LibraryShutdown:
        print("note 2 not reproduced: LibraryShutdown")
        return False
    except Exception as e:
        print("note 2 REPRODUCED: request after shutdown failed with %r, not LibraryShutdown" % (e,))
        return True


async def note3_errback_cancels():
    """An errback that cancels its observation (register_errback is
    deprecated but supported) makes ClientObservation.error() trip over its own
    cancel(): AssertionError flies out of TokenManager.shutdown, the sweep is
    abandoned, the socket stays open."""
    site = resource.Site()
    site.add_resource(["obs"], Obs())
    server = await aiocoap.Context.create_server_context(
        site, bind=("::1", PORT), transports=["udp6"]
    )
    client = await aiocoap.Context.create_client_context(transports=["udp6"])
    req = client.request(
        aiocoap.Message(code=aiocoap.GET, uri="coap://[::1]:%d/obs" % PORT, observe=0),
        handle_blockwise=False,
    )
    await req.response
    req.observation.register_errback(lambda e: req.observation.cancel())
    sock = client.request_interfaces[0].token_interface.message_interface.transport.get_extra_info(
        "socket"
    )
    reproduced = False
    try:
        await client.shutdown()
        print("note 3 not reproduced: shutdown returned normally")
    except BaseException as e:
        print(
            "note 3 REPRODUCED: Context.shutdown() raised %r; socket still open: %s"
            % (e, sock.fileno() >= 0)
        )
        reproduced = True
        try:
            await client.shutdown()
        except BaseException as e2:
            print("   (second shutdown: %r)" % (e2,))
    await server.shutdown()
    return reproduced


async def note4_no_interfaces():
    """A context without any request interface can not be shut down."""
    ctx = aiocoap.Context()
    try:
        await ctx.shutdown()
        print("note 4 not reproduced")
        return False
    except Exception as e:
        print("note 4 REPRODUCED: shutdown of a context without transports raised %r" % (e,))
        return True


async def main():
    logging.basicConfig(level=logging.CRITICAL)
    print("aiocoap from", aiocoap.__file__)
    n = 0
    for note in (
        note1_resolution_in_progress,
        note2_unresolvable_after_shutdown,
        note3_errback_cancels,
        note4_no_interfaces,
    ):
        try:
            n += bool(await note())
        except BaseException as e:
            print("%s: replay itself failed with %r" % (note.__name__, e))
    return n


if __name__ == "__main__":
    sys.exit(asyncio.run(main()))
