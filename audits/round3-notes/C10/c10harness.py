"""Helper for the C10 demos: a real aiocoap Context / TokenManager /
MessageManager stack on top of a fake message interface (no sockets at all).

Usage:  sys.path must already contain the repository root first.
"""

import asyncio
import warnings

warnings.simplefilter("ignore", DeprecationWarning)
import logging
import socket

import aiocoap
from aiocoap import Message, Context
from aiocoap.message import Direction
from aiocoap.messagemanager import MessageManager
from aiocoap.tokenmanager import TokenManager
from aiocoap.transports.udp6 import UDP6EndpointAddress, _in6_pktinfo
from aiocoap.numbers.types import CON, NON, ACK, RST
from aiocoap.numbers.codes import Code, EMPTY
import aiocoap.resource as resource


class FakeInterface:
    """Stands in for MessageInterfaceUDP6: records what is sent."""

    def __init__(self):
        self.sent = []  # list of (mtype, code, mid, token, payload, remote, raw)

    def send(self, message):
        raw = message.encode()
        self.sent.append(
            dict(
                mtype=message.mtype,
                code=message.code,
                mid=message.mid,
                token=message.token,
                payload=message.payload,
                remote=message.remote,
                raw=raw,
            )
        )

    async def shutdown(self):
        pass

    async def recognize_remote(self, remote):
        return isinstance(remote, UDP6EndpointAddress)

    async def determine_remote(self, message):
        return None

    def _local_port(self):
        return 5683


def pktinfo_for(local_ip):
    if ":" not in local_ip:
        local_ip = "::ffff:" + local_ip
    return _in6_pktinfo.pack(socket.inet_pton(socket.AF_INET6, local_ip), 1)


class Stack:
    def __init__(self, site=None):
        self.iface = FakeInterface()
        self.ctx = Context(loop=asyncio.get_running_loop(), serversite=site, loggername="c10demo")
        self.tman = TokenManager(self.ctx)
        self.mman = MessageManager(self.tman)
        self.mman.message_interface = self.iface
        self.tman.token_interface = self.mman
        self.ctx.request_interfaces.append(self.tman)

    def addr(self, ip="2001:db8::1", port=40000, local="2001:db8::2"):
        if ":" not in ip:
            ip = "::ffff:" + ip
        pktinfo = pktinfo_for(local) if local is not None else None
        return UDP6EndpointAddress((ip, port, 0, 0), self.iface, pktinfo=pktinfo)

    def feed(self, raw, remote):
        """Deliver a datagram as udp6.datagram_msg_received would."""
        m = Message.decode(raw, remote)
        m.direction = Direction.INCOMING
        self.mman.dispatch_message(m)

    def feed_msg(self, *, mtype, code, mid, token=b"", remote, payload=b"", **opts):
        m = Message(code=code, payload=payload, **opts)
        m.mtype = mtype
        m.mid = mid
        m.token = token
        self.feed(m.encode(), remote)

    def take(self):
        out, self.iface.sent = self.iface.sent, []
        return out

    async def shutdown(self):
        await self.ctx.shutdown()


def fmt(entry):
    return "%s %s mid=%d token=%s payload=%r -> %s" % (
        entry["mtype"],
        entry["code"],
        entry["mid"],
        entry["token"].hex(),
        entry["payload"],
        entry["remote"].hostinfo,
    )


def quiet():
    logging.getLogger("c10demo").setLevel(logging.CRITICAL)
