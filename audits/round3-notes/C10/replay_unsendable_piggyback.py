#!/usr/bin/env python3
"""Replay for notes.md: on the UNCHANGED tree a confirmable request whose
(fast) response cannot be serialised is never acknowledged under its message
ID.  Usage: replay_unsendable_piggyback.py <repo root>;  exit 1 = violated.
Opens no sockets."""

import sys, os, asyncio

sys.path.insert(0, sys.argv[1])
sys.path.insert(1, os.path.dirname(os.path.abspath(__file__)))
from c10harness import *  # noqa


class Bad(resource.Resource):
    async def render_get(self, request):
        # a str payload: Message.encode() raises when the ACK is put on the wire
        return Message(payload="a str, not bytes")


async def main():
    quiet()
    site = resource.Site()
    site.add_resource(["bad"], Bad())
    s = Stack(site)
    peer = s.addr()
    s.feed_msg(mtype=CON, code=Code.GET, mid=100, token=b"\x01", remote=peer, uri_path=("bad",))
    await asyncio.sleep(0.5)  # 5 x EMPTY_ACK_DELAY
    first = s.take()
    print("after the request (CON GET mid=100 token=01):")
    for e in first:
        print("   sent:", fmt(e))
    s.feed_msg(mtype=CON, code=Code.GET, mid=100, token=b"\x01", remote=peer, uri_path=("bad",))
    await asyncio.sleep(0.3)
    second = s.take()
    print("after its retransmission:")
    for e in second:
        print("   sent:", fmt(e))
    if not second:
        print("   (nothing)")
    await s.shutdown()
    acks = [e for e in first + second if e["mtype"] is ACK and e["mid"] == 100]
    return len(acks)


n = asyncio.run(main())
if n == 0:
    print("VIOLATED: the confirmable request mid=100 was never acknowledged")
    sys.exit(1)
print("OK: acknowledged (%d ACKs including the repetition)" % n)
