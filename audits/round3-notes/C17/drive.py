"""Helpers shared by the demos: drive a Site without any socket."""
import asyncio


class FakeRemote:
    scheme = "coap"
    hostinfo = "client.example:40000"
    hostinfo_local = "server.example"
    is_multicast = False
    is_multicast_locally = False
    maximum_block_size_exp = 6
    maximum_payload_size = 1024
    blockwise_key = ("fake",)


def setup(root):
    import sys
    sys.path.insert(0, root)
    import aiocoap
    import os
    assert os.path.realpath(aiocoap.__file__).startswith(os.path.realpath(root)), aiocoap.__file__
    return aiocoap


def request(aiocoap, path, query=(), code=None):
    from aiocoap.message import Direction
    m = aiocoap.Message(code=code or aiocoap.GET)
    m.opt.uri_path = tuple(path)
    if query:
        m.opt.uri_query = tuple(query)
    m.remote = FakeRemote()
    m.direction = Direction.INCOMING
    return m


async def render(aiocoap, site, path, query=()):
    """Returns (code, payload) like a client would see them"""
    from aiocoap import error
    try:
        r = await site.render(request(aiocoap, path, query))
    except error.RenderableError as e:
        r = e.to_message()
    return r.code, r.payload


def run(coro):
    return asyncio.run(coro)
