#!/usr/bin/env python3
"""Replay for out3/notes.md: the UNCHANGED Site lists resources below a
nested site that is registered at the empty path under addresses that answer
4.04.  Usage: notes_replay.py <path-to-repo-root>; no sockets; exit 1 when the
listing and the routing disagree."""
import os
import sys

sys.path.insert(0, os.path.dirname(os.path.abspath(__file__)))
import drive

aiocoap = drive.setup(sys.argv[1])
from aiocoap import resource
from aiocoap.util import linkformat


class Who(resource.Resource):
    def __init__(self, name):
        super().__init__()
        self.name = name

    async def render_get(self, request):
        return aiocoap.Message(payload=self.name.encode())


async def main():
    root = resource.Site()
    outer = resource.Site()
    unnamed = resource.Site()
    root.add_resource(
        [".well-known", "core"],
        resource.WKCResource(root.get_resources_as_linkheader, impl_info=None),
    )
    unnamed.add_resource([], Who("unnamed root"))
    unnamed.add_resource(["x"], Who("unnamed x"))
    outer.add_resource([], unnamed)  # nested site at the empty path
    root.add_resource(["a"], outer)
    root.add_resource([], unnamed)  # and the same directly below the root

    code, payload = await drive.render(aiocoap, root, [".well-known", "core"])
    print("listing:", payload.decode())
    bad = 0
    for link in linkformat.parse(payload).links:
        # take the link target apart like a client does
        m = aiocoap.Message(code=aiocoap.GET, uri="coap://server.example" + link.href)
        code, payload = await drive.render(aiocoap, root, m.opt.uri_path)
        ok = code == aiocoap.CONTENT
        bad += not ok
        print(
            "%-4s <%s> -> Uri-Path %r -> %s %r"
            % ("ok" if ok else "BAD", link.href, m.opt.uri_path, code, payload[:20])
        )
    return 1 if bad else 0


sys.exit(drive.run(main()))
