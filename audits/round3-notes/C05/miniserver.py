"""A tiny CoAP-over-UDP server for the C05 demos, independent of aiocoap.

It has its own message codec (RFC 7252 section 3) so that it shares no
arithmetic with the library under test.  A server is given a handler

    handler(request: Msg) -> (code, [(option_number, bytes), ...], payload)

and answers every confirmable request with a piggybacked ACK (and every
non-confirmable one with a NON).  Retransmitted requests (same peer and
message id) are answered from a cache, the handler does not see them twice.

It opens ONE UDP socket bound to [::1]:<ephemeral port>.
"""

import asyncio

CON, NON, ACK, RST = 0, 1, 2, 3

GET, POST, PUT = 1, 2, 3


def code(cls, detail):
    return (cls << 5) | detail


CHANGED = code(2, 4)
CONTENT = code(2, 5)
CONTINUE = code(2, 31)
BAD_REQUEST = code(4, 0)
INCOMPLETE = code(4, 8)

OPT_ETAG = 4
OPT_URI_PATH = 11
OPT_BLOCK2 = 23
OPT_BLOCK1 = 27


def fmt_code(c):
    return "%d.%02d" % (c >> 5, c & 0x1F)


class Msg:
    def __init__(self, mtype, code, mid, token, options, payload):
        self.mtype = mtype
        self.code = code
        self.mid = mid
        self.token = token
        self.options = options  # list of (number, bytes), sorted
        self.payload = payload

    def opt(self, number):
        for n, v in self.options:
            if n == number:
                return v
        return None

    def block(self, number):
        """(num, more, szx) of a block option, or None"""
        v = self.opt(number)
        if v is None:
            return None
        i = int.from_bytes(v, "big")
        return (i >> 4, bool(i & 8), i & 7)


def block_value(num, more, szx):
    i = (num << 4) | (8 if more else 0) | szx
    return i.to_bytes((i.bit_length() + 7) // 8, "big")


def _ext(value):
    """nibble and extension bytes for an option delta or length"""
    if value < 13:
        return value, b""
    if value < 269:
        return 13, bytes([value - 13])
    return 14, (value - 269).to_bytes(2, "big")


def encode(msg):
    out = bytearray()
    out.append((1 << 6) | (msg.mtype << 4) | len(msg.token))
    out.append(msg.code)
    out += msg.mid.to_bytes(2, "big")
    out += msg.token
    last = 0
    for number, value in sorted(msg.options, key=lambda o: o[0]):
        dn, dx = _ext(number - last)
        ln, lx = _ext(len(value))
        out.append((dn << 4) | ln)
        out += dx + lx + value
        last = number
    if msg.payload:
        out.append(0xFF)
        out += msg.payload
    return bytes(out)


def decode(data):
    first = data[0]
    if first >> 6 != 1:
        raise ValueError("not CoAP version 1")
    mtype = (first >> 4) & 3
    tkl = first & 0x0F
    code_ = data[1]
    mid = int.from_bytes(data[2:4], "big")
    token = data[4 : 4 + tkl]
    pos = 4 + tkl
    options = []
    number = 0
    payload = b""
    while pos < len(data):
        if data[pos] == 0xFF:
            payload = data[pos + 1 :]
            break
        dn = data[pos] >> 4
        ln = data[pos] & 0x0F
        pos += 1
        if dn == 13:
            dn = data[pos] + 13
            pos += 1
        elif dn == 14:
            dn = int.from_bytes(data[pos : pos + 2], "big") + 269
            pos += 2
        if ln == 13:
            ln = data[pos] + 13
            pos += 1
        elif ln == 14:
            ln = int.from_bytes(data[pos : pos + 2], "big") + 269
            pos += 2
        number += dn
        options.append((number, data[pos : pos + ln]))
        pos += ln
    return Msg(mtype, code_, mid, token, options, payload)


class MiniServer(asyncio.DatagramProtocol):
    def __init__(self, handler):
        self.handler = handler
        self.transport = None
        self.port = None
        self.seen = {}  # (addr, mid) -> encoded response
        self.log = []  # human readable wire log

    @classmethod
    async def start(cls, handler):
        loop = asyncio.get_running_loop()
        transport, protocol = await loop.create_datagram_endpoint(
            lambda: cls(handler), local_addr=("::1", 0)
        )
        protocol.port = transport.get_extra_info("sockname")[1]
        return protocol

    def connection_made(self, transport):
        self.transport = transport

    def datagram_received(self, data, addr):
        try:
            req = decode(data)
        except Exception:
            return
        if req.code == 0 or req.code >> 5 != 0:
            return  # empty message or a response: not for us
        key = (addr, req.mid)
        if key in self.seen:
            self.transport.sendto(self.seen[key], addr)
            return
        rcode, roptions, rpayload = self.handler(req)
        self.log.append(
            "  %s B1=%s B2=%s %dB  ->  %s B1=%s B2=%s ETag=%s %dB"
            % (
                fmt_code(req.code),
                req.block(OPT_BLOCK1),
                req.block(OPT_BLOCK2),
                len(req.payload),
                fmt_code(rcode),
                Msg(0, 0, 0, b"", roptions, b"").block(OPT_BLOCK1),
                Msg(0, 0, 0, b"", roptions, b"").block(OPT_BLOCK2),
                (dict(roptions).get(OPT_ETAG) or b"").hex() or None,
                len(rpayload),
            )
        )
        resp = Msg(
            ACK if req.mtype == CON else NON,
            rcode,
            req.mid if req.mtype == CON else (req.mid + 1) % 65536,
            req.token,
            roptions,
            rpayload,
        )
        raw = encode(resp)
        self.seen[key] = raw
        self.transport.sendto(raw, addr)

    def close(self):
        self.transport.close()
