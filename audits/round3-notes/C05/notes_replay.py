"""Replay for out3/notes.md: two inputs on which the UNCHANGED tree does not
do what C05 states.  Usage: /venv/bin/python notes_replay.py <repo-root>

Opens UDP sockets on [::1] (ephemeral ports) only.  Exit status 1 if any of
the observations is reproduced, 0 if none is.
"""

import asyncio
import os
import sys
import warnings

sys.path.insert(0, os.path.abspath(sys.argv[1]))
sys.path.insert(1, os.path.dirname(os.path.abspath(__file__)))

import aiocoap  # noqa: E402
import miniserver as ms  # noqa: E402

BODY = bytes(range(256)) * 10  # 2560 bytes


async def grow(ctx):
    """N1: the client asks for 128-byte blocks (Block2 hint 0/0/3 in the
    request, the understood-if-deprecated way that tests/test_blockwise.py
    uses), the server answers the FIRST request with a 1024-byte block."""
    asked = []

    def handler(req):
        b2 = req.block(ms.OPT_BLOCK2) or (0, False, 6)
        asked.append(b2)
        start = b2[0] * (1 << (b2[2] + 4))
        szx = 6  # ignores what was asked for
        size = 1024
        chunk = BODY[start : start + size]
        more = start + size < len(BODY)
        return (
            ms.CONTENT,
            [(ms.OPT_BLOCK2, ms.block_value(start // size, more, szx))],
            chunk,
        )

    server = await ms.MiniServer.start(handler)
    try:
        req = aiocoap.Message(
            code=aiocoap.GET,
            uri="coap://[::1]:%d/r" % server.port,
            block2=(0, 0, 3),
        )
        try:
            resp = await asyncio.wait_for(ctx.request(req).response, 30)
            result = "%s, %d bytes, identical=%s" % (
                resp.code,
                len(resp.payload),
                resp.payload == BODY,
            )
        except Exception as e:
            result = "error %r" % (e,)
    finally:
        server.close()
    exps = [b[2] for b in asked]
    grew = any(b > a for a, b in zip(exps, exps[1:]))
    print("N1 size exponents of the client's Block2 requests:", exps, "->", result)
    print("N1 reproduced (exponent grew on the wire):", grew)
    return grew


async def ignored_block1(ctx):
    """N2: the server answers block 0 (more-flag set) of an upload with a
    final 2.04 that carries no Block1 option at all."""
    stored = []

    def handler(req):
        stored.append((req.block(ms.OPT_BLOCK1), len(req.payload)))
        return (ms.CHANGED, [], b"")

    server = await ms.MiniServer.start(handler)
    try:
        req = aiocoap.Message(
            code=aiocoap.PUT, uri="coap://[::1]:%d/u" % server.port, payload=BODY
        )
        try:
            resp = await asyncio.wait_for(ctx.request(req).response, 30)
            result = "%s" % resp.code
            success = resp.code.is_successful()
        except Exception as e:
            result = "error %r" % (e,)
            success = False
    finally:
        server.close()
    received = sum(n for _, n in stored)
    print(
        "N2 caller got %s; server received %d of %d bytes in requests %s"
        % (result, received, len(BODY), stored)
    )
    reproduced = success and received != len(BODY)
    print("N2 reproduced (success reported for a partial upload):", reproduced)
    return reproduced


async def main():
    ctx = await aiocoap.Context.create_client_context()
    try:
        a = await grow(ctx)
        b = await ignored_block1(ctx)
    finally:
        await ctx.shutdown()
    return a or b


if __name__ == "__main__":
    warnings.simplefilter("ignore")
    print("aiocoap from", os.path.dirname(aiocoap.__file__))
    sys.exit(1 if asyncio.run(main()) else 0)
