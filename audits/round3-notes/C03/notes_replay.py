#!/usr/bin/env python3
"""Replay for out3/notes.md: on the UNCHANGED tree the copies of a confirmable
separate response are not byte-identical (and go to another peer) when the
resource returns one and the same Message object for two requests.

Usage: notes_replay.py <path-to-repo-root>      (no sockets; ~2 s)
exit 0 = all copies of every CON identical and to one peer, 1 = violated
"""

import asyncio
import os
import sys

sys.path.insert(0, os.path.dirname(os.path.abspath(__file__)))
import c03h  # noqa: E402

aiocoap = c03h.setup(sys.argv[1])
from aiocoap import resource  # noqa: E402
from aiocoap.numbers.constants import TransportTuning  # noqa: E402
from aiocoap.numbers.types import CON  # noqa: E402


class Tuning(TransportTuning):
    ACK_TIMEOUT = 0.2
    ACK_RANDOM_FACTOR = 1.0
    MAX_RETRANSMIT = 2


# a constant response, built once -- not an unusual thing for a resource to do
RESPONSE = aiocoap.Message(
    code=aiocoap.CONTENT, payload=b"constant", transport_tuning=Tuning()
)


class Slow(resource.Resource):
    async def render_get(self, request):
        await asyncio.sleep(0.15)  # > EMPTY_ACK_DELAY: goes out as separate CON
        return RESPONSE


def request_from(peer, mid, token):
    m = aiocoap.Message(code=aiocoap.GET, uri_path=("slow",), _mid=mid, _mtype=CON)
    m.token = token
    m.remote = peer
    return m


async def main():
    loop = asyncio.get_running_loop()
    ctx, wire = c03h.build(loop)
    site = resource.Site()
    site.add_resource(["slow"], Slow())
    ctx.serversite = site

    p1, p2 = c03h.Peer("client-1"), c03h.Peer("client-2")
    t0 = loop.time()
    wire.inject(request_from(p1, 0x1111, b"\x01"))
    await asyncio.sleep(0.25)
    wire.inject(request_from(p2, 0x2222, b"\x02"))
    await asyncio.sleep(2.0)  # neither client ever ACKs

    cons = {}
    for t, remote, data in wire.sent:
        if data[0] >> 4 & 3 == 0:  # CON
            print("%.2f  to %-9s %s" % (t - t0, remote.name, data.hex()))
            cons.setdefault((remote.name, data), 0)
            cons[(remote.name, data)] += 1
    per_peer = {}
    for (name, data), n in cons.items():
        per_peer.setdefault(name, []).append(n)
    print("copies per (peer, datagram):", per_peer)
    ok = sorted(per_peer) == ["client-1", "client-2"] and all(
        v == [1 + Tuning.MAX_RETRANSMIT] for v in per_peer.values()
    )
    mman = wire.mman
    print("exchanges still registered:", list(mman._active_exchanges))
    await ctx.shutdown()
    print("RESULT:", "holds" if ok else "violated")
    return 0 if ok else 1


if __name__ == "__main__":
    sys.exit(asyncio.run(main()))
