"""Helper for the C03 round-3 demos: an aiocoap Context whose only transport is
the real TokenManager + MessageManager pair on top of a recording, socket-less
message interface.  No sockets are opened.  Real (but very short) timers are
used: the transport tunings in the demos keep a whole CON life cycle below a
second."""

import asyncio
import logging


def build(loop):
    """Return (context, wire): `wire.sent` is the list of
    (loop time, remote, datagram bytes) of everything the message manager
    handed to the transport; `wire.inject(message)` delivers a message."""
    import aiocoap
    from aiocoap import interfaces
    from aiocoap.protocol import Context
    from aiocoap.tokenmanager import TokenManager
    from aiocoap.messagemanager import MessageManager

    class Wire(interfaces.MessageInterface):
        def __init__(self):
            self.sent = []
            self.mman = None

        def send(self, message):
            self.sent.append((loop.time(), message.remote, message.encode()))

        async def shutdown(self):
            pass

        async def recognize_remote(self, remote):
            return isinstance(remote, Peer)

        async def determine_remote(self, message):
            return None

        def inject(self, message):
            message.direction = aiocoap.message.Direction.INCOMING
            self.mman.dispatch_message(message)

    ctx = Context(loop=loop, serversite=None, loggername="coap-demo")
    tman = TokenManager(ctx)
    mman = MessageManager(tman)
    wire = Wire()
    wire.mman = mman
    mman.message_interface = wire
    tman.token_interface = mman
    ctx.request_interfaces.append(tman)
    return ctx, wire


def make_peer_class():
    from aiocoap import interfaces

    class _Peer(interfaces.EndpointAddress):
        scheme = "coap"
        is_multicast = False
        is_multicast_locally = False
        maximum_block_size_exp = 6
        maximum_payload_size = 1124

        def __init__(self, name):
            self.name = name

        def __hash__(self):
            return hash(self.name)

        def __eq__(self, other):
            return isinstance(other, _Peer) and self.name == other.name

        def __repr__(self):
            return "<Peer %s>" % self.name

        hostinfo = property(lambda self: self.name)
        hostinfo_local = property(lambda self: "localhost")
        uri_base = property(lambda self: "coap://" + self.name)
        uri_base_local = property(lambda self: "coap://localhost")
        blockwise_key = property(lambda self: self.name)

        def as_response_address(self):
            return self

    return _Peer


Peer = None


def setup(repo_root):
    """Put the tree under test first on sys.path and prepare the classes that
    need aiocoap imported."""
    import sys

    sys.path.insert(0, repo_root)
    import aiocoap

    global Peer
    Peer = make_peer_class()
    logging.getLogger("coap-demo").setLevel(logging.CRITICAL)
    return aiocoap
