#!/usr/bin/env python3
"""Replay of what notes.md reports about the UNCHANGED code (C11, round 3).

usage: notes_replay.py <path-to-repo-root>     (no sockets, no files)

Prints one line per observation; exit status is the number of observations that
reproduced (0 = none of them reproduces any more).
"""

import os
import sys

HERE = os.path.dirname(os.path.abspath(__file__))
sys.path.insert(0, HERE)
import c11_common  # noqa: E402

oscore, aiocoap = c11_common.setup(sys.argv[1])
from aiocoap import Message, GET, CONTENT  # noqa: E402


def fresh(**kw):
    return c11_common.make_pair(oscore, **kw)


def wire(m):
    return c11_common.over_the_wire(aiocoap, m)


seen = 0


def attempt(label, ctx, message, request_id=None):
    global seen
    try:
        m, _ = ctx.unprotect(message, request_id)
    except oscore.ProtectionInvalid as e:
        print("rejected   %-58s %s: %s" % (label, type(e).__name__, e))
    except Exception as e:
        seen += 1
        print("OTHER ERR  %-58s %s: %s" % (label, type(e).__name__, e))
    else:
        seen += 1
        print("ACCEPTED   %-58s -> %s %r %r" % (label, m.code, m.opt.uri_path, m.payload))


# N1: request, K flag cleared (single bit), kid bytes become ignored trailing bytes
c, s = fresh(seqno=5)
outer, _ = c.protect(Message(code=GET, uri_path=["x"]))
t = wire(outer)
t.opt.oscore = bytes([outer.opt.oscore[0] & ~0x08]) + outer.opt.oscore[1:]
attempt("N1 request 090501 -> 010501 (K bit flipped)", s, t)

# N1b: request, key ID field removed
c, s = fresh(seqno=5)
outer, _ = c.protect(Message(code=GET, uri_path=["x"]))
t = wire(outer)
t.opt.oscore = bytes([0x01, 0x05])
attempt("N1b request 090501 -> 0105 (key ID removed)", s, t)

# N1c: request, ID context field removed
c, s = fresh(seqno=5, id_context=b"ctx")
outer, _ = c.protect(Message(code=GET, uri_path=["x"]))
assert outer.opt.oscore.hex() == "19050363747801"
t = wire(outer)
t.opt.oscore = bytes([0x09, 0x05, 0x01])
attempt("N1c request 19050363747801 -> 090501 (ID context removed)", s, t)

# N2: response carrying its own Partial IV, PIV re-encoded / option padded
c, s = fresh(seqno=5)
s.sender_sequence_number = 7
outer, rid = c.protect(Message(code=GET, uri_path=["x"]))
_, srid = s.unprotect(wire(outer))
r1, _ = s.protect(Message(code=CONTENT, payload=b"first"), srid)
r2, _ = s.protect(Message(code=CONTENT, payload=b"second"), srid)
assert (r1.opt.oscore, r2.opt.oscore) == (b"", b"\x01\x07")
t = wire(r2)
t.opt.oscore = bytes([0x02, 0x00, 0x07])
attempt("N2 response 0107 -> 020007 (PIV re-encoded)", c, t, rid)
t = wire(r2)
t.opt.oscore = bytes([0x01, 0x07, 0xAA, 0xBB])
attempt("N2b response 0107 -> 0107aabb (trailing bytes)", c, t, rid)
t = wire(r1)
t.opt.oscore = bytes([0x00])
attempt("N2c response '' -> 00 (non-canonical empty option)", c, t, rid)

# N3: sequence number 2^40-1 can be received but not sent
c, s = fresh(seqno=2**40 - 1)
try:
    c.protect(Message(code=GET))
    print("fine       N3 protect() with sender sequence number 2^40-1")
except oscore.ContextUnavailable as e:
    seen += 1
    print("REFUSED    %-58s ContextUnavailable: %s" % ("N3 protect() with sender sequence number 2^40-1", e))

# N4: Observe: 1 (deregistration) of a request does not survive the round trip
c, s = fresh()
outer, _ = c.protect(Message(code=GET, observe=1))
m, _ = s.unprotect(wire(outer))
if m.opt.observe != 1:
    seen += 1
    print("CHANGED    %-58s inner Observe after round trip: %r (outer: %r)"
          % ("N4 request with Observe: 1", m.opt.observe, outer.opt.observe))
else:
    print("fine       N4 request with Observe: 1")

sys.exit(seen)
