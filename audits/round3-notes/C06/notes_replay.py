#!/venv/bin/python
"""Replay for out3/notes.md (UNCHANGED tree): continuation blocks that are
REJECTED (4.08 gap / 4.00 wrong size) still refresh the lifetime of the
assembly they did not extend, so an abandoned transfer can be kept alive
indefinitely and completed much later than 2 x MAX_TRANSMIT_WAIT after the
last block that was accepted.

Usage: notes_replay.py <path-to-repo-root>   (prints what it observes; exit 0
if the late completion is refused with 4.08, 1 if the handler is invoked)
"""
import os
import sys

sys.path.insert(0, os.path.abspath(sys.argv[1]))
sys.path.insert(1, os.path.dirname(os.path.abspath(__file__)))
import asyncio  # noqa: E402
from aiocoap import resource, Message  # noqa: E402
from aiocoap.numbers import codes, TransportTuning  # noqa: E402
import c06_helpers as h  # noqa: E402

T = TransportTuning().MAX_TRANSMIT_WAIT
Remote = h.make_remote_class()


class Sink(resource.Resource):
    bodies = []

    async def render_put(self, request):
        self.bodies.append(request.payload)
        return Message(code=codes.CHANGED)


async def main():
    loop = asyncio.get_running_loop()
    t0 = loop.time()
    res = Sink()
    peer = Remote("2001:db8::1", 40001)

    async def put(payload, block1):
        got = await h.serve(res, h.request(peer, codes.PUT, payload, block1=block1))
        print("  t=%6.1f PUT Block1=%d/%d/%d %2d bytes -> %s"
              % ((loop.time() - t0,) + tuple(block1) + (len(payload), h.show(got.first))))
        return got.first

    await put(b"a" * 16, (0, True, 0))
    for _ in range(8):
        await asyncio.sleep(60)
        await put(b"x" * 16, (5, True, 0))  # gap: answered 4.08, extends nothing
    await asyncio.sleep(60)
    r = await put(b"b" * 8, (1, False, 0))
    print("  last accepted block was at t=0, 2 x MAX_TRANSMIT_WAIT = %.0f s" % (2 * T))
    print("  handler saw:", res.bodies)
    return 1 if r.code == codes.CHANGED else 0


sys.exit(h.run_virtual(main()))
