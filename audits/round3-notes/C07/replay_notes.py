"""Replay for out3/notes.md (unchanged code).  Usage: replay_notes.py <repo-root>
No sockets.  Exit status 1 = the finding reproduces, 0 = it does not."""

import asyncio
import os
import sys

sys.path.insert(0, os.path.dirname(os.path.abspath(__file__)))
import c07lib

c07lib.setup(sys.argv[1])

import aiocoap
from aiocoap.numbers.types import NON, ACK


async def establish(handle_blockwise):
    ctx, mint = await c07lib.make_client(c07lib.FakeClock())
    remote = c07lib.FakeRemote()
    srv = c07lib.Server(mint, remote)
    msg = aiocoap.Message(code=aiocoap.GET, observe=0, uri_path=["r"])
    msg.remote = remote
    req = ctx.request(msg, handle_blockwise=handle_blockwise)
    await c07lib.settle()
    q = srv.new_requests()[0]
    srv.send(aiocoap.CONTENT, q.token, ACK, b"five", mid=q.mid, observe=5)
    await req.response
    await c07lib.settle()
    return ctx, srv, q, req


async def finding1(handle_blockwise):
    """A consumer that polls the observation with a time-out"""
    ctx, srv, q, req = await establish(handle_blockwise)
    it = req.observation.__aiter__()
    out = []

    async def poller():
        for i in range(3):
            try:
                n = await asyncio.wait_for(it.__anext__(), 0.05)
                out.append(n.payload)
            except asyncio.TimeoutError:
                out.append("timeout")

    t = asyncio.create_task(poller())
    await asyncio.sleep(0.08)  # first poll has timed out, second is running
    srv.send(aiocoap.CONTENT, q.token, NON, b"six", observe=6)
    try:
        await t
    except BaseException as e:
        out.append("poller task ended with %r" % e)
    await ctx.shutdown()
    return out


async def finding2():
    """Iterating over an observation the application has cancelled"""
    ctx, srv, q, req = await establish(False)
    req.observation.cancel()
    try:
        async for n in req.observation:
            pass
        out = "iteration ended"
    except BaseException as e:
        out = "iteration raised %r" % e
    await ctx.shutdown()
    return out


async def main():
    bad = 0
    for hb in (False, True):
        out = await finding1(hb)
        print("finding 1 (handle_blockwise=%s): %r" % (hb, out))
        if b"six" not in out:
            bad += 1
    out = await finding2()
    print("finding 2: %s" % out)
    if "TypeError" in out:
        bad += 1
    return bad


if __name__ == "__main__":
    sys.exit(1 if asyncio.run(main()) else 0)
