"""Replay of observations on the UNCHANGED tree (see notes.md).
Usage: notes_replay.py <repo-root>   -- prints each observation; exit 1 if any reproduces."""
import sys
sys.path.insert(0, sys.argv[1])
from aiocoap import Message, GET
from aiocoap.message import UndecidedRemote
from aiocoap import error

seen = 0
def obs(label, cond, detail):
    global seen
    print(("REPRODUCED  " if cond else "not seen    ") + label + ": " + detail)
    seen += bool(cond)

# 1. stale Uri-Host when a message that has one gets an IP-literal URI
m = Message(code=GET, uri="coap://example.com/a").copy(uri="coap://[2001:db8::1]/b")
obs("N1 stale Uri-Host after copy(uri=<IP literal>)", m.opt.uri_host is not None,
    "remote=%r Uri-Host=%r get_request_uri()=%r" % (m.remote.hostinfo, m.opt.uri_host, m.get_request_uri()))
m = Message(code=GET, uri="http://example.com/a").copy(uri="coap://h/b")
obs("N1b stale Proxy-Uri after copy(uri=<coap URI>)", m.opt.proxy_uri is not None,
    "Proxy-Uri=%r get_request_uri()=%r" % (m.opt.proxy_uri, m.get_request_uri()))

# 2. Uri-Port 0 is ignored when composing
m = Message(code=GET, uri="coap://example.com:77/a"); m.opt.uri_port = 0
obs("N2 Uri-Port 0 dropped by get_request_uri", m.get_request_uri() != "coap://example.com:0/a",
    "get_request_uri()=%r" % m.get_request_uri())

# 3. host taken from the remote is escaped a second time when only Uri-Port is set
m = Message(code=GET); m.set_request_uri("coap://a%2Fb/x", set_uri_host=False); m.opt.uri_port = 77
u = m.get_request_uri()
obs("N3 double escaping of the remote's host when only Uri-Port is set", "%25" in u, "get_request_uri()=%r" % u)

# 4. empty fragment accepted
try:
    Message(code=GET).set_request_uri("coap://h/p#"); ok = True
except error.MalformedUrlError:
    ok = False
obs("N4 'coap://h/p#' (empty fragment) accepted", ok, "no error raised" if ok else "rejected")

# 5. lone surrogate accepted into Uri-Path, fails later with UnicodeEncodeError
m = Message(code=GET)
try:
    m.set_request_uri("coap://h/\ud800"); m.get_request_uri(); r = None
except Exception as e:
    r = e
obs("N5 lone surrogate in the path", isinstance(r, UnicodeError) and not isinstance(r, error.MalformedUrlError),
    "set_request_uri accepts, get_request_uri raises %r" % r)

# 6. TAB / LF / leading blanks silently removed by urllib: distinct strings collapse
a = Message(code=GET, uri="coap://h/a\tb").opt.uri_path
b = Message(code=GET, uri=" coap://h/ab").opt.uri_path
obs("N6 'coap://h/a<TAB>b' and ' coap://h/ab' accepted and equal to coap://h/ab", a == b == ("ab",), "%r %r" % (a, b))

# 7. escape of an upper case letter in the host: decoded, then lower-cased (RFC: lower-case, then decode)
m = Message(code=GET, uri="coap://ex%41mple/")
obs("N7 'coap://ex%41mple/' gives Uri-Host 'example' (RFC 7252 6.4 step 5 read literally: 'exAmple')",
    m.opt.uri_host == "example", "Uri-Host=%r" % m.opt.uri_host)
sys.exit(1 if seen else 0)
