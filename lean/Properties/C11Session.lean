import Properties.C11
import Proofs.Oscore.ProtSession
/-!
# C11, several messages on ONE context: rejecting a message leaves the context able to accept the genuine one; which request nonces may be re-used

Model: `AiocoapModel/Oscore/Session.lean` (`sessionStep`, `sessionRun` — the functions the driver
runs for `C11 S` lines): `unprotect` of requests together with the replay window and
`echo_recovery` it reads and writes, in the order of the code.

The round-trip clause of the property ("for every message and every pair of matching contexts
unprotecting a protected message yields the original") must survive tampering that happened
before: a manipulated copy naming the same key ID and Partial IV is rejected AND consumes nothing.
The "inner data hidden" clause needs more than well-formed outer messages: one (key, nonce) pair
must never protect two plaintexts.  The request identifiers `unprotect` hands out decide whether a
response re-uses the request's nonce; the theorems below say when they allow it.  (The
history-level statement — no pair twice over restarts and crashes — is C13's.)
-/
namespace Aiocoap.Oscore.Prot
open Aiocoap.Oscore (RW)

/-- **C11 (a rejected message consumes nothing).**  Whatever the message — a bit flipped in
ciphertext or tag, a truncated ciphertext, a rewritten OSCORE option, a message protected under
another context's keys, a replay — if `unprotect` rejects it (any error except an *authentic*
message whose plaintext is not a CoAP message), the replay window and the rest of the recipient
state are exactly what they were. -/
theorem C11_rejected_leaves_context (E : AEAD) (B : Ctx) (st : RState) (o : Msg) (e : SErr)
    (h : (sessionStep E B st o).2 = .error e) (hne : e ≠ .base .unparsable) :
    (sessionStep E B st o).1 = st :=
  sessionStep_error_state E B st o e h hne

/-- in particular a message whose decryption fails (`ProtectionInvalid` from the algorithm or
any earlier protection / decoding error) neither marks nor advances the window -/
theorem C11_forgery_consumes_nothing (E : AEAD) (B : Ctx) (st : RState) (o : Msg) (e : Err)
    (h : (sessionStep E B st o).2 = .error (.base e)) (hp : e.isProtection = true) :
    (sessionStep E B st o).1 = st :=
  sessionStep_error_state E B st o _ h (by intro he; cases he; simp [Err.isProtection] at hp)

/-- **C11 (round trip after tampering, on one context).**  Matching contexts `A → B`; the
recipient's window is initialised and has not seen `seq`.  After ANY sequence of rejected
messages — manipulated copies of the request, forgeries with its key ID and Partial IV, messages
under other keys, in any number and order — the genuine protected request still unprotects to the
original message (and only now is its number struck out). -/
theorem C11_roundtrip_after_rejected (E : AEAD) {A B : Ctx} (hA : A.wf) (hAB : Sends A B)
    {seq : Nat} {m : Msg} {P : Protected} (h : protect E A seq m none = .ok P)
    (st : RState) (w : RW) (hw : st.win = some w) (hv : w.isValid seq = true)
    (forged : List Msg) (hrej : ∀ r ∈ (sessionRun E B st forged).2, Rejected r) :
    sessionStep E B (sessionRun E B st forged).1 P.outer =
      (st.strike seq, .ok (
        { code := m.code,
          opts := m.opts.filter (fun o => !isOuterOnly o.1 && o.1 != 6),
          observe := (match findOpt 6 m.opts with
            | some v => if beToNat v = 0 then some 0 else none
            | none => none),
          payload := m.payload },
        { kid := A.senderId, piv := shortPiv seq, canReuse := true, style := P.outer.code })) := by
  rw [sessionRun_rejected_state E B forged st hrej]
  obtain ⟨_, _, _, _, _, _, hrp⟩ := recv_request (B := B) hA hAB h
  have hn : requestSeqno B P.outer = some seq := requestSeqno_of_recvParams hrp
  have hpf : P.outer.code = 2 ∨ P.outer.code = 5 := by
    obtain ⟨hreq, _, _, _, _, _, _, _, _, hP⟩ := protect_request_shape h
    subst hP
    exact outerCode_request hreq
  have hcode : isResponse P.outer.code = false := isResponse_of_post_fetch hpf
  have hbad : (!(P.outer.code == 2 || P.outer.code == 5)) = false := by
    rcases hpf with h2 | h2 <;> simp [h2]
  have hflag : replayFlag st seq = false := by simp [replayFlag, hw, hv]
  unfold sessionStep
  simp only [hcode, hbad, Bool.false_eq_true, ↓reduceIte, hn, hflag, Bool.false_and,
    C11_roundtrip_request E hA hAB h, afterDecrypt]
  rfl

/-- **C11 (the Echo challenge cannot re-use the request's nonce).**  When `unprotect` refuses a
request with `ReplayErrorWithEcho` — the window is uninitialised, the request may be a replay of
one that was answered before the state was lost — the request identifiers it hands to the 4.01
response have `can_reuse_nonce = False`, and the context is unchanged. -/
theorem C11_echo_challenge_cannot_reuse_nonce (E : AEAD) (B : Ctx) (st : RState) (o : Msg)
    (rid : ReqId) (h : (sessionStep E B st o).2 = .error (.replayEcho rid)) :
    rid.canReuse = false ∧ st.win = none ∧ (sessionStep E B st o).1 = st := by
  refine ⟨?_, ?_, sessionStep_error_state E B st o _ h (by intro he; cases he)⟩
  all_goals
    unfold sessionStep at h
    by_cases hr : isResponse o.code = true
    · simp [hr] at h
    simp only [hr, Bool.false_eq_true, ↓reduceIte] at h
    by_cases hc : (!(o.code == 2 || o.code == 5)) = true
    · simp [hc] at h
    simp only [hc, Bool.false_eq_true, ↓reduceIte] at h
    cases hn : requestSeqno B o with
    | none => simp only [hn] at h; cases hu : unprotect E B none o <;> simp [hu] at h
    | some n =>
      simp only [hn] at h
      by_cases hrep : (replayFlag st n && st.echo.isNone) = true
      · simp [hrep] at h
      simp only [hrep, Bool.false_eq_true, ↓reduceIte] at h
      cases hu : unprotect E B none o with
      | error e0 => simp [hu, afterDecrypt] at h
      | ok p =>
        obtain ⟨u, r0⟩ := p
        simp only [hu, afterDecrypt] at h
        cases hf : replayFlag st n with
        | false => simp [hf] at h
        | true =>
          simp only [hf, ↓reduceIte, echoRecovery] at h
          cases hw : st.win with
          | some w => simp [hw] at h
          | none =>
            simp only [hw] at h
            by_cases he : (findOpt 252 u.opts == st.echo) = true
            · simp [he] at h
            · simp only [he, Bool.false_eq_true, ↓reduceIte, Except.error.injEq,
                SErr.replayEcho.injEq] at h
              first
                | (rw [← h])
                | rfl

/-- **C11 (when a request's nonce may be re-used).**  `unprotect` hands out request identifiers
with `can_reuse_nonce = True` only for a request whose number the initialised window had not seen,
and which has been struck out by this very call — so (C12: at most once) it is handed out at most
once per request, and never for a request accepted through Echo recovery. -/
theorem C11_reusable_only_when_struck (E : AEAD) (B : Ctx) (st : RState) (o : Msg)
    (u : Unprotected) (rid : ReqId) (h : (sessionStep E B st o).2 = .ok (u, rid))
    (hre : rid.canReuse = true) :
    ∃ w n, st.win = some w ∧ requestSeqno B o = some n ∧ w.isValid n = true ∧
      (sessionStep E B st o).1 = st.strike n := by
  unfold sessionStep at h ⊢
  by_cases hr : isResponse o.code = true
  · simp [hr] at h
  simp only [hr, Bool.false_eq_true, ↓reduceIte] at h ⊢
  by_cases hc : (!(o.code == 2 || o.code == 5)) = true
  · simp [hc] at h
  simp only [hc, Bool.false_eq_true, ↓reduceIte] at h ⊢
  cases hn : requestSeqno B o with
  | none => simp only [hn] at h; cases hu : unprotect E B none o <;> simp [hu] at h
  | some n =>
    simp only [hn] at h ⊢
    by_cases hrep : (replayFlag st n && st.echo.isNone) = true
    · simp [hrep] at h
    simp only [hrep, Bool.false_eq_true, ↓reduceIte] at h ⊢
    cases hu : unprotect E B none o with
    | error e0 => simp [hu, afterDecrypt] at h
    | ok p =>
      obtain ⟨u0, r0⟩ := p
      simp only [hu, afterDecrypt] at h ⊢
      cases hf : replayFlag st n with
      | true =>
        simp only [hf, ↓reduceIte, echoRecovery] at h
        cases hw : st.win with
        | some w => simp [hw] at h
        | none =>
          simp only [hw] at h
          by_cases he : (findOpt 252 u0.opts == st.echo) = true
          · simp only [he, ↓reduceIte, Except.ok.injEq, Prod.mk.injEq] at h
            rw [← h.2] at hre
            cases hre
          · simp [he] at h
      | false =>
        simp only [Bool.false_eq_true, ↓reduceIte]
        unfold replayFlag at hf
        cases hw : st.win with
        | none => simp [hw] at hf
        | some w =>
          simp only [hw, Bool.not_eq_false'] at hf
          exact ⟨w, n, rfl, rfl, hf, rfl⟩

/-- **C11 (without re-use the nonce comes from an own sequence number).**  Protecting a response
with request identifiers that cannot re-use the nonce — the Echo challenge, a second response, a
response to a request accepted through Echo recovery — encrypts under the nonce built from the
sender's OWN id and sequence number `seq`, sends that Partial IV, and advances the number. -/
theorem C11_no_reuse_takes_own_number (E : AEAD) {S : Ctx} {seq : Nat} {m : Msg} {r : ReqId}
    {P : Protected} (h : protect E S seq m (some r) = .ok P) (hr : r.canReuse = false) :
    P.seq = seq + 1 ∧ seq < maxSeqno ∧ ∃ pt nonce,
      constructNonce S.ivBytes S.commonIv (natToBE 5 seq) S.senderId = some nonce ∧
      P.outer.payload = E.enc S.senderKey nonce (aad S.algValue r.kid r.piv) pt := by
  obtain ⟨_, _, pt, nonce, o, _, hm, hP⟩ := protect_response_shape h
  rcases hm with ⟨hc, _⟩ | ⟨_, hs, hn, _, hseq, _⟩
  · rw [hr] at hc; cases hc
  · exact ⟨hseq, hs, pt, nonce, hn, by rw [hP]⟩

-- non-vacuity ---------------------------------------------------------------------------------

def exSt : RState := { size := 32, win := some (RW.empty 32), echo := none }

/-- a forged copy (last ciphertext byte changed) and a truncated copy of the example request, then
the genuine one: rejected, rejected, accepted — and a replay of it refused -/
example : (exProtected.map fun P =>
    let bad := { P.outer with payload := P.outer.payload.dropLast ++ [0] }
    let cut := { P.outer with payload := P.outer.payload.take 20 }
    ((sessionRun transparentAead exB exSt [bad, cut, P.outer, P.outer]).2.map
      (fun r => match r with
        | .ok (u, rid) => some (u.code, rid.canReuse)
        | .error _ => none),
     (sessionRun transparentAead exB exSt [bad, cut, P.outer, P.outer]).1.win)) =
    some ([none, none, some (1, true), none],
          some { size := 32, index := 269, bitfield := 2147483648 }) := by
  decide +kernel

/-- uninitialised window with Echo recovery: the genuine request is refused with
`ReplayErrorWithEcho` whose request identifiers cannot re-use the nonce -/
example : (exProtected.bind fun P =>
    match (sessionStep transparentAead exB { size := 32, win := none, echo := some [7, 7] } P.outer).2 with
    | .error (.replayEcho rid) => some rid
    | _ => none) =
    some { kid := [1], piv := [1, 44], canReuse := false, style := 5 } := by
  decide +kernel

end Aiocoap.Oscore.Prot
