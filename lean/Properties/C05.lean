import Proofs.Blockwise.C05Transfer
import Proofs.Blockwise.C05Upload
/-!
# C05 — block-wise client transfers deliver both bodies intact or fail loudly

Model: `AiocoapModel/Blockwise/{BlockOptC,Client,RefServer}.lean` — the client machine
`start`/`step` (run by the driver as `runClient` over recorded responses and as `transfer`
against the reference server).  Four groups of theorems:

* **wire** (`C05_block1_*`, `C05_block2_szx_never_grows`, `C05_block2_szx_below_hint`): against
  EVERY response sequence (conforming or not) the Block1 requests the client emits are an
  in-order, gap-free, duplicate-free cut of the payload, and the size exponents of the Block2
  options of its requests never grow — from the application's size hint `block2=(0, False, szx)`
  on the first request(s), if there is one, through all requests of the Block2 loop;
* **upload complete** (`C05_ok_upload_complete`, `C05_ok_request_body_intact`,
  `C05_success_upload_complete`, `C05_success_request_body_intact`): a run that yields a response
  has emitted the final Block1 request — unless the SERVER FAILED the upload early (an
  unsuccessful code, in one of two exactly described shapes) — and a run that yields a SUCCESSFUL
  response has emitted it (the one way around it is the single-response exemption of
  `C05_ok_is_server_body`), so the hypothesis of `C05_block1_reassembles` is discharged for such
  runs instead of assumed;
* **conforming server** (`C05_transfer_*`): against the RFC 7959 reference server `Srv`, which
  may pick any size exponent in every exchange, the server records exactly the payload and the
  client returns exactly the server's representation — for all payloads, representations,
  client maxima 0..7 (7: a remote that does BERT, RFC 8323; the server's own exponents are 0..6 and
  it asks for / uses one of them in answer to the client's BERT block), maximum payload sizes and
  choice schedules;
* **misbehaving server** (`C05_*_is_error`, `C05_ok_is_server_body`, `C05_never_internal_error`):
  every violated sequencing rule ends the request with a protocol error, and a body that is
  returned can only be the server's body.

All theorems about runs are stated for the configurations `Cfg.Ok`: the exponent the upload
starts with (`startSzx`: the remote's maximum, or the application's deprecated Block1 size hint
`block1=(0, False, szx)`, `Cfg.hint1`) is ≤ 7, and when it is 7 (BERT) the remote takes at least
1 KiB of payload (RFC 8323: BERT needs a Max-Message-Size above 1152).

Only property theorems and non-vacuity examples live in this file; all quantifiers are over
unbounded data (no bound on lengths or on the number of exchanges).
-/
namespace Aiocoap.BwClient

-- reduced_to ----------------------------------------------------------------------------------

/-- **C05 (`reduced_to`).** Capping a block option to a smaller size exponent keeps the byte
offset (and the more flag) and yields the smaller exponent — for every option and every cap. -/
theorem C05_reduced_to_keeps_offset (b : BlockOpt) (m : Nat) :
    (b.reducedTo m).start = b.start ∧ (b.reducedTo m).szx = min b.szx m ∧
    (b.reducedTo m).more = b.more :=
  ⟨b.reducedTo_start m, b.reducedTo_szx m, b.reducedTo_more m⟩

-- Block1 on the wire, against any server --------------------------------------------------------

/-- the requests of the upload phase of a run: those that do not ask for a later block of the
response (no Block2 option, or the application's size hint: block number 0) -/
def block1Requests (cfg : Cfg) (resps : List Resp) : List Req := b1Reqs (runClient cfg resps).1

theorem block1_cut (cfg : Cfg) (hcfg : cfg.Ok) (resps : List Resp) :
    Cut cfg.payload (hintOpt cfg) 0 (startSzx cfg) (block1Requests cfg resps) := by
  obtain ⟨cur, h1, h2⟩ := enterB1_of_inv (B1Inv.start hcfg)
  have := cut_go (B1Inv.start hcfg) h1 resps
  simp only [Nat.zero_mul] at this
  unfold block1Requests runClient start
  rw [h2]
  exact this

/-- **C05 (offsets contiguous, NUM × size = offset).** Whatever the server answers, the reference
reassembly — which places each block at byte `NUM · 2^(SZX+4)` and refuses a block that does not
start where the previous one ended or a non-final block of the wrong length — accepts the emitted
Block1 requests and yields a prefix of the payload. -/
theorem C05_block1_contiguous (cfg : Cfg) (hcfg : cfg.Ok) (resps : List Resp) :
    ∃ k, reassemble (block1Requests cfg resps) = some (cfg.payload.take k) := by
  obtain ⟨k, hk, _⟩ := (block1_cut cfg hcfg resps).reassemble (Nat.zero_le _)
  exact ⟨k, by simpa [reassemble] using hk⟩

/-- **C05 (request body intact).** As soon as the final request (the unfragmented one, or a block
without the more flag) is among the emitted requests, the reference reassembly is exactly the
payload handed to the API. -/
theorem C05_block1_reassembles (cfg : Cfg) (hcfg : cfg.Ok) (resps : List Resp)
    (hfin : ∃ r ∈ block1Requests cfg resps, FinalReq r) :
    reassemble (block1Requests cfg resps) = some cfg.payload := by
  have := (block1_cut cfg hcfg resps).reassemble_final (Nat.zero_le _) hfin
  simpa [reassemble] using this

/-- **C05 (each block).** Every emitted Block1 request has an exponent ≤ the client maximum (≤ 7;
`startSzx`: the remote's maximum or the application's Block1 hint),
starts inside the payload at `NUM × size` (`size` = 1024 for BERT) — or is block 0 of an EMPTY
payload, which a request with the Block1 size hint and no body consists of —, carries exactly
`payload[start, start+n)` for a block length `n` — ONE block (`BlkLen`: `n = 2^(szx+4)`), or for a
BERT block (exponent 7) a positive whole number of KiB —, has the more flag set exactly when bytes
remain behind it, and is exactly `n` bytes long unless it is the final one. -/
theorem C05_block1_blocks (cfg : Cfg) (hcfg : cfg.Ok) (resps : List Resp) :
    ∀ r ∈ block1Requests cfg resps, ∀ b, r.block1 = some b →
      b.szx ≤ startSzx cfg ∧ b.szx ≤ 7 ∧
      (b.start < cfg.payload.length ∨ (b.start = 0 ∧ cfg.payload.length = 0)) ∧
      ∃ n, BlkLen b.szx n ∧
        r.payload = (cfg.payload.drop b.start).take n ∧
        (b.more = true ↔ b.start + n < cfg.payload.length) ∧
        (b.more = true → r.payload.length = n) := by
  intro r hr b hb
  obtain ⟨a1, a2, _, a4, n, hn, a5, a6⟩ := (block1_cut cfg hcfg resps).each r hr b hb
  refine ⟨a1, a2, a4, n, hn, a5, a6, ?_⟩
  intro hm
  rw [a5]
  exact slice_len (a6.mp hm)

/-- … and below exponent 7 that is the form of the first rounds: exactly `payload[start,
start+size)`, one block long unless final. -/
theorem C05_block1_blocks_regular (cfg : Cfg) (hcfg : cfg.Ok) (resps : List Resp) :
    ∀ r ∈ block1Requests cfg resps, ∀ b, r.block1 = some b → b.szx ≤ 6 →
      r.payload = (cfg.payload.drop b.start).take b.size ∧
      (b.more = true ↔ b.start + b.size < cfg.payload.length) ∧
      (b.more = true → r.payload.length = b.size) := by
  intro r hr b hb h6
  obtain ⟨_, _, _, n, hn, a5, a6, a7⟩ := C05_block1_blocks cfg hcfg resps r hr b hb
  have : n = b.size := by
    unfold BlkLen at hn
    rw [if_neg (by omega)] at hn
    rw [hn, BlockOpt.size_eq h6]
  subst this
  exact ⟨a5, a6, a7⟩

/-- **C05 (a size reduction keeps the byte offset).** The cursor of the Block1 loop after the
server asked for a smaller size stands at the same byte — for every step down, including the one
from BERT (exponent 7) to exponent 6, which is no halving: both count KiB. (False of the code before
the fix: it doubled the cursor there, so that after a BERT block acknowledged with exponent ≤ 6
the next block was taken from twice the offset.) -/
theorem C05_size_reduction_keeps_offset (target szx cursor : Nat) (h7 : szx ≤ 7) :
    (reduceB target szx cursor).2 * unit (reduceB target szx cursor).1 = cursor * unit szx ∧
    (reduceB target szx cursor).1 = min target szx :=
  ⟨reduceB_offset cursor h7, reduceB_szx cursor h7⟩

/-- **C05 (size exponent never grows).** -/
theorem C05_block1_szx_never_grows (cfg : Cfg) (hcfg : cfg.Ok) (resps : List Resp) :
    List.Pairwise (fun a b : BlockOpt => b.szx ≤ a.szx)
      ((block1Requests cfg resps).filterMap (·.block1)) :=
  (block1_cut cfg hcfg resps).pairwise

/-- **C05 (no block twice, none skipped backwards).** Every later block starts at or behind the
end of every earlier one. -/
theorem C05_block1_offsets_increase (cfg : Cfg) (hcfg : cfg.Ok) (resps : List Resp) :
    List.Pairwise (fun a b : BlockOpt => a.start + a.size ≤ b.start)
      ((block1Requests cfg resps).filterMap (·.block1)) :=
  (block1_cut cfg hcfg resps).starts

/-- **C05 (more ↔ not final).** A block without the more flag (or the unfragmented request) is
the last request of the upload phase. -/
theorem C05_block1_final_is_last (cfg : Cfg) (hcfg : cfg.Ok) (resps : List Resp)
    (pre : List Req) (r : Req) (post : List Req)
    (h : block1Requests cfg resps = pre ++ r :: post) (hf : FinalReq r) : post = [] :=
  (block1_cut cfg hcfg resps).final_last pre r post h hf

-- against the conforming reference server --------------------------------------------------------

/-- **C05 (both bodies intact).** Against the RFC 7959 reference server — which in every
exchange may use any size exponent not above the request's, so reductions can happen at any
block of the upload and of the download — a transfer is either still waiting for a response
(the choice list, one entry per exchange, ran out) or it returned exactly the server's code, ETag
and representation, and the server recorded exactly the payload handed to the API. For all
payloads, representations, client maxima 0..7 (7: the first Block1 block is a BERT block, which
the server acknowledges asking for one of its own exponents 0..6), maximum payload sizes, and
choice schedules. -/
theorem C05_transfer_intact (cfg : Cfg) (hcfg : cfg.Ok) (rep : Bytes) (etag : Option Bytes)
    (code : Nat) (hcode : code ≠ codeContinue) (cs : List Choice) :
    (transfer cfg (Srv.init rep etag code) cs).outcome = .pending ∨
    ((transfer cfg (Srv.init rep etag code) cs).outcome
        = .ok { code := code, etag := etag, payload := rep } ∧
     (transfer cfg (Srv.init rep etag code) cs).srv.recorded = some cfg.payload) := by
  obtain ⟨_, _, hJ⟩ := J.start hcfg rep etag code
  exact hJ.run_safe hcode cs

/-- **C05 (termination).** `payload.length + rep.length + 2` exchanges always suffice. -/
theorem C05_transfer_completes (cfg : Cfg) (hcfg : cfg.Ok) (rep : Bytes) (etag : Option Bytes)
    (code : Nat) (hcode : code ≠ codeContinue) (cs : List Choice)
    (hlen : cfg.payload.length + rep.length + 2 ≤ cs.length) :
    (transfer cfg (Srv.init rep etag code) cs).outcome
        = .ok { code := code, etag := etag, payload := rep } ∧
    (transfer cfg (Srv.init rep etag code) cs).srv.recorded = some cfg.payload := by
  obtain ⟨cur, hst, hJ⟩ := J.start hcfg rep etag code
  have hne := hJ.run_done hcode cs (by rw [hst]; simp only [mu, Nat.zero_mul]; omega)
  rcases hJ.run_safe hcode cs with h | h
  · exact absurd h hne
  · exact h

/-- The closed loop is a run of the same machine the driver executes: the requests and the outcome
of `transfer` are those of `runClient` on the responses the reference server gave (so all wire
theorems above apply to it). -/
theorem C05_transfer_is_run (cfg : Cfg) (s : Srv) (cs : List Choice) :
    runClient cfg (transfer cfg s cs).resps = ((transfer cfg s cs).reqs, (transfer cfg s cs).outcome) :=
  interact_eq_go cfg (start cfg) s cs

-- against a misbehaving server ---------------------------------------------------------------------

/-- **C05 (fails loudly, never with a foreign exception).** Against every response sequence the
run never ends in the assertion of `_generate_next_block2_request` nor in the out-of-bounds
`BadRequest` of `_extract_block`: the only errors are the protocol errors
`UnexpectedBlock1Option`, `UnexpectedBlock2`, `NotImplemented`, `ResourceChanged`. -/
theorem C05_never_internal_error (cfg : Cfg) (hcfg : cfg.Ok) (resps : List Resp) :
    (runClient cfg resps).2 ≠ .error .assertion ∧ (runClient cfg resps).2 ≠ .error .badRequest :=
  (PhaseOk.start hcfg).go resps

/-- A response that breaks a sequencing rule for the request currently outstanding. -/
inductive Misbehaves (cfg : Cfg) : Phase → Resp → Prop
  /-- Block1 acknowledgement for another block number than the one sent -/
  | wrongNumber {st cur r a} : r.block1 = some a → a.num ≠ (sentBlock1 st cur).num →
      Misbehaves cfg (.b1 st cur) r
  /-- more flag or 2.31 Continue on the acknowledgement of the final block -/
  | moreOnFinal {st cur r a} : r.block1 = some a → (sentBlock1 st cur).more = false →
      (a.more = true ∨ r.code = codeContinue) → Misbehaves cfg (.b1 st cur) r
  /-- 2.31 Continue without a Block1 option: a 2.31 only exists as the acknowledgement of a
  Block1 block and can never be a final response (whether or not the block it answers is the
  final one) -/
  | continueWithoutBlock1 {st cur r} : r.block1 = none → r.code = codeContinue →
      Misbehaves cfg (.b1 st cur) r
  /-- a SUCCESSFUL code (2.01, 2.04, 2.05 …) without a Block1 option in answer to a NON-final
  block: Block1 is a critical option, a server that does not know it answers 4.02 and one that
  does echoes it; the server has seen only the first block(s) of the body -/
  | successWithoutBlock1 {st cur r} : r.block1 = none → isSuccessful r.code = true →
      (sentBlock1 st cur).more = true → Misbehaves cfg (.b1 st cur) r
  /-- the response ending the upload carries a first Block2 block that is larger than the block
  size the request asked for in its own Block2 option (the application's size hint) -/
  | firstBlockLarger {st cur r b q} : step cfg (.b1 st cur) r = completeBlock2 cfg cur r →
      r.block2 = some b → cur.block2 = some q → q.szx < b.szx → Misbehaves cfg (.b1 st cur) r
  /-- the response ending the upload carries a first Block2 block whose number is not 0 —
  WHATEVER its more flag (a "last block" that is not the first is only the tail of a body) -/
  | firstBlockNumber {st cur r b} : step cfg (.b1 st cur) r = completeBlock2 cfg cur r →
      r.block2 = some b → b.num ≠ 0 → Misbehaves cfg (.b1 st cur) r
  /-- the response ending the upload carries a first Block2 block with the more flag whose
  payload is not exactly one block (BERT: not a whole number of KiB, or no payload at all) -/
  | firstBlockSize {st cur r b} : step cfg (.b1 st cur) r = completeBlock2 cfg cur r →
      r.block2 = some b → b.more = true → b.okFor r.payload.length = false →
      Misbehaves cfg (.b1 st cur) r
  /-- a block with a larger size exponent than the request it answers asked for (RFC 7959 2.4:
  the server may use a smaller block size, never a larger one) -/
  | szxGrows {t asm cur r b q} : r.block2 = some b → cur.block2 = some q → q.szx < b.szx →
      Misbehaves cfg (.b2 t asm cur) r
  /-- payload length ≠ block size on a non-final block (BERT: not a whole number of KiB, or no
  payload at all), or longer than a block on the last -/
  | badSize {t asm cur r b} : r.block2 = some b → b.okFor r.payload.length = false →
      Misbehaves cfg (.b2 t asm cur) r
  /-- the block does not start where the bytes received so far end: gap, repetition, wrong number,
  number not rescaled after a size change -/
  | outOfSequence {t asm cur r b} : r.block2 = some b → b.start ≠ asm.payload.length →
      Misbehaves cfg (.b2 t asm cur) r
  /-- the response code differs from the first block's in mid-transfer (e.g. an error response
  that carries a Block2 option) -/
  | codeChanged {t asm cur r b} : r.block2 = some b → r.code ≠ asm.code →
      Misbehaves cfg (.b2 t asm cur) r
  /-- the representation changed: ETag differs from the first block's -/
  | etagChanged {t asm cur r b} : r.block2 = some b → r.etag ≠ asm.etag →
      Misbehaves cfg (.b2 t asm cur) r

/-- one misbehaving response turns the machine into an error state -/
theorem step_misbehaves {cfg : Cfg} {ph : Phase} {r : Resp} (h : Misbehaves cfg ph r) :
    ∃ e, step cfg ph r = .done (.error e) := by
  cases h with
  | wrongNumber ha hn => exact ⟨.unexpectedBlock1, by rw [step_b1_some ha]; simp [hn]⟩
  | @moreOnFinal st cur r a ha hs hm =>
    rw [step_b1_some ha]
    by_cases hn : a.num ≠ (sentBlock1 st cur).num
    · exact ⟨.unexpectedBlock1, by rw [if_pos hn]⟩
    · refine ⟨.unexpectedBlock1, ?_⟩
      have : (a.more || r.code == codeContinue) = true := by
        rcases hm with hm | hm <;> simp [hm]
      rw [if_neg hn]
      simp [hs, this]
  | continueWithoutBlock1 ha hc => exact ⟨.unexpectedBlock1, step_b1_none_continue ha hc⟩
  | successWithoutBlock1 ha hc hs => exact ⟨.unexpectedBlock1, step_b1_none_success ha hc hs⟩
  | @firstBlockLarger st cur r b q hst hb hq hlt =>
    rw [hst, completeBlock2_some hb]
    by_cases hs : b.start ≠ 0
    · exact ⟨.unexpectedBlock2, by rw [if_pos hs]⟩
    · refine ⟨.unexpectedBlock2, ?_⟩
      rw [if_neg hs, if_pos]
      simp [BwClient.szxGrows, hq, hlt]
  | @szxGrows t asm cur r b q hb hq hlt =>
    refine ⟨.unexpectedBlock2, ?_⟩
    rw [step_b2_some hb, if_pos]
    simp [BwClient.szxGrows, hq, hlt]
  | @firstBlockNumber st cur r b hst hb hn =>
    rw [hst, completeBlock2_some hb]
    have : b.start ≠ 0 := fun h => hn (BlockOpt.start_eq_zero.mp h)
    exact ⟨.unexpectedBlock2, by rw [if_pos this]⟩
  | @firstBlockSize st cur r b hst hb hm hbad =>
    rw [hst, completeBlock2_some hb]
    by_cases hs : b.start ≠ 0
    · exact ⟨.unexpectedBlock2, by rw [if_pos hs]⟩
    · rw [if_neg hs]
      by_cases hg : BwClient.szxGrows cur b = true
      · exact ⟨.unexpectedBlock2, by rw [if_pos hg]⟩
      rw [if_neg hg]
      by_cases hn : b.num ≠ 0
      · exact ⟨.unexpectedBlock2, by simp [hm, hn]⟩
      · exact ⟨.unexpectedBlock2, by simp [hm, hbad]⟩
  | @codeChanged t asm cur r b hb hc =>
    rw [step_b2_some hb]
    by_cases hg : BwClient.szxGrows cur b = true
    · exact ⟨.unexpectedBlock2, by rw [if_pos hg]⟩
    exact ⟨.unexpectedBlock2, by rw [if_neg hg, if_pos hc]⟩
  | @badSize t asm cur r b hb hv =>
    rw [step_b2_some hb]
    by_cases hg : BwClient.szxGrows cur b = true
    · exact ⟨.unexpectedBlock2, by rw [if_pos hg]⟩
    rw [if_neg hg]
    by_cases hc : r.code ≠ asm.code
    · exact ⟨.unexpectedBlock2, by rw [if_pos hc]⟩
    · exact ⟨.unexpectedBlock2, by rw [if_neg hc]; simp [hv]⟩
  | @outOfSequence t asm cur r b hb hs =>
    rw [step_b2_some hb]
    by_cases hg : BwClient.szxGrows cur b = true
    · exact ⟨.unexpectedBlock2, by rw [if_pos hg]⟩
    rw [if_neg hg]
    by_cases hc : r.code ≠ asm.code
    · exact ⟨.unexpectedBlock2, by rw [if_pos hc]⟩
    rw [if_neg hc]
    by_cases hv : b.okFor r.payload.length = true
    · exact ⟨.notImplemented, by simp [hv, hs]⟩
    · exact ⟨.unexpectedBlock2, by simp [hv]⟩
  | @etagChanged t asm cur r b hb he =>
    rw [step_b2_some hb]
    by_cases hg : BwClient.szxGrows cur b = true
    · exact ⟨.unexpectedBlock2, by rw [if_pos hg]⟩
    rw [if_neg hg]
    by_cases hc : r.code ≠ asm.code
    · exact ⟨.unexpectedBlock2, by rw [if_pos hc]⟩
    rw [if_neg hc]
    by_cases hv : b.okFor r.payload.length = true
    · by_cases hs : b.start ≠ asm.payload.length
      · exact ⟨.notImplemented, by simp [hv, hs]⟩
      · exact ⟨.resourceChanged, by
          rw [if_neg (by simp [hv]), if_neg hs, if_pos he]⟩
    · exact ⟨.unexpectedBlock2, by simp [hv]⟩

/-- **C05 (an error is final).** Once a response has put the machine into a final state, that is
the outcome of the request whatever arrives later. -/
theorem C05_error_is_final (cfg : Cfg) (pre : List Resp) (r : Resp) (suf : List Resp) (o : Outcome)
    (h : step cfg (phaseAfter cfg (start cfg) pre) r = .done o) :
    (runClient cfg (pre ++ r :: suf)).2 = o := by
  unfold runClient
  rw [go_outcome_append, go_cons, h]
  simp

/-- **C05 (misbehaviour ⇒ error, never a body).** After ANY history of responses, a response that
acknowledges the wrong block number, sets the more flag / 2.31 on the final acknowledgement,
is a 2.31 Continue without a Block1 option (to whatever block), is a SUCCESSFUL response without
a Block1 option to a non-final block, carries a Block2 block with a larger size exponent than the
request it answers asked for (also the FIRST block, when the application's request carried a
size hint),
starts the download with a block whose number is not 0 (with or without the more flag),
carries a payload whose length does not fit its Block2 option, does not continue where the body
received so far ends (gap, repetition, unscaled number), carries a different response code than
the first block, or carries a different ETag, ends the request with an error — whatever else the
server sends before or afterwards. -/
theorem C05_misbehaviour_is_error (cfg : Cfg) (pre : List Resp) (r : Resp) (suf : List Resp)
    (h : Misbehaves cfg (phaseAfter cfg (start cfg) pre) r) :
    ∃ e, (runClient cfg (pre ++ r :: suf)).2 = .error e := by
  obtain ⟨e, he⟩ := step_misbehaves h
  exact ⟨e, C05_error_is_final cfg pre r suf _ he⟩

/-- **C05 (a returned body is the server's body).** Let the upload end after the history `pre`
with the response `first`, which is a truthfully labelled slice of `body` — of ANY block number:
a first block that does not start at offset 0 is refused, with or without the more flag. Let the
later responses be ARBITRARY, except that one which carries a Block2 option AND the ETag AND the
response code of the first block is a truthfully labelled slice of `body` (ANY block number, ANY
size; responses with another ETag or another code, e.g. error responses with a diagnostic payload,
and responses without a Block2 option are completely arbitrary). Then the request cannot return
anything but `body` (with the first response's code and ETag) — no truncated, duplicated or mixed
body — with ONE exemption, stated exactly (`SingleResponse`): one of the later responses came
without a Block2 option (in CoAP terms a complete response by itself, e.g. a 4.04 because the
resource went away in mid-transfer) and the result is exactly that one response — its own code, its
own ETag, its own payload — never combined with the blocks received before it. -/
theorem C05_ok_is_server_body (cfg : Cfg) (pre : List Resp) (first : Resp) (rs : List Resp)
    (body : Bytes) (st : B1State) (cur : Req)
    (hph : phaseAfter cfg (start cfg) pre = .b1 st cur)
    (hends : step cfg (.b1 st cur) first = completeBlock2 cfg cur first)
    (h0 : Truthful body first)
    (H : ∀ r ∈ rs, r.block2.isSome = true → r.etag = first.etag → r.code = first.code →
      Truthful body r)
    (o : Body) (hok : (runClient cfg (pre ++ first :: rs)).2 = .ok o) :
    (o.payload = body ∧ o.etag = first.etag ∧ o.code = first.code) ∨
    (∃ r ∈ rs, r.block2 = none ∧ o = bodyOf r) := by
  unfold runClient at hok
  rw [go_outcome_append, hph, go_cons, hends] at hok
  exact completeBlock2_ok_is_body cfg cur body first rs h0 H o hok

/-- **C05 (… and nothing else when every later response carries a Block2 option).** The form of
the first round: no exemption is left when no later response lacks the Block2 option. -/
theorem C05_ok_is_server_body_blockwise (cfg : Cfg) (pre : List Resp) (first : Resp)
    (rs : List Resp) (body : Bytes) (st : B1State) (cur : Req)
    (hph : phaseAfter cfg (start cfg) pre = .b1 st cur)
    (hends : step cfg (.b1 st cur) first = completeBlock2 cfg cur first)
    (h0 : Truthful body first)
    (H : ∀ r ∈ rs, r.block2.isSome = true ∧
      (r.etag = first.etag → r.code = first.code → Truthful body r))
    (o : Body) (hok : (runClient cfg (pre ++ first :: rs)).2 = .ok o) :
    o.payload = body ∧ o.etag = first.etag ∧ o.code = first.code := by
  rcases C05_ok_is_server_body cfg pre first rs body st cur hph hends h0
      (fun r hr _ => (H r hr).2) o hok with h | ⟨r, hr, hnone, _⟩
  · exact h
  · have := (H r hr).1
    rw [hnone] at this
    cases this

-- the upload is complete when a response is returned -------------------------------------------------

/-- **C05 (a response means the upload was completed — exact exceptions).** Against ANY response
sequence: when the request yields a response, the final Block1 request (the unfragmented request,
or the block without the more flag, which by `C05_block1_blocks` reaches the end of the payload)
was emitted — unless the SERVER FAILED the upload itself: its response `e` to a NON-final block
(after the history `pre`) had an UNSUCCESSFUL code (4.08, 4.13, 5.00 …) and

* carried no Block1 option at all, or
* acknowledged the block with the more flag cleared,

and the client took `e` for the (first block of the) result: the request failed, and the caller
is told so (`C05_ok_is_server_body` with `first := e`: its hypothesis `hends` is the last
conjunct here). A SUCCESSFUL code without a Block1 option to a non-final block — aiocoap's former
"Block1 option completely ignored by server, assuming it knows what it is doing", which reported
an upload as successful of which the server had seen one block — is no exception any more (false
before the fix in `BlockwiseRequest._run`; `Misbehaves.successWithoutBlock1`), nor is a 2.31. -/
theorem C05_ok_upload_complete (cfg : Cfg) (hcfg : cfg.Ok) (resps : List Resp) (o : Body)
    (hok : (runClient cfg resps).2 = .ok o) :
    (∃ r ∈ block1Requests cfg resps, FinalReq r) ∨
    (∃ pre e suf st cur, resps = pre ++ e :: suf ∧
      phaseAfter cfg (start cfg) pre = .b1 st cur ∧ (sentBlock1 st cur).more = true ∧
      EndsUploadEarly e ∧ step cfg (.b1 st cur) e = completeBlock2 cfg cur e) := by
  obtain ⟨cur, h1, h2⟩ := enterB1_of_inv (B1Inv.start hcfg)
  unfold runClient at hok
  unfold block1Requests runClient
  rw [show start cfg = .b1 { szx := startSzx cfg, cursor := 0 } cur from h2] at hok ⊢
  exact ok_upload_go resps (B1Inv.start hcfg) h1 o hok

/-- **C05 (request body intact whenever a response is returned).** `C05_block1_reassembles` with
its hypothesis discharged: if the request yields a response and the server did not fail the upload
early (no response to a non-final block has one of the two shapes of `EndsUploadEarly`, both with
an unsuccessful code), the reference reassembly of the emitted Block1 requests is exactly the
payload handed to the API. -/
theorem C05_ok_request_body_intact (cfg : Cfg) (hcfg : cfg.Ok) (resps : List Resp) (o : Body)
    (hok : (runClient cfg resps).2 = .ok o)
    (hsrv : ∀ pre e suf st cur, resps = pre ++ e :: suf →
      phaseAfter cfg (start cfg) pre = .b1 st cur → (sentBlock1 st cur).more = true →
      ¬ EndsUploadEarly e) :
    reassemble (block1Requests cfg resps) = some cfg.payload := by
  rcases C05_ok_upload_complete cfg hcfg resps o hok with h | ⟨pre, e, suf, st, cur, h1, h2, h3, h4, _⟩
  · exact C05_block1_reassembles cfg hcfg resps h
  · exact absurd h4 (hsrv pre e suf st cur h1 h2 h3)

/-- **C05 (success means the upload was completed).** Against ANY response sequence: when the
request yields a response with a SUCCESSFUL code, the final Block1 request was emitted — a
truncated upload is never reported as success. The one way around it is the single-response
exemption of `C05_ok_is_server_body`, stated exactly: the server failed the upload with an
unsuccessful response `e` to a non-final block, `e` itself was the first block of a block-wise
(error) body, and a LATER response `r` came without a Block2 option; the result is exactly that
`r`, alone (`SingleResponse`). -/
theorem C05_success_upload_complete (cfg : Cfg) (hcfg : cfg.Ok) (resps : List Resp) (o : Body)
    (hok : (runClient cfg resps).2 = .ok o) (hsucc : isSuccessful o.code = true) :
    (∃ r ∈ block1Requests cfg resps, FinalReq r) ∨
    (∃ pre e suf st cur, resps = pre ++ e :: suf ∧
      phaseAfter cfg (start cfg) pre = .b1 st cur ∧ (sentBlock1 st cur).more = true ∧
      EndsUploadEarly e ∧ SingleResponse suf o) := by
  rcases C05_ok_upload_complete cfg hcfg resps o hok with h | ⟨pre, e, suf, st, cur, h1, h2, h3, h4, h5⟩
  · exact Or.inl h
  · right
    refine ⟨pre, e, suf, st, cur, h1, h2, h3, h4, ?_⟩
    unfold runClient at hok
    rw [h1, go_outcome_append, h2, go_cons, h5] at hok
    rcases completeBlock2_ok_code cfg cur e suf o hok with hc | hs
    · have := h4.unsuccessful
      rw [← hc, hsucc] at this
      cases this
    · exact hs

/-- **C05 (request body intact whenever SUCCESS is returned).** If the request yields a response
with a successful code and the server's unsuccessful responses are not themselves the first
block of a block-wise body (no unsuccessful response carries a Block2 option with the more flag),
the reference reassembly of the emitted Block1 requests is exactly the payload handed to the API —
whatever else the server does. -/
theorem C05_success_request_body_intact (cfg : Cfg) (hcfg : cfg.Ok) (resps : List Resp)
    (o : Body) (hok : (runClient cfg resps).2 = .ok o) (hsucc : isSuccessful o.code = true)
    (herr : ∀ r ∈ resps, isSuccessful r.code = false → ∀ b, r.block2 = some b → b.more = false) :
    reassemble (block1Requests cfg resps) = some cfg.payload := by
  rcases C05_ok_upload_complete cfg hcfg resps o hok with h | ⟨pre, e, suf, st, cur, h1, h2, _, h4, h5⟩
  · exact C05_block1_reassembles cfg hcfg resps h
  · exfalso
    have hun := h4.unsuccessful
    have hmem : e ∈ resps := by rw [h1]; simp
    unfold runClient at hok
    rw [h1, go_outcome_append, h2, go_cons, h5] at hok
    rcases completeBlock2_nomore cfg cur e (herr e hmem hun) with hc | ⟨err, hc⟩
    · rw [hc] at hok
      simp only [go_done, Outcome.ok.injEq] at hok
      rw [← hok] at hsucc
      simp only [bodyOf] at hsucc
      rw [hsucc] at hun
      cases hun
    · rw [hc] at hok
      simp at hok

/-- **C05 (size exponent never grows, Block2 options of the requests).** Against ANY response
sequence the size exponents of the Block2 options the client puts on the wire never grow — over
ALL its requests: the application's size hint `block2=(0, False, szx)` on the request(s) of the
upload phase (when the request handed to the API carries one), then the requests of the Block2
loop. A first block larger than the hint asked for is refused (`Misbehaves.firstBlockLarger`;
false before the fix: hint 3, first block at exponent 6 → requests at 3, 6, 6), a later block
larger than requested is refused (`Misbehaves.szxGrows`), a smaller one is followed, and the
client's own maximum caps the first request of the Block2 loop. -/
theorem C05_block2_szx_never_grows (cfg : Cfg) (hcfg : cfg.Ok) (resps : List Resp) :
    List.Pairwise (fun a b : BlockOpt => b.szx ≤ a.szx)
      ((runClient cfg resps).1.filterMap (·.block2)) :=
  b2_pairwise_go (PhaseOk.start hcfg) resps

/-- **C05 (the same block is never asked for twice).** Against ANY response sequence the requests
of the Block2 loop (those that ask for a later block of the response: block number other than 0)
ask for strictly increasing byte offsets: every block the client accepts advances the transfer.
A server that answers "more to come" without payload is refused (`Misbehaves.badSize` /
`firstBlockSize`) instead of being asked for the same block again and again — false before the fix
for BERT blocks, where `is_valid_for_payload_size` accepts an empty non-final block ("a whole
number of KiB") and nothing else refused it; `BlockOpt.okFor` is the assembly's check with the fix. -/
theorem C05_block2_offsets_increase (cfg : Cfg) (hcfg : cfg.Ok) (resps : List Resp) :
    List.Pairwise (· < ·) (loopStarts (runClient cfg resps).1) :=
  loop_starts_go (PhaseOk.start hcfg) resps

/-- **C05 (never larger blocks than the application asked for).** With a size hint `h` in the
request handed to the API, every Block2 option the client ever puts on the wire has an exponent
≤ `h` — against ANY response sequence. -/
theorem C05_block2_szx_below_hint (cfg : Cfg) (hcfg : cfg.Ok) (resps : List Resp) (h : Nat)
    (hh : cfg.hint2 = some h) :
    ∀ b ∈ (runClient cfg resps).1.filterMap (·.block2), b.szx ≤ h := by
  obtain ⟨cur, _, h2⟩ := enterB1_of_inv (B1Inv.start hcfg)
  have hb := (b2_pairwise_bound_go (PhaseOk.start hcfg) resps).2
    (by rw [show start cfg = .b1 { szx := startSzx cfg, cursor := 0 } cur from h2]; trivial)
    ⟨0, false, h⟩ (by simp [hintOpt, hh])
  exact hb

-- non-vacuity and sanity ----------------------------------------------------------------------------

/-- 40 bytes at szx 0: blocks of 16, 16, 8 bytes; Size1 on the first; the final 2.04 is returned -/
example :
    runClient { payload := List.range 40, szx0 := 0, maxPayload := 1124 }
      [⟨95, some ⟨0, true, 0⟩, none, none, []⟩, ⟨95, some ⟨1, true, 0⟩, none, none, []⟩,
       ⟨68, some ⟨2, false, 0⟩, none, none, [7]⟩]
    = ([⟨some ⟨0, true, 0⟩, none, some 40, List.range 16⟩,
        ⟨some ⟨1, true, 0⟩, none, none, (List.range 32).drop 16⟩,
        ⟨some ⟨2, false, 0⟩, none, none, (List.range 40).drop 32⟩],
       .ok ⟨68, none, [7]⟩) := by decide

/-- mid-transfer reduction: 100 bytes at szx 2 (64-byte blocks); the server acknowledges block 0
asking for szx 0, the client continues with 16-byte blocks 4, 5 and the final 6 (4 bytes) -/
example :
    ((runClient { payload := List.range 100, szx0 := 2, maxPayload := 1124 }
      [⟨95, some ⟨0, true, 0⟩, none, none, []⟩, ⟨95, some ⟨4, true, 0⟩, none, none, []⟩,
       ⟨95, some ⟨5, true, 0⟩, none, none, []⟩, ⟨68, some ⟨6, false, 0⟩, none, none, []⟩]).1.map
        (fun r => (r.block1, r.payload.length)))
    = [(some ⟨0, true, 2⟩, 64), (some ⟨4, true, 0⟩, 16), (some ⟨5, true, 0⟩, 16),
       (some ⟨6, false, 0⟩, 4)] := by decide

/-- closed loop with reductions in both directions: 50-byte upload, 70-byte download, client
maximum szx 1 (32 bytes); the server asks for szx 0 in its first acknowledgement and serves the
representation in 16-byte blocks -/
example :
    let run := transfer { payload := List.range 50, szx0 := 1, maxPayload := 1124 }
      (Srv.init (List.range 70) (some [1]) 69)
      [⟨0, false⟩, ⟨0, false⟩, ⟨0, false⟩, ⟨0, false⟩, ⟨0, false⟩, ⟨0, false⟩, ⟨0, false⟩]
    run.outcome = .ok ⟨69, some [1], List.range 70⟩ ∧ run.srv.recorded = some (List.range 50) ∧
    run.reqs.map (fun r => (r.block1, r.block2)) =
      [(some ⟨0, true, 1⟩, none), (some ⟨2, true, 0⟩, none), (some ⟨3, false, 0⟩, none),
       (none, some ⟨1, false, 0⟩), (none, some ⟨2, false, 0⟩), (none, some ⟨3, false, 0⟩),
       (none, some ⟨4, false, 0⟩)] := by decide

/-- the hypotheses of `C05_ok_is_server_body` are satisfiable: an honest two-block download -/
example : Truthful (List.range 20) ⟨69, none, some ⟨0, true, 0⟩, some [9], List.range 16⟩ :=
  ⟨⟨0, true, 0⟩, 16, rfl, fun _ => rfl, by decide, by decide⟩
example : Truthful (List.range 20) ⟨69, none, some ⟨1, false, 0⟩, some [9], [16, 17, 18, 19]⟩ :=
  ⟨⟨1, false, 0⟩, 16, rfl, fun _ => rfl, by decide, by decide⟩
example :
    (runClient { payload := [], szx0 := 6, maxPayload := 1124 }
      [⟨69, none, some ⟨0, true, 0⟩, some [9], List.range 16⟩,
       ⟨69, none, some ⟨1, false, 0⟩, some [9], [16, 17, 18, 19]⟩]).2
    = .ok ⟨69, some [9], List.range 20⟩ := by decide

/-- ... and the same download with a changed ETag, a repeated block, or a short non-final block
ends in the respective error -/
example :
    (runClient { payload := [], szx0 := 6, maxPayload := 1124 }
      [⟨69, none, some ⟨0, true, 0⟩, some [9], List.range 16⟩,
       ⟨69, none, some ⟨1, false, 0⟩, some [8], [16, 17, 18, 19]⟩]).2 = .error .resourceChanged := by
  decide
example :
    (runClient { payload := [], szx0 := 6, maxPayload := 1124 }
      [⟨69, none, some ⟨0, true, 0⟩, some [9], List.range 16⟩,
       ⟨69, none, some ⟨0, true, 0⟩, some [9], List.range 16⟩]).2 = .error .notImplemented := by
  decide
example :
    (runClient { payload := [], szx0 := 6, maxPayload := 1124 }
      [⟨69, none, some ⟨0, true, 0⟩, some [9], List.range 15⟩]).2 = .error .unexpectedBlock2 := by
  decide
/-- `Misbehaves` is inhabited on a reachable state: at the start of a 40-byte upload at szx 0 an
acknowledgement for block 1 instead of block 0 is a wrong number; the run ends in the error -/
example :
    Misbehaves { payload := List.range 40, szx0 := 0, maxPayload := 1124 }
      (phaseAfter { payload := List.range 40, szx0 := 0, maxPayload := 1124 }
        (start { payload := List.range 40, szx0 := 0, maxPayload := 1124 }) [])
      ⟨95, some ⟨1, true, 0⟩, none, none, []⟩ := by
  have h : start { payload := List.range 40, szx0 := 0, maxPayload := 1124 }
      = .b1 ⟨0, 0⟩ ⟨some ⟨0, true, 0⟩, none, some 40, List.range 16⟩ := by decide
  simp only [phaseAfter, List.foldl_nil, h]
  exact .wrongNumber rfl (by decide)
example :
    (runClient { payload := List.range 40, szx0 := 0, maxPayload := 1124 }
      [⟨95, some ⟨1, true, 0⟩, none, none, []⟩]).2 = .error .unexpectedBlock1 := by decide

/-- the two inputs fixed in the second round: a first answer labelled "block 3, last" (truthfully:
it IS the tail of the body) is an error, not a body; a 4.04 carrying a Block2 option in
mid-transfer is not glued onto the 2.05 body -/
example : Truthful (List.range 60) ⟨69, none, some ⟨3, false, 0⟩, none, (List.range 60).drop 48⟩ :=
  ⟨⟨3, false, 0⟩, 16, rfl, fun _ => rfl, by decide, by decide⟩
example :
    (runClient { payload := [], szx0 := 6, maxPayload := 1124 }
      [⟨69, none, some ⟨3, false, 0⟩, none, (List.range 60).drop 48⟩]).2
    = .error .unexpectedBlock2 := by decide
example :
    (runClient { payload := [], szx0 := 6, maxPayload := 1124 }
      [⟨69, none, some ⟨0, true, 0⟩, none, List.range 16⟩,
       ⟨132, none, some ⟨1, false, 0⟩, none, [105, 116]⟩]).2 = .error .unexpectedBlock2 := by decide

/-- the inputs fixed in the third round. (1) 48 bytes at szx 0 (3 blocks): a 2.31 WITHOUT Block1
option after block 0 is an error (it was handed out as the result). -/
example :
    runClient { payload := List.range 48, szx0 := 0, maxPayload := 1124 }
      [⟨95, none, none, none, []⟩]
    = ([⟨some ⟨0, true, 0⟩, none, some 48, List.range 16⟩], .error .unexpectedBlock1) := by decide
/-- the inputs fixed in the fourth round. (N2) a 2.04 without the option after block 0 or after the
middle block — formerly the tolerated "server ignored Block1" case: success reported after 16 of
48 bytes — is an error; after the LAST block it is the result (the whole body was sent), and so
it is in answer to a request that fits into one message; a 4.08 without the option after block 0
is passed on as the (failed) result and no further block is sent — `EndsUploadEarly` is inhabited
on a reachable state, `Misbehaves.successWithoutBlock1` too. -/
example :
    runClient { payload := List.range 48, szx0 := 0, maxPayload := 1124 }
      [⟨68, none, none, none, [1]⟩]
    = ([⟨some ⟨0, true, 0⟩, none, some 48, List.range 16⟩], .error .unexpectedBlock1) := by decide
example :
    (runClient { payload := List.range 48, szx0 := 0, maxPayload := 1124 }
      [⟨95, some ⟨0, true, 0⟩, none, none, []⟩, ⟨65, none, none, none, []⟩]).2
    = .error .unexpectedBlock1 := by decide
example :
    (runClient { payload := List.range 48, szx0 := 0, maxPayload := 1124 }
      [⟨95, some ⟨0, true, 0⟩, none, none, []⟩, ⟨95, some ⟨1, true, 0⟩, none, none, []⟩,
       ⟨68, none, none, none, [1]⟩]).2 = .ok ⟨68, none, [1]⟩ := by decide
example :
    (runClient { payload := List.range 16, szx0 := 0, maxPayload := 1124 }
      [⟨68, none, none, none, [1]⟩]).2 = .ok ⟨68, none, [1]⟩ := by decide
example :
    runClient { payload := List.range 48, szx0 := 0, maxPayload := 1124 }
      [⟨136, none, none, none, [1]⟩]
    = ([⟨some ⟨0, true, 0⟩, none, some 48, List.range 16⟩], .ok ⟨136, none, [1]⟩) := by decide
example : EndsUploadEarly ⟨136, none, none, none, [1]⟩ := .ignoredBlock1 rfl (by decide)
example : EndsUploadEarly ⟨136, some ⟨0, false, 0⟩, none, none, []⟩ := .failed rfl rfl (by decide)
example :
    Misbehaves { payload := List.range 48, szx0 := 0, maxPayload := 1124 }
      (.b1 ⟨0, 0⟩ ⟨some ⟨0, true, 0⟩, none, some 48, List.range 16⟩) ⟨68, none, none, none, [1]⟩ :=
  .successWithoutBlock1 rfl (by decide) (by decide)
/-- (N1) a GET with the size hint `block2=(0, False, 0)` (16-byte blocks): the hint is on the first
request; a first block of exponent 2 is refused (the requests would have gone 0, 2, 2); an honest
server is followed at exponent 0, and one that answers in the hinted size is fine. -/
example :
    runClient { payload := [], szx0 := 6, maxPayload := 1124, hint2 := some 0 }
      [⟨69, none, some ⟨0, true, 2⟩, none, List.range 64⟩]
    = ([⟨none, some ⟨0, false, 0⟩, none, []⟩], .error .unexpectedBlock2) := by decide
example :
    runClient { payload := [], szx0 := 6, maxPayload := 1124, hint2 := some 0 }
      [⟨69, none, some ⟨0, false, 2⟩, none, List.range 20⟩]
    = ([⟨none, some ⟨0, false, 0⟩, none, []⟩], .error .unexpectedBlock2) := by decide
example :
    runClient { payload := [], szx0 := 6, maxPayload := 1124, hint2 := some 0 }
      [⟨69, none, some ⟨0, true, 0⟩, none, List.range 16⟩,
       ⟨69, none, some ⟨1, false, 0⟩, none, [16, 17, 18, 19]⟩]
    = ([⟨none, some ⟨0, false, 0⟩, none, []⟩, ⟨none, some ⟨1, false, 0⟩, none, []⟩],
       .ok ⟨69, none, List.range 20⟩) := by decide
/-- an upload with a hint: every Block1 request carries it; the closed loop with the reference
server, which honours the hint, delivers both bodies -/
example :
    let run := transfer { payload := List.range 40, szx0 := 0, maxPayload := 1124, hint2 := some 1 }
      (Srv.init (List.range 70) none 69) [⟨6, false⟩, ⟨6, false⟩, ⟨6, false⟩, ⟨6, false⟩, ⟨6, false⟩,
        ⟨6, false⟩, ⟨6, false⟩]
    run.outcome = .ok ⟨69, none, List.range 70⟩ ∧ run.srv.recorded = some (List.range 40) ∧
    run.reqs.map (fun r => (r.block1, r.block2)) =
      [(some ⟨0, true, 0⟩, some ⟨0, false, 1⟩), (some ⟨1, true, 0⟩, some ⟨0, false, 1⟩),
       (some ⟨2, false, 0⟩, some ⟨0, false, 1⟩),
       (none, some ⟨2, false, 0⟩), (none, some ⟨3, false, 0⟩), (none, some ⟨4, false, 0⟩)] := by
  decide
/-- (3) a download at szx 0 in which the server answers the request for block 4 (offset 64) with a
64-byte block of szx 2: refused; the Block2 requests were 1, 2, 3, 4 at szx 0 -/
example :
    let run := runClient { payload := [], szx0 := 6, maxPayload := 1124 }
      [⟨69, none, some ⟨0, true, 0⟩, none, List.range 16⟩,
       ⟨69, none, some ⟨1, true, 0⟩, none, List.range 16⟩,
       ⟨69, none, some ⟨2, true, 0⟩, none, List.range 16⟩,
       ⟨69, none, some ⟨3, true, 0⟩, none, List.range 16⟩,
       ⟨69, none, some ⟨1, true, 2⟩, none, List.range 64⟩]
    run.2 = .error .unexpectedBlock2 ∧
    run.1.filterMap (·.block2) = [⟨1, false, 0⟩, ⟨2, false, 0⟩, ⟨3, false, 0⟩, ⟨4, false, 0⟩] := by
  decide
/-- (4) the one exemption of `C05_ok_is_server_body`: a 4.04 without Block2 option in mid-download
is the result, alone (not glued onto the 16 bytes received before) -/
example :
    (runClient { payload := [], szx0 := 6, maxPayload := 1124 }
      [⟨69, none, some ⟨0, true, 0⟩, some [9], List.range 16⟩,
       ⟨132, none, none, none, [103, 111, 110, 101]⟩]).2 = .ok ⟨132, none, [103, 111, 110, 101]⟩ := by
  decide

/-- a Block1 option in the answer to an unfragmented request: size hint in a 4.13 is passed on,
a more flag is an error (the code path fixed in aiocoap) -/
example :
    (runClient { payload := [1, 2, 3], szx0 := 6, maxPayload := 1124 }
      [⟨141, some ⟨0, false, 2⟩, none, none, []⟩]).2 = .ok ⟨141, none, []⟩ := by decide
example :
    (runClient { payload := [1, 2, 3], szx0 := 6, maxPayload := 1124 }
      [⟨95, some ⟨0, true, 2⟩, none, none, []⟩]).2 = .error .unexpectedBlock1 := by decide

-- the deprecated Block1 size hint (round 4) -------------------------------------------------------

/-- `block1=(0, False, 0)` preset by the application on a remote whose maximum is 6: the upload
starts at exponent 0 (40 bytes: 16, 16, 8), and a request that fits into one block still goes out
with a Block1 option -/
example : Cfg.Ok { payload := List.range 40, szx0 := 6, maxPayload := 1124, hint1 := some 0 } :=
  ⟨by decide, fun h => by revert h; decide⟩
example :
    ((runClient { payload := List.range 40, szx0 := 6, maxPayload := 1124, hint1 := some 0 }
      [⟨95, some ⟨0, true, 0⟩, none, none, []⟩, ⟨95, some ⟨1, true, 0⟩, none, none, []⟩]).1.map
        (fun r => (r.block1, r.payload.length)))
    = [(some ⟨0, true, 0⟩, 16), (some ⟨1, true, 0⟩, 16), (some ⟨2, false, 0⟩, 8)] ∧
    (runClient { payload := List.range 10, szx0 := 6, maxPayload := 1124, hint1 := some 2 } []).1
    = [⟨some ⟨0, false, 2⟩, none, some 10, List.range 10⟩] := by decide
/-- … also with an EMPTY body: block 0 of nothing, which the reference reassembly takes for the
(empty) payload. (`_extract_block` refused it before the fix: `BadRequest`, nothing was sent.) -/
example :
    let run := runClient { payload := [], szx0 := 6, maxPayload := 1124, hint1 := some 2 }
      [⟨68, some ⟨0, false, 2⟩, none, none, []⟩]
    run = ([⟨some ⟨0, false, 2⟩, none, some 0, []⟩], .ok ⟨68, none, []⟩) ∧
    reassemble run.1 = some [] := by decide

-- BERT (round 4) ----------------------------------------------------------------------------------

/-- the configurations the theorems quantify over are inhabited by a BERT remote -/
example : Cfg.Ok { payload := List.range 1200, szx0 := 7, maxPayload := 1124 } :=
  ⟨by decide, fun _ => by decide⟩

set_option maxRecDepth 100000 in
/-- a remote that does BERT (maximum exponent 7, maximum payload 1124: a fresh TCP connection),
1200 bytes: block 0 is a BERT block of 1 KiB; the server acknowledges it asking for exponent 6 (it
does not do BERT); the client continues with block 1 of exponent 6 — byte 1024, where the BERT
block ended — the final 176 bytes. (The code before the fix doubled the cursor for the step 7 → 6
and asked `_extract_block` for block 2 = byte 2048: "Block request out of bounds".) -/
example :
    let run := runClient { payload := List.range 1200, szx0 := 7, maxPayload := 1124 }
      [⟨95, some ⟨0, true, 6⟩, none, none, []⟩, ⟨68, some ⟨1, false, 6⟩, none, none, []⟩]
    run.1.map (fun r => (r.block1, r.size1, r.payload.length)) =
      [(some ⟨0, true, 7⟩, some 1200, 1024), (some ⟨1, false, 6⟩, none, 176)] ∧
    run.2 = .ok ⟨68, none, []⟩ ∧
    reassemble run.1 = some (List.range 1200) := by decide

set_option maxRecDepth 100000 in
/-- … and when the server asks for exponent 4 (256 bytes) instead: block 4 = byte 1024; a BERT
peer that keeps exponent 7 gets the cursor advanced by the KiB sent -/
example :
    ((runClient { payload := List.range 1300, szx0 := 7, maxPayload := 1124 }
      [⟨95, some ⟨0, true, 4⟩, none, none, []⟩]).1.map (fun r => (r.block1, r.payload.length)))
    = [(some ⟨0, true, 7⟩, 1024), (some ⟨4, true, 4⟩, 256)] ∧
    ((runClient { payload := List.range 1300, szx0 := 7, maxPayload := 1124 }
      [⟨95, some ⟨0, true, 7⟩, none, none, []⟩]).1.map (fun r => (r.block1, r.payload.length)))
    = [(some ⟨0, true, 7⟩, 1024), (some ⟨1, false, 7⟩, 276)] := by decide

set_option maxRecDepth 100000 in
/-- closed loop: the BERT client against the reference server, whose own exponents are 0..6 (it
asks for exponent 5 in answer to the BERT block): both bodies arrive -/
example :
    let run := transfer { payload := List.range 1200, szx0 := 7, maxPayload := 1124 }
      (Srv.init (List.range 70) none 69) [⟨5, false⟩, ⟨5, false⟩, ⟨5, false⟩]
    run.outcome = .ok ⟨69, none, List.range 70⟩ ∧ run.srv.recorded = some (List.range 1200) ∧
    run.reqs.map (fun r => (r.block1, r.payload.length)) =
      [(some ⟨0, true, 7⟩, 1024), (some ⟨2, false, 5⟩, 176)] := by decide

set_option maxRecDepth 100000 in
/-- BERT download: a block of 1 KiB, the last one short; the request asks for KiB 1 -/
example :
    let run := runClient { payload := [], szx0 := 7, maxPayload := 1124 }
      [⟨69, none, some ⟨0, true, 7⟩, none, List.range 1024⟩,
       ⟨69, none, some ⟨1, false, 7⟩, none, (List.range 1100).drop 1024⟩]
    run.2 = .ok ⟨69, none, List.range 1100⟩ ∧
    run.1.map (·.block2) = [none, some ⟨1, false, 7⟩] := by decide

/-- a BERT block that says "more to come" and carries no payload is refused (the code before the
fix appended it and asked for the same block again, for ever) -/
example :
    runClient { payload := [], szx0 := 7, maxPayload := 1124 }
      [⟨69, none, some ⟨0, true, 7⟩, none, []⟩]
    = ([⟨none, none, none, []⟩], .error .unexpectedBlock2) := by decide

set_option maxRecDepth 100000 in
/-- … also later in the transfer, and so is a block that is not a whole number of KiB -/
example :
    (runClient { payload := [], szx0 := 7, maxPayload := 1124 }
      [⟨69, none, some ⟨0, true, 7⟩, none, List.range 1024⟩,
       ⟨69, none, some ⟨1, true, 7⟩, none, []⟩]).2 = .error .unexpectedBlock2 ∧
    (runClient { payload := [], szx0 := 7, maxPayload := 1124 }
      [⟨69, none, some ⟨0, true, 7⟩, none, List.range 1000⟩]).2 = .error .unexpectedBlock2 := by
  decide

end Aiocoap.BwClient
