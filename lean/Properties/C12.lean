import Proofs.Oscore.ReplayWindow
/-!
# C12 — OSCORE replay protection: a protected request is accepted at most once

Model: `AiocoapModel/Oscore/ReplayWindow.lean` (`RW`, `unprotect`, `run`).
All theorems quantify over every arrival sequence (any order, multiplicity, jumps,
forgeries), every window size ≥ 1 and every well-formed start state (initialised
or not).  Only property theorems and non-vacuity examples live in this file.
-/
namespace Aiocoap.Oscore

/-- well-formed context: the window, if initialised, has the context's size, at least one
slot and no stray bits (the representation invariant of `ReplayWindow`) -/
def Ctx.wf (c : Ctx) : Prop := 0 < c.size ∧ ∀ w, c.win = some w → w.size = c.size ∧ w.wf

/-- sequence numbers of the arrivals that `unprotect` accepted, in order -/
def runAccepted (c : Ctx) : List Arrival → List Nat
  | [] => []
  | a :: as =>
    let r := unprotect c a
    (if r.2 = .accepted then [a.seq] else []) ++ runAccepted r.1 as

/-- state after a whole arrival sequence -/
def finalCtx (c : Ctx) (as : List Arrival) : Ctx := (run c as).1

theorem finalCtx_cons (c : Ctx) (a : Arrival) (as : List Arrival) :
    finalCtx c (a :: as) = finalCtx (unprotect c a).1 as := by
  simp [finalCtx, run]

/-- "this number is currently refused by the window" -/
def Refused (c : Ctx) (n : Nat) : Prop := ∃ w, c.win = some w ∧ w.isValid n = false

-- single-step facts ---------------------------------------------------------

/-- The three ways a step can go: nothing changes and nothing is accepted; a valid authentic
number is struck; an uninitialised window is initialised by an authentic echoing request. -/
theorem unprotect_cases (c : Ctx) (a : Arrival) :
    ((unprotect c a).1 = c ∧ (unprotect c a).2 ≠ .accepted) ∨
    (∃ w w', c.win = some w ∧ w.strikeOut a.seq = some w' ∧ a.authentic = true ∧
        unprotect c a = ({ c with win := some w' }, .accepted)) ∨
    (c.win = none ∧ a.authentic = true ∧ a.echo = c.echoRecovery ∧ c.echoRecovery.isSome ∧
        unprotect c a = ({ c with win := some (RW.freshlySeen c.size a.seq) }, .accepted)) := by
  unfold unprotect
  cases hwin : c.win with
  | some w =>
    simp only
    by_cases hv : w.isValid a.seq = true
    · by_cases ha : a.authentic = true
      · obtain ⟨w', hst⟩ := RW.strikeOut_isSome hv
        right; left
        exact ⟨w, w', by simp, hst, ha, by simp [hv, ha, hst]⟩
      · left; simp [hv, ha]
    · left
      by_cases he : c.echoRecovery.isNone = true <;> by_cases ha : a.authentic = true <;>
        simp [hv, he, ha]
  | none =>
    simp only
    by_cases he : c.echoRecovery.isNone = true
    · left; simp [he]
    · by_cases ha : a.authentic = true
      · by_cases hec : (a.echo == c.echoRecovery) = true
        · right; right
          have : c.echoRecovery.isSome = true := by
            cases h : c.echoRecovery <;> simp [h] at he ⊢
          exact ⟨by simp, ha, by simpa using hec, this, by simp [he, ha, hec]⟩
        · left; simp [he, ha, hec]
      · left; simp [he, ha]

theorem unprotect_size (c : Ctx) (a : Arrival) : (unprotect c a).1.size = c.size := by
  rcases unprotect_cases c a with h | ⟨w, w', _, _, _, h⟩ | ⟨_, _, _, _, h⟩
  · rw [h.1]
  · rw [h]
  · rw [h]

theorem unprotect_wf {c : Ctx} (hc : c.wf) (a : Arrival) : (unprotect c a).1.wf := by
  obtain ⟨hs, hw⟩ := hc
  rcases unprotect_cases c a with h | ⟨w, w', hwin, hst, _, h⟩ | ⟨_, _, _, _, h⟩
  · rw [h.1]; exact ⟨hs, hw⟩
  · rw [h]
    refine ⟨hs, ?_⟩
    intro w'' h''
    simp only [Option.some.injEq] at h''
    subst h''
    obtain ⟨h1, h2⟩ := hw w hwin
    exact ⟨by rw [(RW.strikeOut_some hst).2.1, h1], RW.strike_wf h2 hst⟩
  · rw [h]
    refine ⟨hs, ?_⟩
    intro w'' h''
    simp only [Option.some.injEq] at h''
    subst h''
    exact ⟨rfl, RW.freshlySeen_wf hs⟩

theorem freshlySeen_refuses (size n : Nat) (hs : 0 < size) :
    (RW.freshlySeen size n).isValid n = false := by
  rw [RW.isValid_eq]
  simp only [RW.freshlySeen]
  have h1 : ¬ n < n := by omega
  have h2 : ¬ n ≥ n + size := by omega
  simp [h2]

/-- an accepted arrival is refused afterwards -/
theorem accepted_then_refused {c : Ctx} (hc : c.wf) {a : Arrival}
    (h : (unprotect c a).2 = .accepted) : Refused (unprotect c a).1 a.seq := by
  rcases unprotect_cases c a with h' | ⟨w, w', hwin, hst, _, h'⟩ | ⟨_, _, _, _, h'⟩
  · exact absurd h h'.2
  · rw [h']; exact ⟨w', rfl, RW.strike_invalidates (hc.2 w hwin).2.1 hst⟩
  · rw [h']; exact ⟨_, rfl, freshlySeen_refuses _ _ hc.1⟩

/-- a refused number stays refused across any step -/
theorem refused_stable {c : Ctx} {n : Nat} (h : Refused c n) (a : Arrival) :
    Refused (unprotect c a).1 n := by
  obtain ⟨w, hwin, hv⟩ := h
  rcases unprotect_cases c a with h' | ⟨w0, w', hwin0, hst, _, h'⟩ | ⟨hnone, _, _, _, h'⟩
  · rw [h'.1]; exact ⟨w, hwin, hv⟩
  · rw [h']
    rw [hwin] at hwin0; cases hwin0
    exact ⟨w', rfl, RW.strike_mono hst hv⟩
  · rw [hwin] at hnone; cases hnone

/-- a refused number is not accepted -/
theorem refused_not_accepted {c : Ctx} {a : Arrival} (h : Refused c a.seq) :
    (unprotect c a).2 ≠ .accepted := by
  obtain ⟨w, hwin, hv⟩ := h
  rcases unprotect_cases c a with h' | ⟨w0, w', hwin0, hst, _, h'⟩ | ⟨hnone, _, _, _, h'⟩
  · exact h'.2
  · rw [hwin] at hwin0; cases hwin0
    rw [(RW.strikeOut_some hst).1] at hv; cases hv
  · rw [hwin] at hnone; cases hnone

theorem finalCtx_wf {c : Ctx} (hc : c.wf) (as : List Arrival) : (finalCtx c as).wf := by
  induction as generalizing c with
  | nil => simpa [finalCtx, run] using hc
  | cons a as ih => rw [finalCtx_cons]; exact ih (unprotect_wf hc a)

-- C12 clause 1: at most one success per sequence number --------------------------------

theorem refused_never_accepted {c : Ctx} {n : Nat} (h : Refused c n) (as : List Arrival) :
    (runAccepted c as).count n = 0 := by
  induction as generalizing c with
  | nil => simp [runAccepted]
  | cons a as ih =>
    simp only [runAccepted, List.count_append]
    rw [ih (refused_stable h a)]
    by_cases hacc : (unprotect c a).2 = .accepted
    · have hne : a.seq ≠ n := by
        intro e; subst e; exact refused_not_accepted h hacc
      simp [hacc, hne]
    · simp [hacc]

/-- **C12 (at most once).** For every well-formed start state and every arrival sequence,
each sender sequence number is accepted at most once. -/
theorem C12_at_most_once (c : Ctx) (hc : c.wf) (as : List Arrival) (n : Nat) :
    (runAccepted c as).count n ≤ 1 := by
  induction as generalizing c with
  | nil => simp [runAccepted]
  | cons a as ih =>
    simp only [runAccepted, List.count_append]
    by_cases hacc : (unprotect c a).2 = .accepted
    · by_cases hn : a.seq = n
      · subst hn
        have := refused_never_accepted (accepted_then_refused hc hacc) as
        simp [hacc, this]
      · have := ih _ (unprotect_wf hc a)
        simp [hacc, hn]; omega
    · have := ih _ (unprotect_wf hc a)
      simp [hacc]; omega

-- C12 clause 2: numbers that fell out of the window are refused -------------------------

/-- "x is below the upper edge of the (initialised) window", `K` the window size -/
def BelowEdge (c : Ctx) (K x : Nat) : Prop := ∃ w, c.win = some w ∧ x < w.index + K

theorem belowEdge_stable {c : Ctx} (hc : c.wf) {K x : Nat} (h : BelowEdge c K x) (a : Arrival) :
    BelowEdge (unprotect c a).1 K x := by
  obtain ⟨w, hwin, hlt⟩ := h
  rcases unprotect_cases c a with h' | ⟨w0, w', hwin0, hst, _, h'⟩ | ⟨hnone, _, _, _, h'⟩
  · rw [h'.1]; exact ⟨w, hwin, hlt⟩
  · rw [h']
    rw [hwin] at hwin0; cases hwin0
    have := RW.strike_index_le (hc.2 w hwin).2.1 hst
    exact ⟨w', rfl, by omega⟩
  · rw [hwin] at hnone; cases hnone

theorem belowEdge_run {c : Ctx} (hc : c.wf) {K x : Nat} (h : BelowEdge c K x)
    (as : List Arrival) : BelowEdge (finalCtx c as) K x := by
  induction as generalizing c with
  | nil => simpa [finalCtx, run] using h
  | cons a as ih => rw [finalCtx_cons]; exact ih (unprotect_wf hc a) (belowEdge_stable hc h a)

theorem accepted_belowEdge {c : Ctx} (hc : c.wf) {a : Arrival}
    (h : (unprotect c a).2 = .accepted) : BelowEdge (unprotect c a).1 c.size a.seq := by
  rcases unprotect_cases c a with h' | ⟨w, w', hwin, hst, _, h'⟩ | ⟨_, _, _, _, h'⟩
  · exact absurd h h'.2
  · rw [h']
    have := RW.strike_index_le (hc.2 w hwin).2.1 hst
    have hsz := (RW.strikeOut_some hst).2.1
    have := (hc.2 w hwin).1
    exact ⟨w', rfl, by omega⟩
  · rw [h']
    have := hc.1
    exact ⟨_, rfl, by simp [RW.freshlySeen]; omega⟩

/-- every accepted number is below the upper edge of the final window -/
theorem accepted_below_edge {c : Ctx} (hc : c.wf) (as : List Arrival) :
    ∀ x ∈ runAccepted c as, BelowEdge (finalCtx c as) c.size x := by
  induction as generalizing c with
  | nil => intro x hx; simp [runAccepted] at hx
  | cons a as ih =>
    intro x hx
    simp only [runAccepted, List.mem_append] at hx
    rw [finalCtx_cons]
    rcases hx with hx | hx
    · by_cases hacc : (unprotect c a).2 = .accepted
      · simp only [hacc, ↓reduceIte, List.mem_singleton] at hx
        subst hx
        exact belowEdge_run (unprotect_wf hc a) (accepted_belowEdge hc hacc) as
      · simp [hacc] at hx
    · have := ih (unprotect_wf hc a) x hx
      rwa [unprotect_size] at this

/-- **C12 (fallen out).** Once a number `x` has been accepted, every number at least a
window size below it is refused, authentic or not. -/
theorem C12_fallen_out_rejected (c : Ctx) (hc : c.wf) (as : List Arrival) (x : Nat)
    (hx : x ∈ runAccepted c as) (a : Arrival) (hlow : a.seq + c.size ≤ x) :
    (unprotect (finalCtx c as) a).2 ≠ .accepted := by
  obtain ⟨w, hwin, hlt⟩ := accepted_below_edge hc as x hx
  apply refused_not_accepted
  refine ⟨w, hwin, ?_⟩
  rw [RW.isValid_eq]
  have : a.seq < w.index := by omega
  simp [this]

-- C12 clause 3: anything authentic above all that was seen is accepted -------------------

/-- every refused number is bounded by a number in `S` -/
def Covered (c : Ctx) (S : List Nat) : Prop :=
  ∀ w, c.win = some w → ∀ m, w.isValid m = false → ∃ x ∈ S, m ≤ x

theorem covered_step {c : Ctx} (hc : c.wf) {S : List Nat} (h : Covered c S) (a : Arrival) :
    Covered (unprotect c a).1
      (S ++ (if (unprotect c a).2 = .accepted then [a.seq] else [])) := by
  have weaken : ∀ {c' : Ctx} (T : List Nat), Covered c' S → Covered c' (S ++ T) := by
    intro c' T hcov w hw m hm
    obtain ⟨x, hx, hle⟩ := hcov w hw m hm
    exact ⟨x, List.mem_append_left _ hx, hle⟩
  rcases unprotect_cases c a with h' | ⟨w, w', hwin, hst, _, h'⟩ | ⟨_, _, _, _, h'⟩
  · rw [h'.1]; exact weaken _ h
  · rw [h']
    intro w'' h'' m hm
    simp only [Option.some.injEq] at h''
    subst h''
    simp only [↓reduceIte, List.mem_append, List.mem_singleton]
    by_cases hmn : m = a.seq
    · exact ⟨a.seq, Or.inr rfl, by omega⟩
    · by_cases hidx : w'.index ≤ m
      · -- untouched by the strike, so it was refused before
        have hold : w.isValid m = false := by
          cases hv : w.isValid m with
          | false => rfl
          | true =>
            have := RW.strike_frame (hc.2 w hwin).2 hst hmn hidx hv
            rw [this] at hm; cases hm
        obtain ⟨x, hx, hle⟩ := h w hwin m hold
        exact ⟨x, Or.inl hx, hle⟩
      · have := RW.strike_index_le (hc.2 w hwin).2.1 hst
        exact ⟨a.seq, Or.inr rfl, by omega⟩
  · rw [h']
    intro w'' h'' m hm
    simp only [Option.some.injEq] at h''
    subst h''
    simp only [↓reduceIte, List.mem_append, List.mem_singleton]
    refine ⟨a.seq, Or.inr rfl, ?_⟩
    rw [RW.isValid_eq] at hm
    simp only [RW.freshlySeen] at hm
    by_cases h1 : m < a.seq
    · omega
    · by_cases h2 : m ≥ a.seq + c.size
      · simp [h1, h2] at hm
      · simp only [h1, h2, ↓reduceIte, one_testBit] at hm
        simp at hm; omega

theorem covered_run {c : Ctx} (hc : c.wf) {S : List Nat} (h : Covered c S) (as : List Arrival) :
    Covered (finalCtx c as) (S ++ runAccepted c as) := by
  induction as generalizing c S with
  | nil => simpa [finalCtx, run, runAccepted] using h
  | cons a as ih =>
    rw [finalCtx_cons]
    have := ih (unprotect_wf hc a) (covered_step hc h a)
    simpa [runAccepted, List.append_assoc] using this

/-- **C12 (above everything seen).** Start from a well-formed state whose refused numbers are
bounded by the numbers in `S` (for a freshly created window `S = []`, for an uninitialised one
anything).  After any arrival sequence, if the window is initialised, an authentic request whose
number exceeds everything in `S` and everything accepted so far is accepted. -/
theorem C12_above_all_accepted (c : Ctx) (hc : c.wf) (S : List Nat) (hS : Covered c S)
    (as : List Arrival) (a : Arrival) (hauth : a.authentic = true)
    (hinit : (finalCtx c as).win.isSome)
    (habove : ∀ x ∈ S ++ runAccepted c as, x < a.seq) :
    (unprotect (finalCtx c as) a).2 = .accepted := by
  have hcov := covered_run hc hS as
  have hwf := finalCtx_wf hc as
  obtain ⟨w, hwin⟩ := Option.isSome_iff_exists.mp hinit
  have hv : w.isValid a.seq = true := by
    cases hv : w.isValid a.seq with
    | true => rfl
    | false =>
      obtain ⟨x, hx, hle⟩ := hcov w hwin _ hv
      have := habove x hx
      omega
  obtain ⟨w', hst⟩ := RW.strikeOut_isSome hv
  unfold unprotect
  simp [hwin, hv, hauth, hst]

-- C12 clause 4: forgeries are inert ------------------------------------------------------

/-- **C12 (forgery inert).** A message that fails authentication never changes the context
(so it neither marks nor advances the window) and is never accepted. -/
theorem C12_forgery_inert (c : Ctx) (a : Arrival) (h : a.authentic = false) :
    (unprotect c a).1 = c ∧ (unprotect c a).2 ≠ .accepted := by
  rcases unprotect_cases c a with h' | ⟨_, _, _, _, ha, _⟩ | ⟨_, ha, _⟩
  · exact h'
  · rw [h] at ha; cases ha
  · rw [h] at ha; cases ha

/-- a forged copy arriving first does not stop the genuine request from being accepted -/
theorem C12_forgery_does_not_block (c : Ctx) (forged genuine : Arrival)
    (h : forged.authentic = false) :
    unprotect (unprotect c forged).1 genuine = unprotect c genuine := by
  rw [(C12_forgery_inert c forged h).1]

-- C12 clause 5: an uninitialised window needs the echo -----------------------------------

/-- **C12 (uninitialised).** While the window is uninitialised a request is accepted only if it
is authentic and echoes the value this process issued (and such a value exists). -/
theorem C12_uninitialised_needs_echo (c : Ctx) (hwin : c.win = none) (a : Arrival)
    (hacc : (unprotect c a).2 = .accepted) :
    a.authentic = true ∧ c.echoRecovery.isSome ∧ a.echo = c.echoRecovery := by
  rcases unprotect_cases c a with h' | ⟨w, _, hw, _⟩ | ⟨_, ha, he, hs, _⟩
  · exact absurd hacc h'.2
  · rw [hwin] at hw; cases hw
  · exact ⟨ha, hs, he⟩

/-- ... and a failed attempt leaves the window uninitialised, so the whole history obeys it:
without an authentic echoing request nothing is ever accepted. -/
theorem C12_uninitialised_history (c : Ctx) (hwin : c.win = none) (as : List Arrival)
    (hno : ∀ a ∈ as, ¬ (a.authentic = true ∧ a.echo = c.echoRecovery ∧ c.echoRecovery.isSome)) :
    runAccepted c as = [] := by
  induction as generalizing c with
  | nil => rfl
  | cons a as ih =>
    have hna : (unprotect c a).2 ≠ .accepted := by
      intro hacc
      obtain ⟨h1, h2, h3⟩ := C12_uninitialised_needs_echo c hwin a hacc
      exact hno a (List.mem_cons_self) ⟨h1, h3, h2⟩
    have hsame : (unprotect c a).1 = c := by
      rcases unprotect_cases c a with h' | ⟨w, _, hw, _⟩ | ⟨_, _, _, _, h'⟩
      · exact h'.1
      · rw [hwin] at hw; cases hw
      · exact absurd (by rw [h']) hna
    simp only [runAccepted, hna, ↓reduceIte, List.nil_append, hsame]
    exact ih c hwin (fun b hb => hno b (List.mem_cons_of_mem _ hb))

-- C12: initialised start states persisted under another window size ----------------------

/-- the context a process starts with after `initialize_from_persisted` of a persisted
`{"index", "bitfield"}` into a window of `size` slots (the driver's `i:<index>:<bitfield>`) -/
def loadedCtx (size : Nat) (echo : Option Nat) (index bitfield : Nat) : Ctx :=
  { size, win := some (RW.fromPersisted size index bitfield), echoRecovery := echo }

/-- whatever was persisted (by a window of whatever size), the loaded context is well formed, so
every theorem of this file applies to it -/
theorem C12_persisted_start_wf (size : Nat) (hs : 0 < size) (echo : Option Nat) (i b : Nat) :
    (loadedCtx size echo i b).wf := by
  refine ⟨hs, ?_⟩
  intro w hw
  simp only [loadedCtx, Option.some.injEq] at hw
  subst hw
  exact ⟨RW.fromPersisted_size size i b, RW.fromPersisted_wf hs i b⟩

/-- **C12 (persisted start state, every window size).** Every number the persisted state records
as seen — below its index, or with its bit set at any position, also at or beyond the configured
window size (the state was written by a larger window) — is never accepted in any arrival
sequence after loading. -/
theorem C12_persisted_seen_never_accepted (size : Nat) (echo : Option Nat) (i b n : Nat)
    (hseen : n < i ∨ b.testBit (n - i) = true) (as : List Arrival) :
    (runAccepted (loadedCtx size echo i b) as).count n = 0 :=
  refused_never_accepted ⟨_, rfl, RW.fromPersisted_keeps_seen size i b n hseen⟩ as

/-- … in terms of the window that wrote the state: what a well-formed window of any size refuses
stays refused by a window of any other size loaded from its `persist()`. -/
theorem C12_resize_keeps_refused (w : RW) (size n : Nat) (h : w.isValid n = false) :
    (RW.fromPersisted size w.index w.bitfield).isValid n = false :=
  RW.fromPersisted_keeps_refused w size n h

/-- … and loading loses nothing else: a number at or above the loaded index whose bit is clear is
accepted when it arrives authentically (so a reduced size costs only the numbers the smaller
window cannot represent). -/
theorem C12_persisted_unseen_accepted (size : Nat) (echo : Option Nat) (i b : Nat) (a : Arrival)
    (hauth : a.authentic = true) (hge : (RW.fromPersisted size i b).index ≤ a.seq)
    (hclear : b.testBit (a.seq - i) = false) :
    (unprotect (loadedCtx size echo i b) a).2 = .accepted := by
  have hv := RW.fromPersisted_frame size i b a.seq hge hclear
  obtain ⟨w', hst⟩ := RW.strikeOut_isSome hv
  unfold unprotect
  simp [loadedCtx, hv, hauth, hst]

-- non-vacuity ----------------------------------------------------------------------------

/-- a concrete context with a window of 32 that has seen 5, 0, 1, 2 and then 35/36 -/
def exampleCtx : Ctx := { size := 32, win := some (RW.empty 32), echoRecovery := some 7 }
def exampleArrivals : List Arrival :=
  [⟨5, true, none⟩, ⟨5, true, none⟩, ⟨0, true, none⟩, ⟨3, false, none⟩, ⟨3, true, none⟩,
   ⟨36, true, none⟩, ⟨4, true, none⟩, ⟨40, true, none⟩]

example : exampleCtx.wf := by
  refine ⟨by decide, ?_⟩
  intro w hw
  simp [exampleCtx] at hw
  subst hw
  exact ⟨rfl, RW.empty_wf (by decide)⟩
example : runAccepted exampleCtx exampleArrivals = [5, 0, 3, 36, 40] := by decide
example : Covered exampleCtx [] := by
  intro w hw m hm
  simp [exampleCtx] at hw; subst hw
  simp [RW.isValid, RW.empty] at hm
/-- the uninitialised start: refused with an Echo challenge, then accepted with the echo -/
example : (run { size := 32, win := none, echoRecovery := some 7 }
    [⟨9, true, none⟩, ⟨9, true, some 7⟩, ⟨9, true, some 7⟩, ⟨10, true, none⟩]).2
    = [.replayEcho, .accepted, .replayError, .accepted] := by decide

/-- numbers 0..20 accepted by a window of 32, persisted, loaded into a window of 8: the window
moves up to 13..20 and every replay is refused, the next fresh number accepted -/
example : RW.fromPersisted 8 0 2097151 = { size := 8, index := 13, bitfield := 255 } := by decide
example : (run (loadedCtx 8 none 0 2097151)
    [⟨15, true, none⟩, ⟨20, true, none⟩, ⟨9, true, none⟩, ⟨21, true, none⟩]).2
    = [.replayError, .replayError, .replayError, .accepted] := by decide

end Aiocoap.Oscore
