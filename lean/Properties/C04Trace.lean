import Properties.C04
import Proofs.MsgLayer.Keys
/-!
# C04, trace level — a request identifier is executed at most once per lifetime

`Properties/C04.lean` has the single steps (a copy that finds its entry is not executed, the entry
survives everything but its own expiry timer).  This file is the main clause over *arbitrary*
event sequences, from any start state: per identifier (source endpoint `R`, message id `M`)

    deliveries of (R, M)  ≤  1  +  number of firings of the expiry timer of (R, M)

whatever else is in the run — copies (CON or NON, any token, any payload), other peers, responses,
retransmissions, transport errors, application responses and cancellations, shutdown.  It is the
accounting invariant `run_account` of `Proofs/MsgLayer/Deliver.lean`:
`deliverCount R M out + free R M s' ≤ free R M s + expiryCount R M es`, where
`free R M s = 0` when an entry for `(R, M)` is in `recent` and `1` otherwise.

Vocabulary (all in `Proofs/MsgLayer/Deliver.lean`):
* `deliverCount R M os` — how many `Out.deliver _ R w` with `w.mid = M` are in `os`;
* `expiryCount R M es`  — how many events `Ev.fireExpire R M` are in `es`;
* `keyed R M s`         — `recent` has an entry with key `(R, M)`;
* `KInv s` (`Proofs/MsgLayer/Keys.lean`) — the keys of `recent` are pairwise distinct.
-/
namespace Aiocoap.MsgLayer

/-- **C04 (at most once per lifetime, all runs).** From every state, over every sequence of
events, for every endpoint `R` and message id `M`: the request `(R, M)` is handed to the
application at most once more than the expiry timer of `(R, M)` fires — and at most as often as
it fires when the identifier is already in the table at the start.  (Each firing ends one
lifetime; `C04_expiry_not_early` says when the event loop fires it.) -/
theorem C04_delivered_at_most_once_per_lifetime (s : State) (es : List TEv) (R : Remote) (M : Nat) :
    deliverCount R M (run s es).2 ≤ 1 + expiryCount R M es ∧
    (keyed R M s = true → deliverCount R M (run s es).2 ≤ expiryCount R M es) := by
  have h := run_account R M s es
  have h1 := free_le_one R M s
  refine ⟨by omega, fun hk => ?_⟩
  have : free R M s = 0 := by simp [free, hk]
  omega

/-- **C04 (at most once while the timer has not fired).** In a run in which the expiry timer of
`(R, M)` does not fire — on the event loop: everything within `EXCHANGE_LIFETIME` of the first
arrival (`C04_expiry_timer`, `C04_expiry_not_early`) — `(R, M)` is executed at most once, however
many copies arrive and whatever else happens; and not at all when it was recorded before. -/
theorem C04_at_most_once_without_expiry (s : State) (es : List TEv) (R : Remote) (M : Nat)
    (hno : ∀ e ∈ es, e.ev ≠ .fireExpire R M) :
    deliverCount R M (run s es).2 ≤ 1 ∧
    (keyed R M s = true → deliverCount R M (run s es).2 = 0) := by
  have h := C04_delivered_at_most_once_per_lifetime s es R M
  rw [expiryCount_eq_zero hno] at h
  exact ⟨h.1, fun hk => Nat.le_zero.mp (h.2 hk)⟩

/-- **C04 (once executed, recorded until expiry).** If `(R, M)` has been executed as often as the
bound allows, its entry is in the table at the end of the run: the next copy is a duplicate. -/
theorem C04_recorded_after_delivery (s : State) (es : List TEv) (R : Remote) (M : Nat)
    (hmax : deliverCount R M (run s es).2 = 1 + expiryCount R M es) :
    keyed R M (run s es).1 = true := by
  have h := run_account R M s es
  have h1 := free_le_one R M s
  have h2 : free R M (run s es).1 = 0 := by omega
  unfold free at h2
  split at h2
  · assumption
  · omega

/-- **C04 (the expiry timer fires at the recorded time, not before).** Whenever the event loop
(`advance`: fire the pending timers due before `bound`, earliest first) fires the expiry timer
of `(R, M)`, it does so at a time `e.time` that is the recorded expiry of an entry with key
`(R, M)` in the state it fires in — `(run s pre).1`, the state after the timer events fired before
it (`advance_eq_run`).  By `C04_first_arrival` that recorded expiry is
`arrival time + EXCHANGE_LIFETIME`, and by `C04_within_lifetime` nothing else removes or changes
the entry before. -/
theorem C04_expiry_not_early (fuel : Nat) (s : State) (bound : Nat) (R : Remote) (M : Nat)
    (pre post : List TEv) (e : TEv) (hsplit : (advance fuel s bound).2.2 = pre ++ e :: post)
    (hev : e.ev = .fireExpire R M) :
    HasEntry (run s pre).1 R M e.time ∧ e.time < bound :=
  advance_fireExpire fuel s bound R M pre post e hsplit hev

/-- **C04 (an identifier is never recorded twice).** In every state reachable from the initial
one the keys of the de-duplication table are pairwise distinct (`KInv`; preserved by every event
from any state: `handle_KInv`), so an identifier has one entry and one expiry timer. -/
theorem C04_keys_unique (cfg : Cfg) (mid token : Nat) (f : Nat → Nat) (es : List TEv) :
    KInv (run (init cfg mid token f) es).1 :=
  run_KInv (init_KInv cfg mid token f) es

/-- **C04 (the identifier is forgotten exactly `EXCHANGE_LIFETIME` after the first arrival).**
Let a request `w` from `R` arrive at time `t` in a state with unique keys (`C04_keys_unique`) in
which `(R, w.mid)` is not recorded; let anything happen afterwards (`es`: copies, other traffic,
other timers — everything but the expiry timer of `(R, w.mid)`).  Whenever the event loop then
fires timers (`advance`, any bound, any number), every expiry event for `(R, w.mid)` among them
has time exactly `t + EXCHANGE_LIFETIME` — not earlier, however many copies arrived in between
(copies do not restart or shorten the lifetime), and not later. -/
theorem C04_expiry_exactly_at_lifetime (s : State) (hK : KInv s) (hs : s.shutMsg = false)
    (R : Remote) (mcl : Bool) (w : Wire) (t : Nat)
    (hreq : dedupable w = true) (hnew : isDup s R w = false)
    (es : List TEv) (hno : ∀ e ∈ es, e.ev ≠ .fireExpire R w.mid) (fuel bound : Nat) :
    ∀ e ∈ (advance fuel (run s (⟨t, .recv R mcl w⟩ :: es)).1 bound).2.2,
      e.ev = .fireExpire R w.mid → e.time = t + s.cfg.exchangeLifetime := by
  have h1 : HasEntry (step s ⟨t, .recv R mcl w⟩).1 R w.mid (t + s.cfg.exchangeLifetime) := by
    have hs' : (setNow s t).shutMsg = false := hs
    show HasEntry (handle (setNow s t) (.recv R mcl w)).1 R w.mid _
    simp only [handle, hs', Bool.false_eq_true, ↓reduceIte]
    exact recv_HasEntry_of_new (s := setNow s t) mcl hreq hnew
  have h2 := C04_within_lifetime _ R w.mid _ h1 es hno
  have hK2 : KInv (run (step s ⟨t, .recv R mcl w⟩).1 es).1 := run_KInv (step_KInv hK _) es
  simp only [run]
  exact advance_fireExpire_time fuel _ bound R w.mid _ hK2 h2

/-- what a copy of a recorded request `w` from `R` puts on the wire at time `t` in state `s'` -/
def copyOutput (s' : State) (R : Remote) (t : Nat) (w : Wire) : List Out :=
  if s'.shutMsg then [] else
  if w.mtype = .con then
    match storedReply s' R w.mid with
    | some reply => [.send t R reply]
    | none => []
  else []

/-- **C04 (copies only repeat, in any run).** Take any run in which the identifier `(R, w.mid)` is
recorded at the start (e.g. by `C04_first_arrival`) and whose part `pre` before a further copy of
the request does not contain the expiry timer of `(R, w.mid)`; `pre` and `post` are otherwise
arbitrary (they may contain any number of other copies).  Then what this copy contributes to the
output of the run is exactly: the stored reply again, to `R`, if the copy is confirmable and a
reply (ACK or RST, `C04_reply_is_what_was_sent`) has been sent; nothing otherwise. -/
theorem C04_copies_only_repeat (s : State) (R : Remote) (x : Nat) (w : Wire) (pre post : List TEv)
    (t : Nat) (mcl : Bool) (h : HasEntry s R w.mid x) (hreq : dedupable w = true)
    (hno : ∀ e ∈ pre, e.ev ≠ .fireExpire R w.mid) :
    let s' := (run s pre).1
    let e : TEv := ⟨t, .recv R mcl w⟩
    (step s' e).2 = copyOutput s' R t w ∧
    (run s (pre ++ e :: post)).2 = (run s pre).2 ++ copyOutput s' R t w ++ (run (step s' e).1 post).2 := by
  intro s' e
  have hs' : HasEntry s' R w.mid x := C04_within_lifetime s R w.mid x h pre hno
  have hdup : isDup (setNow s' t) R w = true :=
    isDup_of_HasEntry (s := setNow s' t) (HasEntry_of_recent hs' rfl) hreq
  have hstep : (step s' e).2 = copyOutput s' R t w := by
    show (handle (setNow s' t) (.recv R mcl w)).2 = _
    unfold copyOutput
    simp only [handle]
    by_cases hsh : s'.shutMsg = true
    · have : (setNow s' t).shutMsg = true := hsh
      simp [hsh, this]
    · have : ¬ (setNow s' t).shutMsg = true := hsh
      rw [if_neg this, if_neg hsh]
      by_cases hc : w.mtype = .con
      · rw [C04_con_dup_reply _ R mcl w hdup hc, if_pos hc]
        rfl
      · rw [C04_non_dup_silent _ R mcl w hdup hc, if_neg hc]
  refine ⟨hstep, ?_⟩
  rw [run_append]
  simp only [run, List.append_assoc]
  rw [← hstep]

-- non-vacuity -------------------------------------------------------------------------------

/-- a CON request (answered by a piggy-backed response), two copies, the same id from another
endpoint, the expiry timer, the same request again -/
def c04TraceRun : List TEv :=
  [⟨5, .recv 1 false (c04Req .con)⟩, ⟨8, .respond 0 c04Resp true⟩, ⟨50, .recv 1 false (c04Req .con)⟩,
   ⟨55, .recv 1 false (c04Req .non)⟩, ⟨60, .recv 2 false (c04Req .con)⟩, ⟨1005, .fireExpire 1 77⟩,
   ⟨1006, .recv 1 false (c04Req .con)⟩]

/-- exactly 2 deliveries of (1, 77) with 1 expiry: the bound of
`C04_delivered_at_most_once_per_lifetime` is attained -/
example : deliverCount 1 77 (run (init c04Cfg 9 0 (fun _ => 20)) c04TraceRun).2 = 2 ∧
    expiryCount 1 77 c04TraceRun = 1 ∧
    keyed 1 77 (run (init c04Cfg 9 0 (fun _ => 20)) c04TraceRun).1 = true := by decide

/-- before the expiry: one delivery for three arrivals (and one for the other endpoint) -/
example : deliverCount 1 77 (run (init c04Cfg 9 0 (fun _ => 20)) (c04TraceRun.take 5)).2 = 1 ∧
    deliverCount 2 77 (run (init c04Cfg 9 0 (fun _ => 20)) (c04TraceRun.take 5)).2 = 1 ∧
    expiryCount 1 77 (c04TraceRun.take 5) = 0 := by decide

/-- the event loop fires the expiry timer of the request that arrived at 5 at 5 + 1000 -/
example : (advance 5 (run (init c04Cfg 9 0 (fun _ => 20)) (c04TraceRun.take 1)).1 5000).2.2 =
    [⟨15, .fireEmptyAck 1 [1]⟩, ⟨1005, .fireExpire 1 77⟩] := by decide

/-- the copies of `c04TraceRun` at 50 (CON: the ACK of time 8 again) and 55 (NON: nothing) -/
example : (copyOutput (run (init c04Cfg 9 0 (fun _ => 20)) (c04TraceRun.take 2)).1 1 50 (c04Req .con)).map
      (fun o => match o with
        | .send t r w => (t, r, w.mtype, w.mid, w.code)
        | _ => (0, 0, .rst, 0, 0)) = [(50, 1, .ack, 77, 69)] ∧
    copyOutput (run (init c04Cfg 9 0 (fun _ => 20)) (c04TraceRun.take 3)).1 1 55 (c04Req .non) = [] := by
  decide

end Aiocoap.MsgLayer
