import Proofs.MsgLayer.Backlog
/-!
# C14 — NSTART = 1: one open confirmable exchange per peer, FIFO backlog, none forgotten

Model: `AiocoapModel/MsgLayer/Model.lean` (`_active_exchanges` = `exchanges`, `_backlogs` =
`backlogs`, `send_message`, `_remove_exchange`, `_continue_backlog`, `_retransmit`,
`dispatch_error`).  The first two theorems hold in every state reachable by **any** sequence of
events (any interleaving of submissions, datagrams, responses, timers, errors, shutdown — not
only well-timed ones); the others describe single steps from any state satisfying that invariant.
-/
namespace Aiocoap.MsgLayer

/-- **C14 (one open exchange).** In every reachable state no two active exchanges have the
same remote: at most one confirmable message per endpoint awaits its acknowledgement. -/
theorem C14_one_open (cfg : Cfg) (mid token : Nat) (f : Nat → Nat) (es : List TEv)
    (e1 e2 : Exchange) (h1 : e1 ∈ (run (init cfg mid token f) es).1.exchanges)
    (h2 : e2 ∈ (run (init cfg mid token f) es).1.exchanges) (hr : e1.remote = e2.remote) :
    e1 = e2 :=
  map_inj_of_nodup (run_Inv (init_Inv cfg mid token f) es).n.exNodup h1 h2 hr

/-- **C14 (backlog ⇔ active).** In every reachable state a backlog exists for a remote exactly
when an exchange with that remote is active (and there is one backlog per remote). -/
theorem C14_backlog_iff_active (cfg : Cfg) (mid token : Nat) (f : Nat → Nat) (es : List TEv)
    (r : Remote) :
    let s := (run (init cfg mid token f) es).1
    (hasBacklog s r = true ↔ hasExchange s r = true) ∧ (blK s).Nodup := by
  have h := (run_Inv (init_Inv cfg mid token f) es).n
  exact ⟨by rw [hasBacklog_iff, hasExchange_iff]; exact h.iff r, h.blNodup⟩

/-- **C14 (held back, in order).** A confirmable message for a remote that has an exchange in
flight is not transmitted; it is appended at the *end* of that remote's backlog, and nothing else
about exchanges or other backlogs changes. -/
theorem C14_held_back (s : State) (hs : Inv s) (remote : Remote) (w : Wire) (mon : Monitor)
    (k : Nat) (hc : w.mtype = .con) (hbusy : hasExchange s remote = true) :
    let r := dispatchOut s remote w mon k
    r.2 = [] ∧ r.1.exchanges = s.exchanges ∧
    backlogOf r.1 remote = backlogOf s remote ++ [⟨w, mon, k⟩] ∧
    ∀ r', r' ≠ remote → backlogOf r.1 r' = backlogOf s r' := by
  have hb : hasBacklog s remote = true := by
    rw [hasBacklog_iff]; exact (hs.n.iff remote).mpr ((hasExchange_iff s remote).mp hbusy)
  have hin : remote ∈ blK s := (hasBacklog_iff s remote).mp hb
  simp only [dispatchOut, hc, hb, beq_self_eq_true, Bool.and_self, ↓reduceIte]
  exact ⟨by simp, by simp, backlogOf_append s remote _ hin, fun r' hr' => backlogOf_append_other s remote r' _ hr'⟩

/-- **C14 (undelayed).** A non-confirmable message, and a confirmable one to a remote without
exchange in flight, go on the wire in the very step they are submitted in. -/
theorem C14_others_undelayed (s : State) (remote : Remote) (w : Wire) (mon : Monitor) (k : Nat)
    (h : w.mtype ≠ .con ∨ hasBacklog s remote = false) :
    (dispatchOut s remote w mon k).2 = [.send s.now remote w] := by
  unfold dispatchOut
  have : (w.mtype == MType.con && hasBacklog s remote) = false := by
    rcases h with h | h
    · have : (w.mtype == MType.con) = false := by simpa using h
      simp [this]
    · simp [h]
  simp only [this, Bool.false_eq_true, ↓reduceIte]
  rfl

/-- **C14 (release in FIFO order).** When the exchange in flight with `remote` is acknowledged or
reset (an ACK/RST with its message id arrives), and confirmable messages are waiting, exactly the
*oldest* waiting message is transmitted in that same step, becomes the new exchange in flight,
and the rest of the queue stays in order. -/
theorem C14_release_head (s : State) (hs : Inv s) (remote : Remote) (w : Wire) (e : Exchange)
    (he : findExchange s remote w.mid = some e) (hack : w.mtype = .ack)
    (q : Queued) (rest : List Queued) (hq : backlogOf s remote = q :: rest) (hqc : q.msg.mtype = .con) :
    let r := removeExchange s remote w
    r.2 = [.send s.now remote q.msg] ∧
    backlogOf r.1 remote = rest ∧
    (∃ x ∈ r.1.exchanges, x.remote = remote ∧ x.msg = q.msg ∧ x.counter = 0 ∧ x.t0 = s.now) := by
  have hp := PreInv_remove hs.n he
  have hne : hasExchange (dropExchange s remote w.mid) remote = false := by
    cases hb : hasExchange (dropExchange s remote w.mid) remote with
    | false => rfl
    | true => exact absurd ((hasExchange_iff _ remote).mp hb) hp.noEx
  simp only [backlogOf] at hq
  cases hf : s.backlogs.find? (fun b => b.1 == remote) with
  | none => simp [hf] at hq
  | some b =>
    obtain ⟨br, bl⟩ := b
    simp only [hf] at hq
    subst hq
    have hb1 : (br == remote) = true :=
      List.find?_some (p := fun (b : Remote × List Queued) => b.1 == remote) hf
    have hcb := continueBacklog_head (s := dropExchange s remote w.mid) hne (br := br) hf hqc
    have hrm : removeExchange s remote w =
        ((continueBacklog (dropExchange s remote w.mid) remote).1,
         [] ++ (continueBacklog (dropExchange s remote w.mid) remote).2) := by
      unfold removeExchange
      simp [he, hack]
    rw [hrm, hcb]
    refine ⟨?_, ?_, ?_⟩
    · simp [sendInitially, dropExchange]
    · simp only [sendInitially, hqc, beq_self_eq_true, ↓reduceIte]
      have hbk : hasBacklog ({ dropExchange s remote w.mid with
          backlogs := setBacklog (dropExchange s remote w.mid).backlogs remote rest } : State) remote = true := by
        rw [hasBacklog_iff]
        show remote ∈ List.map (·.1) (setBacklog s.backlogs remote rest)
        rw [blK_setBacklog]
        exact List.mem_map.mpr ⟨(br, q :: rest), List.mem_of_find?_eq_some hf, by simpa using hb1⟩
      simp only [backlogOf, storeReply_backlogs, addExchange, hbk, ↓reduceIte]
      show (match (setBacklog s.backlogs remote rest).find? (fun b => b.1 == remote) with
        | some (_, l) => l | none => []) = rest
      rw [find_setBacklog, hf]
      have hb2 : br = remote := by simpa using hb1
      simp [hb2]
    · simp only [sendInitially, hqc, beq_self_eq_true, ↓reduceIte, storeReply_exchanges, addExchange]
      exact ⟨_, List.mem_append_right _ (List.mem_singleton.mpr rfl), rfl, rfl, rfl, rfl⟩

/-- **C14 (none forgotten — time-out).** When the exchange in flight gives up (its last
retransmission timer fires), the whole backlog of that remote is dropped together with the
exchange, and *every* request outstanding towards that remote — in particular those whose
messages were still held back — is failed in that step. -/
theorem C14_none_forgotten_timeout (s : State) (remote : Remote) (mid : Nat) (e : Exchange)
    (he : findExchange s remote mid = some e) (hlast : ¬ e.counter < e.maxRetr) (hsh : s.shutTok = false) :
    let r := fireRetransmit s remote mid
    (∀ o ∈ s.outgoing, o.remote = some remote → Out.fail o.req .conRetransmitsExceeded ∈ r.2) ∧
    hasBacklog r.1 remote = false := by
  simp only [fireRetransmit, he, hlast, ↓reduceIte]
  have hsh' : (dropBacklog (dropExchange s remote mid) remote).shutTok = false := hsh
  refine ⟨?_, ?_⟩
  · intro o ho hor
    simp only [tokenDispatchError, hsh', Bool.false_eq_true, ↓reduceIte, List.mem_append, List.mem_map,
      List.mem_filter]
    exact Or.inl ⟨o, ⟨ho, by simp [hor]⟩, rfl⟩
  · have := (tokenDispatchError_tables (dropBacklog (dropExchange s remote mid) remote) remote
      .conRetransmitsExceeded).2
    have h2 := hasBacklog_dropBacklog (dropExchange s remote mid) remote
    simp only [hasBacklog] at h2 ⊢
    rw [this]; exact h2

/-- **C14 (none forgotten — transport error).** The same when the transport reports an error for
the remote: exchange and backlog are dropped and every outstanding request towards it fails. -/
theorem C14_none_forgotten_error (s : State) (remote : Remote) (hm : s.shutMsg = false)
    (hsh : s.shutTok = false) :
    let r := dispatchError s remote
    (∀ o ∈ s.outgoing, o.remote = some remote → Out.fail o.req .networkError ∈ r.2) ∧
    hasBacklog r.1 remote = false ∧ hasExchange r.1 remote = false := by
  simp only [dispatchError, hm, Bool.false_eq_true, ↓reduceIte]
  refine ⟨?_, ?_, ?_⟩
  · intro o ho hor
    simp only [tokenDispatchError, hsh, Bool.false_eq_true, ↓reduceIte, List.mem_append, List.mem_map,
      List.mem_filter]
    exact Or.inl ⟨o, ⟨ho, by simp [hor]⟩, rfl⟩
  · simp [hasBacklog, dropBacklog, List.any_filter]
  · simp [hasExchange, dropBacklog, List.any_filter]

-- non-vacuity ------------------------------------------------------------------------------

/-- three confirmable requests to remote 0: the first is sent, two wait; the ACK releases the
oldest; (driver-level sanity of the model on a concrete run) -/
def exCfg : Cfg := { exchangeLifetime := 1000, emptyAckDelay := 10 }
def exMsg (b : Nat) : OutMsg :=
  { mtype := none, reliability := some true, code := 1, obs := none, body := b, noResponse := 0, maxRetr := 4 }
def exRun : List TEv :=
  [⟨1, .submit 0 0 false false (exMsg 100)⟩, ⟨2, .submit 1 0 false false (exMsg 101)⟩,
   ⟨3, .submit 2 0 false false (exMsg 102)⟩,
   ⟨5, .recv 0 false { mtype := .ack, code := 0, mid := 7, token := [], obs := none, body := 0 }⟩]

example : ((run (init exCfg 7 0 (fun _ => 50)) exRun).2.filterMap fun o =>
    match o with | .send t _ w => some (t, w.body) | _ => none) = [(1, 100), (5, 101)] := by decide
example : (backlogOf (run (init exCfg 7 0 (fun _ => 50)) exRun).1 0).map (·.msg.body) = [102] := by
  decide

end Aiocoap.MsgLayer
