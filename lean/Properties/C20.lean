import Proofs.Apps.Rd
/-!
# C20 — resource directory: lookups reflect exactly the live registrations

Model: `AiocoapModel/Apps/Rd.lean` (`State` = the two indexes `_by_key` / `_by_path` and the clock,
`step` = one request or a passage of time, `run` = a whole history; the driver runs exactly
these).  Vocabulary from `Proofs/Apps/Rd.lean`:

* `finalState c s ops` / `effects c s ops` — the directory after a history and, per request, what
  it did to the abstract map `(ep, d) ↦ registration`: `.wrote r` (accepted registration,
  re-registration, POST or PUT; `r` is what is stored), `.removed k` (DELETE), `.none` (refused,
  read, lookup, time passing);
* `LatestWrite es x` — `x` was written at some point of the history and no later request touched
  its endpoint name and sector;
* `Inv s` — the two indexes have unique keys and hold the same registrations, each under its own
  `(ep, d)` and its own location;
* `Reg.live c now x` — `now < x.refreshedAt + (x.lt + grace)·tps`, the timer of `x` is not due.

All theorems quantify over every history (any length, any interleaving of requests and time
steps, valid and invalid parameters), every grace period and tick rate.  Only property theorems
and non-vacuity examples live in this file.
-/
namespace Aiocoap.Rd

-- clause: the two indexes are one map -------------------------------------------------------------

/-- **C20 (one map).** After every history the two indexes `_by_key` and `_by_path` have unique
keys and describe the same finite map: every registration stored under a key is stored under its
own location and vice versa. -/
theorem C20_indexes_one_map (c : Cfg) (ops : List Op) : Inv (finalState c State.init ops) :=
  finalState_inv Inv.init ops

/-- **C20 (at most one registration per endpoint name and sector).** -/
theorem C20_one_registration_per_key (c : Cfg) (ops : List Op) (x y : Reg)
    (hx : x ∈ (finalState c State.init ops).regs) (hy : y ∈ (finalState c State.init ops).regs)
    (h : x.ep = y.ep ∧ x.d = y.d) : x = y := by
  have hi := C20_indexes_one_map c ops
  have hx' := (mem_regs hi).mp hx
  have hy' := (mem_regs hi).mp hy
  have hk : x.key = y.key := by simp [Reg.key, h.1, h.2]
  rw [hk] at hx'
  exact keysNodup_unique hi.nodupKey hx' hy'

/-- **C20 (distinct registrations never share a location).** -/
theorem C20_locations_distinct (c : Cfg) (ops : List Op) (x y : Reg)
    (hx : x ∈ (finalState c State.init ops).regs) (hy : y ∈ (finalState c State.init ops).regs)
    (hne : x ≠ y) : x.path ≠ y.path := by
  have hi := C20_indexes_one_map c ops
  intro hp
  have hx' := (hi.keyToPath _ _ ((mem_regs hi).mp hx)).2
  have hy' := (hi.keyToPath _ _ ((mem_regs hi).mp hy)).2
  rw [hp] at hx'
  exact hne (keysNodup_unique hi.nodupPath hx' hy')

/-- … and the registration resource at a location is that registration: dispatch by path
(`_by_path`) and iteration by key (`_by_key`) see the same object. -/
theorem C20_location_resolves (c : Cfg) (ops : List Op) (x : Reg) :
    x ∈ (finalState c State.init ops).regs ↔
      aget x.path (finalState c State.init ops).byPath = some x := by
  have hi := C20_indexes_one_map c ops
  constructor
  · intro hx
    exact aget_of_mem hi.nodupPath (hi.keyToPath _ _ ((mem_regs hi).mp hx)).2
  · intro h
    exact (mem_regs hi).mpr (hi.pathToKey _ _ (aget_some_mem h)).2

/-- **C20 (refinement).** The implementation's two indexes refine the specification "a finite
map `(ep, d) ↦ registration`" (`specStep`: a write replaces the entry of its key, a removal drops
it, expired entries vanish): after every history both hold the same registrations. -/
theorem C20_refines_map (c : Cfg) (ops : List Op) (x : Reg) :
    x ∈ (finalState c State.init ops).regs ↔ x ∈ specRun c [] (trace c State.init ops) :=
  finalState_refines Inv.init (by intro r hr; simp [State.regs, State.init] at hr) ops []
    (by intro y; simp [State.regs, State.init]) x

-- clause: lookups list exactly the live registrations ---------------------------------------------

/-- an unfiltered endpoint lookup lists the whole directory; an unfiltered resource lookup lists
the links of exactly those registrations, resolved against their base -/
theorem C20_unfiltered_lookups (s : State) :
    lookupEp s [] = s.regs ∧
    lookupRes s [] = s.regs.flatMap (fun r => r.basedLinks.map stripAnchor) := by
  constructor
  · simp [lookupEp, criteria]
  · unfold lookupRes
    congr 1
    funext r
    rw [List.filter_eq_self.mpr]
    intro a _
    simp [criteria]

/-- a filtered lookup lists registrations of the directory only, those meeting every criterion
(every option of the query but `page` and `count`) -/
theorem C20_filtered_lookup (s : State) (q : Query) (x : Reg) :
    x ∈ lookupEp s q ↔ x ∈ s.regs ∧ ∀ kv ∈ criteria q, epCond x kv.1 kv.2 = true := by
  simp [lookupEp, List.mem_filter, List.all_eq_true]

/-- **C20 (lookups list exactly the live registrations).** For every history starting from the
empty directory, the endpoint lookup lists `x` if and only if `x` is what some accepted
registration / update stored, no later accepted registration, update or removal concerned its
endpoint name and sector, and its lifetime plus the grace period, counted from that write, has
not run out: `now < x.refreshedAt + (x.lt + grace)·tps`. -/
theorem C20_lookup_exactly_live (c : Cfg) (ops : List Op) (x : Reg) :
    x ∈ lookupEp (finalState c State.init ops) [] ↔
      x.live c (finalState c State.init ops).now = true ∧
      LatestWrite (effects c State.init ops) x := by
  rw [(C20_unfiltered_lookups _).1,
    finalState_mem Inv.init (by intro r hr; simp [State.regs, State.init] at hr) ops x]
  simp [State.regs, State.init]

/-- the same from any consistent directory (registrations already present count until touched) -/
theorem C20_lookup_exactly_live_from (c : Cfg) (s : State) (hi : Inv s) (hl : AllLive c s)
    (ops : List Op) (x : Reg) :
    x ∈ lookupEp (finalState c s ops) [] ↔
      x.live c (finalState c s ops).now = true ∧
      (LatestWrite (effects c s ops) x ∨
        (x ∈ s.regs ∧ ∀ e ∈ effects c s ops, e.touches x.key = false)) := by
  rw [(C20_unfiltered_lookups _).1]
  exact finalState_mem hi hl ops x

/-- **C20 (expiry exactly at lifetime plus grace).** When nothing but time passes, a listed
registration stays listed precisely while `now < refreshedAt + (lt + grace)·tps`. -/
theorem C20_expiry_exact (c : Cfg) (s : State) (hi : Inv s) (hl : AllLive c s) (x : Reg)
    (hx : x ∈ s.regs) (dt : Nat) :
    x ∈ lookupEp (step c s (.advance dt)).1 [] ↔
      ((s.now + dt : Nat) : Int) < (x.refreshedAt : Int) + (x.lt + c.grace) * (c.tps : Int) := by
  rw [(C20_unfiltered_lookups _).1, step_mem (.advance dt) hi hl x]
  have hnow : (step c s (.advance dt)).1.now = s.now + dt := by simp [step, decideOp, applyAction, purge_now]
  rw [hnow]
  simp only [decideOp, Action.effect, Effect.touches, hx, Reg.live, Reg.deadline, reduceCtorEq,
    false_or, and_self, and_true, Int.natCast_add]
  exact decide_eq_true_iff

/-- an accepted write is listed at once (unless its lifetime plus grace is not positive), with
exactly the stored value -/
theorem C20_write_then_listed (c : Cfg) (s : State) (hi : Inv s) (hl : AllLive c s) (op : Op)
    (r : Reg) (h : (decideOp s op).effect = .wrote r) :
    r ∈ lookupEp (step c s op).1 [] ↔ 0 < (r.lt + c.grace) * (c.tps : Int) := by
  rw [(C20_unfiltered_lookups _).1, step_mem op hi hl r, h]
  have hnow : (step c s op).1.now = s.now := by
    unfold step
    cases hd : decideOp s op <;> simp [hd, Action.effect] at h <;> simp [applyAction, purge_now]
  have hr : r.refreshedAt = s.now := by
    cases hd : decideOp s op <;> simp [hd, Action.effect] at h
    subst h
    exact (decideOp_write hi hd).2.1
  rw [hnow]
  simp only [Reg.live, Reg.deadline, hr, decide_eq_true_eq, true_or, and_true]
  omega

/-- The effect log is tied to the responses: a request writes exactly when it is answered 2.01 /
2.04, removes exactly when it is answered 2.02; an error answer has no effect. -/
theorem C20_effect_iff_response (c : Cfg) (s : State) (op : Op) :
    ((∃ r, (decideOp s op).effect = .wrote r) ↔
        ((∃ p, (step c s op).2 = .created p) ∨ (step c s op).2 = .changed)) ∧
    ((∃ k, (decideOp s op).effect = .removed k) ↔ (step c s op).2 = .deleted) := by
  unfold step
  cases h : decideOp s op with
  | fail code => simp [applyAction, Action.effect]
  | write r resp =>
    rcases decideOp_write_resp h with rfl | rfl <;> simp [applyAction, Action.effect]
  | remove r => simp [applyAction, Action.effect]
  | reply resp =>
    rcases decideOp_reply h with ⟨_, rfl⟩ | ⟨_, rfl⟩ | ⟨_, rfl⟩ <;> simp [applyAction, Action.effect]
  | tick dt => simp [applyAction, Action.effect]

-- clause: each with the links and parameters of its latest successful write ---------------------------

/-- what an accepted registration stores -/
theorem C20_register_contents (s : State) (remote : Option Str) (q : Query) (body : Body) (r : Reg)
    (h : (decideOp s (.register remote q body)).effect = .wrote r) :
    vals sEp q = [some r.ep] ∧ dOf (vals sD q) = .ok r.d ∧ linksOf body = .ok r.links ∧
    r.refreshedAt = s.now ∧
    ((vals sLt q = [] ∧ r.lt = 90000) ∨ (∃ v, vals sLt q = [some v] ∧ parseInt v = some r.lt)) := by
  simp only [decideOp] at h
  split at h
  · cases h
  · next r' hr' =>
    simp only [Action.effect, Effect.wrote.injEq] at h
    subst h
    obtain ⟨h1, h2, h3, h4, _⟩ := registerReg_ok hr'
    refine ⟨h2, h3, h1, h4, ?_⟩
    unfold registerReg at hr'
    split at hr'
    · cases hr'
    · split at hr'
      · cases hr'
      · split at hr'
        · cases hr'
        · simp only at hr'
          split at hr'
          · cases hr'
          · next r0 hr0 =>
            cases hr'
            have := updateParams_lt hr0
            rw [vals_filter (by intro e he; simp [he, sLt, sEp, sD])] at this
            simpa using this

/-- what an accepted POST update stores: name, sector, location and links stay, the lifetime is
the given one (else the old one), the parameters are merged, the timer restarts now -/
theorem C20_update_contents (s : State) (path : Nat) (remote : Option Str) (q : Query) (body : Body)
    (r : Reg) (h : (decideOp s (.update path remote q body)).effect = .wrote r) :
    ∃ old, aget path s.byPath = some old ∧ r.ep = old.ep ∧ r.d = old.d ∧ r.path = old.path ∧
      r.links = old.links ∧ r.refreshedAt = s.now ∧
      r.params = mergeParams old.params (q.filter (fun e => decide (e.1 ≠ sLt ∧ e.1 ≠ sBase))) ∧
      ((vals sLt q = [] ∧ r.lt = old.lt) ∨ (∃ v, vals sLt q = [some v] ∧ parseInt v = some r.lt)) := by
  simp only [decideOp] at h
  split at h
  · cases h
  · next old hold =>
    split at h
    · cases h
    · split at h
      · cases h
      · next r' hr' =>
        simp only [Action.effect, Effect.wrote.injEq] at h
        subst h
        obtain ⟨h1, h2, h3, h4, h5⟩ := updateParams_ok hr'
        exact ⟨old, hold, h1, h2, h3, h4, h5, updateParams_params hr', updateParams_lt hr'⟩

/-- what an accepted PUT stores: as POST, but the links are those of the body -/
theorem C20_put_contents (s : State) (path : Nat) (remote : Option Str) (q : Query) (body : Body)
    (r : Reg) (h : (decideOp s (.put path remote q body)).effect = .wrote r) :
    ∃ old, aget path s.byPath = some old ∧ r.ep = old.ep ∧ r.d = old.d ∧ r.path = old.path ∧
      linksOf body = .ok r.links ∧ r.refreshedAt = s.now ∧
      r.params = mergeParams old.params (q.filter (fun e => decide (e.1 ≠ sLt ∧ e.1 ≠ sBase))) ∧
      ((vals sLt q = [] ∧ r.lt = old.lt) ∨ (∃ v, vals sLt q = [some v] ∧ parseInt v = some r.lt)) := by
  simp only [decideOp] at h
  split at h
  · cases h
  · next old hold =>
    split at h
    · cases h
    · next links hl =>
      split at h
      · cases h
      · next r' hr' =>
        simp only [Action.effect, Effect.wrote.injEq] at h
        subst h
        obtain ⟨h1, h2, h3, _, h5⟩ := updateParams_ok hr'
        exact ⟨old, hold, h1, h2, h3, hl, h5, by simpa using updateParams_params hr',
          by simpa using updateParams_lt hr'⟩

-- clause: re-registering keeps the location ------------------------------------------------------------

/-- **C20 (re-registering keeps its location).** After any history, a registration request for the
endpoint name and sector of a listed registration `old`, if accepted, is answered with `old`'s
location and stores the new registration there. -/
theorem C20_reregister_keeps_location (c : Cfg) (ops : List Op) (old : Reg)
    (remote : Option Str) (q : Query) (body : Body) (p : Nat)
    (hold : old ∈ (finalState c State.init ops).regs)
    (hep : vals sEp q = [some old.ep]) (hd : dOf (vals sD q) = .ok old.d)
    (hresp : (step c (finalState c State.init ops) (.register remote q body)).2 = .created p) :
    p = old.path ∧
    ∃ r, (decideOp (finalState c State.init ops) (.register remote q body)).effect = .wrote r ∧
      r.ep = old.ep ∧ r.d = old.d ∧ r.path = old.path := by
  have hi := C20_indexes_one_map c ops
  generalize finalState c State.init ops = s at *
  unfold step at hresp
  simp only [decideOp] at hresp ⊢
  split at hresp
  · simp [applyAction] at hresp
  · next r hr =>
    simp only [applyAction, Resp.created.injEq] at hresp
    obtain ⟨_, h2, h3, _, hpath⟩ := registerReg_ok hr
    rw [hep] at h2
    rw [hd] at h3
    have he : r.ep = old.ep := by simpa using h2.symm
    have hd' : r.d = old.d := by simpa using h3.symm
    have hk : r.key = old.key := by simp [Reg.key, he, hd']
    rw [hk, aget_of_mem hi.nodupKey ((mem_regs hi).mp hold)] at hpath
    simp only at hpath
    refine ⟨by rw [← hresp, hpath], r, ?_, he, hd', hpath⟩
    simp [Action.effect]

/-- **C20 (a new registration gets an unused location).** -/
theorem C20_new_registration_fresh_location (c : Cfg) (ops : List Op)
    (remote : Option Str) (q : Query) (body : Body) (p : Nat) (ep : Str) (d : Option Str)
    (hep : vals sEp q = [some ep]) (hd : dOf (vals sD q) = .ok d)
    (hnew : ∀ o ∈ (finalState c State.init ops).regs, ¬ (o.ep = ep ∧ o.d = d))
    (hresp : (step c (finalState c State.init ops) (.register remote q body)).2 = .created p) :
    ∀ o ∈ (finalState c State.init ops).regs, o.path ≠ p := by
  have hi := C20_indexes_one_map c ops
  generalize finalState c State.init ops = s at *
  unfold step at hresp
  simp only [decideOp] at hresp
  split at hresp
  · simp [applyAction] at hresp
  · next r hr =>
    simp only [applyAction, Resp.created.injEq] at hresp
    obtain ⟨_, h2, h3, _, hpath⟩ := registerReg_ok hr
    rw [hep] at h2
    rw [hd] at h3
    have he : r.ep = ep := by simpa using h2.symm
    have hd' : r.d = d := by simpa using h3.symm
    cases hg : aget r.key s.byKey with
    | some o =>
      have hm := aget_some_mem hg
      have hk := (hi.keyToPath _ _ hm).1
      have ho : o ∈ s.regs := List.mem_map.mpr ⟨_, hm, rfl⟩
      exfalso
      apply hnew o ho
      simp only [Reg.key, Prod.mk.injEq] at hk
      exact ⟨hk.1.symm.trans he, hk.2.symm.trans hd'⟩
    | none =>
      rw [hg] at hpath
      simp only at hpath
      intro o ho hop
      have hm := (hi.keyToPath _ _ ((mem_regs hi).mp ho)).2
      have : p ∈ s.byPath.map (·.1) := List.mem_map.mpr ⟨_, hm, hop⟩
      rw [← hresp, hpath] at this
      exact newPath_not_mem _ this

-- clause: a request answered 4.xx leaves the directory unchanged ------------------------------------------

/-- **C20 (4.xx ⇒ no change).** In every state (reachable or not), a request answered with an
error leaves both indexes, every stored registration and the timers exactly as they were. -/
theorem C20_4xx_no_change (c : Cfg) (s : State) (op : Op)
    (h : (step c s op).2.is4xx = true) : (step c s op).1 = s := by
  unfold step at h ⊢
  cases hd : decideOp s op with
  | fail code => rfl
  | write r resp =>
    rw [hd] at h
    rcases decideOp_write_resp hd with rfl | rfl <;> simp [applyAction, Resp.is4xx] at h
  | remove r => rw [hd] at h; simp [applyAction, Resp.is4xx] at h
  | reply resp => rfl
  | tick dt => rw [hd] at h; simp [applyAction, Resp.is4xx] at h

/-- **C20 (any error answer ⇒ no change).** The same for every error answer, the 5.00 of an
exception nothing catches included (the only one in the model: `lt` without a value): a request
that is not answered 2.xx is not a "successful write" of anything. -/
theorem C20_failed_request_no_change (c : Cfg) (s : State) (op : Op)
    (h : (step c s op).2.isError = true) : (step c s op).1 = s := by
  unfold step at h ⊢
  cases hd : decideOp s op with
  | fail code => rfl
  | write r resp =>
    rw [hd] at h
    rcases decideOp_write_resp hd with rfl | rfl <;> simp [applyAction, Resp.isError] at h
  | remove r => rw [hd] at h; simp [applyAction, Resp.isError] at h
  | reply resp => rfl
  | tick dt => rw [hd] at h; simp [applyAction, Resp.isError] at h

/-- **C20 (options without a value: `lt`, `base`).** A registration, POST or PUT whose `lt` or
`base` option has no `=` (and likewise a `base` that `urlsplit` refuses, such as `coap://[`) is
answered with an error whatever else it carries, and so — by the theorem above — changes nothing:
neither the parameters nor the lifetime timer of the registration it addresses. -/
theorem C20_valueless_lt_or_bad_base_refused (c : Cfg) (s : State) (remote : Option Str) (q : Query)
    (body : Body) (path : Nat)
    (h : vals sLt q = [none] ∨ vals sBase q = [none] ∨
      ∃ b, vals sBase q = [some b] ∧ urlsplitOk b = false) :
    (step c s (.register remote q body)).2.isError = true ∧
    (step c s (.update path remote q body)).2.isError = true ∧
    (step c s (.put path remote q body)).2.isError = true := by
  have key : ∀ now reg ini (q' : Query), vals sLt q' = vals sLt q → vals sBase q' = vals sBase q →
      ∃ e, updateParams now reg remote q' ini = .error e := by
    intro now reg ini q' h1 h2
    rcases h with h | h
    · exact updateParams_valueless_lt (h1.trans h)
    · exact updateParams_bad_base (by rw [h2]; exact h)
  refine ⟨?_, ?_, ?_⟩
  · unfold step
    simp only [decideOp]
    cases hr : registerReg s remote q body with
    | error e => simp [applyAction, Resp.isError]
    | ok r =>
      obtain ⟨fresh, r0, h0⟩ := registerReg_ok_updateParams hr
      have f1 : vals sLt (q.filter (fun e => decide (e.1 ≠ sEp ∧ e.1 ≠ sD))) = vals sLt q :=
        vals_filter (by intro e he; simp [he, sLt, sEp, sD])
      have f2 : vals sBase (q.filter (fun e => decide (e.1 ≠ sEp ∧ e.1 ≠ sD))) = vals sBase q :=
        vals_filter (by intro e he; simp [he, sBase, sEp, sD])
      obtain ⟨e, he⟩ := key s.now fresh true _ f1 f2
      rw [he] at h0
      cases h0
  · unfold step
    simp only [decideOp]
    cases hg : aget path s.byPath with
    | none => simp [applyAction, Resp.isError]
    | some reg =>
      obtain ⟨e, he⟩ := key s.now reg false q rfl rfl
      simp only [he]
      split <;> simp [applyAction, Resp.isError]
  · unfold step
    simp only [decideOp]
    cases hg : aget path s.byPath with
    | none => simp [applyAction, Resp.isError]
    | some reg =>
      obtain ⟨e, he⟩ := key s.now reg false q rfl rfl
      simp only [he]
      split <;> simp [applyAction, Resp.isError]

/-- **C20 (text the lookups would write out unescaped).** A registration, POST or PUT with a
parameter whose name is not an RFC 6690 parmname (non-empty, attr-char only: `k y`, `a<b`, `x"y`,
`a,</evil>;ep`, the empty name), or with a `base` holding `>`, is answered with an error whatever
else it carries, and so — by `C20_failed_request_no_change` — changes nothing.  (The endpoint lookup
writes parameter names as link-param names, the resource lookup writes the base into `<…>`: neither
position has an escape.) -/
theorem C20_unwritable_name_or_base_refused (c : Cfg) (s : State) (remote : Option Str) (q : Query)
    (body : Body) (path : Nat)
    (h : (∃ e ∈ q, parmnameOk e.1 = false) ∨ ∃ b, vals sBase q = [some b] ∧ b.contains 62 = true) :
    (step c s (.register remote q body)).2.isError = true ∧
    (step c s (.update path remote q body)).2.isError = true ∧
    (step c s (.put path remote q body)).2.isError = true := by
  have hepd : parmnameOk sEp = true ∧ parmnameOk sD = true := by decide
  have key : ∀ now reg ini, ∃ e, updateParams now reg remote q ini = .error e := by
    intro now reg ini
    rcases h with h | h
    · exact updateParams_bad_name h
    · exact updateParams_gt_base h
  refine ⟨?_, ?_, ?_⟩
  · unfold step
    simp only [decideOp]
    cases hr : registerReg s remote q body with
    | error e => simp [applyAction, Resp.isError]
    | ok r =>
      obtain ⟨fresh, r0, h0⟩ := registerReg_ok_updateParams hr
      have : ∃ e, updateParams s.now fresh remote
          (q.filter (fun e => decide (e.1 ≠ sEp ∧ e.1 ≠ sD))) true = .error e := by
        rcases h with ⟨e, he, hn⟩ | ⟨b, hb, hg⟩
        · refine updateParams_bad_name ⟨e, List.mem_filter.mpr ⟨he, ?_⟩, hn⟩
          have h1 : e.1 ≠ sEp := by intro h'; rw [h', hepd.1] at hn; cases hn
          have h2 : e.1 ≠ sD := by intro h'; rw [h', hepd.2] at hn; cases hn
          simp [h1, h2]
        · refine updateParams_gt_base ⟨b, ?_, hg⟩
          rw [vals_filter (by intro e he; simp [he, sBase, sEp, sD])]
          exact hb
      obtain ⟨e, he⟩ := this
      rw [he] at h0
      cases h0
  · unfold step
    simp only [decideOp]
    cases hg : aget path s.byPath with
    | none => simp [applyAction, Resp.isError]
    | some reg =>
      obtain ⟨e, he⟩ := key s.now reg false
      simp only [he]
      split <;> simp [applyAction, Resp.isError]
  · unfold step
    simp only [decideOp]
    cases hg : aget path s.byPath with
    | none => simp [applyAction, Resp.isError]
    | some reg =>
      obtain ⟨e, he⟩ := key s.now reg false
      simp only [he]
      split <;> simp [applyAction, Resp.isError]

/-- **C20 (explicit bases have paired brackets).** After every history, every base a client has
given explicitly for a registration in the directory passes `urlsplitOk`, which is bracket parity
of the string and no more (the one reason `urlsplit` has to refuse a base among those the driver
lets into the model).  This is NOT a statement that no registration can make a lookup unreadable:
what keeps framing characters out of the lookups is `C20_unwritable_name_or_base_refused` (per
request; an invariant "every stored name is a parmname, no stored base holds `>`" over all
histories is not proved).  (Bases taken from the request's source
address come from the transport, not from the client's query.) -/
theorem C20_explicit_bases_resolvable (c : Cfg) (ops : List Op) (x : Reg)
    (hx : x ∈ (finalState c State.init ops).regs) (he : x.baseExplicit = true) :
    urlsplitOk x.base = true :=
  finalState_basesOk Inv.init (by intro r hr; simp [State.regs, State.init] at hr)
    (by intro r hr; simp [State.regs, State.init] at hr) ops x hx he

/-- **C20 (an option without a value is a parameter like any other).** `?flag` on an accepted POST
update is stored as the parameter `flag` without value beside the others, the registration keeps its
name, sector, location and links, and its lifetime restarts at the current tick — exactly as for
`?flag=x` (instance of `C20_update_contents`, spelled out for the valueless case). -/
theorem C20_valueless_parameter_stored (s : State) (path : Nat) (remote : Option Str) (k : Str)
    (body : Body) (r : Reg) (h : (decideOp s (.update path remote [(k, none)] body)).effect = .wrote r) :
    ∃ old, aget path s.byPath = some old ∧ r.path = old.path ∧ r.links = old.links ∧ r.lt = old.lt ∧
      r.refreshedAt = s.now ∧ r.params = aset k [none] old.params := by
  obtain ⟨old, h1, _, _, h4, h5, h6, h7, h8⟩ := C20_update_contents s path remote [(k, none)] body r h
  have hk : k ≠ sLt ∧ k ≠ sBase := by
    simp only [decideOp, h1] at h
    split at h
    · cases h
    · split at h
      · cases h
      · next r' hr' =>
        by_cases hlt : k = sLt
        · obtain ⟨e, he⟩ := updateParams_valueless_lt (now := s.now) (reg := old) (remote := remote)
            (ini := false) (q := [(k, none)]) (by simp [vals, hlt])
          rw [he] at hr'; cases hr'
        · by_cases hb : k = sBase
          · obtain ⟨e, he⟩ := updateParams_bad_base (now := s.now) (reg := old) (remote := remote)
              (ini := false) (q := [(k, none)]) (Or.inl (by simp [vals, hb]))
            rw [he] at hr'; cases hr'
          · exact ⟨hlt, hb⟩
  refine ⟨old, h1, h4, h5, ?_, h6, ?_⟩
  · rcases h8 with ⟨_, h8⟩ | ⟨v, h8, _⟩
    · exact h8
    · exfalso
      have : (k, (none : Val)) ∈ [(k, (none : Val))].filter (fun e => decide (e.1 = sLt)) := by
        have h9 : ([(k, (none : Val))].filter (fun e => decide (e.1 = sLt))).map (·.2) = [some v] := h8
        cases hf : [(k, (none : Val))].filter (fun e => decide (e.1 = sLt)) with
        | nil => rw [hf] at h9; cases h9
        | cons a l =>
          have ha : a ∈ [(k, (none : Val))] := (List.mem_filter.mp (hf ▸ List.mem_cons_self)).1
          simp only [List.mem_singleton] at ha
          subst ha
          exact List.mem_cons_self
      exact hk.1 (by simpa using (List.mem_filter.mp this).2)
  · rw [h7]
    simp [mergeParams, group, firstKeys, vals, hk.1, hk.2]

/-- reads and lookups never change the directory either -/
theorem C20_lookups_pure (c : Cfg) (s : State) (q : Query) (p : Nat) :
    (step c s (.lookupEp q)).1 = s ∧ (step c s (.lookupRes q)).1 = s ∧ (step c s (.read p)).1 = s := by
  refine ⟨?_, ?_, ?_⟩ <;>
  · unfold step
    simp only [decideOp]
    split <;> rfl

-- non-vacuity and sanity -----------------------------------------------------------------------------------

section Examples

def exCfg : Cfg := { grace := 15, tps := 8 }
def exRemote : Str := [99, 111, 97, 112, 58, 47, 47, 104]          -- "coap://h"
def exN1 : Str := [110, 49]
def exN2 : Str := [110, 50]
def exLinks : List Link := [{ href := [47, 97], attrs := [(sRt, some [120])] }]
def exBody : Body := { cf := .linkFormat, payload := .links exLinks }
def exNoBody : Body := { cf := .absent, payload := .links [] }
/-- register n1 (lt=5) and n2 (default lt); 159 ticks later n1 is still listed, one tick later
it is gone; a rejected re-registration and a rejected update with a body change nothing; an
update refreshes; re-registration keeps /reg/2/; DELETE frees the location -/
def exOps : List Op :=
  [.register (some exRemote) [(sEp, some exN1), (sLt, some [53])] exBody,
   .register (some exRemote) [(sEp, some exN2)] exBody,
   .advance 159,
   .lookupEp [(sEp, some exN1)],
   .register (some exRemote) [(sEp, some exN1), (sLt, some [97, 98, 99])] exBody,
   .update 1 (some exRemote) [(sLt, some [55])] exBody,
   .advance 1,
   .lookupEp [(sEp, some exN1)],
   .register (some exRemote) [(sEp, some exN2), (sLt, some [53])] exBody,
   .update 2 (some exRemote) [] exNoBody,
   .read 1,
   .delete 2,
   .register (some exRemote) [(sEp, some exN1)] exBody]

/-- the responses of that history: created 1, created 2, tick, n1 listed, 4.00, 4.00, tick,
nothing listed, created 2 again, changed, 4.04, deleted, created 1 -/
example : ((responses exCfg State.init exOps).map fun r => match r with
    | .created p => 100 + p | .changed => 204 | .deleted => 202 | .err code => code
    | .endpoints rs => rs.length | .resources ls => ls.length | .regLinks ls => ls.length
    | .ticked => 0) =
    [101, 102, 0, 1, 400, 400, 0, 0, 102, 204, 404, 202, 101] := by decide

/-- a reachable state with two registrations: the hypotheses of the theorems above (a listed
`old`, an accepted re-registration, a 4.xx answer) are all satisfiable -/
example : ((finalState exCfg State.init (exOps.take 3)).regs.map (·.path)) = [1, 2] := by decide
example : (step exCfg (finalState exCfg State.init (exOps.take 4))
    (.register (some exRemote) [(sEp, some exN1), (sLt, some [97, 98, 99])] exBody)).2.is4xx = true := by decide
example : ((effects exCfg State.init (exOps.take 2)).head?.map fun e => match e with
    | .wrote r => (r.lt, r.refreshedAt, r.links)
    | _ => (0, 0, [])) = some (5, 0, exLinks) := by decide
/-- options without a value: `?ep=n1&d` registers n1 without sector (the `d` stays listed as a
parameter); an update `?flag` is accepted, restarts the lifetime and is found by the lookup `?flag`;
`?lt` without value is answered 5.00, `?base` and `?base=coap://[` 4.00, none of them changing
anything; repeated `?count&count` on a lookup 4.00, a single `?count` lists everything -/
def exFlag : Str := [102, 108, 97, 103]
def exBadBase : Str := [99, 111, 97, 112, 58, 47, 47, 91]             -- "coap://["
def exOps4 : List Op :=
  [.register (some exRemote) [(sEp, some exN1), (sD, none), (sLt, some [53])] exBody,
   .advance 100,
   .update 1 (some exRemote) [(exFlag, none)] exNoBody,
   .advance 100,
   .lookupEp [(exFlag, none)],
   .update 1 (some exRemote) [(sLt, none)] exNoBody,
   .update 1 (some exRemote) [(sBase, none)] exNoBody,
   .update 1 (some exRemote) [(sBase, some exBadBase)] exNoBody,
   .lookupEp [(sCount, none), (sCount, none)],
   .lookupEp [(sCount, none)],
   .advance 60,
   .lookupEp []]
example : ((responses exCfg State.init exOps4).map fun r => match r with
    | .created p => 100 + p | .changed => 204 | .deleted => 202 | .err code => code
    | .endpoints rs => rs.length | .resources ls => ls.length | .regLinks ls => ls.length
    | .ticked => 0) =
    [101, 0, 204, 0, 1, 500, 400, 400, 400, 1, 0, 0] := by decide
example : ((finalState exCfg State.init (exOps4.take 10)).regs.map fun r =>
    (decide (r.d = none), decide (r.params = [(sEp, [some exN1]), (sD, [none]), (exFlag, [none])]), r.refreshedAt)) =
    [(true, true, 100)] := by decide
example : urlsplitOk exBadBase = false ∧ urlsplitOk exRemote = true := by decide
example : Inv State.init := Inv.init
/-- validation examples: lt must be `[+-]?[0-9]+`, once -/
example : parseInt [45, 49, 53] = some (-15) ∧ parseInt [48, 48, 55] = some 7 ∧ parseInt [] = none ∧
    parseInt [49, 46, 53] = none ∧ parseInt [43] = none := by decide
/-- path allocation takes the first free number -/
example : newPath [] = 1 ∧ newPath [1, 2, 4] = 3 ∧ newPath [2, 3] = 1 ∧ newPath [3, 1, 2] = 4 := by decide

end Examples

end Aiocoap.Rd
