import Proofs.Apps.Rd
/-!
# C20 — resource directory: lookups reflect exactly the live registrations

Model: `AiocoapModel/Apps/Rd.lean` (`State` = the two indexes `_by_key` / `_by_path` and the clock,
`step` = one request or a passage of time, `run` = a whole history; the driver runs exactly
these).  Vocabulary from `Proofs/Apps/Rd.lean`:

* `finalState c s ops` / `effects c s ops` — the directory after a history and, per request, what
  it did to the abstract map `(ep, d) ↦ registration`: `.wrote r` (accepted registration,
  re-registration, POST or PUT; `r` is what is stored), `.removed k` (DELETE), `.none` (refused,
  read, lookup, time passing);
* `LatestWrite es x` — `x` was written at some point of the history and no later request touched
  its endpoint name and sector;
* `Inv s` — the two indexes have unique keys and hold the same registrations, each under its own
  `(ep, d)` and its own location;
* `Reg.live c now x` — `now < x.refreshedAt + (x.lt + grace)·tps`, the timer of `x` is not due.

All theorems quantify over every history (any length, any interleaving of requests and time
steps, valid and invalid parameters), every grace period and tick rate.  Only property theorems
and non-vacuity examples live in this file.
-/
namespace Aiocoap.Rd

-- clause: the two indexes are one map -------------------------------------------------------------

/-- **C20 (one map).** After every history the two indexes `_by_key` and `_by_path` have unique
keys and describe the same finite map: every registration stored under a key is stored under its
own location and vice versa. -/
theorem C20_indexes_one_map (c : Cfg) (ops : List Op) : Inv (finalState c State.init ops) :=
  finalState_inv Inv.init ops

/-- **C20 (at most one registration per endpoint name and sector).** -/
theorem C20_one_registration_per_key (c : Cfg) (ops : List Op) (x y : Reg)
    (hx : x ∈ (finalState c State.init ops).regs) (hy : y ∈ (finalState c State.init ops).regs)
    (h : x.ep = y.ep ∧ x.d = y.d) : x = y := by
  have hi := C20_indexes_one_map c ops
  have hx' := (mem_regs hi).mp hx
  have hy' := (mem_regs hi).mp hy
  have hk : x.key = y.key := by simp [Reg.key, h.1, h.2]
  rw [hk] at hx'
  exact keysNodup_unique hi.nodupKey hx' hy'

/-- **C20 (distinct registrations never share a location).** -/
theorem C20_locations_distinct (c : Cfg) (ops : List Op) (x y : Reg)
    (hx : x ∈ (finalState c State.init ops).regs) (hy : y ∈ (finalState c State.init ops).regs)
    (hne : x ≠ y) : x.path ≠ y.path := by
  have hi := C20_indexes_one_map c ops
  intro hp
  have hx' := (hi.keyToPath _ _ ((mem_regs hi).mp hx)).2
  have hy' := (hi.keyToPath _ _ ((mem_regs hi).mp hy)).2
  rw [hp] at hx'
  exact hne (keysNodup_unique hi.nodupPath hx' hy')

/-- … and the registration resource at a location is that registration: dispatch by path
(`_by_path`) and iteration by key (`_by_key`) see the same object. -/
theorem C20_location_resolves (c : Cfg) (ops : List Op) (x : Reg) :
    x ∈ (finalState c State.init ops).regs ↔
      aget x.path (finalState c State.init ops).byPath = some x := by
  have hi := C20_indexes_one_map c ops
  constructor
  · intro hx
    exact aget_of_mem hi.nodupPath (hi.keyToPath _ _ ((mem_regs hi).mp hx)).2
  · intro h
    exact (mem_regs hi).mpr (hi.pathToKey _ _ (aget_some_mem h)).2

/-- **C20 (refinement).** The implementation's two indexes refine the specification "a finite
map `(ep, d) ↦ registration`" (`specStep`: a write replaces the entry of its key, a removal drops
it, expired entries vanish): after every history both hold the same registrations. -/
theorem C20_refines_map (c : Cfg) (ops : List Op) (x : Reg) :
    x ∈ (finalState c State.init ops).regs ↔ x ∈ specRun c [] (trace c State.init ops) :=
  finalState_refines Inv.init (by intro r hr; simp [State.regs, State.init] at hr) ops []
    (by intro y; simp [State.regs, State.init]) x

-- clause: lookups list exactly the live registrations ---------------------------------------------

/-- an unfiltered endpoint lookup lists the whole directory; an unfiltered resource lookup lists
the links of exactly those registrations, resolved against their base -/
theorem C20_unfiltered_lookups (s : State) :
    lookupEp s [] = s.regs ∧
    lookupRes s [] = s.regs.flatMap (fun r => r.basedLinks.map stripAnchor) := by
  constructor
  · simp [lookupEp]
  · unfold lookupRes
    congr 1
    funext r
    rw [List.filter_eq_self.mpr]
    intro a _
    simp

/-- a filtered lookup lists registrations of the directory only, those meeting every criterion -/
theorem C20_filtered_lookup (s : State) (q : Query) (x : Reg) :
    x ∈ lookupEp s q ↔ x ∈ s.regs ∧ ∀ kv ∈ q, epCond x kv.1 kv.2 = true := by
  simp [lookupEp, List.mem_filter, List.all_eq_true]

/-- **C20 (lookups list exactly the live registrations).** For every history starting from the
empty directory, the endpoint lookup lists `x` if and only if `x` is what some accepted
registration / update stored, no later accepted registration, update or removal concerned its
endpoint name and sector, and its lifetime plus the grace period, counted from that write, has
not run out: `now < x.refreshedAt + (x.lt + grace)·tps`. -/
theorem C20_lookup_exactly_live (c : Cfg) (ops : List Op) (x : Reg) :
    x ∈ lookupEp (finalState c State.init ops) [] ↔
      x.live c (finalState c State.init ops).now = true ∧
      LatestWrite (effects c State.init ops) x := by
  rw [(C20_unfiltered_lookups _).1,
    finalState_mem Inv.init (by intro r hr; simp [State.regs, State.init] at hr) ops x]
  simp [State.regs, State.init]

/-- the same from any consistent directory (registrations already present count until touched) -/
theorem C20_lookup_exactly_live_from (c : Cfg) (s : State) (hi : Inv s) (hl : AllLive c s)
    (ops : List Op) (x : Reg) :
    x ∈ lookupEp (finalState c s ops) [] ↔
      x.live c (finalState c s ops).now = true ∧
      (LatestWrite (effects c s ops) x ∨
        (x ∈ s.regs ∧ ∀ e ∈ effects c s ops, e.touches x.key = false)) := by
  rw [(C20_unfiltered_lookups _).1]
  exact finalState_mem hi hl ops x

/-- **C20 (expiry exactly at lifetime plus grace).** When nothing but time passes, a listed
registration stays listed precisely while `now < refreshedAt + (lt + grace)·tps`. -/
theorem C20_expiry_exact (c : Cfg) (s : State) (hi : Inv s) (hl : AllLive c s) (x : Reg)
    (hx : x ∈ s.regs) (dt : Nat) :
    x ∈ lookupEp (step c s (.advance dt)).1 [] ↔
      ((s.now + dt : Nat) : Int) < (x.refreshedAt : Int) + (x.lt + c.grace) * (c.tps : Int) := by
  rw [(C20_unfiltered_lookups _).1, step_mem (.advance dt) hi hl x]
  have hnow : (step c s (.advance dt)).1.now = s.now + dt := by simp [step, decideOp, applyAction, purge_now]
  rw [hnow]
  simp only [decideOp, Action.effect, Effect.touches, hx, Reg.live, Reg.deadline, reduceCtorEq,
    false_or, and_self, and_true, Int.natCast_add]
  exact decide_eq_true_iff

/-- an accepted write is listed at once (unless its lifetime plus grace is not positive), with
exactly the stored value -/
theorem C20_write_then_listed (c : Cfg) (s : State) (hi : Inv s) (hl : AllLive c s) (op : Op)
    (r : Reg) (h : (decideOp s op).effect = .wrote r) :
    r ∈ lookupEp (step c s op).1 [] ↔ 0 < (r.lt + c.grace) * (c.tps : Int) := by
  rw [(C20_unfiltered_lookups _).1, step_mem op hi hl r, h]
  have hnow : (step c s op).1.now = s.now := by
    unfold step
    cases hd : decideOp s op <;> simp [hd, Action.effect] at h <;> simp [applyAction, purge_now]
  have hr : r.refreshedAt = s.now := by
    cases hd : decideOp s op <;> simp [hd, Action.effect] at h
    subst h
    exact (decideOp_write hi hd).2.1
  rw [hnow]
  simp only [Reg.live, Reg.deadline, hr, decide_eq_true_eq, true_or, and_true]
  omega

/-- The effect log is tied to the responses: a request writes exactly when it is answered 2.01 /
2.04, removes exactly when it is answered 2.02; an error answer has no effect. -/
theorem C20_effect_iff_response (c : Cfg) (s : State) (op : Op) :
    ((∃ r, (decideOp s op).effect = .wrote r) ↔
        ((∃ p, (step c s op).2 = .created p) ∨ (step c s op).2 = .changed)) ∧
    ((∃ k, (decideOp s op).effect = .removed k) ↔ (step c s op).2 = .deleted) := by
  unfold step
  cases h : decideOp s op with
  | fail code => simp [applyAction, Action.effect]
  | write r resp =>
    rcases decideOp_write_resp h with rfl | rfl <;> simp [applyAction, Action.effect]
  | remove r => simp [applyAction, Action.effect]
  | reply resp =>
    rcases decideOp_reply h with ⟨_, rfl⟩ | ⟨_, rfl⟩ | ⟨_, rfl⟩ <;> simp [applyAction, Action.effect]
  | tick dt => simp [applyAction, Action.effect]

-- clause: each with the links and parameters of its latest successful write ---------------------------

/-- what an accepted registration stores -/
theorem C20_register_contents (s : State) (remote : Option Str) (q : Query) (body : Body) (r : Reg)
    (h : (decideOp s (.register remote q body)).effect = .wrote r) :
    vals sEp q = [r.ep] ∧ vals sD q = r.d.toList ∧ linksOf body = .ok r.links ∧
    r.refreshedAt = s.now ∧
    ((vals sLt q = [] ∧ r.lt = 90000) ∨ (∃ v, vals sLt q = [v] ∧ parseInt v = some r.lt)) := by
  simp only [decideOp] at h
  split at h
  · cases h
  · next r' hr' =>
    simp only [Action.effect, Effect.wrote.injEq] at h
    subst h
    obtain ⟨h1, h2, h3, h4, _⟩ := registerReg_ok hr'
    refine ⟨h2, h3, h1, h4, ?_⟩
    unfold registerReg at hr'
    split at hr'
    · cases hr'
    · split at hr'
      · cases hr'
      · cases hr'
      · split at hr'
        · cases hr'
        · simp only at hr'
          split at hr'
          · cases hr'
          · next r0 hr0 =>
            cases hr'
            have := updateParams_lt hr0
            rw [vals_filter (by intro e he; simp [he, sLt, sEp, sD])] at this
            simpa using this

/-- what an accepted POST update stores: name, sector, location and links stay, the lifetime is
the given one (else the old one), the parameters are merged, the timer restarts now -/
theorem C20_update_contents (s : State) (path : Nat) (remote : Option Str) (q : Query) (body : Body)
    (r : Reg) (h : (decideOp s (.update path remote q body)).effect = .wrote r) :
    ∃ old, aget path s.byPath = some old ∧ r.ep = old.ep ∧ r.d = old.d ∧ r.path = old.path ∧
      r.links = old.links ∧ r.refreshedAt = s.now ∧
      r.params = mergeParams old.params (q.filter (fun e => decide (e.1 ≠ sLt ∧ e.1 ≠ sBase))) ∧
      ((vals sLt q = [] ∧ r.lt = old.lt) ∨ (∃ v, vals sLt q = [v] ∧ parseInt v = some r.lt)) := by
  simp only [decideOp] at h
  split at h
  · cases h
  · next old hold =>
    split at h
    · cases h
    · split at h
      · cases h
      · next r' hr' =>
        simp only [Action.effect, Effect.wrote.injEq] at h
        subst h
        obtain ⟨h1, h2, h3, h4, h5⟩ := updateParams_ok hr'
        exact ⟨old, hold, h1, h2, h3, h4, h5, updateParams_params hr', updateParams_lt hr'⟩

/-- what an accepted PUT stores: as POST, but the links are those of the body -/
theorem C20_put_contents (s : State) (path : Nat) (remote : Option Str) (q : Query) (body : Body)
    (r : Reg) (h : (decideOp s (.put path remote q body)).effect = .wrote r) :
    ∃ old, aget path s.byPath = some old ∧ r.ep = old.ep ∧ r.d = old.d ∧ r.path = old.path ∧
      linksOf body = .ok r.links ∧ r.refreshedAt = s.now ∧
      r.params = mergeParams old.params (q.filter (fun e => decide (e.1 ≠ sLt ∧ e.1 ≠ sBase))) ∧
      ((vals sLt q = [] ∧ r.lt = old.lt) ∨ (∃ v, vals sLt q = [v] ∧ parseInt v = some r.lt)) := by
  simp only [decideOp] at h
  split at h
  · cases h
  · next old hold =>
    split at h
    · cases h
    · next links hl =>
      split at h
      · cases h
      · next r' hr' =>
        simp only [Action.effect, Effect.wrote.injEq] at h
        subst h
        obtain ⟨h1, h2, h3, _, h5⟩ := updateParams_ok hr'
        exact ⟨old, hold, h1, h2, h3, hl, h5, by simpa using updateParams_params hr',
          by simpa using updateParams_lt hr'⟩

-- clause: re-registering keeps the location ------------------------------------------------------------

/-- **C20 (re-registering keeps its location).** After any history, a registration request for the
endpoint name and sector of a listed registration `old`, if accepted, is answered with `old`'s
location and stores the new registration there. -/
theorem C20_reregister_keeps_location (c : Cfg) (ops : List Op) (old : Reg)
    (remote : Option Str) (q : Query) (body : Body) (p : Nat)
    (hold : old ∈ (finalState c State.init ops).regs)
    (hep : vals sEp q = [old.ep]) (hd : vals sD q = old.d.toList)
    (hresp : (step c (finalState c State.init ops) (.register remote q body)).2 = .created p) :
    p = old.path ∧
    ∃ r, (decideOp (finalState c State.init ops) (.register remote q body)).effect = .wrote r ∧
      r.ep = old.ep ∧ r.d = old.d ∧ r.path = old.path := by
  have hi := C20_indexes_one_map c ops
  generalize finalState c State.init ops = s at *
  unfold step at hresp
  simp only [decideOp] at hresp ⊢
  split at hresp
  · simp [applyAction] at hresp
  · next r hr =>
    simp only [applyAction, Resp.created.injEq] at hresp
    obtain ⟨_, h2, h3, _, hpath⟩ := registerReg_ok hr
    rw [hep] at h2
    rw [hd] at h3
    have he : r.ep = old.ep := by simpa using h2.symm
    have hd' : r.d = old.d := by
      cases hrd : r.d <;> cases hod : old.d <;> simp [hrd, hod] at h3 ⊢
      exact h3.symm
    have hk : r.key = old.key := by simp [Reg.key, he, hd']
    rw [hk, aget_of_mem hi.nodupKey ((mem_regs hi).mp hold)] at hpath
    simp only at hpath
    refine ⟨by rw [← hresp, hpath], r, ?_, he, hd', hpath⟩
    simp [Action.effect]

/-- **C20 (a new registration gets an unused location).** -/
theorem C20_new_registration_fresh_location (c : Cfg) (ops : List Op)
    (remote : Option Str) (q : Query) (body : Body) (p : Nat) (ep : Str) (d : Option Str)
    (hep : vals sEp q = [ep]) (hd : vals sD q = d.toList)
    (hnew : ∀ o ∈ (finalState c State.init ops).regs, ¬ (o.ep = ep ∧ o.d = d))
    (hresp : (step c (finalState c State.init ops) (.register remote q body)).2 = .created p) :
    ∀ o ∈ (finalState c State.init ops).regs, o.path ≠ p := by
  have hi := C20_indexes_one_map c ops
  generalize finalState c State.init ops = s at *
  unfold step at hresp
  simp only [decideOp] at hresp
  split at hresp
  · simp [applyAction] at hresp
  · next r hr =>
    simp only [applyAction, Resp.created.injEq] at hresp
    obtain ⟨_, h2, h3, _, hpath⟩ := registerReg_ok hr
    rw [hep] at h2
    rw [hd] at h3
    have he : r.ep = ep := by simpa using h2.symm
    have hd' : r.d = d := by
      cases hrd : r.d <;> cases hod : d <;> simp [hrd, hod] at h3 ⊢
      exact h3.symm
    cases hg : aget r.key s.byKey with
    | some o =>
      have hm := aget_some_mem hg
      have hk := (hi.keyToPath _ _ hm).1
      have ho : o ∈ s.regs := List.mem_map.mpr ⟨_, hm, rfl⟩
      exfalso
      apply hnew o ho
      simp only [Reg.key, Prod.mk.injEq] at hk
      exact ⟨hk.1.symm.trans he, hk.2.symm.trans hd'⟩
    | none =>
      rw [hg] at hpath
      simp only at hpath
      intro o ho hop
      have hm := (hi.keyToPath _ _ ((mem_regs hi).mp ho)).2
      have : p ∈ s.byPath.map (·.1) := List.mem_map.mpr ⟨_, hm, hop⟩
      rw [← hresp, hpath] at this
      exact newPath_not_mem _ this

-- clause: a request answered 4.xx leaves the directory unchanged ------------------------------------------

/-- **C20 (4.xx ⇒ no change).** In every state (reachable or not), a request answered with an
error leaves both indexes, every stored registration and the timers exactly as they were. -/
theorem C20_4xx_no_change (c : Cfg) (s : State) (op : Op)
    (h : (step c s op).2.is4xx = true) : (step c s op).1 = s := by
  unfold step at h ⊢
  cases hd : decideOp s op with
  | fail code => rfl
  | write r resp =>
    rw [hd] at h
    rcases decideOp_write_resp hd with rfl | rfl <;> simp [applyAction, Resp.is4xx] at h
  | remove r => rw [hd] at h; simp [applyAction, Resp.is4xx] at h
  | reply resp => rfl
  | tick dt => rw [hd] at h; simp [applyAction, Resp.is4xx] at h

/-- reads and lookups never change the directory either -/
theorem C20_lookups_pure (c : Cfg) (s : State) (q : Query) (p : Nat) :
    (step c s (.lookupEp q)).1 = s ∧ (step c s (.lookupRes q)).1 = s ∧ (step c s (.read p)).1 = s := by
  refine ⟨rfl, rfl, ?_⟩
  unfold step
  simp only [decideOp]
  split <;> rfl

-- non-vacuity and sanity -----------------------------------------------------------------------------------

section Examples

def exCfg : Cfg := { grace := 15, tps := 8 }
def exRemote : Str := [99, 111, 97, 112, 58, 47, 47, 104]          -- "coap://h"
def exN1 : Str := [110, 49]
def exN2 : Str := [110, 50]
def exLinks : List Link := [{ href := [47, 97], attrs := [(sRt, [120])] }]
def exBody : Body := { cf := .linkFormat, payload := .links exLinks }
def exNoBody : Body := { cf := .absent, payload := .links [] }
/-- register n1 (lt=5) and n2 (default lt); 159 ticks later n1 is still listed, one tick later
it is gone; a rejected re-registration and a rejected update with a body change nothing; an
update refreshes; re-registration keeps /reg/2/; DELETE frees the location -/
def exOps : List Op :=
  [.register (some exRemote) [(sEp, exN1), (sLt, [53])] exBody,
   .register (some exRemote) [(sEp, exN2)] exBody,
   .advance 159,
   .lookupEp [(sEp, exN1)],
   .register (some exRemote) [(sEp, exN1), (sLt, [97, 98, 99])] exBody,
   .update 1 (some exRemote) [(sLt, [55])] exBody,
   .advance 1,
   .lookupEp [(sEp, exN1)],
   .register (some exRemote) [(sEp, exN2), (sLt, [53])] exBody,
   .update 2 (some exRemote) [] exNoBody,
   .read 1,
   .delete 2,
   .register (some exRemote) [(sEp, exN1)] exBody]

/-- the responses of that history: created 1, created 2, tick, n1 listed, 4.00, 4.00, tick,
nothing listed, created 2 again, changed, 4.04, deleted, created 1 -/
example : ((responses exCfg State.init exOps).map fun r => match r with
    | .created p => 100 + p | .changed => 204 | .deleted => 202 | .err code => code
    | .endpoints rs => rs.length | .resources ls => ls.length | .regLinks ls => ls.length
    | .ticked => 0) =
    [101, 102, 0, 1, 400, 400, 0, 0, 102, 204, 404, 202, 101] := by decide

/-- a reachable state with two registrations: the hypotheses of the theorems above (a listed
`old`, an accepted re-registration, a 4.xx answer) are all satisfiable -/
example : ((finalState exCfg State.init (exOps.take 3)).regs.map (·.path)) = [1, 2] := by decide
example : (step exCfg (finalState exCfg State.init (exOps.take 4))
    (.register (some exRemote) [(sEp, exN1), (sLt, [97, 98, 99])] exBody)).2.is4xx = true := by decide
example : ((effects exCfg State.init (exOps.take 2)).head?.map fun e => match e with
    | .wrote r => (r.lt, r.refreshedAt, r.links)
    | _ => (0, 0, [])) = some (5, 0, exLinks) := by decide
example : Inv State.init := Inv.init
/-- validation examples: lt must be `[+-]?[0-9]+`, once -/
example : parseInt [45, 49, 53] = some (-15) ∧ parseInt [48, 48, 55] = some 7 ∧ parseInt [] = none ∧
    parseInt [49, 46, 53] = none ∧ parseInt [43] = none := by decide
/-- path allocation takes the first free number -/
example : newPath [] = 1 ∧ newPath [1, 2, 4] = 3 ∧ newPath [2, 3] = 1 ∧ newPath [3, 1, 2] = 4 := by decide

end Examples

end Aiocoap.Rd
