import Properties.C03
import Properties.C18
/-!
# C03 — giving up, for every reachable state

`C03_gives_up` (Properties/C03.lean) is a single-step theorem with the hypothesis that the token
manager is not shut down.  In a state reached by any history from the creation of the context an
exchange in flight implies exactly that (`C18_open_or_shut`), so the hypothesis goes away.
-/
namespace Aiocoap.MsgLayer

/-- **C03 (gives up, any history).** After any history from creation, at any time `t`: when the
retransmission timer of an exchange fires with its counter at MAX_RETRANSMIT, nothing is sent,
the exchange is closed, every request outstanding towards that remote fails with the
retransmission time-out error, and this happens `(2^(MAX_RETRANSMIT+1) − 1) · T0` after the first
transmission. -/
theorem C03_gives_up_reachable (cfg : Cfg) (mid0 token : Nat) (f : Nat → Nat) (es : List TEv)
    (t : Nat) (remote : Remote) (mid : Nat) (x : Exchange)
    (hx : findExchange (run (init cfg mid0 token f) es).1 remote mid = some x) (hinv : ExInv x)
    (hlast : ¬ x.counter < x.maxRetr) :
    let s := (run (init cfg mid0 token f) es).1
    let r := step s ⟨t, .fireRetransmit remote mid⟩
    (∀ t' rem w, Out.send t' rem w ∉ r.2) ∧
    (∀ o ∈ s.outgoing, o.remote = some remote → Out.fail o.req .conRetransmitsExceeded ∈ r.2) ∧
    findExchange r.1 remote mid = none ∧
    x.fireAt = x.t0 + (2 ^ (x.maxRetr + 1) - 1) * x.T0 := by
  intro s r
  have hopen : s.shutTok = false := by
    rcases C18_open_or_shut cfg mid0 token f es with h | h
    · exact h
    · have hex : s.exchanges = [] := h.ex
      have : findExchange s remote mid = none := by simp [findExchange, hex]
      rw [this] at hx; cases hx
  exact C03_gives_up (setNow s t) remote mid x hx hinv hlast hopen

end Aiocoap.MsgLayer
