import Proofs.Observe.Runs
/-!
# C08 — Observe server: rising numbers, latest state sent, cancellation final, no leak

Model: `AiocoapModel/Observe/Server.lean` — the render tasks of an observable resource
(`ObservableResource._render_to_pipe`, `ServerObservation`, `resource.ObservableResource`) as a
state machine with one atomic step per await point, composed with the message-layer model
(`AiocoapModel/MsgLayer/Model.lean`) for everything that happens to the pipe.  All theorems are
about *every* state satisfying the invariant `Inv` (which holds initially and after every event
sequence: `C08_invariant`) and *every* continuation — all schedules of triggers, renders, task
steps, datagrams, timers, errors.

What the model assumes rather than proves: the semantics of asyncio tasks (a cancelled task gets
`CancelledError` at its next step and runs only its `finally`; a task cancelled before its first
step never runs; a step is atomic between awaits).  The correspondence harness validates that
granularity against the real stack.
-/
namespace Aiocoap.Observe.Server
open Aiocoap.MsgLayer

/-- **C08 (invariant).** Every state the server can get into — from a fresh context, after any
sequence of datagrams, timers, transport errors, state changes, deregistrations, render
completions and task steps in any order — satisfies `Inv`: pipes and wanted render tasks
correspond one to one (with the request's token and remote), the resource's set of observations
holds exactly the accepted unfinished observations, and every task satisfies `TaskOk`. -/
theorem C08_invariant (cfg : Cfg) (mid tok : Nat) (f : Nat → Nat) (maxRetr : Nat) (es : List TEv) :
    Inv (run (init (MsgLayer.init cfg mid tok f) maxRetr) es).1 :=
  Inv_run (Inv_init _ _ rfl) es

-- latest state sent ----------------------------------------------------------------------------------

/-- **C08 (a trigger is never dropped).** `updated_state(...)` reaches every registered
observation whatever its task is doing — idle, rendering the first response, rendering a
notification, already woken, even cancelled —: afterwards its trigger future is done with the
value of *this* call (an earlier pending value is overwritten: coalescing), the observation
remembers this state version, and a task waiting for the trigger is in the ready queue. -/
theorem C08_trigger_never_dropped {c : State} (h : Inv c) (resp : Option Nat) {t : Task}
    (ht : t ∈ c.tasks) (hin : inSet t = true) :
    ∃ t' ∈ (handle c (.update resp)).1.tasks, t'.srv = t.srv ∧ t'.phase = t.phase ∧
      t'.trig = some (explicitResp resp (c.value + 1)) ∧ t'.seen = c.value + 1 ∧
      (handle c (.update resp)).1.value = c.value + 1 ∧
      (t'.phase = .waitTrig → t'.runnable = true) := by
  have hok := h.ok t ht
  simp only [inSet, Bool.and_eq_true, bne_iff_ne, ne_eq] at hin
  have hnf : t.phase ≠ .fresh := by
    intro hf; have := (hok.wFresh hf).2.1; rw [hin.1.2] at this; cases this
  have hmem : c.observations.contains t.srv = true := by
    simp only [List.contains_iff_mem]
    exact (h.count.mem t.srv).mpr ⟨t, ht, rfl, by simp [inSet, hin]⟩
  refine ⟨trigTask t (explicitResp resp (c.value + 1)) false (c.value + 1), ?_, ?_⟩
  · simp only [handle]
    exact List.mem_map.mpr ⟨t, ht, by rw [if_pos hmem]⟩
  · have hg : (!(t.observe && t.accepted) || t.phase == .done || t.phase == .fresh) = false := by
      simp [hin.1.1, hin.1.2, hin.2, hnf]
    simp only [trigTask, hg, Bool.false_eq_true, ↓reduceIte, handle, true_and]
    intro hp; simp [hp]

/-- **C08 (no lost wake-up).** In every reachable state a task that has something to do is in the
event loop's ready queue: a task awaiting the trigger future once that future is done; a task
whose render has finished; a cancelled task that has not yet run its `finally`; a new task. -/
theorem C08_no_lost_wakeup {c : State} (h : Inv c) {t : Task} (ht : t ∈ c.tasks) :
    (t.phase = .waitTrig → t.trig.isSome = true → t.runnable = true) ∧
    (t.renderOut.isSome = true → t.runnable = true) ∧
    (t.cancelReq = true → t.phase ≠ .done → t.runnable = true) ∧
    (t.phase = .fresh → t.runnable = true) :=
  ⟨(h.ok t ht).wTrig, (h.ok t ht).wOut, (h.ok t ht).wCancel, fun hf => ((h.ok t ht).wFresh hf).1⟩

/-- **C08 (latest state sent).** Take any reachable state and any registered observation whose
task is *not* in the ready queue (asyncio runs ready tasks, so this is where the task comes to
rest).  Then either the resource's `render` is still running for it — and that render started at
or after the last state change, or the change's trigger is pending and will be served when the
render returns —, or the task is idle at `await servobs._trigger` with nothing pending and **the
last notification it put on the pipe was rendered at or after the last state change**
(`seen ≤ sentVer`; versions are what the renders sampled).  Earlier changes of a burst may have
been coalesced; the last one never is. -/
theorem C08_latest_state_sent {c : State} (h : Inv c) {t : Task} (ht : t ∈ c.tasks)
    (hin : inSet t = true) (hq : t.runnable = false) :
    ((t.phase = .firstRender ∨ t.phase = .loopRender) ∧ t.renderOut = none ∧
        (t.seen ≤ t.renderVer ∨ t.trig.isSome = true)) ∨
    (t.phase = .waitTrig ∧ t.trig = none ∧ t.seen ≤ t.sentVer) := by
  have hok := h.ok t ht
  simp only [inSet, Bool.and_eq_true, bne_iff_ne, ne_eq] at hin
  have hcov := hok.cov hin.1.1 hin.1.2 hin.2
  have hro : t.renderOut = none := by
    cases hr : t.renderOut with
    | none => rfl
    | some r => have := hok.wOut (by simp [hr]); rw [hq] at this; cases this
  have htr : t.phase = .waitTrig → t.trig = none := by
    intro hp
    cases htr : t.trig with
    | none => rfl
    | some v => have := hok.wTrig hp (by simp [htr]); rw [hq] at this; cases this
  cases hp : t.phase with
  | fresh => have := (hok.wFresh hp).1; rw [hq] at this; cases this
  | done => exact absurd hp hin.2
  | plainRender => exact absurd hp (hok.kind.1 hin.1.1)
  | waitTrig =>
    right
    refine ⟨rfl, htr hp, ?_⟩
    rcases hcov with hc | hc | hc
    · simp [htr hp] at hc
    · simp [hp] at hc
    · exact hc.2
  | firstRender =>
    left
    refine ⟨Or.inl rfl, hro, ?_⟩
    rcases hcov with hc | hc | hc
    · exact Or.inr hc
    · exact Or.inl hc.2
    · simp [hp] at hc
  | loopRender =>
    left
    refine ⟨Or.inr rfl, hro, ?_⟩
    rcases hcov with hc | hc | hc
    · exact Or.inr hc
    · exact Or.inl hc.2
    · simp [hp] at hc


-- once ended: silent, callback exactly once -------------------------------------------------------------

theorem findTask_setNow (c : State) (t sv : Nat) :
    findTask { c with ml := MsgLayer.setNow c.ml t } sv = findTask c sv := rfl

theorem step_of_done {c : State} (h : Inv c) {sv : Nat} (hd : doneAt c sv) (e : TEv) :
    (∀ o ∈ (step c e).2, speaks sv o = false) ∧ doneAt (step c e).1 sv := by
  have h0 := Inv_setNow h e.time
  by_cases hs : ∃ plan acc, e.ev = .step sv plan acc
  · obtain ⟨plan, acc, he⟩ := hs
    obtain ⟨t, hf, hdone⟩ := hd
    have hf0 : findTask { c with ml := MsgLayer.setNow c.ml e.time } sv = some t := hf
    have hself := handle_self_step hf0 plan acc
    have hrun : t.runnable = false := (h.ok t (findTask_some hf).1).wDone hdone
    have hst : stepTask c.value t plan acc = (t, []) := by simp [stepTask, hrun]
    simp only [step, he]
    rw [hself.1]
    refine ⟨?_, t, ?_, hdone⟩
    · show ∀ o ∈ (exec _ sv (stepTask c.value t plan acc).2).2, _
      rw [hst]; intro o ho; cases ho
    · rw [hself.2]; show some (stepTask c.value t plan acc).1 = _; rw [hst]
  · have hq := Quiescent_handle h0 e.ev sv (fun plan acc he => hs ⟨plan, acc, he⟩)
    exact ⟨hq.silent, hq.done hd⟩

/-- **C08 (nothing after the end).** Once the render task of a registration has ended — by a final
or unsuccessful notification, or cancelled through any of the ending causes — then whatever
happens later (further state changes, deregistrations, render completions, steps of the task,
datagrams on the same token, timers, errors): the task never renders, never puts a notification
on its pipe and never runs the cancellation callback again, and it stays ended. -/
theorem C08_silent_after_end {c : State} (h : Inv c) {sv : Nat} (hd : doneAt c sv) (es : List TEv) :
    (∀ o ∈ (run c es).2, speaks sv o = false) ∧ doneAt (run c es).1 sv := by
  induction es generalizing c with
  | nil => exact And.intro (by intro o ho; cases ho) hd
  | cons e es ih =>
    simp only [run]
    have h1 := step_of_done h hd e
    have h2 := ih (Inv_step h e) h1.2
    refine ⟨?_, h2.2⟩
    intro o ho
    rcases List.mem_append.mp ho with ho | ho
    · exact h1.1 o ho
    · exact h2.1 o ho

theorem step_cb {c : State} (h : Inv c) (sv : Nat) (e : TEv) :
    cancelledCount sv (step c e).2 + cbOf c sv = cbOf (step c e).1 sv := by
  have h0 := Inv_setNow h e.time
  by_cases hs : ∃ plan acc, e.ev = .step sv plan acc
  · obtain ⟨plan, acc, he⟩ := hs
    simp only [step, he]
    cases hf : findTask c sv with
    | none =>
      have hf0 : findTask { c with ml := MsgLayer.setNow c.ml e.time } sv = none := hf
      rw [handle_absent_step hf0]
      simp [cancelledCount, cbOf, hf0, hf]
    | some t =>
      have hf0 : findTask { c with ml := MsgLayer.setNow c.ml e.time } sv = some t := hf
      have hself := handle_self_step hf0 plan acc
      rw [hself.1]
      simp only [cbOf, hself.2, hf]
      rw [(exec_outs sv _ _).2.1]
      have := stepTask_cbs c.value t plan acc
      show _ = (stepTask c.value t plan acc).1.cbRuns
      omega
  · have hq := Quiescent_handle h0 e.ev sv (fun plan acc he => hs ⟨plan, acc, he⟩)
    simp only [step]
    rw [cancelledCount_of_silent hq.silent, hq.cb]
    simp [cbOf, findTask_setNow]

/-- **C08 (cancellation callback exactly once).** Over any run, the number of times the
cancellation callback of a registration is invoked is exactly the growth of the task's callback
counter; and in every reachable state that counter is 1 if the observation was accepted and has
ended, and 0 otherwise.  So from the moment of registration to any later moment the callback has
run exactly once if the registration has ended by then and not at all if it has not — never
twice, never skipped, whatever ended it. -/
theorem C08_callback_exactly_once {c : State} (h : Inv c) (sv : Nat) (es : List TEv) :
    cancelledCount sv (run c es).2 + cbOf c sv = cbOf (run c es).1 sv ∧
    (∀ t ∈ (run c es).1.tasks,
      t.cbRuns = if t.phase = .done ∧ t.observe = true ∧ t.accepted = true then 1 else 0) := by
  refine ⟨?_, fun t ht => ((Inv_run h es).ok t ht).cb⟩
  induction es generalizing c with
  | nil => simp [run, cancelledCount]
  | cons e es ih =>
    simp only [run, cancelledCount_append]
    have h1 := step_cb h sv e
    have h2 := ih (Inv_step h e)
    omega

end Aiocoap.Observe.Server
