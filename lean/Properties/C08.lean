import Proofs.Observe.Causes
import Proofs.Observe.FailCause
import Proofs.Observe.StepSpec4
/-!
# C08 — Observe server: rising numbers, latest state sent, cancellation final, no leak

Model: `AiocoapModel/Observe/Server.lean` — the render tasks of an observable resource
(`ObservableResource._render_to_pipe`, `ServerObservation`, `resource.ObservableResource`) as a
state machine with one atomic step per await point, composed with the message-layer model
(`AiocoapModel/MsgLayer/Model.lean`) for everything that happens to the pipe.  All theorems are
about *every* state satisfying the invariant `Inv` (which holds initially and after every event
sequence: `C08_invariant`) and *every* continuation — all schedules of triggers, renders, task
steps, datagrams, timers, errors.

What the model assumes rather than proves: the semantics of asyncio tasks (a cancelled task gets
`CancelledError` at its next step and runs only its `finally`; a task cancelled before its first
step never runs; a step is atomic between awaits).  The correspondence harness validates that
granularity against the real stack.
-/
namespace Aiocoap.Observe.Server
open Aiocoap.MsgLayer

/-- **C08 (invariant).** Every state the server can get into — from a fresh context, after any
sequence of datagrams, timers, transport errors, state changes, deregistrations, render
completions and task steps in any order — satisfies `Inv`: pipes and wanted render tasks
correspond one to one (with the request's token and remote), the resource's set of observations
holds exactly the accepted unfinished observations, and every task satisfies `TaskOk`. -/
theorem C08_invariant (cfg : Cfg) (mid tok : Nat) (f : Nat → Nat) (maxRetr : Nat) (es : List TEv) :
    Inv (run (init (MsgLayer.init cfg mid tok f) maxRetr) es).1 :=
  Inv_run (Inv_init _ _ rfl) es

-- latest state sent ----------------------------------------------------------------------------------

/-- **C08 (a trigger is never dropped).** `updated_state(...)` reaches every registered
observation whatever its task is doing — idle, rendering the first response, rendering a
notification, already woken, even cancelled —: afterwards its trigger future is done with the
value of *this* call (an earlier pending value is overwritten: coalescing), the observation
remembers this state version, and a task waiting for the trigger is in the ready queue. -/
theorem C08_trigger_never_dropped {c : State} (h : Inv c) (resp : Option Nat) {t : Task}
    (ht : t ∈ c.tasks) (hin : inSet t = true) :
    ∃ t' ∈ (handle c (.update resp)).1.tasks, t'.srv = t.srv ∧ t'.phase = t.phase ∧
      t'.trig = some (explicitResp resp (c.value + 1)) ∧ t'.seen = c.value + 1 ∧
      (handle c (.update resp)).1.value = c.value + 1 ∧
      (t'.phase = .waitTrig → t'.runnable = true) := by
  have hok := h.ok t ht
  simp only [inSet, Bool.and_eq_true, bne_iff_ne, ne_eq] at hin
  have hnf : t.phase ≠ .fresh := by
    intro hf; have := (hok.wFresh hf).2.1; rw [hin.1.2] at this; cases this
  have hmem : c.observations.contains t.srv = true := by
    simp only [List.contains_iff_mem]
    exact (h.count.mem t.srv).mpr ⟨t, ht, rfl, by simp [inSet, hin]⟩
  refine ⟨trigTask t (explicitResp resp (c.value + 1)) false (c.value + 1), ?_, ?_⟩
  · simp only [handle]
    exact List.mem_map.mpr ⟨t, ht, by rw [if_pos hmem]⟩
  · have hg : (!(t.observe && t.accepted) || t.phase == .done || t.phase == .fresh) = false := by
      simp [hin.1.1, hin.1.2, hin.2, hnf]
    simp only [trigTask, hg, Bool.false_eq_true, ↓reduceIte, handle, true_and]
    intro hp; simp [hp]

/-- **C08 (no lost wake-up).** In every reachable state a task that has something to do is in the
event loop's ready queue: a task awaiting the trigger future once that future is done; a task
whose render has finished; a cancelled task that has not yet run its `finally`; a new task. -/
theorem C08_no_lost_wakeup {c : State} (h : Inv c) {t : Task} (ht : t ∈ c.tasks) :
    (t.phase = .waitTrig → t.trig.isSome = true → t.runnable = true) ∧
    (t.renderOut.isSome = true → t.runnable = true) ∧
    (t.cancelReq = true → t.phase ≠ .done → t.runnable = true) ∧
    (t.phase = .fresh → t.runnable = true) :=
  ⟨(h.ok t ht).wTrig, (h.ok t ht).wOut, (h.ok t ht).wCancel, fun hf => ((h.ok t ht).wFresh hf).1⟩

/-- **C08 (latest state sent).** Take any reachable state and any accepted observation whose task
is *not* in the ready queue (asyncio runs ready tasks, so this is where the task comes to rest)
and which has not ended — or has ended *by a successful last-marked notification* (`lastSent`: a
2.xx response without Observe option put on the pipe by the notification loop after
`trigger(..., is_last=True)`; see `C08_loop_end_kinds` for the other ways the loop ends).  Then
* either the resource's `render` is still running for it — and that render started at or after
  the last state change, or the change's trigger is pending and will be served when the render
  returns —,
* or the task is idle at `await servobs._trigger` with nothing pending and **the last
  notification it put on the pipe was rendered at or after the last state change**
  (`seen ≤ sentVer`; versions are what the renders sampled),
* or the registration is over and **its final notification was rendered at or after the last
  state change that reached the observation**: the rendering of a `render` call that started at
  or after that change, or — when the last trigger handed over an explicit message — that very
  message (whose version is the change's; a later trigger replaces an earlier pending one).
Earlier changes of a burst may have been coalesced; the last one never is, also when it is the
one that ends the registration.  (Before the `fix:` commit for C08 the third case was false: a
rendering started *before* the last-marked change went out as the final response.) -/
theorem C08_latest_state_sent {c : State} (h : Inv c) {t : Task} (ht : t ∈ c.tasks)
    (ho : t.observe = true) (ha : t.accepted = true)
    (hlive : t.phase ≠ .done ∨ t.lastSent = true) (hq : t.runnable = false) :
    ((t.phase = .firstRender ∨ t.phase = .loopRender) ∧ t.renderOut = none ∧
        (t.seen ≤ t.renderVer ∨ t.trig.isSome = true)) ∨
    (t.phase = .waitTrig ∧ t.trig = none ∧ t.seen ≤ t.sentVer) ∨
    (t.phase = .done ∧ t.lastSent = true ∧ t.seen ≤ t.sentVer) := by
  have hok := h.ok t ht
  by_cases hdone : t.phase = .done
  · have hl : t.lastSent = true := by
      rcases hlive with hl | hl
      · exact absurd hdone hl
      · exact hl
    exact Or.inr (Or.inr ⟨hdone, hl, (hok.fin hl).2.2 ha⟩)
  have hcov := hok.cov ho ha hdone
  have hro : t.renderOut = none := by
    cases hr : t.renderOut with
    | none => rfl
    | some r => have := hok.wOut (by simp [hr]); rw [hq] at this; cases this
  have htr : t.phase = .waitTrig → t.trig = none := by
    intro hp
    cases htr : t.trig with
    | none => rfl
    | some v => have := hok.wTrig hp (by simp [htr]); rw [hq] at this; cases this
  cases hp : t.phase with
  | fresh => have := (hok.wFresh hp).1; rw [hq] at this; cases this
  | done => exact absurd hp hdone
  | plainRender => exact absurd hp (hok.kind.1 ho)
  | waitTrig =>
    right; left
    refine ⟨rfl, htr hp, ?_⟩
    rcases hcov with hc | hc | hc
    · simp [htr hp] at hc
    · simp [hp] at hc
    · exact hc.2
  | firstRender =>
    left
    refine ⟨Or.inl rfl, hro, ?_⟩
    rcases hcov with hc | hc | hc
    · exact Or.inr hc
    · exact Or.inl hc.2
    · simp [hp] at hc
  | loopRender =>
    left
    refine ⟨Or.inr rfl, hro, ?_⟩
    rcases hcov with hc | hc | hc
    · exact Or.inr hc
    · exact Or.inl hc.2
    · simp [hp] at hc

/-- **C08 (every way the notification loop ends by itself).** Take any reachable state and a task
that is in its notification loop (awaiting the trigger, or woken after a render) and has not been
cancelled.  If its next step ends it, then
* either it ended by a successful last-marked notification — it is flagged `lastSent`, and
  `C08_latest_state_sent` says that this notification carries the latest state —,
* or the pipe's last event is an *unsuccessful* response (a notification that is not 2.xx, be it
  rendered or handed to `trigger`; the observer learns that its view is void),
* or the resource's `render` raised (the suspended one that has now returned, or the one called
  in this step); the observer gets the error response.
So `lastSent` is not a flag that may or may not be set: a registration that ends with a 2.xx
notification whose render did not raise is always covered by the latest-state guarantee. -/
theorem C08_loop_end_kinds {c : State} (h : Inv c) {t : Task} (ht : t ∈ c.tasks)
    (hp : t.phase = .waitTrig ∨ t.phase = .loopRender) (hnc : t.cancelReq = false)
    (plan : Plan) (acc : Bool) {t' : Task}
    (hf' : findTask (handle c (.step t.srv plan acc)).1 t.srv = some t') (hd : t'.phase = .done) :
    t'.lastSent = true ∨
    (∃ code body, Out.notify t.srv code none body true ∈ (handle c (.step t.srv plan acc)).2 ∧
      success code = false) ∨
    (∃ r, t.renderOut = some r ∧ r.exc = true) ∨ (∃ code, plan = .imm code true) := by
  have hf := findTask_of_mem h.wf ht
  have hself := handle_self_step hf plan acc
  have ht' : t' = (stepTask c.value t plan acc).1 := by
    have := hf'.symm.trans hself.2; exact Option.some.inj this
  subst ht'
  have htg : ∀ r, t.trig = some (some r) → r.exc = false :=
    fun r hr => ((h.ok t ht).trigGood r hr).1
  rcases stepTask_loop_end c.value t plan acc hp hnc htg hd with hl | ⟨code, body, hm, hs⟩ | hr
  · exact Or.inl hl
  · exact Or.inr (Or.inl ⟨code, body, by rw [hself.1]; exact exec_notify_mem _ _ _ _ _ _ _ hm, hs⟩)
  · exact Or.inr (Or.inr hr)


-- once ended: silent, callback exactly once -------------------------------------------------------------

theorem findTask_setNow (c : State) (t sv : Nat) :
    findTask { c with ml := MsgLayer.setNow c.ml t } sv = findTask c sv := rfl

theorem step_of_done {c : State} (h : Inv c) {sv : Nat} (hd : doneAt c sv) (e : TEv) :
    (∀ o ∈ (step c e).2, speaks sv o = false) ∧ doneAt (step c e).1 sv := by
  have h0 := Inv_setNow h e.time
  by_cases hs : ∃ plan acc, e.ev = .step sv plan acc
  · obtain ⟨plan, acc, he⟩ := hs
    obtain ⟨t, hf, hdone⟩ := hd
    have hf0 : findTask { c with ml := MsgLayer.setNow c.ml e.time } sv = some t := hf
    have hself := handle_self_step hf0 plan acc
    have hrun : t.runnable = false := (h.ok t (findTask_some hf).1).wDone hdone
    have hst : stepTask c.value t plan acc = (t, []) := by simp [stepTask, hrun]
    simp only [step, he]
    rw [hself.1]
    refine ⟨?_, t, ?_, hdone⟩
    · show ∀ o ∈ (exec _ sv (stepTask c.value t plan acc).2).2, _
      rw [hst]; intro o ho; cases ho
    · rw [hself.2]; show some (stepTask c.value t plan acc).1 = _; rw [hst]
  by_cases hs' : ∃ plan acc, e.ev = .stepFail sv plan acc
  · obtain ⟨plan, acc, he⟩ := hs'
    obtain ⟨t, hf, hdone⟩ := hd
    have hf0 : findTask { c with ml := MsgLayer.setNow c.ml e.time } sv = some t := hf
    obtain ⟨happ, g, hg, hfind⟩ := handle_self_stepFail hf0 plan acc
    have hrun : t.runnable = false := (h.ok t (findTask_some hf).1).wDone hdone
    have hst : stepTask c.value t plan acc = (t, []) := by simp [stepTask, hrun]
    simp only [step, he]
    refine ⟨?_, t, ?_, hdone⟩
    · intro o ho
      cases hsp : speaks sv o with
      | false => rfl
      | true =>
        have : o ∈ app (exec { c with ml := MsgLayer.setNow c.ml e.time } sv (stepTask c.value t plan acc).2).2 := by
          rw [← happ]; exact mem_app.mpr ⟨ho, isApp_of_speaks hsp⟩
        rw [hst] at this; cases this
    · rw [hfind]
      show some (g (stepTask c.value t plan acc).1) = _
      rw [hst, hg.done t hdone]
  · have hq := Quiescent_handle h0 e.ev sv (fun plan acc he => hs ⟨plan, acc, he⟩)
      (fun plan acc he => hs' ⟨plan, acc, he⟩)
    exact ⟨hq.silent, hq.done hd⟩

/-- **C08 (nothing after the end).** Once the render task of a registration has ended — by a final
or unsuccessful notification, or cancelled through any of the ending causes — then whatever
happens later (further state changes, deregistrations, render completions, steps of the task,
datagrams on the same token, timers, errors): the task never renders, never puts a notification
on its pipe and never runs the cancellation callback again, and it stays ended. -/
theorem C08_silent_after_end {c : State} (h : Inv c) {sv : Nat} (hd : doneAt c sv) (es : List TEv) :
    (∀ o ∈ (run c es).2, speaks sv o = false) ∧ doneAt (run c es).1 sv := by
  induction es generalizing c with
  | nil => exact And.intro (by intro o ho; cases ho) hd
  | cons e es ih =>
    simp only [run]
    have h1 := step_of_done h hd e
    have h2 := ih (Inv_step h e) h1.2
    refine ⟨?_, h2.2⟩
    intro o ho
    rcases List.mem_append.mp ho with ho | ho
    · exact h1.1 o ho
    · exact h2.1 o ho

theorem step_cb {c : State} (h : Inv c) (sv : Nat) (e : TEv) :
    cancelledCount sv (step c e).2 + cbOf c sv = cbOf (step c e).1 sv := by
  have h0 := Inv_setNow h e.time
  by_cases hs : ∃ plan acc, e.ev = .step sv plan acc
  · obtain ⟨plan, acc, he⟩ := hs
    simp only [step, he]
    cases hf : findTask c sv with
    | none =>
      have hf0 : findTask { c with ml := MsgLayer.setNow c.ml e.time } sv = none := hf
      rw [handle_absent_step hf0]
      simp [cancelledCount, cbOf, hf0, hf]
    | some t =>
      have hf0 : findTask { c with ml := MsgLayer.setNow c.ml e.time } sv = some t := hf
      have hself := handle_self_step hf0 plan acc
      rw [hself.1]
      simp only [cbOf, hself.2, hf]
      rw [(exec_outs sv _ _).2.1]
      have := stepTask_cbs c.value t plan acc
      show _ = (stepTask c.value t plan acc).1.cbRuns
      omega
  by_cases hs' : ∃ plan acc, e.ev = .stepFail sv plan acc
  · obtain ⟨plan, acc, he⟩ := hs'
    simp only [step, he]
    cases hf : findTask c sv with
    | none =>
      have hf0 : findTask { c with ml := MsgLayer.setNow c.ml e.time } sv = none := hf
      rw [handle_absent_stepFail hf0]
      simp [cancelledCount, cbOf, hf0, hf]
    | some t =>
      have hf0 : findTask { c with ml := MsgLayer.setNow c.ml e.time } sv = some t := hf
      obtain ⟨happ, g, hg, hfind⟩ := handle_self_stepFail hf0 plan acc
      rw [← cancelledCount_app, happ, cancelledCount_app]
      simp only [cbOf, hfind, hf]
      rw [(exec_outs sv _ _).2.1, hg.cb]
      have := stepTask_cbs c.value t plan acc
      show _ = (stepTask c.value t plan acc).1.cbRuns
      omega
  · have hq := Quiescent_handle h0 e.ev sv (fun plan acc he => hs ⟨plan, acc, he⟩)
      (fun plan acc he => hs' ⟨plan, acc, he⟩)
    simp only [step]
    rw [cancelledCount_of_silent hq.silent, hq.cb]
    simp [cbOf, findTask_setNow]

/-- **C08 (cancellation callback exactly once).** Over any run, the number of times the
cancellation callback of a registration is invoked is exactly the growth of the task's callback
counter; and in every reachable state that counter is 1 if the observation was accepted and has
ended, and 0 otherwise.  So from the moment of registration to any later moment the callback has
run exactly once if the registration has ended by then and not at all if it has not — never
twice, never skipped, whatever ended it. -/
theorem C08_callback_exactly_once {c : State} (h : Inv c) (sv : Nat) (es : List TEv) :
    cancelledCount sv (run c es).2 + cbOf c sv = cbOf (run c es).1 sv ∧
    (∀ t ∈ (run c es).1.tasks,
      t.cbRuns = if t.phase = .done ∧ t.observe = true ∧ t.accepted = true then 1 else 0) := by
  refine ⟨?_, fun t ht => ((Inv_run h es).ok t ht).cb⟩
  induction es generalizing c with
  | nil => simp [run, cancelledCount]
  | cons e es ih =>
    simp only [run, cancelledCount_append]
    have h1 := step_cb h sv e
    have h2 := ih (Inv_step h e)
    omega


-- rising Observe numbers, the registration's token ---------------------------------------------------------

theorem step_nums {c : State} (h : Inv c) (sv : Nat) (e : TEv) :
    obsSeq sv (step c e).2 = List.range' (baseOf c sv) (obsSeq sv (step c e).2).length ∧
    (doneAt (step c e).1 sv ∨
      baseOf (step c e).1 sv = baseOf c sv + (obsSeq sv (step c e).2).length) := by
  have h0 := Inv_setNow h e.time
  by_cases hs : ∃ plan acc, e.ev = .step sv plan acc
  · obtain ⟨plan, acc, he⟩ := hs
    simp only [step, he]
    cases hf : findTask c sv with
    | none =>
      have hf0 : findTask { c with ml := MsgLayer.setNow c.ml e.time } sv = none := hf
      rw [handle_absent_step hf0]
      exact ⟨by simp [obsSeq], Or.inr (by simp [obsSeq, baseOf, hf0, hf])⟩
    | some t =>
      have hf0 : findTask { c with ml := MsgLayer.setNow c.ml e.time } sv = some t := hf
      have hself := handle_self_step hf0 plan acc
      have hn := stepTask_nums c.value t plan acc
      rw [hself.1, (exec_outs sv _ _).1]
      have hb : baseOf c sv = base t := by simp [baseOf, hf]
      refine ⟨by rw [hb]; exact hn.1, ?_⟩
      by_cases hd : (stepTask c.value t plan acc).1.phase = .done
      · exact Or.inl ⟨_, hself.2, hd⟩
      · right
        simp only [baseOf, hself.2, hf]
        exact hn.2 hd
  by_cases hs' : ∃ plan acc, e.ev = .stepFail sv plan acc
  · obtain ⟨plan, acc, he⟩ := hs'
    simp only [step, he]
    cases hf : findTask c sv with
    | none =>
      have hf0 : findTask { c with ml := MsgLayer.setNow c.ml e.time } sv = none := hf
      rw [handle_absent_stepFail hf0]
      exact ⟨by simp [obsSeq], Or.inr (by simp [obsSeq, baseOf, hf0, hf])⟩
    | some t =>
      have hf0 : findTask { c with ml := MsgLayer.setNow c.ml e.time } sv = some t := hf
      obtain ⟨happ, g, hg, hfind⟩ := handle_self_stepFail hf0 plan acc
      have hn := stepTask_nums c.value t plan acc
      rw [← obsSeq_app, happ, obsSeq_app, (exec_outs sv _ _).1]
      have hb : baseOf c sv = base t := by simp [baseOf, hf]
      refine ⟨by rw [hb]; exact hn.1, ?_⟩
      by_cases hd : (stepTask c.value t plan acc).1.phase = .done
      · exact Or.inl ⟨_, hfind, by rw [hg.done _ hd]; exact hd⟩
      · right
        simp only [baseOf, hfind, hf, hg.base]
        exact hn.2 hd
  · have hq := Quiescent_handle h0 e.ev sv (fun plan acc he => hs ⟨plan, acc, he⟩)
      (fun plan acc he => hs' ⟨plan, acc, he⟩)
    simp only [step]
    rw [obsSeq_of_silent hq.silent]
    exact ⟨rfl, Or.inr (by rw [hq.base]; simp [baseOf, findTask_setNow])⟩

/-- **C08 (strictly increasing Observe values).** Over any run from any reachable state — all
schedules of triggers, render completions, task steps, acknowledgements, losses — the Observe
values that the render task of a registration puts on its pipe are consecutive numbers: they
start at the task's next number (0 for a registration that has not answered yet, in particular
for a new one) and each is one more than the one before.  In particular they are strictly
increasing, and no notification is numbered before the first response. -/
theorem C08_observe_numbers_rising {c : State} (h : Inv c) (sv : Nat) (es : List TEv) :
    obsSeq sv (run c es).2 = List.range' (baseOf c sv) (obsSeq sv (run c es).2).length := by
  induction es generalizing c with
  | nil => simp [run, obsSeq]
  | cons e es ih =>
    simp only [run, obsSeq_append]
    have h1 := step_nums h sv e
    have h2 := ih (Inv_step h e)
    rcases h1.2 with hd | hb
    · have hsil := (C08_silent_after_end (Inv_step h e) hd es).1
      rw [obsSeq_of_silent hsil, List.append_nil]
      exact h1.1
    · rw [List.length_append, ← List.range'_append_1, ← hb, ← h2, ← h1.1]


/-- **C08 (the registration's token).** Whenever the render task of a registration runs — in any
reachable state, whatever it does in that step — every datagram the message layer transmits in
that step goes to the registration's remote with the registration's token, and is one of the
responses the task put on the pipe in that step (same code, Observe value and content). -/
theorem C08_notifications_carry_token {c : State} (h : Inv c) {t : Task} (ht : t ∈ c.tasks)
    (plan : Plan) (acc : Bool) (tm : Nat) (r : Remote) (w : Wire)
    (ho : Out.net (.send tm r w) ∈ (handle c (.step t.srv plan acc)).2) :
    r = t.remote ∧ w.token = t.token ∧
    ∃ il, Out.notify t.srv w.code w.obs w.body il ∈ (handle c (.step t.srv plan acc)).2 := by
  have hf := findTask_of_mem h.wf ht
  have hself := handle_self_step hf plan acc
  rw [hself.1] at ho ⊢
  obtain ⟨i, hi, hsv, hr, htok, il, hem⟩ :=
    exec_sends t.srv c.ml.incoming _ c (fun i hi => hi) tm r w ho
  obtain ⟨ti, hti, h1, _, h3, h4⟩ := h.pipe.p1 i hi
  have : ti = t := task_unique h.wf hti ht (h1.trans hsv)
  subst this
  exact ⟨hr.trans h4.symm, htok.trans h3.symm, il, exec_notify_mem _ _ _ _ _ _ _ hem⟩


-- every ending cause ends the registration ------------------------------------------------------------------

/-- the message layer's own invariant (one exchange per remote, …) holds in every reachable state
as well -/
theorem C08_invariant_msglayer (cfg : Cfg) (mid tok : Nat) (f : Nat → Nat) (maxRetr : Nat) (es : List TEv) :
    MsgLayer.Inv (run (init (MsgLayer.init cfg mid tok f) maxRetr) es).1.ml :=
  run_mlInv (init_Inv cfg mid tok f) es

/-- **C08 (end cause: Reset).** A CON notification of registration `sv` is in flight (an exchange
whose message-error monitor is the stopper of the pipe).  When the observer answers it with a
Reset, the pipe is removed from the table of unfinished requests and the render task is
cancelled (`Stopped`), whatever the task is doing at that moment. -/
theorem C08_end_rst {c : State} (h : Inv c) (hml : MsgLayer.Inv c.ml) {e : Exchange}
    (he : e ∈ c.ml.exchanges) {sv : Nat} (hm : e.monitor = .srv sv)
    (hin : ∃ i ∈ c.ml.incoming, i.srv = sv) (hs : c.ml.shutMsg = false)
    (w : Wire) (hw : w.mtype = .rst) (hc : w.code = 0) (hmid : w.mid = e.msg.mid) :
    Stopped (handle c (.recv e.remote false w)).1 sv :=
  netEvent_stopped h _ rfl ((stops_iff _ _).mpr (stop_of_rst hml he hm hin hs w hw hc hmid))

/-- **C08 (end cause: new request on the same token).** When the endpoint that registered sends a
new request with the same token — a re-registration, a deregistration (Observe 1), a plain GET —
the pipe registered under that (token, remote) is stopped and its render task cancelled; the new
request gets a pipe and a task of its own. -/
theorem C08_end_same_token {c : State} (h : Inv c) {remote : Remote} {w : Wire} {i : InReq}
    (hf : c.ml.incoming.find? (fun i => i.token == w.token && i.remote == remote) = some i)
    (hs : c.ml.shutMsg = false) (hreq : isRequest w.code = true)
    (ht : w.mtype = .con ∨ w.mtype = .non) (hdup : isDup c.ml remote w = false) (mcl : Bool) :
    Stopped (handle c (.recv remote mcl w)).1 i.srv ∧
    ∃ t ∈ (handle c (.recv remote mcl w)).1.tasks, t.srv = c.ml.nextSrv ∧ t.phase = .fresh ∧
      t.token = w.token ∧ t.remote = remote := by
  have hst := stop_of_same_token hf hs hreq ht hdup mcl
  refine ⟨netEvent_stopped h _ rfl ((stops_iff _ _).mpr hst), ?_⟩
  -- the new request is delivered
  have hsrv := handle_SrvStep h.wf.sinv (.recv remote mcl w) rfl
  have hc0 : (w.code == 0) = false := by
    simp only [isRequest, Bool.and_eq_true, decide_eq_true_eq] at hreq
    simp; omega
  have hna : fitsReply w = false := by
    rcases ht with ht | ht <;> simp [fitsReply, ht]
  have hdd : dedupable w = true := by
    rcases ht with ht | ht <;> simp [dedupable, hreq, ht]
  have hcn : (w.mtype == .con || w.mtype == .non) = true := by
    rcases ht with ht | ht <;> simp [ht]
  have hdel : Out.deliver c.ml.nextSrv remote w ∈ (MsgLayer.handle c.ml (.recv remote mcl w)).2 := by
    simp only [MsgLayer.handle, hs, Bool.false_eq_true, ↓reduceIte]
    unfold MsgLayer.recv
    simp only [hdup, hdd, Bool.false_eq_true, ↓reduceIte, hna, List.nil_append]
    unfold recvCode
    simp only [hc0, Bool.false_and, Bool.false_eq_true, ↓reduceIte, hreq, hcn, Bool.and_self]
    have hq : ∀ s0 : MsgLayer.State, (fireEmptyAck s0 remote w.token).1.nextSrv = s0.nextSrv :=
      fun s0 => (fireEmptyAck_Quiet s0 remote w.token).nxt
    unfold processRequest
    dsimp only
    apply List.mem_append_right
    split <;> simp [tokenProcessRequest, dropIncoming, hq] <;> split <;> simp [hq]
  exact ⟨newTask c.ml.nextSrv remote w,
    List.mem_append_right _ (mem_delivered.mpr ⟨_, _, _, hdel, rfl⟩), rfl, rfl, rfl, rfl⟩

/-- **C08 (end cause: a confirmable notification times out).** When a CON to the observer has been
retransmitted `MAX_RETRANSMIT` times and its timer fires again, every registration of that
endpoint is stopped and its task cancelled. -/
theorem C08_end_giveup {c : State} (h : Inv c) {remote : Remote} {mid : Nat} {e : Exchange}
    (hf : findExchange c.ml remote mid = some e) (hc : ¬ e.counter < e.maxRetr)
    (hs : c.ml.shutTok = false) {i : InReq} (hi : i ∈ c.ml.incoming) (hr : i.remote = remote) :
    Stopped (handle c (.fireRetransmit remote mid)).1 i.srv :=
  netEvent_stopped h _ rfl ((stops_iff _ _).mpr (stop_of_giveup hf hc hs hi hr))

/-- **C08 (end cause: transport error).** An error the transport reports for the observer's address
stops every registration of that endpoint. -/
theorem C08_end_transport_error {c : State} (h : Inv c) (hm : c.ml.shutMsg = false)
    (hs : c.ml.shutTok = false) {remote : Remote} {i : InReq} (hi : i ∈ c.ml.incoming)
    (hr : i.remote = remote) : Stopped (handle c (.error remote)).1 i.srv :=
  netEvent_stopped h _ rfl ((stops_iff _ _).mpr (stop_of_error hm hs hi hr))

/-- **C08 (end cause: shutdown).** `Context.shutdown()` stops every registration. -/
theorem C08_end_shutdown {c : State} (h : Inv c) (hs : c.ml.shutTok = false) {i : InReq}
    (hi : i ∈ c.ml.incoming) : Stopped (handle c .shutdown).1 i.srv :=
  netEvent_stopped h _ rfl ((stops_iff _ _).mpr (stop_of_shutdown hs hi))


/-- **C08 (a cancelled task ends, running the callback once).** After any of the ending causes the
task is `Stopped`: cancelled but possibly not yet ended.  Such a task is in the ready queue
(`C08_no_lost_wakeup`), and its next step — whatever it was doing: awaiting the trigger, rendering,
already woken by a trigger — runs only the `finally` clause: the cancellation callback (exactly
when the observation had been accepted) which takes it out of the resource's set and reports the
new count; nothing is rendered and nothing is put on the pipe; the task has ended. -/
theorem C08_cancelled_task_ends {c : State} (h : Inv c) {t : Task} (ht : t ∈ c.tasks)
    (hc : t.cancelReq = true) (hd : t.phase ≠ .done) (plan : Plan) (acc : Bool) :
    t.runnable = true ∧
    (handle c (.step t.srv plan acc)).2 =
      (if t.observe && t.accepted then
        [.cancelled t.srv, .count (c.observations.erase t.srv).length] else []) ∧
    (handle c (.step t.srv plan acc)).1.observations =
      (if t.observe && t.accepted then c.observations.erase t.srv else c.observations) ∧
    (t.observe && t.accepted → (c.observations.erase t.srv).length + 1 = c.observations.length) ∧
    doneAt (handle c (.step t.srv plan acc)).1 t.srv := by
  have hrun := (h.ok t ht).wCancel hc hd
  have hf := findTask_of_mem h.wf ht
  have hself := handle_self_step hf plan acc
  have hst : stepTask c.value t plan acc = cancelStep t := by simp [stepTask, hrun, hc]
  refine ⟨hrun, ?_, ?_, ?_, ⟨_, hself.2, by rw [hst]; rfl⟩⟩
  · rw [hself.1, hst]
    simp only [cancelStep]
    split <;> simp [exec, execAct]
  · simp only [handle, hf, putTask]
    rw [hst]
    simp only [cancelStep]
    split <;> simp [exec, execAct]
  · intro hcb
    have hmem : t.srv ∈ c.observations := by
      rw [h.count.mem]
      simp only [Bool.and_eq_true] at hcb
      exact ⟨t, ht, rfl, by simp [inSet, hcb.1, hcb.2, hd]⟩
    rw [List.length_erase_of_mem hmem]
    have := List.length_pos_of_mem hmem
    omega

/-- **C08 (end cause: a notification that is unsuccessful or marked last).** If a step of the
render task puts a *last* response on the pipe — the first response of a declined, early
deregistered or failed registration; a notification with an unsuccessful code; the response to a
render that raised; a notification triggered with `is_last` — then in the same step the task ends,
the cancellation callback runs (once, iff the observation had been accepted) and the pipe leaves
the table of unfinished requests. -/
theorem C08_end_last_notification {c : State} (h : Inv c) {t : Task} (ht : t ∈ c.tasks)
    (plan : Plan) (acc : Bool) {code : Nat} {obs : Option Nat} {body : Nat}
    (hn : Out.notify t.srv code obs body true ∈ (handle c (.step t.srv plan acc)).2) :
    doneAt (handle c (.step t.srv plan acc)).1 t.srv ∧
    (∀ i ∈ (handle c (.step t.srv plan acc)).1.ml.incoming, i.srv ≠ t.srv) ∧
    cancelledCount t.srv (handle c (.step t.srv plan acc)).2 =
      cbOf (handle c (.step t.srv plan acc)).1 t.srv - t.cbRuns := by
  have hf := findTask_of_mem h.wf ht
  have hself := handle_self_step hf plan acc
  rw [hself.1] at hn
  have hlast := hasLast_of_mem (exec_notify_inv _ _ _ _ _ _ _ _ hn)
  have hdone := stepTask_last c.value t plan acc hlast
  refine ⟨⟨_, hself.2, hdone⟩, ?_, ?_⟩
  · intro i hi
    simp only [handle, hf, putTask] at hi
    rw [exec_incoming, hlast] at hi
    simpa using (List.mem_filter.mp hi).2
  · rw [hself.1, (exec_outs _ _ _).2.1]
    simp only [cbOf, hself.2]
    have := stepTask_cbs c.value t plan acc
    omega

/-- **C08 (end cause: transport error reported synchronously, from inside the send).** The
transport may report the error for the observer while the notification is being handed to it —
udp6 does when `sendmsg()` fails: `error_received` → `dispatch_error`, all before `send()` returns,
that is *inside* `pipe.add_response` of the render task itself (`Ev.stepFail`).  If a step of the
task of registration `t` reports such a failed send, then: the datagram was this registration's (its
remote, its token); nothing at all is transmitted in that step; and every registration of that
endpoint — the one whose notification was being sent among them, whatever it does in the rest of
that step — is `Stopped`: out of the table of unfinished requests, its task ended or cancelled
(so that `C08_cancelled_task_ends` applies: its next step runs the cancellation callback and
nothing else).  A cancellation the task brings about itself is not lost. -/
theorem C08_end_sync_transport_error {c : State} (h : Inv c) {t : Task} (ht : t ∈ c.tasks)
    (hm : c.ml.shutMsg = false) (hs : c.ml.shutTok = false) (plan : Plan) (acc : Bool)
    {tm : Nat} {r : Remote} {w : Wire}
    (hf : Out.sendFailed tm r w ∈ (handle c (.stepFail t.srv plan acc)).2) :
    r = t.remote ∧ w.token = t.token ∧
    (∀ tm' r' w', Out.net (.send tm' r' w') ∉ (handle c (.stepFail t.srv plan acc)).2) ∧
    Stopped (handle c (.stepFail t.srv plan acc)).1 t.srv ∧
    ∀ i ∈ c.ml.incoming, i.remote = r → Stopped (handle c (.stepFail t.srv plan acc)).1 i.srv := by
  have hfind := findTask_of_mem h.wf ht
  simp only [handle, hfind] at hf ⊢
  obtain ⟨⟨i, hi, hisv, hir, hit⟩, hstops, hnosend⟩ :=
    execF_failed t.srv (stepTask c.value t plan acc).2 c h.wf.sinv hm hs tm r w hf
  obtain ⟨ti, hti, h1, _, h3, h4⟩ := h.pipe.p1 i hi
  have : ti = t := task_unique h.wf hti ht (h1.trans hisv)
  subst this
  have hsrv := execF_srv ti.srv (stepTask c.value ti plan acc).2 c h.wf.sinv
  have hdl := execF_dsrvs ti.srv (stepTask c.value ti plan acc).2 c
  have hstopped : ∀ j, Out.stop j ∈ (execF c ti.srv (stepTask c.value ti plan acc).2).2.2 →
      Stopped (absorb (putTask (execF c ti.srv (stepTask c.value ti plan acc).2).1 (stepTask c.value ti plan acc).1)
        (execF c ti.srv (stepTask c.value ti plan acc).2).2.2) j := by
    intro j hj
    have hst := (stops_iff _ _).mpr hj
    refine ⟨?_, ?_⟩
    · intro i' hi' hsv'
      rcases hsrv.inc i' hi' with ⟨_, hns⟩ | ⟨r0, w0, hd, _⟩
      · rw [hsv', hst] at hns; cases hns
      · have : i'.srv ∈ dsrvs (execF c ti.srv (stepTask c.value ti plan acc).2).2.2 := mem_dsrvs.mpr ⟨r0, w0, hd⟩
        rw [hdl] at this; cases this
    · intro t' ht' hsv'
      rw [show (absorb (putTask (execF c ti.srv (stepTask c.value ti plan acc).2).1 (stepTask c.value ti plan acc).1)
          (execF c ti.srv (stepTask c.value ti plan acc).2).2.2).tasks =
          (putTask (execF c ti.srv (stepTask c.value ti plan acc).2).1 (stepTask c.value ti plan acc).1).tasks.map
            (fun y => if stops (execF c ti.srv (stepTask c.value ti plan acc).2).2.2 y.srv then cancelTask y else y) ++
          delivered (execF c ti.srv (stepTask c.value ti plan acc).2).2.2 from rfl,
        delivered_nil_of_dsrvs hdl, List.append_nil] at ht'
      obtain ⟨y, _, rfl⟩ := List.mem_map.mp ht'
      have hy : y.srv = j := by rw [← (absorbTask_id _ y).1]; exact hsv'
      simp only [hy, hst, ↓reduceIte]
      exact cancelTask_not_live y
  refine ⟨hir.trans h4.symm, hit.trans h3.symm, hnosend, ?_, ?_⟩
  · have := hstops i hi hir.symm
    rw [hisv] at this
    exact hstopped _ this
  · intro j hj hjr
    exact hstopped _ (hstops j hj hjr)

/-- **C08 (a step with a failing send is an ordinary step for the resource).** Whatever the
transport does to the datagram, the application side of the step is the same: the step with a
failing send calls `render`, puts responses on the pipe (`Out.notify` is the call of
`pipe.add_response`; what is put on a pipe that has ended is discarded), reports counts and runs
the cancellation callback exactly as the ordinary step of the same task in the same state does, in
the same order; and the task comes out of it with the same next Observe number, callback counter
and ghost record of what it notified last — only possibly cancelled.  So everything proved about
`Ev.step` above (`C08_loop_end_kinds`, `C08_end_last_notification`, `C08_sent_version_was_notified`)
carries over to `Ev.stepFail`. -/
theorem C08_failing_step_like_ordinary {c : State} (h : Inv c) {t : Task} (ht : t ∈ c.tasks)
    (plan : Plan) (acc : Bool) :
    app (handle c (.stepFail t.srv plan acc)).2 = app (handle c (.step t.srv plan acc)).2 ∧
    ∃ t' t'', findTask (handle c (.step t.srv plan acc)).1 t.srv = some t' ∧
      findTask (handle c (.stepFail t.srv plan acc)).1 t.srv = some t'' ∧
      base t'' = base t' ∧ t''.cbRuns = t'.cbRuns ∧ t''.sentVer = t'.sentVer ∧ t''.lastSent = t'.lastSent ∧
      (t'.phase = .done → t'' = t') := by
  have hf := findTask_of_mem h.wf ht
  have hself := handle_self_step hf plan acc
  obtain ⟨happ, g, hg, hfind⟩ := handle_self_stepFail hf plan acc
  refine ⟨by rw [happ, hself.1], _, _, hself.2, hfind, hg.base _, hg.cb _, (hg.sent _).1, (hg.sent _).2,
    hg.done _⟩

-- the observer count ------------------------------------------------------------------------------------

/-- **C08 (no leak).** A registration whose task has ended is neither in the resource's set of
observations nor in the message layer's table of unfinished requests. -/
theorem C08_no_leak {c : State} (h : Inv c) {sv : Nat} (hd : doneAt c sv) :
    sv ∉ c.observations ∧ ∀ i ∈ c.ml.incoming, i.srv ≠ sv := by
  obtain ⟨t, hf, hdone⟩ := hd
  obtain ⟨ht, hsv⟩ := findTask_some hf
  refine ⟨?_, ?_⟩
  · intro hm
    obtain ⟨t', ht', h1, h2⟩ := (h.count.mem sv).mp hm
    have : t' = t := task_unique h.wf ht' ht (h1.trans hsv.symm)
    subst this
    simp [inSet, hdone] at h2
  · intro i hi he
    obtain ⟨t', ht', h1, h2, _⟩ := h.pipe.p1 i hi
    have : t' = t := task_unique h.wf ht' ht ((h1.trans he).trans hsv.symm)
    subst this
    simp [Task.live, hdone] at h2

/-- **C08 (the count is the number of live accepted observations).** In every reachable state the
number the resource reports through `update_observation_count` — the size of its set — is the
number of registrations that have been accepted and have not ended. -/
theorem C08_count_is_live_observations {c : State} (h : Inv c) :
    c.observations.length = (c.tasks.filter (fun t => inSet t)).length := by
  have hnd : ((c.tasks.filter (fun t => inSet t)).map (·.srv)).Nodup :=
    List.Nodup.sublist (List.filter_sublist.map _) h.wf.nd
  have hperm : c.observations.Perm ((c.tasks.filter (fun t => inSet t)).map (·.srv)) := by
    rw [List.perm_ext_iff_of_nodup h.count.nd hnd]
    intro sv
    rw [h.count.mem sv]
    simp only [List.mem_map, List.mem_filter]
    constructor
    · rintro ⟨t, ht, h1, h2⟩; exact ⟨t, ⟨ht, h2⟩, h1⟩
    · rintro ⟨t, ⟨ht, h2⟩, h1⟩; exact ⟨t, ht, h1, h2⟩
  rw [hperm.length_eq, List.length_map]

/-- **C08 (count restored).** Take any reachable state in which registration `sv` does not exist
yet, and any later state in which it has ended — however it was accepted, whatever it sent,
whatever ended it.  If no *other* observation was registered or ended in between, the resource's
observer count is back at its previous value. -/
theorem C08_count_restored {c : State} (h : Inv c) (sv : Nat) (es : List TEv)
    (hnew : findTask c sv = none) (hd : doneAt (run c es).1 sv)
    (hothers : ∀ sv', sv' ≠ sv → (sv' ∈ (run c es).1.observations ↔ sv' ∈ c.observations)) :
    (run c es).1.observations.length = c.observations.length := by
  have h' := Inv_run h es
  have hperm : (run c es).1.observations.Perm c.observations := by
    rw [List.perm_ext_iff_of_nodup h'.count.nd h.count.nd]
    intro x
    by_cases hx : x = sv
    · subst hx
      constructor
      · intro hm; exact absurd hm (C08_no_leak h' hd).1
      · intro hm
        obtain ⟨t, ht, h1, _⟩ := (h.count.mem x).mp hm
        rw [← h1, findTask_of_mem h.wf ht] at hnew; cases hnew
    · exact hothers x hx
  exact hperm.length_eq


/-- **C08 (the ghost versions are real).** `sentVer` and `lastSent`, used in
`C08_latest_state_sent`, are not free-floating.  Whenever a step of the task changes one of them,
that step put a notification with exactly the content version `sentVer` on the pipe: a non-final
one with an Observe number (`lastSent` unchanged), or — and only then does `lastSent` become true
— the final one, without Observe option, marked last, with a successful code.  And every render
started in a step samples the resource's state as it is at that step (so a render started after
a change sees it). -/
theorem C08_sent_version_was_notified {c : State} (h : Inv c) {t : Task} (ht : t ∈ c.tasks)
    (plan : Plan) (acc : Bool) :
    ∃ t', findTask (handle c (.step t.srv plan acc)).1 t.srv = some t' ∧
      ((t'.sentVer = t.sentVer ∧ t'.lastSent = t.lastSent) ∨
       (t'.lastSent = t.lastSent ∧
        ∃ code n, Out.notify t.srv code (some n) t'.sentVer false ∈ (handle c (.step t.srv plan acc)).2) ∨
       (t'.lastSent = true ∧
        ∃ code, success code = true ∧
          Out.notify t.srv code none t'.sentVer true ∈ (handle c (.step t.srv plan acc)).2)) ∧
      ∀ ver, Out.render t.srv ver ∈ (handle c (.step t.srv plan acc)).2 → ver = c.value := by
  have hf := findTask_of_mem h.wf ht
  have hself := handle_self_step hf plan acc
  refine ⟨_, hself.2, ?_, ?_⟩
  · rcases stepTask_sent c.value t plan acc with hs | ⟨hl, code, n, hs⟩ | ⟨hl, code, hc, hs⟩
    · exact Or.inl hs
    · exact Or.inr (Or.inl ⟨hl, code, n, by rw [hself.1]; exact exec_notify_mem _ _ _ _ _ _ _ hs⟩)
    · exact Or.inr (Or.inr ⟨hl, code, hc, by rw [hself.1]; exact exec_notify_mem _ _ _ _ _ _ _ hs⟩)
  · intro ver hv
    rw [hself.1] at hv
    have := exec_render_inv _ _ _ _ _ hv
    exact stepTask_render c.value t plan acc ver this

/-- … and no other event touches them: a datagram, a timer, an error, shutdown, a state change, a
trigger, a deregistration, the end of a render, a step of *another* task leave `sentVer` and
`lastSent` of registration `sv` as they are (a registration that does not exist yet counts as
`(0, false)`, which is what a new task starts with). -/
theorem C08_sent_version_only_moves_in_steps {c : State} (h : Inv c) (ev : Ev) (sv : Nat)
    (hne : ∀ plan acc, ev ≠ .step sv plan acc) (hne' : ∀ plan acc, ev ≠ .stepFail sv plan acc) :
    sentOf (handle c ev).1 sv = sentOf c sv :=
  (Quiescent_handle h ev sv hne hne').sent

/-
Full statement of "no further notification is ever sent": once a registration has ended, no
datagram carrying a notification of it is transmitted any more.  This is FALSE of the code (and of
the model, which follows the code) for what the render task had handed to the message layer
*before* the end — the token manager stops the pipe but has no means to take a message back from
the message manager.  Two situations, both recorded as known findings:

* `C08:queued-notification-sent-after-end` — a CON notification waiting in the per-remote backlog
  behind an unacknowledged CON is still transmitted, and retransmitted, when that exchange
  finishes, although the registration has been ended in between by a Reset or by a new request on
  the token (see the `decide` example on `c08Run` below: message ID 501);
* `C08:notification-retransmitted-after-end` — a CON notification that is in flight (transmitted,
  not acknowledged) when the registration ends by a new request of the same endpoint on the same
  token (deregistration, re-registration, plain GET) keeps being retransmitted, up to
  `MAX_RETRANSMIT` more copies (`corpus/C08/notification-retransmitted-after-deregistration.json`;
  `decide` example `c08RetxRun` below).  A Reset of that very notification, a transport error and
  shutdown do remove the exchange; retransmissions of the registration's *final* notification are
  not an exception but part of the property.

What holds, and is proved, is the statement at the boundary between the render task and the
message layer:
-/
/-- **C08 (nothing after the end — partial).** Once the task of a registration has ended, a step of
it produces no output at all — no datagram, no render, no notification, no callback — and changes
nothing; so whatever is transmitted with the registration's token after the end was handed to the
message layer before the end (a retransmission, or a queued notification). -/
theorem C08_wire_silent_after_end_partial {c : State} (h : Inv c) {sv : Nat} (hd : doneAt c sv)
    (plan : Plan) (acc : Bool) :
    (handle c (.step sv plan acc)).2 = [] ∧
    (handle c (.step sv plan acc)).1.ml = c.ml ∧
    (handle c (.step sv plan acc)).1.observations = c.observations := by
  obtain ⟨t, hf, hdone⟩ := hd
  have hrun : t.runnable = false := (h.ok t (findTask_some hf).1).wDone hdone
  have hst : stepTask c.value t plan acc = (t, []) := by simp [stepTask, hrun]
  simp only [handle, hf, hst, exec, putTask, and_self]

-- non-vacuity ---------------------------------------------------------------------------------------------

def c08Cfg : Cfg := { exchangeLifetime := 1000, emptyAckDelay := 10 }
def c08Init : State := init (MsgLayer.init c08Cfg 500 0 (fun _ => 20)) 4
def c08Get (mid : Nat) : Wire :=
  { mtype := .con, code := 1, mid, token := [170], obs := some 0, body := 0 }

/-- a CON registration; a first change (the render suspends); two more changes while that render
is running (coalesced into one pending trigger); the render returns; the observer resets the
first notification while the second one is queued behind it; one more change afterwards -/
def c08Run : List TEv :=
  [⟨5, .recv 1 false (c08Get 70)⟩, ⟨5, .step 0 (.imm 69 false) true⟩,
   ⟨100, .update none⟩, ⟨100, .step 0 .susp true⟩,
   ⟨110, .update none⟩, ⟨111, .update none⟩,
   ⟨120, .release 0 69 false⟩, ⟨120, .step 0 (.imm 69 false) true⟩,
   ⟨130, .recv 1 false { mtype := .rst, code := 0, mid := 500, token := [], obs := none, body := 0 }⟩,
   ⟨130, .step 0 .susp true⟩, ⟨140, .update none⟩, ⟨140, .step 0 .susp true⟩]

/-- what is observable of that run: the count goes 1 … 0; renders sample versions 0, 1 and 3
(version 2 is coalesced away); notifications carry Observe 0, 1, 2 and versions 0, 1, 3; the
Reset stops the pipe, the callback runs once; nothing is rendered or notified for the last
change.  (The datagram with message ID 501 sent *after* the Reset is the notification that was
already queued in the message layer behind the unacknowledged one — see the known finding.) -/
example : (run c08Init c08Run).2.map (fun o => match o with
    | .net (.send t _ w) => ("send", t, w.mid, w.obs.getD 99, w.body)
    | .net (.deliver sv _ _) => ("deliver", sv, 0, 0, 0)
    | .net (.stop sv) => ("stop", sv, 0, 0, 0)
    | .net _ => ("other", 0, 0, 0, 0)
    | .sendFailed t _ w => ("failed", t, w.mid, w.obs.getD 99, w.body)
    | .count n => ("count", n, 0, 0, 0)
    | .cancelled sv => ("cancelled", sv, 0, 0, 0)
    | .render sv v => ("render", sv, v, 0, 0)
    | .notify sv _ obs body il => ("notify", sv, obs.getD 99, body, if il then 1 else 0)) =
  [("deliver", 0, 0, 0, 0), ("count", 1, 0, 0, 0), ("render", 0, 0, 0, 0), ("send", 5, 70, 0, 0),
   ("notify", 0, 0, 0, 0), ("render", 0, 1, 0, 0), ("send", 120, 500, 1, 1), ("notify", 0, 1, 1, 0),
   ("render", 0, 3, 0, 0), ("notify", 0, 2, 3, 0), ("stop", 0, 0, 0, 0), ("send", 130, 501, 2, 3),
   ("cancelled", 0, 0, 0, 0), ("count", 0, 0, 0, 0)] := by decide

/-- the hypotheses of the latest-state theorem are met in the middle of that run: registered, at
rest, idle — and indeed up to date (last change was version 3, last notification is version 3) -/
example : ∃ t ∈ (run c08Init (c08Run.take 8)).1.tasks,
    inSet t = true ∧ t.runnable = false ∧ t.phase = .waitTrig ∧ t.trig = none ∧
    t.seen = 3 ∧ t.sentVer = 3 := by decide

/-- … and while the render was running with two changes coalesced behind it: trigger pending -/
example : ∃ t ∈ (run c08Init (c08Run.take 6)).1.tasks,
    inSet t = true ∧ t.runnable = false ∧ t.phase = .loopRender ∧ t.trig = some none ∧
    t.seen = 3 ∧ t.renderVer = 1 := by decide

/-- the hypotheses of the Reset theorem are met: an exchange whose monitor is the pipe's stopper -/
example : ∃ e ∈ (run c08Init (c08Run.take 8)).1.ml.exchanges,
    e.monitor = .srv 0 ∧ e.msg.mid = 500 ∧ e.remote = 1 ∧
    (run c08Init (c08Run.take 8)).1.ml.incoming.any (fun i => i.srv == 0) = true := by decide

/-- after the Reset the task is `Stopped` but has not ended (hypotheses of `C08_cancelled_task_ends`),
and at the end of the run it has ended, with the callback counter at 1 and the set empty -/
example : (run c08Init (c08Run.take 9)).1.tasks.map (fun t => (t.cancelReq, t.phase, t.runnable, t.cbRuns)) =
    [(true, .waitTrig, true, 0)] := by decide
example : ((run c08Init c08Run).1.tasks.map (fun t => (t.phase, t.cbRuns)),
    (run c08Init c08Run).1.observations, (run c08Init c08Run).1.ml.incoming.length) =
    ([(.done, 1)], [], 0) := by decide

/-- what the examples below show of a run's outputs -/
def c08Show (os : List Out) : List (String × Nat × Nat × Nat × Nat) :=
  os.map fun o => match o with
    | .net (.send t _ w) => ("send", t, w.mid, w.obs.getD 99, w.body)
    | .net (.deliver sv _ _) => ("deliver", sv, 0, 0, 0)
    | .net (.stop sv) => ("stop", sv, 0, 0, 0)
    | .net _ => ("other", 0, 0, 0, 0)
    | .sendFailed t _ w => ("failed", t, w.mid, w.obs.getD 99, w.body)
    | .count n => ("count", n, 0, 0, 0)
    | .cancelled sv => ("cancelled", sv, 0, 0, 0)
    | .render sv v => ("render", sv, v, 0, 0)
    | .notify sv _ obs body il => ("notify", sv, obs.getD 99, body, if il then 1 else 0)

/-- the input of the repaired defect: a registration; change 1, whose render suspends; change 2
announced by `trigger(None | Message, is_last=True)` while that render is suspended; the render
returns; one more change afterwards -/
def c08LastRun (explicit : Option Nat) : List TEv :=
  [⟨5, .recv 1 false (c08Get 70)⟩, ⟨5, .step 0 (.imm 69 false) true⟩,
   ⟨100, .update none⟩, ⟨100, .step 0 .susp true⟩,
   ⟨110, .trigger 0 explicit true⟩,
   ⟨120, .release 0 69 false⟩, ⟨120, .step 0 (.imm 69 false) true⟩,
   ⟨130, .update none⟩, ⟨130, .step 0 (.imm 69 false) true⟩]

/-- the overtaken rendering (version 1) goes out as an ordinary notification, Observe 1, not last;
the pending last-marked trigger is served in the same step: version 2 is rendered and put on the
pipe as the final response (no Observe, last), the callback runs, the count is 0; the change after
that produces nothing.  (The final response is a CON queued in the message layer behind the
unacknowledged message 500.)  Before the fix the outputs ended `notify 0 - 1 last`. -/
example : c08Show (run c08Init (c08LastRun none)).2 =
  [("deliver", 0, 0, 0, 0), ("count", 1, 0, 0, 0), ("render", 0, 0, 0, 0), ("send", 5, 70, 0, 0),
   ("notify", 0, 0, 0, 0), ("render", 0, 1, 0, 0), ("send", 120, 500, 1, 1), ("notify", 0, 1, 1, 0),
   ("render", 0, 2, 0, 0), ("notify", 0, 99, 2, 1), ("cancelled", 0, 0, 0, 0), ("count", 0, 0, 0, 0)] := by
  decide

/-- the same with an explicit final message: it is that message (version 2) that ends the
registration, nothing is rendered for it -/
example : c08Show (run c08Init (c08LastRun (some 69))).2 =
  [("deliver", 0, 0, 0, 0), ("count", 1, 0, 0, 0), ("render", 0, 0, 0, 0), ("send", 5, 70, 0, 0),
   ("notify", 0, 0, 0, 0), ("render", 0, 1, 0, 0), ("send", 120, 500, 1, 1), ("notify", 0, 1, 1, 0),
   ("notify", 0, 99, 2, 1), ("cancelled", 0, 0, 0, 0), ("count", 0, 0, 0, 0)] := by decide

/-- while the render is suspended the last-marked trigger is pending (first case of
`C08_latest_state_sent` before the render's result arrives); at the end the hypotheses of its third
case are met: accepted, ended, flagged `lastSent`, and indeed `seen = sentVer = 2` -/
example : ∃ t ∈ (run c08Init ((c08LastRun none).take 5)).1.tasks,
    t.phase = .loopRender ∧ t.runnable = false ∧ t.late = true ∧ t.trig = some none ∧
    t.seen = 2 ∧ t.renderVer = 1 := by decide
example : ∃ t ∈ (run c08Init (c08LastRun none)).1.tasks,
    t.observe = true ∧ t.accepted = true ∧ t.phase = .done ∧ t.runnable = false ∧
    t.lastSent = true ∧ t.seen = 2 ∧ t.sentVer = 2 ∧ t.cbRuns = 1 := by decide

/-- a change that arrives while the *final* render is suspended (the resource goes on after it said
"last"): that rendering (version 1) is not the last either, version 2 is -/
example : c08Show (run c08Init
    [⟨5, .recv 1 false (c08Get 70)⟩, ⟨5, .step 0 (.imm 69 false) true⟩,
     ⟨100, .trigger 0 none true⟩, ⟨100, .step 0 .susp true⟩, ⟨110, .update none⟩,
     ⟨120, .release 0 69 false⟩, ⟨120, .step 0 (.imm 69 false) true⟩]).2 =
  [("deliver", 0, 0, 0, 0), ("count", 1, 0, 0, 0), ("render", 0, 0, 0, 0), ("send", 5, 70, 0, 0),
   ("notify", 0, 0, 0, 0), ("render", 0, 1, 0, 0), ("send", 120, 500, 1, 1), ("notify", 0, 1, 1, 0),
   ("render", 0, 2, 0, 0), ("notify", 0, 99, 2, 1), ("cancelled", 0, 0, 0, 0), ("count", 0, 0, 0, 0)] := by
  decide

/-- the second exception to "nothing on the wire after the end" (known finding
`C08:notification-retransmitted-after-end`): notification 500 is in flight, the observer
deregisters on the token (GET Observe 1, answered at once), the timer of message 500 fires -/
def c08RetxRun : List TEv :=
  [⟨5, .recv 1 false (c08Get 70)⟩, ⟨5, .step 0 (.imm 69 false) true⟩,
   ⟨100, .update none⟩, ⟨100, .step 0 (.imm 69 false) true⟩,
   ⟨110, .recv 1 false { c08Get 71 with obs := some 1 }⟩, ⟨110, .step 0 .susp true⟩,
   ⟨110, .step 1 (.imm 69 false) true⟩,
   ⟨120, .fireRetransmit 1 500⟩]

example : c08Show (run c08Init c08RetxRun).2 =
  [("deliver", 0, 0, 0, 0), ("count", 1, 0, 0, 0), ("render", 0, 0, 0, 0), ("send", 5, 70, 0, 0),
   ("notify", 0, 0, 0, 0), ("render", 0, 1, 0, 0), ("send", 100, 500, 1, 1), ("notify", 0, 1, 1, 0),
   ("stop", 0, 0, 0, 0), ("deliver", 1, 0, 0, 0), ("cancelled", 0, 0, 0, 0), ("count", 0, 0, 0, 0),
   ("render", 1, 1, 0, 0), ("send", 110, 71, 99, 1), ("notify", 1, 99, 1, 1),
   ("send", 120, 500, 1, 1)] := by decide

/-- a transport error reported from inside the send (`Ev.stepFail`): a CON registration; change 1 is
notified and acknowledged; a second registration of the same endpoint on another token; for
change 2 `sendmsg()` fails while the first registration's notification is handed to the transport -/
def c08FailRun : List TEv :=
  [⟨5, .recv 1 false (c08Get 70)⟩, ⟨5, .step 0 (.imm 69 false) true⟩,
   ⟨100, .update none⟩, ⟨100, .step 0 (.imm 69 false) true⟩,
   ⟨110, .recv 1 false { mtype := .ack, code := 0, mid := 500, token := [], obs := none, body := 0 }⟩,
   ⟨115, .recv 1 false { c08Get 71 with token := [187] }⟩, ⟨115, .step 1 (.imm 69 false) true⟩,
   ⟨120, .update none⟩, ⟨120, .stepFail 0 (.imm 69 false) true⟩,
   ⟨120, .step 1 .susp true⟩, ⟨120, .step 0 .susp true⟩,
   ⟨130, .update none⟩, ⟨130, .step 0 (.imm 69 false) true⟩, ⟨130, .step 1 (.imm 69 false) true⟩]

/-- the notification of change 2 (Observe 2, message 501) is rendered and put on the pipe, but the
send fails: nothing is transmitted; *both* registrations of the endpoint are stopped inside that
step (the running task included); their next steps run the cancellation callbacks (count 2 → 1 → 0)
and nothing else; change 3 produces nothing. -/
example : c08Show (run c08Init c08FailRun).2 =
  [("deliver", 0, 0, 0, 0), ("count", 1, 0, 0, 0), ("render", 0, 0, 0, 0), ("send", 5, 70, 0, 0),
   ("notify", 0, 0, 0, 0), ("render", 0, 1, 0, 0), ("send", 100, 500, 1, 1), ("notify", 0, 1, 1, 0),
   ("deliver", 1, 0, 0, 0), ("count", 2, 0, 0, 0), ("render", 1, 1, 0, 0), ("send", 115, 71, 0, 1),
   ("notify", 1, 0, 1, 0),
   ("render", 0, 2, 0, 0), ("failed", 120, 501, 2, 2), ("stop", 0, 0, 0, 0), ("stop", 1, 0, 0, 0),
   ("notify", 0, 2, 2, 0),
   ("cancelled", 1, 0, 0, 0), ("count", 1, 0, 0, 0), ("cancelled", 0, 0, 0, 0), ("count", 0, 0, 0, 0)] := by
  decide

/-- the hypotheses of `C08_end_sync_transport_error` are met before the failing step, and after it
the running task is cancelled but not yet ended (hypotheses of `C08_cancelled_task_ends`) -/
example : (run c08Init (c08FailRun.take 8)).1.ml.shutMsg = false ∧
    (run c08Init (c08FailRun.take 8)).1.ml.incoming.map (fun i => (i.srv, i.remote)) = [(0, 1), (1, 1)] ∧
    (run c08Init (c08FailRun.take 9)).1.ml.incoming = [] ∧
    (run c08Init (c08FailRun.take 9)).1.tasks.map (fun t => (t.cancelReq, t.phase, t.runnable, t.cbRuns)) =
      [(true, .waitTrig, true, 0), (true, .waitTrig, true, 0)] ∧
    (run c08Init c08FailRun).1.observations = [] := by decide

/-- a change that arrived while the failing notification was being rendered: the task goes on in
the same step — it renders again and puts the result on the pipe, which has ended (discarded) — and
is cancelled when it suspends -/
example : c08Show (run c08Init
    [⟨5, .recv 1 false (c08Get 70)⟩, ⟨5, .step 0 (.imm 69 false) true⟩,
     ⟨100, .update none⟩, ⟨100, .step 0 .susp true⟩, ⟨110, .update none⟩,
     ⟨120, .release 0 69 false⟩, ⟨120, .stepFail 0 (.imm 69 false) true⟩, ⟨120, .step 0 .susp true⟩]).2 =
  [("deliver", 0, 0, 0, 0), ("count", 1, 0, 0, 0), ("render", 0, 0, 0, 0), ("send", 5, 70, 0, 0),
   ("notify", 0, 0, 0, 0), ("render", 0, 1, 0, 0),
   ("failed", 120, 500, 1, 1), ("stop", 0, 0, 0, 0), ("notify", 0, 1, 1, 0),
   ("render", 0, 2, 0, 0), ("notify", 0, 2, 2, 0),
   ("cancelled", 0, 0, 0, 0), ("count", 0, 0, 0, 0)] := by decide

end Aiocoap.Observe.Server
