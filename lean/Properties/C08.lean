import Proofs.Observe.Causes
/-!
# C08 — Observe server: rising numbers, latest state sent, cancellation final, no leak

Model: `AiocoapModel/Observe/Server.lean` — the render tasks of an observable resource
(`ObservableResource._render_to_pipe`, `ServerObservation`, `resource.ObservableResource`) as a
state machine with one atomic step per await point, composed with the message-layer model
(`AiocoapModel/MsgLayer/Model.lean`) for everything that happens to the pipe.  All theorems are
about *every* state satisfying the invariant `Inv` (which holds initially and after every event
sequence: `C08_invariant`) and *every* continuation — all schedules of triggers, renders, task
steps, datagrams, timers, errors.

What the model assumes rather than proves: the semantics of asyncio tasks (a cancelled task gets
`CancelledError` at its next step and runs only its `finally`; a task cancelled before its first
step never runs; a step is atomic between awaits).  The correspondence harness validates that
granularity against the real stack.
-/
namespace Aiocoap.Observe.Server
open Aiocoap.MsgLayer

/-- **C08 (invariant).** Every state the server can get into — from a fresh context, after any
sequence of datagrams, timers, transport errors, state changes, deregistrations, render
completions and task steps in any order — satisfies `Inv`: pipes and wanted render tasks
correspond one to one (with the request's token and remote), the resource's set of observations
holds exactly the accepted unfinished observations, and every task satisfies `TaskOk`. -/
theorem C08_invariant (cfg : Cfg) (mid tok : Nat) (f : Nat → Nat) (maxRetr : Nat) (es : List TEv) :
    Inv (run (init (MsgLayer.init cfg mid tok f) maxRetr) es).1 :=
  Inv_run (Inv_init _ _ rfl) es

-- latest state sent ----------------------------------------------------------------------------------

/-- **C08 (a trigger is never dropped).** `updated_state(...)` reaches every registered
observation whatever its task is doing — idle, rendering the first response, rendering a
notification, already woken, even cancelled —: afterwards its trigger future is done with the
value of *this* call (an earlier pending value is overwritten: coalescing), the observation
remembers this state version, and a task waiting for the trigger is in the ready queue. -/
theorem C08_trigger_never_dropped {c : State} (h : Inv c) (resp : Option Nat) {t : Task}
    (ht : t ∈ c.tasks) (hin : inSet t = true) :
    ∃ t' ∈ (handle c (.update resp)).1.tasks, t'.srv = t.srv ∧ t'.phase = t.phase ∧
      t'.trig = some (explicitResp resp (c.value + 1)) ∧ t'.seen = c.value + 1 ∧
      (handle c (.update resp)).1.value = c.value + 1 ∧
      (t'.phase = .waitTrig → t'.runnable = true) := by
  have hok := h.ok t ht
  simp only [inSet, Bool.and_eq_true, bne_iff_ne, ne_eq] at hin
  have hnf : t.phase ≠ .fresh := by
    intro hf; have := (hok.wFresh hf).2.1; rw [hin.1.2] at this; cases this
  have hmem : c.observations.contains t.srv = true := by
    simp only [List.contains_iff_mem]
    exact (h.count.mem t.srv).mpr ⟨t, ht, rfl, by simp [inSet, hin]⟩
  refine ⟨trigTask t (explicitResp resp (c.value + 1)) false (c.value + 1), ?_, ?_⟩
  · simp only [handle]
    exact List.mem_map.mpr ⟨t, ht, by rw [if_pos hmem]⟩
  · have hg : (!(t.observe && t.accepted) || t.phase == .done || t.phase == .fresh) = false := by
      simp [hin.1.1, hin.1.2, hin.2, hnf]
    simp only [trigTask, hg, Bool.false_eq_true, ↓reduceIte, handle, true_and]
    intro hp; simp [hp]

/-- **C08 (no lost wake-up).** In every reachable state a task that has something to do is in the
event loop's ready queue: a task awaiting the trigger future once that future is done; a task
whose render has finished; a cancelled task that has not yet run its `finally`; a new task. -/
theorem C08_no_lost_wakeup {c : State} (h : Inv c) {t : Task} (ht : t ∈ c.tasks) :
    (t.phase = .waitTrig → t.trig.isSome = true → t.runnable = true) ∧
    (t.renderOut.isSome = true → t.runnable = true) ∧
    (t.cancelReq = true → t.phase ≠ .done → t.runnable = true) ∧
    (t.phase = .fresh → t.runnable = true) :=
  ⟨(h.ok t ht).wTrig, (h.ok t ht).wOut, (h.ok t ht).wCancel, fun hf => ((h.ok t ht).wFresh hf).1⟩

/-- **C08 (latest state sent).** Take any reachable state and any registered observation whose
task is *not* in the ready queue (asyncio runs ready tasks, so this is where the task comes to
rest).  Then either the resource's `render` is still running for it — and that render started at
or after the last state change, or the change's trigger is pending and will be served when the
render returns —, or the task is idle at `await servobs._trigger` with nothing pending and **the
last notification it put on the pipe was rendered at or after the last state change**
(`seen ≤ sentVer`; versions are what the renders sampled).  Earlier changes of a burst may have
been coalesced; the last one never is. -/
theorem C08_latest_state_sent {c : State} (h : Inv c) {t : Task} (ht : t ∈ c.tasks)
    (hin : inSet t = true) (hq : t.runnable = false) :
    ((t.phase = .firstRender ∨ t.phase = .loopRender) ∧ t.renderOut = none ∧
        (t.seen ≤ t.renderVer ∨ t.trig.isSome = true)) ∨
    (t.phase = .waitTrig ∧ t.trig = none ∧ t.seen ≤ t.sentVer) := by
  have hok := h.ok t ht
  simp only [inSet, Bool.and_eq_true, bne_iff_ne, ne_eq] at hin
  have hcov := hok.cov hin.1.1 hin.1.2 hin.2
  have hro : t.renderOut = none := by
    cases hr : t.renderOut with
    | none => rfl
    | some r => have := hok.wOut (by simp [hr]); rw [hq] at this; cases this
  have htr : t.phase = .waitTrig → t.trig = none := by
    intro hp
    cases htr : t.trig with
    | none => rfl
    | some v => have := hok.wTrig hp (by simp [htr]); rw [hq] at this; cases this
  cases hp : t.phase with
  | fresh => have := (hok.wFresh hp).1; rw [hq] at this; cases this
  | done => exact absurd hp hin.2
  | plainRender => exact absurd hp (hok.kind.1 hin.1.1)
  | waitTrig =>
    right
    refine ⟨rfl, htr hp, ?_⟩
    rcases hcov with hc | hc | hc
    · simp [htr hp] at hc
    · simp [hp] at hc
    · exact hc.2
  | firstRender =>
    left
    refine ⟨Or.inl rfl, hro, ?_⟩
    rcases hcov with hc | hc | hc
    · exact Or.inr hc
    · exact Or.inl hc.2
    · simp [hp] at hc
  | loopRender =>
    left
    refine ⟨Or.inr rfl, hro, ?_⟩
    rcases hcov with hc | hc | hc
    · exact Or.inr hc
    · exact Or.inl hc.2
    · simp [hp] at hc


-- once ended: silent, callback exactly once -------------------------------------------------------------

theorem findTask_setNow (c : State) (t sv : Nat) :
    findTask { c with ml := MsgLayer.setNow c.ml t } sv = findTask c sv := rfl

theorem step_of_done {c : State} (h : Inv c) {sv : Nat} (hd : doneAt c sv) (e : TEv) :
    (∀ o ∈ (step c e).2, speaks sv o = false) ∧ doneAt (step c e).1 sv := by
  have h0 := Inv_setNow h e.time
  by_cases hs : ∃ plan acc, e.ev = .step sv plan acc
  · obtain ⟨plan, acc, he⟩ := hs
    obtain ⟨t, hf, hdone⟩ := hd
    have hf0 : findTask { c with ml := MsgLayer.setNow c.ml e.time } sv = some t := hf
    have hself := handle_self_step hf0 plan acc
    have hrun : t.runnable = false := (h.ok t (findTask_some hf).1).wDone hdone
    have hst : stepTask c.value t plan acc = (t, []) := by simp [stepTask, hrun]
    simp only [step, he]
    rw [hself.1]
    refine ⟨?_, t, ?_, hdone⟩
    · show ∀ o ∈ (exec _ sv (stepTask c.value t plan acc).2).2, _
      rw [hst]; intro o ho; cases ho
    · rw [hself.2]; show some (stepTask c.value t plan acc).1 = _; rw [hst]
  · have hq := Quiescent_handle h0 e.ev sv (fun plan acc he => hs ⟨plan, acc, he⟩)
    exact ⟨hq.silent, hq.done hd⟩

/-- **C08 (nothing after the end).** Once the render task of a registration has ended — by a final
or unsuccessful notification, or cancelled through any of the ending causes — then whatever
happens later (further state changes, deregistrations, render completions, steps of the task,
datagrams on the same token, timers, errors): the task never renders, never puts a notification
on its pipe and never runs the cancellation callback again, and it stays ended. -/
theorem C08_silent_after_end {c : State} (h : Inv c) {sv : Nat} (hd : doneAt c sv) (es : List TEv) :
    (∀ o ∈ (run c es).2, speaks sv o = false) ∧ doneAt (run c es).1 sv := by
  induction es generalizing c with
  | nil => exact And.intro (by intro o ho; cases ho) hd
  | cons e es ih =>
    simp only [run]
    have h1 := step_of_done h hd e
    have h2 := ih (Inv_step h e) h1.2
    refine ⟨?_, h2.2⟩
    intro o ho
    rcases List.mem_append.mp ho with ho | ho
    · exact h1.1 o ho
    · exact h2.1 o ho

theorem step_cb {c : State} (h : Inv c) (sv : Nat) (e : TEv) :
    cancelledCount sv (step c e).2 + cbOf c sv = cbOf (step c e).1 sv := by
  have h0 := Inv_setNow h e.time
  by_cases hs : ∃ plan acc, e.ev = .step sv plan acc
  · obtain ⟨plan, acc, he⟩ := hs
    simp only [step, he]
    cases hf : findTask c sv with
    | none =>
      have hf0 : findTask { c with ml := MsgLayer.setNow c.ml e.time } sv = none := hf
      rw [handle_absent_step hf0]
      simp [cancelledCount, cbOf, hf0, hf]
    | some t =>
      have hf0 : findTask { c with ml := MsgLayer.setNow c.ml e.time } sv = some t := hf
      have hself := handle_self_step hf0 plan acc
      rw [hself.1]
      simp only [cbOf, hself.2, hf]
      rw [(exec_outs sv _ _).2.1]
      have := stepTask_cbs c.value t plan acc
      show _ = (stepTask c.value t plan acc).1.cbRuns
      omega
  · have hq := Quiescent_handle h0 e.ev sv (fun plan acc he => hs ⟨plan, acc, he⟩)
    simp only [step]
    rw [cancelledCount_of_silent hq.silent, hq.cb]
    simp [cbOf, findTask_setNow]

/-- **C08 (cancellation callback exactly once).** Over any run, the number of times the
cancellation callback of a registration is invoked is exactly the growth of the task's callback
counter; and in every reachable state that counter is 1 if the observation was accepted and has
ended, and 0 otherwise.  So from the moment of registration to any later moment the callback has
run exactly once if the registration has ended by then and not at all if it has not — never
twice, never skipped, whatever ended it. -/
theorem C08_callback_exactly_once {c : State} (h : Inv c) (sv : Nat) (es : List TEv) :
    cancelledCount sv (run c es).2 + cbOf c sv = cbOf (run c es).1 sv ∧
    (∀ t ∈ (run c es).1.tasks,
      t.cbRuns = if t.phase = .done ∧ t.observe = true ∧ t.accepted = true then 1 else 0) := by
  refine ⟨?_, fun t ht => ((Inv_run h es).ok t ht).cb⟩
  induction es generalizing c with
  | nil => simp [run, cancelledCount]
  | cons e es ih =>
    simp only [run, cancelledCount_append]
    have h1 := step_cb h sv e
    have h2 := ih (Inv_step h e)
    omega


-- rising Observe numbers, the registration's token ---------------------------------------------------------

theorem step_nums {c : State} (h : Inv c) (sv : Nat) (e : TEv) :
    obsSeq sv (step c e).2 = List.range' (baseOf c sv) (obsSeq sv (step c e).2).length ∧
    (doneAt (step c e).1 sv ∨
      baseOf (step c e).1 sv = baseOf c sv + (obsSeq sv (step c e).2).length) := by
  have h0 := Inv_setNow h e.time
  by_cases hs : ∃ plan acc, e.ev = .step sv plan acc
  · obtain ⟨plan, acc, he⟩ := hs
    simp only [step, he]
    cases hf : findTask c sv with
    | none =>
      have hf0 : findTask { c with ml := MsgLayer.setNow c.ml e.time } sv = none := hf
      rw [handle_absent_step hf0]
      exact ⟨by simp [obsSeq], Or.inr (by simp [obsSeq, baseOf, hf0, hf])⟩
    | some t =>
      have hf0 : findTask { c with ml := MsgLayer.setNow c.ml e.time } sv = some t := hf
      have hself := handle_self_step hf0 plan acc
      have hn := stepTask_nums c.value t plan acc
      rw [hself.1, (exec_outs sv _ _).1]
      have hb : baseOf c sv = base t := by simp [baseOf, hf]
      refine ⟨by rw [hb]; exact hn.1, ?_⟩
      by_cases hd : (stepTask c.value t plan acc).1.phase = .done
      · exact Or.inl ⟨_, hself.2, hd⟩
      · right
        simp only [baseOf, hself.2, hf]
        exact hn.2 hd
  · have hq := Quiescent_handle h0 e.ev sv (fun plan acc he => hs ⟨plan, acc, he⟩)
    simp only [step]
    rw [obsSeq_of_silent hq.silent]
    exact ⟨rfl, Or.inr (by rw [hq.base]; simp [baseOf, findTask_setNow])⟩

/-- **C08 (strictly increasing Observe values).** Over any run from any reachable state — all
schedules of triggers, render completions, task steps, acknowledgements, losses — the Observe
values that the render task of a registration puts on its pipe are consecutive numbers: they
start at the task's next number (0 for a registration that has not answered yet, in particular
for a new one) and each is one more than the one before.  In particular they are strictly
increasing, and no notification is numbered before the first response. -/
theorem C08_observe_numbers_rising {c : State} (h : Inv c) (sv : Nat) (es : List TEv) :
    obsSeq sv (run c es).2 = List.range' (baseOf c sv) (obsSeq sv (run c es).2).length := by
  induction es generalizing c with
  | nil => simp [run, obsSeq]
  | cons e es ih =>
    simp only [run, obsSeq_append]
    have h1 := step_nums h sv e
    have h2 := ih (Inv_step h e)
    rcases h1.2 with hd | hb
    · have hsil := (C08_silent_after_end (Inv_step h e) hd es).1
      rw [obsSeq_of_silent hsil, List.append_nil]
      exact h1.1
    · rw [List.length_append, ← List.range'_append_1, ← hb, ← h2, ← h1.1]


/-- **C08 (the registration's token).** Whenever the render task of a registration runs — in any
reachable state, whatever it does in that step — every datagram the message layer transmits in
that step goes to the registration's remote with the registration's token, and is one of the
responses the task put on the pipe in that step (same code, Observe value and content). -/
theorem C08_notifications_carry_token {c : State} (h : Inv c) {t : Task} (ht : t ∈ c.tasks)
    (plan : Plan) (acc : Bool) (tm : Nat) (r : Remote) (w : Wire)
    (ho : Out.net (.send tm r w) ∈ (handle c (.step t.srv plan acc)).2) :
    r = t.remote ∧ w.token = t.token ∧
    ∃ il, Out.notify t.srv w.code w.obs w.body il ∈ (handle c (.step t.srv plan acc)).2 := by
  have hf := findTask_of_mem h.wf ht
  have hself := handle_self_step hf plan acc
  rw [hself.1] at ho ⊢
  obtain ⟨i, hi, hsv, hr, htok, il, hem⟩ :=
    exec_sends t.srv c.ml.incoming _ c (fun i hi => hi) tm r w ho
  obtain ⟨ti, hti, h1, _, h3, h4⟩ := h.pipe.p1 i hi
  have : ti = t := task_unique h.wf hti ht (h1.trans hsv)
  subst this
  exact ⟨hr.trans h4.symm, htok.trans h3.symm, il, exec_notify_mem _ _ _ _ _ _ _ hem⟩


-- every ending cause ends the registration ------------------------------------------------------------------

/-- the message layer's own invariant (one exchange per remote, …) holds in every reachable state
as well -/
theorem C08_invariant_msglayer (cfg : Cfg) (mid tok : Nat) (f : Nat → Nat) (maxRetr : Nat) (es : List TEv) :
    MsgLayer.Inv (run (init (MsgLayer.init cfg mid tok f) maxRetr) es).1.ml :=
  run_mlInv (init_Inv cfg mid tok f) es

/-- **C08 (end cause: Reset).** A CON notification of registration `sv` is in flight (an exchange
whose message-error monitor is the stopper of the pipe).  When the observer answers it with a
Reset, the pipe is removed from the table of unfinished requests and the render task is
cancelled (`Stopped`), whatever the task is doing at that moment. -/
theorem C08_end_rst {c : State} (h : Inv c) (hml : MsgLayer.Inv c.ml) {e : Exchange}
    (he : e ∈ c.ml.exchanges) {sv : Nat} (hm : e.monitor = .srv sv)
    (hin : ∃ i ∈ c.ml.incoming, i.srv = sv) (hs : c.ml.shutMsg = false)
    (w : Wire) (hw : w.mtype = .rst) (hc : w.code = 0) (hmid : w.mid = e.msg.mid) :
    Stopped (handle c (.recv e.remote false w)).1 sv :=
  netEvent_stopped h _ rfl ((stops_iff _ _).mpr (stop_of_rst hml he hm hin hs w hw hc hmid))

/-- **C08 (end cause: new request on the same token).** When the endpoint that registered sends a
new request with the same token — a re-registration, a deregistration (Observe 1), a plain GET —
the pipe registered under that (token, remote) is stopped and its render task cancelled; the new
request gets a pipe and a task of its own. -/
theorem C08_end_same_token {c : State} (h : Inv c) {remote : Remote} {w : Wire} {i : InReq}
    (hf : c.ml.incoming.find? (fun i => i.token == w.token && i.remote == remote) = some i)
    (hs : c.ml.shutMsg = false) (hreq : isRequest w.code = true)
    (ht : w.mtype = .con ∨ w.mtype = .non) (hdup : isDup c.ml remote w = false) (mcl : Bool) :
    Stopped (handle c (.recv remote mcl w)).1 i.srv ∧
    ∃ t ∈ (handle c (.recv remote mcl w)).1.tasks, t.srv = c.ml.nextSrv ∧ t.phase = .fresh ∧
      t.token = w.token ∧ t.remote = remote := by
  have hst := stop_of_same_token hf hs hreq ht hdup mcl
  refine ⟨netEvent_stopped h _ rfl ((stops_iff _ _).mpr hst), ?_⟩
  -- the new request is delivered
  have hsrv := handle_SrvStep h.wf.sinv (.recv remote mcl w) rfl
  have hc0 : (w.code == 0) = false := by
    simp only [isRequest, Bool.and_eq_true, decide_eq_true_eq] at hreq
    simp; omega
  have hna : fitsReply w = false := by
    rcases ht with ht | ht <;> simp [fitsReply, ht]
  have hdd : dedupable w = true := by
    rcases ht with ht | ht <;> simp [dedupable, hreq, ht]
  have hcn : (w.mtype == .con || w.mtype == .non) = true := by
    rcases ht with ht | ht <;> simp [ht]
  have hdel : Out.deliver c.ml.nextSrv remote w ∈ (MsgLayer.handle c.ml (.recv remote mcl w)).2 := by
    simp only [MsgLayer.handle, hs, Bool.false_eq_true, ↓reduceIte]
    unfold MsgLayer.recv
    simp only [hdup, hdd, Bool.false_eq_true, ↓reduceIte, hna, List.nil_append]
    unfold recvCode
    simp only [hc0, Bool.false_and, Bool.false_eq_true, ↓reduceIte, hreq, hcn, Bool.and_self]
    have hq : ∀ s0 : MsgLayer.State, (fireEmptyAck s0 remote w.token).1.nextSrv = s0.nextSrv :=
      fun s0 => (fireEmptyAck_Quiet s0 remote w.token).nxt
    unfold processRequest
    dsimp only
    apply List.mem_append_right
    split <;> simp [tokenProcessRequest, dropIncoming, hq] <;> split <;> simp [hq]
  exact ⟨newTask c.ml.nextSrv remote w,
    List.mem_append_right _ (mem_delivered.mpr ⟨_, _, _, hdel, rfl⟩), rfl, rfl, rfl, rfl⟩

/-- **C08 (end cause: a confirmable notification times out).** When a CON to the observer has been
retransmitted `MAX_RETRANSMIT` times and its timer fires again, every registration of that
endpoint is stopped and its task cancelled. -/
theorem C08_end_giveup {c : State} (h : Inv c) {remote : Remote} {mid : Nat} {e : Exchange}
    (hf : findExchange c.ml remote mid = some e) (hc : ¬ e.counter < e.maxRetr)
    (hs : c.ml.shutTok = false) {i : InReq} (hi : i ∈ c.ml.incoming) (hr : i.remote = remote) :
    Stopped (handle c (.fireRetransmit remote mid)).1 i.srv :=
  netEvent_stopped h _ rfl ((stops_iff _ _).mpr (stop_of_giveup hf hc hs hi hr))

/-- **C08 (end cause: transport error).** An error the transport reports for the observer's address
stops every registration of that endpoint. -/
theorem C08_end_transport_error {c : State} (h : Inv c) (hm : c.ml.shutMsg = false)
    (hs : c.ml.shutTok = false) {remote : Remote} {i : InReq} (hi : i ∈ c.ml.incoming)
    (hr : i.remote = remote) : Stopped (handle c (.error remote)).1 i.srv :=
  netEvent_stopped h _ rfl ((stops_iff _ _).mpr (stop_of_error hm hs hi hr))

/-- **C08 (end cause: shutdown).** `Context.shutdown()` stops every registration. -/
theorem C08_end_shutdown {c : State} (h : Inv c) (hs : c.ml.shutTok = false) {i : InReq}
    (hi : i ∈ c.ml.incoming) : Stopped (handle c .shutdown).1 i.srv :=
  netEvent_stopped h _ rfl ((stops_iff _ _).mpr (stop_of_shutdown hs hi))


/-- **C08 (a cancelled task ends, running the callback once).** After any of the ending causes the
task is `Stopped`: cancelled but possibly not yet ended.  Such a task is in the ready queue
(`C08_no_lost_wakeup`), and its next step — whatever it was doing: awaiting the trigger, rendering,
already woken by a trigger — runs only the `finally` clause: the cancellation callback (exactly
when the observation had been accepted) which takes it out of the resource's set and reports the
new count; nothing is rendered and nothing is put on the pipe; the task has ended. -/
theorem C08_cancelled_task_ends {c : State} (h : Inv c) {t : Task} (ht : t ∈ c.tasks)
    (hc : t.cancelReq = true) (hd : t.phase ≠ .done) (plan : Plan) (acc : Bool) :
    t.runnable = true ∧
    (handle c (.step t.srv plan acc)).2 =
      (if t.observe && t.accepted then
        [.cancelled t.srv, .count (c.observations.erase t.srv).length] else []) ∧
    (handle c (.step t.srv plan acc)).1.observations =
      (if t.observe && t.accepted then c.observations.erase t.srv else c.observations) ∧
    (t.observe && t.accepted → (c.observations.erase t.srv).length + 1 = c.observations.length) ∧
    doneAt (handle c (.step t.srv plan acc)).1 t.srv := by
  have hrun := (h.ok t ht).wCancel hc hd
  have hf := findTask_of_mem h.wf ht
  have hself := handle_self_step hf plan acc
  have hst : stepTask c.value t plan acc = cancelStep t := by simp [stepTask, hrun, hc]
  refine ⟨hrun, ?_, ?_, ?_, ⟨_, hself.2, by rw [hst]; rfl⟩⟩
  · rw [hself.1, hst]
    simp only [cancelStep]
    split <;> simp [exec, execAct]
  · simp only [handle, hf, putTask]
    rw [hst]
    simp only [cancelStep]
    split <;> simp [exec, execAct]
  · intro hcb
    have hmem : t.srv ∈ c.observations := by
      rw [h.count.mem]
      simp only [Bool.and_eq_true] at hcb
      exact ⟨t, ht, rfl, by simp [inSet, hcb.1, hcb.2, hd]⟩
    rw [List.length_erase_of_mem hmem]
    have := List.length_pos_of_mem hmem
    omega

/-- **C08 (end cause: a notification that is unsuccessful or marked last).** If a step of the
render task puts a *last* response on the pipe — the first response of a declined, early
deregistered or failed registration; a notification with an unsuccessful code; the response to a
render that raised; a notification triggered with `is_last` — then in the same step the task ends,
the cancellation callback runs (once, iff the observation had been accepted) and the pipe leaves
the table of unfinished requests. -/
theorem C08_end_last_notification {c : State} (h : Inv c) {t : Task} (ht : t ∈ c.tasks)
    (plan : Plan) (acc : Bool) {code : Nat} {obs : Option Nat} {body : Nat}
    (hn : Out.notify t.srv code obs body true ∈ (handle c (.step t.srv plan acc)).2) :
    doneAt (handle c (.step t.srv plan acc)).1 t.srv ∧
    (∀ i ∈ (handle c (.step t.srv plan acc)).1.ml.incoming, i.srv ≠ t.srv) ∧
    cancelledCount t.srv (handle c (.step t.srv plan acc)).2 =
      cbOf (handle c (.step t.srv plan acc)).1 t.srv - t.cbRuns := by
  have hf := findTask_of_mem h.wf ht
  have hself := handle_self_step hf plan acc
  rw [hself.1] at hn
  have hlast := hasLast_of_mem (exec_notify_inv _ _ _ _ _ _ _ _ hn)
  have hdone := stepTask_last c.value t plan acc hlast
  refine ⟨⟨_, hself.2, hdone⟩, ?_, ?_⟩
  · intro i hi
    simp only [handle, hf, putTask] at hi
    rw [exec_incoming, hlast] at hi
    simpa using (List.mem_filter.mp hi).2
  · rw [hself.1, (exec_outs _ _ _).2.1]
    simp only [cbOf, hself.2]
    have := stepTask_cbs c.value t plan acc
    omega

-- the observer count ------------------------------------------------------------------------------------

/-- **C08 (no leak).** A registration whose task has ended is neither in the resource's set of
observations nor in the message layer's table of unfinished requests. -/
theorem C08_no_leak {c : State} (h : Inv c) {sv : Nat} (hd : doneAt c sv) :
    sv ∉ c.observations ∧ ∀ i ∈ c.ml.incoming, i.srv ≠ sv := by
  obtain ⟨t, hf, hdone⟩ := hd
  obtain ⟨ht, hsv⟩ := findTask_some hf
  refine ⟨?_, ?_⟩
  · intro hm
    obtain ⟨t', ht', h1, h2⟩ := (h.count.mem sv).mp hm
    have : t' = t := task_unique h.wf ht' ht (h1.trans hsv.symm)
    subst this
    simp [inSet, hdone] at h2
  · intro i hi he
    obtain ⟨t', ht', h1, h2, _⟩ := h.pipe.p1 i hi
    have : t' = t := task_unique h.wf ht' ht ((h1.trans he).trans hsv.symm)
    subst this
    simp [Task.live, hdone] at h2

/-- **C08 (the count is the number of live accepted observations).** In every reachable state the
number the resource reports through `update_observation_count` — the size of its set — is the
number of registrations that have been accepted and have not ended. -/
theorem C08_count_is_live_observations {c : State} (h : Inv c) :
    c.observations.length = (c.tasks.filter (fun t => inSet t)).length := by
  have hnd : ((c.tasks.filter (fun t => inSet t)).map (·.srv)).Nodup :=
    List.Nodup.sublist (List.filter_sublist.map _) h.wf.nd
  have hperm : c.observations.Perm ((c.tasks.filter (fun t => inSet t)).map (·.srv)) := by
    rw [List.perm_ext_iff_of_nodup h.count.nd hnd]
    intro sv
    rw [h.count.mem sv]
    simp only [List.mem_map, List.mem_filter]
    constructor
    · rintro ⟨t, ht, h1, h2⟩; exact ⟨t, ⟨ht, h2⟩, h1⟩
    · rintro ⟨t, ⟨ht, h2⟩, h1⟩; exact ⟨t, ht, h1, h2⟩
  rw [hperm.length_eq, List.length_map]

/-- **C08 (count restored).** Take any reachable state in which registration `sv` does not exist
yet, and any later state in which it has ended — however it was accepted, whatever it sent,
whatever ended it.  If no *other* observation was registered or ended in between, the resource's
observer count is back at its previous value. -/
theorem C08_count_restored {c : State} (h : Inv c) (sv : Nat) (es : List TEv)
    (hnew : findTask c sv = none) (hd : doneAt (run c es).1 sv)
    (hothers : ∀ sv', sv' ≠ sv → (sv' ∈ (run c es).1.observations ↔ sv' ∈ c.observations)) :
    (run c es).1.observations.length = c.observations.length := by
  have h' := Inv_run h es
  have hperm : (run c es).1.observations.Perm c.observations := by
    rw [List.perm_ext_iff_of_nodup h'.count.nd h.count.nd]
    intro x
    by_cases hx : x = sv
    · subst hx
      constructor
      · intro hm; exact absurd hm (C08_no_leak h' hd).1
      · intro hm
        obtain ⟨t, ht, h1, _⟩ := (h.count.mem x).mp hm
        rw [← h1, findTask_of_mem h.wf ht] at hnew; cases hnew
    · exact hothers x hx
  exact hperm.length_eq


/-- **C08 (the ghost versions are real).** `sentVer`, used in `C08_latest_state_sent`, is not
free-floating: whenever a step changes it, that step put a non-final notification with an Observe
number and exactly that content version on the pipe; and every render started in a step samples
the resource's state as it is at that step (so a render started after a change sees it). -/
theorem C08_sent_version_was_notified {c : State} (h : Inv c) {t : Task} (ht : t ∈ c.tasks)
    (plan : Plan) (acc : Bool) :
    ∃ t', findTask (handle c (.step t.srv plan acc)).1 t.srv = some t' ∧
      (t'.sentVer = t.sentVer ∨
        ∃ code n, Out.notify t.srv code (some n) t'.sentVer false ∈ (handle c (.step t.srv plan acc)).2) ∧
      ∀ ver, Out.render t.srv ver ∈ (handle c (.step t.srv plan acc)).2 → ver = c.value := by
  have hf := findTask_of_mem h.wf ht
  have hself := handle_self_step hf plan acc
  refine ⟨_, hself.2, ?_, ?_⟩
  · rcases stepTask_sent c.value t plan acc with hs | ⟨code, n, hs⟩
    · exact Or.inl hs
    · exact Or.inr ⟨code, n, by rw [hself.1]; exact exec_notify_mem _ _ _ _ _ _ _ hs⟩
  · intro ver hv
    rw [hself.1] at hv
    have := exec_render_inv _ _ _ _ _ hv
    exact stepTask_render c.value t plan acc ver this

/-
Full statement of "no further notification is ever sent": once a registration has ended, no
datagram carrying a notification of it is transmitted any more.  This is FALSE of the code (and of
the model, which follows the code) in one situation, recorded as a known finding: a CON
notification that was already handed to the message layer and is waiting in the backlog behind an
unacknowledged CON to the same endpoint is still transmitted — and retransmitted — when that
exchange finishes, even if the registration has been ended in between by a Reset or by a new
request on the token (see the `decide` example below: message ID 501).  What holds, and is proved,
is the statement at the boundary between the render task and the message layer:
-/
/-- **C08 (nothing after the end — partial).** Once the task of a registration has ended, a step of
it produces no output at all — no datagram, no render, no notification, no callback — and changes
nothing; so whatever is transmitted with the registration's token after the end was handed to the
message layer before the end (a retransmission, or a queued notification). -/
theorem C08_wire_silent_after_end_partial {c : State} (h : Inv c) {sv : Nat} (hd : doneAt c sv)
    (plan : Plan) (acc : Bool) :
    (handle c (.step sv plan acc)).2 = [] ∧
    (handle c (.step sv plan acc)).1.ml = c.ml ∧
    (handle c (.step sv plan acc)).1.observations = c.observations := by
  obtain ⟨t, hf, hdone⟩ := hd
  have hrun : t.runnable = false := (h.ok t (findTask_some hf).1).wDone hdone
  have hst : stepTask c.value t plan acc = (t, []) := by simp [stepTask, hrun]
  simp only [handle, hf, hst, exec, putTask, and_self]

-- non-vacuity ---------------------------------------------------------------------------------------------

def c08Cfg : Cfg := { exchangeLifetime := 1000, emptyAckDelay := 10 }
def c08Init : State := init (MsgLayer.init c08Cfg 500 0 (fun _ => 20)) 4
def c08Get (mid : Nat) : Wire :=
  { mtype := .con, code := 1, mid, token := [170], obs := some 0, body := 0 }

/-- a CON registration; a first change (the render suspends); two more changes while that render
is running (coalesced into one pending trigger); the render returns; the observer resets the
first notification while the second one is queued behind it; one more change afterwards -/
def c08Run : List TEv :=
  [⟨5, .recv 1 false (c08Get 70)⟩, ⟨5, .step 0 (.imm 69 false) true⟩,
   ⟨100, .update none⟩, ⟨100, .step 0 .susp true⟩,
   ⟨110, .update none⟩, ⟨111, .update none⟩,
   ⟨120, .release 0 69 false⟩, ⟨120, .step 0 (.imm 69 false) true⟩,
   ⟨130, .recv 1 false { mtype := .rst, code := 0, mid := 500, token := [], obs := none, body := 0 }⟩,
   ⟨130, .step 0 .susp true⟩, ⟨140, .update none⟩, ⟨140, .step 0 .susp true⟩]

/-- what is observable of that run: the count goes 1 … 0; renders sample versions 0, 1 and 3
(version 2 is coalesced away); notifications carry Observe 0, 1, 2 and versions 0, 1, 3; the
Reset stops the pipe, the callback runs once; nothing is rendered or notified for the last
change.  (The datagram with message ID 501 sent *after* the Reset is the notification that was
already queued in the message layer behind the unacknowledged one — see the known finding.) -/
example : (run c08Init c08Run).2.map (fun o => match o with
    | .net (.send t _ w) => ("send", t, w.mid, w.obs.getD 99, w.body)
    | .net (.deliver sv _ _) => ("deliver", sv, 0, 0, 0)
    | .net (.stop sv) => ("stop", sv, 0, 0, 0)
    | .net _ => ("other", 0, 0, 0, 0)
    | .count n => ("count", n, 0, 0, 0)
    | .cancelled sv => ("cancelled", sv, 0, 0, 0)
    | .render sv v => ("render", sv, v, 0, 0)
    | .notify sv _ obs body il => ("notify", sv, obs.getD 99, body, if il then 1 else 0)) =
  [("deliver", 0, 0, 0, 0), ("count", 1, 0, 0, 0), ("render", 0, 0, 0, 0), ("send", 5, 70, 0, 0),
   ("notify", 0, 0, 0, 0), ("render", 0, 1, 0, 0), ("send", 120, 500, 1, 1), ("notify", 0, 1, 1, 0),
   ("render", 0, 3, 0, 0), ("notify", 0, 2, 3, 0), ("stop", 0, 0, 0, 0), ("send", 130, 501, 2, 3),
   ("cancelled", 0, 0, 0, 0), ("count", 0, 0, 0, 0)] := by decide

/-- the hypotheses of the latest-state theorem are met in the middle of that run: registered, at
rest, idle — and indeed up to date (last change was version 3, last notification is version 3) -/
example : ∃ t ∈ (run c08Init (c08Run.take 8)).1.tasks,
    inSet t = true ∧ t.runnable = false ∧ t.phase = .waitTrig ∧ t.trig = none ∧
    t.seen = 3 ∧ t.sentVer = 3 := by decide

/-- … and while the render was running with two changes coalesced behind it: trigger pending -/
example : ∃ t ∈ (run c08Init (c08Run.take 6)).1.tasks,
    inSet t = true ∧ t.runnable = false ∧ t.phase = .loopRender ∧ t.trig = some none ∧
    t.seen = 3 ∧ t.renderVer = 1 := by decide

/-- the hypotheses of the Reset theorem are met: an exchange whose monitor is the pipe's stopper -/
example : ∃ e ∈ (run c08Init (c08Run.take 8)).1.ml.exchanges,
    e.monitor = .srv 0 ∧ e.msg.mid = 500 ∧ e.remote = 1 ∧
    (run c08Init (c08Run.take 8)).1.ml.incoming.any (fun i => i.srv == 0) = true := by decide

/-- after the Reset the task is `Stopped` but has not ended (hypotheses of `C08_cancelled_task_ends`),
and at the end of the run it has ended, with the callback counter at 1 and the set empty -/
example : (run c08Init (c08Run.take 9)).1.tasks.map (fun t => (t.cancelReq, t.phase, t.runnable, t.cbRuns)) =
    [(true, .waitTrig, true, 0)] := by decide
example : ((run c08Init c08Run).1.tasks.map (fun t => (t.phase, t.cbRuns)),
    (run c08Init c08Run).1.observations, (run c08Init c08Run).1.ml.incoming.length) =
    ([(.done, 1)], [], 0) := by decide

end Aiocoap.Observe.Server
