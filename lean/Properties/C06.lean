import Proofs.Blockwise.C06Server
import Proofs.Blockwise.C06History
import Proofs.Blockwise.C06Lifetime
import Proofs.Blockwise.C06Overlap
/-!
# C06 — block-wise server: handlers see only complete bodies, blocks are exact slices

Model: `AiocoapModel/Blockwise/{BlockOpt,TimeoutDict,Server}.lean` (`step`, `run`, `stateAfter`,
`TD`).  The theorems quantify over every resource state / every request history (`List In`:
arrival time, request from any endpoint, method, options, and the handler's behaviour at that
moment), i.e. over all interleavings of request sequences of any number of clients.
Handlers that suspend (several requests of a resource in flight at once, completing in any order) are
covered by the section "handlers that overlap in time": `Blockwise/Overlap.lean` splits `step` at the
`await` of the handler into `carrive` / `cfinish`; `C06_atomic_is_step` shows `step` to be the case of
a handler that does not suspend, the `C06_overlap_*` theorems quantify over every list of arrival and
completion events.
Only property theorems and non-vacuity examples live in this file.
-/
set_option linter.unusedVariables false

namespace Aiocoap.BwServer
open TD

-- Block1: intermediate blocks ---------------------------------------------------------------

/-- **C06 (intermediate blocks).** An accepted block with the more flag is answered 2.31 Continue
echoing exactly its Block1 option, with no payload; the handler is not invoked and the rendering
cache is not touched. -/
theorem C06_intermediate_2_31_echo (T : Nat) (st : RState) (i : In) (b : Blk)
    (ha : i.assemble = true) (hb : i.req.block1 = some b) (hm : b.more = true)
    (hacc : Accepted T st i b) :
    (step T st i).2.resp = errResp CONTINUE (some b) ∧ (step T st i).2.seen = none ∧
    (step T st i).1.cache = cacheAt T st i := by
  have hf : (feedAndTake T i.now (spoolAt T st i) i.req).2 = .cont b := by
    rcases hacc with ⟨h0, hs0⟩ | ⟨asm, hl, hc, hs, hst⟩
    · rw [feed_first hb h0 hs0]; simp [hm]
    · by_cases h0 : b.num = 0
      · rw [feed_first hb h0 hs]; simp [hm]
      · obtain ⟨self', hok⟩ : ∃ s, appendRequestBlock asm i.req b = .ok s :=
          ⟨_, append_ok_iff.mpr ⟨hc, hs, hst, rfl⟩⟩
        rw [feed_append_ok hb h0 hl hok]; simp [hm]
  rw [step_cont ha hf]
  exact ⟨rfl, rfl, rfl⟩

-- Block1: refused continuations ----------------------------------------------------------------

/-- **C06 (4.08).** A continuation (block number ≠ 0) that finds no assembly under its block key
— unknown or expired transfer — or finds one that does not end where the block starts — gap or
overlap — is answered 4.08 Request Entity Incomplete; the handler is not invoked, no assembly is
altered and the rendering cache is not touched. -/
theorem C06_bad_continuation_4_08 (T : Nat) (st : RState) (i : In) (b : Blk)
    (ha : i.assemble = true) (hb : i.req.block1 = some b) (h0 : b.num ≠ 0)
    (hbad : alookup (blockKey i.req) (spoolAt T st i).items = none ∨
            ∃ asm, alookup (blockKey i.req) (spoolAt T st i).items = some asm ∧
              sizeOk b i.req.payload.length = true ∧ b.start ≠ asm.payload.length) :
    (step T st i).2.resp = errResp REQUEST_ENTITY_INCOMPLETE none ∧ (step T st i).2.seen = none ∧
    (step T st i).1.spool.items = (spoolAt T st i).items ∧
    (step T st i).1.cache = cacheAt T st i := by
  have hf : feedAndTake T i.now (spoolAt T st i) i.req = ((feedAndTake T i.now (spoolAt T st i) i.req).1, .incomplete)
      ∧ (feedAndTake T i.now (spoolAt T st i) i.req).1.items = (spoolAt T st i).items := by
    rcases hbad with hl | ⟨asm, hl, hs, hst⟩
    · rw [feed_unknown hb h0 hl]; exact ⟨rfl, rfl⟩
    · have he : appendRequestBlock asm i.req b = .error .valueError :=
        append_valueError_iff.mpr (by
          by_cases hc : isRequestCode asm.code = true
          · exact Or.inr ⟨hs, hst⟩
          · exact Or.inl (by simpa using hc))
      rw [feed_append_error hb h0 hl he]
      exact ⟨rfl, accessed_items _ _ _ _⟩
  have hf2 : (feedAndTake T i.now (spoolAt T st i) i.req).2 = .incomplete := by rw [hf.1]
  rw [step_incomplete ha hf2]
  exact ⟨rfl, rfl, hf.2, rfl⟩

/-- **C06 (4.00).** A continuation whose payload length contradicts its block size, arriving for an
existing assembly, is answered 4.00 Bad Request (the size is checked before the offset); the handler
is not invoked and no assembly is altered.  The length contradicts the size when
* the block has the more flag and is not exactly one block long (BERT, exponent 7: not a multiple
  of 1024, or empty — a block that is not the last one carries at least one whole block), or
* the block is the final one, its exponent is below 7 and it is *longer* than one block. -/
theorem C06_size_contradiction_4_00 (T : Nat) (st : RState) (i : In) (b : Blk) (asm : Msg)
    (ha : i.assemble = true) (hb : i.req.block1 = some b) (h0 : b.num ≠ 0)
    (hl : alookup (blockKey i.req) (spoolAt T st i).items = some asm)
    (hc : isRequestCode asm.code = true)
    (hsize : (b.more = true ∧ i.req.payload.length ≠ b.size ∧
                ¬ (b.szx = 7 ∧ i.req.payload.length % b.size = 0 ∧ 0 < i.req.payload.length)) ∨
             (b.more = false ∧ b.szx ≠ 7 ∧ b.size < i.req.payload.length)) :
    (step T st i).2.resp = errResp BAD_REQUEST none ∧ (step T st i).2.seen = none ∧
    (step T st i).1.spool.items = (spoolAt T st i).items ∧
    (step T st i).1.cache = cacheAt T st i := by
  have hs : sizeOk b i.req.payload.length = false := sizeOk_false_of_contradiction hsize
  have he : appendRequestBlock asm i.req b = .error .badRequest :=
    append_badRequest_iff.mpr ⟨hc, hs⟩
  have hf := feed_append_error (T := T) (now := i.now) hb h0 hl he
  have hf2 : (feedAndTake T i.now (spoolAt T st i) i.req).2 = .badRequest := by rw [hf]; rfl
  rw [step_badRequest ha hf2, hf]
  exact ⟨rfl, rfl, accessed_items _ _ _ _, rfl⟩

/-- **C06 (4.00, block 0).** Block 0 is held to its block size like every later block: when its
payload length contradicts its size (same two cases as in `C06_size_contradiction_4_00`) it is
answered 4.00 Bad Request whatever the spool holds; the handler is not invoked, and the spool is
exactly as the request found it — no assembly is started, an assembly already stored under the
block key is neither discarded nor refreshed — and the rendering cache is not touched. -/
theorem C06_block0_size_contradiction_4_00 (T : Nat) (st : RState) (i : In) (b : Blk)
    (ha : i.assemble = true) (hb : i.req.block1 = some b) (h0 : b.num = 0)
    (hsize : (b.more = true ∧ i.req.payload.length ≠ b.size ∧
                ¬ (b.szx = 7 ∧ i.req.payload.length % b.size = 0 ∧ 0 < i.req.payload.length)) ∨
             (b.more = false ∧ b.szx ≠ 7 ∧ b.size < i.req.payload.length)) :
    (step T st i).2.resp = errResp BAD_REQUEST none ∧ (step T st i).2.seen = none ∧
    (step T st i).1.spool = spoolAt T st i ∧
    (step T st i).1.cache = cacheAt T st i := by
  have hs : sizeOk b i.req.payload.length = false := sizeOk_false_of_contradiction hsize
  have hf := feed_first_bad (T := T) (now := i.now) (sp := spoolAt T st i) hb h0 hs
  have hf2 : (feedAndTake T i.now (spoolAt T st i) i.req).2 = .badRequest := by rw [hf]
  rw [step_badRequest ha hf2, hf]
  exact ⟨rfl, rfl, rfl, rfl⟩

/-- the size check used by `Accepted` and `Assembly`, spelled out: it passes exactly when the
length does not contradict the block size in the sense of `C06_size_contradiction_4_00` -/
theorem C06_size_check_meaning (b : Blk) (len : Nat) :
    sizeOk b len = true ↔
      (b.more = true → len = b.size ∨ (b.szx = 7 ∧ len % b.size = 0 ∧ 0 < len)) ∧
      (b.more = false → b.szx = 7 ∨ len ≤ b.size) := by
  cases hm : b.more <;> simp [sizeOk, hm, and_assoc]

/-- **C06 (nothing else is let through).** The case analysis is complete: a Block1 block that is
not `Accepted` — whatever the reason — is answered 4.08 or 4.00, does not reach the handler, and
changes neither an assembly nor the rendering cache. -/
theorem C06_not_accepted_is_refused (T : Nat) (st : RState) (i : In) (b : Blk)
    (ha : i.assemble = true) (hb : i.req.block1 = some b) (hna : ¬ Accepted T st i b) :
    ((step T st i).2.resp = errResp REQUEST_ENTITY_INCOMPLETE none ∨
     (step T st i).2.resp = errResp BAD_REQUEST none) ∧
    (step T st i).2.seen = none ∧
    (step T st i).1.spool.items = (spoolAt T st i).items ∧
    (step T st i).1.cache = cacheAt T st i := by
  by_cases h0 : b.num = 0
  · -- block 0 that is not accepted: its length contradicts its size
    have hs : sizeOk b i.req.payload.length = false := by
      cases h : sizeOk b i.req.payload.length with
      | false => rfl
      | true => exact absurd (Or.inl ⟨h0, h⟩) hna
    have hf := feed_first_bad (T := T) (now := i.now) (sp := spoolAt T st i) hb h0 hs
    have hf2 : (feedAndTake T i.now (spoolAt T st i) i.req).2 = .badRequest := by rw [hf]
    rw [step_badRequest ha hf2, hf]
    exact ⟨Or.inr rfl, rfl, rfl, rfl⟩
  cases hl : alookup (blockKey i.req) (spoolAt T st i).items with
  | none =>
    have := C06_bad_continuation_4_08 T st i b ha hb h0 (Or.inl hl)
    exact ⟨Or.inl this.1, this.2⟩
  | some asm =>
    cases he : appendRequestBlock asm i.req b with
    | ok self' =>
      obtain ⟨h1, h2, h3, _⟩ := append_ok_iff.mp he
      exact absurd (Or.inr ⟨asm, hl, h1, h2, h3⟩) hna
    | error e =>
      have hf := feed_append_error (T := T) (now := i.now) hb h0 hl he
      cases e with
      | valueError =>
        have hf2 : (feedAndTake T i.now (spoolAt T st i) i.req).2 = .incomplete := by rw [hf]; rfl
        rw [step_incomplete ha hf2, hf]
        exact ⟨Or.inl rfl, rfl, accessed_items _ _ _ _, rfl⟩
      | badRequest =>
        have hf2 : (feedAndTake T i.now (spoolAt T st i) i.req).2 = .badRequest := by rw [hf]; rfl
        rw [step_badRequest ha hf2, hf]
        exact ⟨Or.inr rfl, rfl, accessed_items _ _ _ _, rfl⟩

/-- **C06 (final block).** An accepted block without the more flag reaches the second stage as
the stored request with the block's payload appended (its own payload for block 0), carrying the
Block1 and the Block2 option of this final block (no Block2 option if it has none), under the
same block key when the stored request was filed under its own key; nothing stays in the spool
under that block key (the transfer has ended). -/
theorem C06_accepted_final_passes (T : Nat) (st : RState) (i : In) (b : Blk)
    (ha : i.assemble = true) (hb : i.req.block1 = some b) (hm : b.more = false)
    (hacc : Accepted T st i b) :
    ∃ m, Passes T st i m ∧ m.block1 = some b ∧ m.block2 = i.req.block2 ∧
      alookup (blockKey i.req) (step T st i).1.spool.items = none ∧
      ((b.num = 0 ∧ m = i.req) ∨
       (b.num ≠ 0 ∧ ∃ old, alookup (blockKey i.req) (spoolAt T st i).items = some old ∧
          m.payload = old.payload ++ i.req.payload ∧ blockKey m = blockKey old)) := by
  by_cases h0 : b.num = 0
  · have hs0 : sizeOk b i.req.payload.length = true := by
      rcases hacc with ⟨_, h⟩ | ⟨_, _, _, h, _⟩ <;> exact h
    have hp : Passes T st i i.req := ⟨ha, by rw [feed_first hb h0 hs0]; simp [hm]⟩
    exact ⟨i.req, hp, hb, rfl, passes_block1_absent hp hb, Or.inl ⟨h0, rfl⟩⟩
  · rcases hacc with h | ⟨old, hl, hc, hs, hst⟩
    · exact absurd h.1 h0
    · obtain ⟨self', hok⟩ : ∃ s, appendRequestBlock old i.req b = .ok s :=
        ⟨_, append_ok_iff.mpr ⟨hc, hs, hst, rfl⟩⟩
      obtain ⟨_, _, _, e⟩ := append_ok_iff.mp hok
      have hp : Passes T st i self' := ⟨ha, by rw [feed_append_ok hb h0 hl hok]; simp [hm]⟩
      exact ⟨self', hp, by rw [e], by rw [e]; simp [hm], passes_block1_absent hp hb,
        Or.inr ⟨h0, old, hl, by rw [e], blockKey_append hok⟩⟩

/-- **C06 (no 5.xx from the machinery).** Whatever the state and the request, the block-wise
machinery never answers 5.xx by itself: a response code ≥ 5.00 is the code of what the handler
returned or raised (`Outcome.code`) — for the complete request it is invoked with in this step —
or the code of the kept rendering a later block is cut from (in particular the `KeyError` branch of
`feed_and_take` is unreachable, and gaps/overlaps do not surface as 5.00). -/
theorem C06_no_5xx_of_its_own (T : Nat) (st : RState) (i : In)
    (h5 : INTERNAL_SERVER_ERROR ≤ (step T st i).2.resp.code) :
    (∃ m, (step T st i).2.seen = some m ∧ (step T st i).2.resp.code = Outcome.code (i.render m)) ∨
    (∃ k a, alookup k (cacheAt T st i).items = some a ∧ (step T st i).2.resp.code = a.code) := by
  by_cases ha : i.assemble = true
  · have hk := feed_ne_keyError T i.now (spoolAt T st i) i.req
    cases hf : (feedAndTake T i.now (spoolAt T st i) i.req).2 with
    | keyError => exact absurd hf hk
    | cont b => rw [step_cont ha hf] at h5; simp [errResp, CONTINUE, INTERNAL_SERVER_ERROR] at h5
    | incomplete =>
      rw [step_incomplete ha hf] at h5
      simp [errResp, REQUEST_ENTITY_INCOMPLETE, INTERNAL_SERVER_ERROR] at h5
    | badRequest =>
      rw [step_badRequest ha hf] at h5; simp [errResp, BAD_REQUEST, INTERNAL_SERVER_ERROR] at h5
    | pass m =>
      have hp : Passes T st i m := ⟨ha, hf⟩
      rw [step_pass hp] at h5 ⊢
      simp only at h5 ⊢
      by_cases hfr : isFresh m = true
      · left
        cases hr : i.render m with
        | error code =>
          rw [extract_fresh_raised hfr hr]
          exact ⟨m, rfl, by simp [respondExtract, errResp, Outcome.code, hr]⟩
        | junk =>
          rw [extract_fresh_junk hfr hr]
          exact ⟨m, rfl, by simp [respondExtract, errResp, Outcome.code, hr]⟩
        | ok a =>
          rw [extract_fresh hfr hr] at h5 ⊢
          refine ⟨m, ?_, ?_⟩
          · split <;> rfl
          · split at h5
            · rename_i hch
              simp only [hch, ↓reduceIte] at h5 ⊢
              rcases sliceOf_cases a m with e | ⟨r, e, hc, _⟩
              · rw [e] at h5; simp [respondExtract, errResp, BAD_REQUEST, INTERNAL_SERVER_ERROR] at h5
              · rw [e]; simpa [respondExtract, Outcome.code, hr] using hc
            · rename_i hch
              simp [hch, respondExtract, Outcome.code, hr]
      · have hfr' : isFresh m = false := by simpa using hfr
        obtain ⟨b, hb, h0⟩ : ∃ b, m.block2 = some b ∧ b.num ≠ 0 := later_of_not_fresh hfr'
        right
        cases hl : alookup (blockKey m) (cacheAt T st i).items with
        | none =>
          rw [extract_later_none hb h0 hl] at h5
          simp [respondExtract, errResp, REQUEST_ENTITY_INCOMPLETE, INTERNAL_SERVER_ERROR] at h5
        | some a =>
          rw [extract_later_some hb h0 hl] at h5 ⊢
          refine ⟨blockKey m, a, hl, ?_⟩
          rcases sliceOf_cases a m with e | ⟨r, e, hc, _⟩
          · rw [e] at h5; simp [respondExtract, errResp, BAD_REQUEST, INTERNAL_SERVER_ERROR] at h5
          · simp only [e, respondExtract]; exact hc
  · have ha' : i.assemble = false := by simpa using ha
    rw [step_no_assembly ha']
    refine Or.inl ⟨i.req, rfl, ?_⟩
    cases i.render i.req <;> rfl

-- Block2: slices ------------------------------------------------------------------------------------

/-- **C06 (Block2 response is the exact slice).** Let a request reach the second stage as `m`
(itself, or the request reassembled from Block1 blocks), let `a` be the representation it is
answered from (`Source`: rendered now when `m` asks for the beginning, the kept rendering when it
asks for a later block) and let the governing Block2 value be `g` (the request's option, or block 0
at the remote's size).  If the answer has to be cut (`needsChunking`) and block `g` starts inside
`a`, then the response is `a` (code and options) with payload exactly
`a.payload[start, start+size)`, Block2 `(g.num, more, g.szx)` where `more` holds exactly when
bytes remain after the slice, and Block1 echoing the request's; the handler is invoked exactly
when `m` asks for the beginning. -/
theorem C06_block2_is_slice (T : Nat) (st : RState) (i : In) (m : Msg) (a : Resp)
    (hp : Passes T st i m) (hsrc : Source T st i m a) (hresp : isRequestCode a.code = false)
    (hchunk : needsChunking m a.payload.length = true)
    (hin : extractStart (governing m).num (governing m).szx < a.payload.length) :
    let start := extractStart (governing m).num (governing m).szx
    let size := extractSize (governing m).szx m.remote.maxPayload
    (step T st i).2.resp =
      { a with payload := (a.payload.drop start).take size
               block2 := some { num := (governing m).num, szx := (governing m).szx,
                                more := decide (start + size < a.payload.length) }
               block1 := m.block1 } ∧
    (step T st i).2.seen = if isFresh m then some m else none := by
  intro start size
  rw [step_pass hp, extract_of_source hsrc hchunk]
  simp only [sliceOf, extractBlock_some hin hresp, respondExtract]
  refine ⟨?_, ?_⟩ <;> first | rfl | trivial

/-- regular size exponents: the slice is `[num·2^(szx+4), num·2^(szx+4) + 2^(szx+4))`, i.e.
`[NUM × size, NUM × size + size)` with `size = Blk.size`; exponent 7 (BERT) counts in units of
1024 bytes and takes as many whole units as fit the remote's maximum payload size -/
theorem C06_block_geometry (num szx mps : Nat) :
    (szx ≤ 6 → extractStart num szx = num * 2 ^ (szx + 4) ∧ extractSize szx mps = 2 ^ (szx + 4) ∧
               (⟨num, false, szx⟩ : Blk).start = num * 2 ^ (szx + 4)) ∧
    (szx = 7 → extractStart num szx = num * 1024 ∧ extractSize szx mps = 1024 * (mps / 1024)) := by
  constructor
  · intro h
    have h7 : szx ≠ 7 := by omega
    simp [extractStart, extractSize, h7, Blk.start, Blk.size, Nat.min_eq_left h]
  · intro h; simp [extractStart, extractSize, h]

/-- **C06 (a body that fits is sent whole).** A request for the beginning whose rendering needs
no cutting is answered with the complete rendering (Block1 echoing the request's), the handler
having been invoked once with `m`; the rendering is not kept, and a rendering kept before under
this key is dropped. -/
theorem C06_complete_when_fits (T : Nat) (st : RState) (i : In) (m : Msg) (a : Resp)
    (hp : Passes T st i m) (hf : isFresh m = true) (hr : i.render m = .ok a)
    (hfit : needsChunking m a.payload.length = false) :
    (step T st i).2.resp = { a with block1 := m.block1 } ∧
    (step T st i).2.seen = some m ∧
    alookup (blockKey m) (step T st i).1.cache.items = none := by
  rw [step_pass hp, extract_fresh hf hr]
  simp only [hfit, Bool.false_eq_true, ↓reduceIte, respondExtract, true_and]
  exact delIf_lookup_self _ _

/-- **C06 (a raising handler leaves no rendering).** A request for the beginning on which the
handler raises is answered with the code the exception is rendered with (no block options); the
handler was invoked once with `m`; and nothing stays kept under the block key — in particular not
the rendering made for an *earlier* request for the beginning. -/
theorem C06_handler_error_drops_rendering (T : Nat) (st : RState) (i : In) (m : Msg) (code : Nat)
    (hp : Passes T st i m) (hf : isFresh m = true) (hr : i.render m = .error code) :
    (step T st i).2.resp = errResp code none ∧
    (step T st i).2.seen = some m ∧
    alookup (blockKey m) (step T st i).1.cache.items = none := by
  rw [step_pass hp, extract_fresh_raised hf hr]
  exact ⟨rfl, rfl, delIf_lookup_self _ _⟩

/-- **C06 (a handler that returns no message leaves no rendering).** A request for the beginning on
which the handler returns something that is not a message (`None`, a string: `render` of a resource
written against `interfaces.Resource` directly) is answered 5.00; the handler was invoked once with
`m`; and nothing stays kept under the block key — the rendering made for an earlier request for the
beginning went when this one arrived. -/
theorem C06_handler_nonmessage_drops_rendering (T : Nat) (st : RState) (i : In) (m : Msg)
    (hp : Passes T st i m) (hf : isFresh m = true) (hr : i.render m = .junk) :
    (step T st i).2.resp = errResp INTERNAL_SERVER_ERROR none ∧
    (step T st i).2.seen = some m ∧
    alookup (blockKey m) (step T st i).1.cache.items = none := by
  rw [step_pass hp, extract_fresh_junk hf hr]
  exact ⟨rfl, rfl, delIf_lookup_self _ _⟩

/-- **C06 (beyond the end → 4.00).** If the governing block starts at or beyond the end of the
representation the request is answered from, the answer is 4.00 Bad Request, for a fresh
rendering as well as for a kept one. -/
theorem C06_beyond_end_4_00 (T : Nat) (st : RState) (i : In) (m : Msg) (a : Resp)
    (hp : Passes T st i m) (hsrc : Source T st i m a)
    (hchunk : needsChunking m a.payload.length = true)
    (hout : a.payload.length ≤ extractStart (governing m).num (governing m).szx) :
    (step T st i).2.resp = errResp BAD_REQUEST none ∧
    (step T st i).2.seen = if isFresh m then some m else none := by
  rw [step_pass hp, extract_of_source hsrc hchunk]
  simp only [sliceOf, extractBlock_none hout (start_pos_of_chunking hchunk hout), respondExtract]
  refine ⟨?_, ?_⟩ <;> first | rfl | trivial

/-- **C06 (later block without rendering → 4.08).** A request for a later block (`num ≠ 0`) under
a block key for which no rendering is kept — none was made, the latest one fitted into one
response, or it expired — is answered 4.08; the handler is not invoked and nothing is stored. -/
theorem C06_no_rendering_4_08 (T : Nat) (st : RState) (i : In) (m : Msg) (b : Blk)
    (hp : Passes T st i m) (hb : m.block2 = some b) (h0 : b.num ≠ 0)
    (hl : alookup (blockKey m) (cacheAt T st i).items = none) :
    (step T st i).2.resp = errResp REQUEST_ENTITY_INCOMPLETE none ∧
    (step T st i).2.seen = none ∧ (step T st i).1.cache = cacheAt T st i := by
  rw [step_pass hp, extract_later_none hb h0 hl]
  exact ⟨rfl, rfl, rfl⟩

/-- a later block never invokes the handler, and is always cut (never the complete body) -/
theorem C06_later_block_never_renders (T : Nat) (st : RState) (i : In) (m : Msg) (b : Blk)
    (hp : Passes T st i m) (hb : m.block2 = some b) (h0 : b.num ≠ 0) :
    (step T st i).2.seen = none ∧ ∀ len, needsChunking m len = true := by
  refine ⟨?_, needsChunking_later hb h0⟩
  rw [step_pass hp]
  cases hl : alookup (blockKey m) (cacheAt T st i).items with
  | none => rw [extract_later_none hb h0 hl]; rfl
  | some a => rw [extract_later_some hb h0 hl]; rfl

-- histories: what the handler sees ---------------------------------------------------------------

/-- `run` (the fold the driver performs per resource) answers the request after `pre` with
`step` applied to the state `stateAfter … pre` — so the theorems below, stated with `stateAfter`,
speak about every position of every run -/
theorem C06_run_is_step (T : Nat) (st : RState) (pre : List In) (cur : In) (post : List In) :
    (run T st (pre ++ cur :: post))[pre.length]? = some (step T (stateAfter T st pre) cur).2 := by
  induction pre generalizing st with
  | nil => simp [run, stateAfter]
  | cons i rest ih => simpa [run, stateAfter] using ih (step T st i).1

/-- **C06 (handler sees the in-order concatenation).** In every history of requests — any number
of endpoints, methods, option sets, resources' worth of interleaving, any timing — starting from
the empty state: if the handler is invoked with request `m` at some step `cur` of the block-wise
machinery, then either `cur` carried no Block1 option and `m` is `cur`'s request itself, or there
is a list `blocks` of requests that
* is a subsequence of the requests received so far, in order of receipt, ending with `cur`'s,
* consists of Block1 requests that all have the block key of `cur` (same endpoint key, same method,
  same cache-key options), the first with block number 0, each later one with a payload matching
  its size — final block included — and starting exactly where the previous ones end (`Assembly`),
* has the more flag on every block but the last (`cur`'s): the body was not completed before,
and `m` carries that block key and the concatenation of their payloads as its body. -/
theorem C06_handler_sees_concatenation (T : Nat) (pre : List In) (cur : In) (m : Msg)
    (ha : cur.assemble = true)
    (hseen : (step T (stateAfter T RState.init pre) cur).2.seen = some m) :
    (cur.req.block1 = none ∧ m = cur.req) ∨
    (blockKey m = blockKey cur.req ∧
     ∃ blocks, Assembly (blockKey cur.req) blocks m.payload ∧
       blocks.Sublist (received (pre ++ [cur])) ∧ blocks.getLast? = some cur.req ∧
       AllMore blocks.dropLast) := by
  have hinv : SpoolInv (received pre) (stateAfter T RState.init pre).spool := by
    simpa using stateAfter_spoolInv (T := T) pre (st := RState.init) (h0 := []) (spoolInv_empty [])
  have hadv : SpoolInv (received pre) (spoolAt T (stateAfter T RState.init pre) cur) :=
    hinv.of_items (fun k v hl => advance_lookup_some hl)
  obtain ⟨⟨_, hf⟩, _⟩ := seen_passes ha hseen
  have hr : received (pre ++ [cur]) = received pre ++ [cur.req] := by
    simp [received, ha]
  rw [hr]
  exact (feed_spoolInv (T := T) (now := cur.now) cur.req hadv).2 m hf

/-- **C06 (blocks 0..n, nothing skipped).** Since block 0 passes the size check like every later
block, byte offsets are block numbers: when the handler is invoked with a body reassembled from
Block1 blocks (`blocks`, as in `C06_handler_sees_concatenation`) and these blocks all use one size
exponent `s ≤ 6`, then the block at position `i` of `blocks` carries block number `i` — the body is
the concatenation of blocks 0, 1, …, n, each of them received, none skipped or used twice — and all
blocks before the last are exactly `2^(s+4)` bytes long. -/
theorem C06_handler_sees_blocks_0_to_n (T : Nat) (pre : List In) (cur : In) (m : Msg) (b : Blk)
    (ha : cur.assemble = true) (hb : cur.req.block1 = some b)
    (hseen : (step T (stateAfter T RState.init pre) cur).2.seen = some m) :
    ∃ blocks, Assembly (blockKey cur.req) blocks m.payload ∧
      blocks.Sublist (received (pre ++ [cur])) ∧ blocks.getLast? = some cur.req ∧
      ∀ s, s ≤ 6 → UniformSzx s blocks →
        (∀ (i : Nat) (x : Msg), blocks[i]? = some x → ∃ bx : Blk, x.block1 = some bx ∧ bx.num = i) ∧
        (∀ x ∈ blocks.dropLast, x.payload.length = 2 ^ (s + 4)) := by
  rcases C06_handler_sees_concatenation T pre cur m ha hseen with ⟨e, _⟩ | ⟨_, blocks, hasm, hsub, hlast, hall⟩
  · rw [hb] at e; cases e
  · refine ⟨blocks, hasm, hsub, hlast, fun s hs hu => ⟨hasm.num_eq_index hs hu hall, ?_⟩⟩
    intro x hx
    obtain ⟨hk, hsome⟩ := (hasm.keys) x (List.dropLast_subset _ hx)
    obtain ⟨bx, hbx⟩ := Option.isSome_iff_exists.mp hsome
    have hmore := hall x hx bx hbx
    have hsx : bx.szx = s := hu x (List.dropLast_subset _ hx) bx hbx
    have := sizeOk_more_regular hmore (by omega) (hasm.sizes x (List.dropLast_subset _ hx) bx hbx)
    rw [this, hsx]

/-- the numbering lemma by itself, for any assembly (in the spool or handed out) -/
theorem C06_assembly_numbering (k : Key) (blocks : List Msg) (body : Bytes) (s : Nat)
    (h : Assembly k blocks body) (hs : s ≤ 6) (hu : UniformSzx s blocks)
    (hm : AllMore blocks.dropLast) :
    ∀ (i : Nat) (x : Msg), blocks[i]? = some x → ∃ bx : Blk, x.block1 = some bx ∧ bx.num = i :=
  h.num_eq_index hs hu hm

/-- **C06 (the answered request's own block options decide).** Whatever reaches the second stage —
a request without Block1, a single final block 0, or a body reassembled from several blocks —
carries the Block1 and the Block2 option of the request that is being answered (the final block),
a missing Block2 option included: a Block2 option sent along with an earlier block of the body
neither selects the block of the response nor keeps the handler from being invoked. -/
theorem C06_second_stage_has_own_block_options (T : Nat) (st : RState) (i : In) (m : Msg)
    (hp : Passes T st i m) :
    m.block1 = i.req.block1 ∧ m.block2 = i.req.block2 ∧ isFresh m = isFresh i.req := by
  obtain ⟨h1, h2⟩ := feed_pass_options hp.2
  exact ⟨h1, h2, by simp [isFresh, h2]⟩

/-- … hence a completed upload whose final block asks for the beginning of the response (no Block2
option, or block number 0) always invokes the handler with the new body, whatever Block2 option
block 0 carried and whatever rendering is kept from an older request -/
theorem C06_completed_upload_reaches_handler (T : Nat) (st : RState) (i : In) (b : Blk)
    (ha : i.assemble = true) (hb : i.req.block1 = some b) (hm : b.more = false)
    (hacc : Accepted T st i b) (hfresh : isFresh i.req = true) :
    ∃ m, (step T st i).2.seen = some m ∧ m.block1 = some b ∧ m.block2 = i.req.block2 := by
  obtain ⟨m, hp, h1, h2, _, _⟩ := C06_accepted_final_passes T st i b ha hb hm hacc
  have hf : isFresh m = true := by
    rw [(C06_second_stage_has_own_block_options T st i m hp).2.2]; exact hfresh
  refine ⟨m, ?_, h1, h2⟩
  rw [step_pass hp]
  cases hr : i.render m with
  | ok a => rw [extract_fresh hf hr]; split <;> rfl
  | error code => rw [extract_fresh_raised hf hr]; rfl
  | junk => rw [extract_fresh_junk hf hr]; rfl

/-- **C06 (observable resources).** `ObservableResource._render_to_pipe` sets up an observation
only for a request with Observe: 0 that carries no Block1 option and asks for the beginning of the
representation; every block of a request body and every request for a later block of a response
takes the way of `Resource._render_to_pipe`.  (On both ways the response is produced by
`_render_blockwise`, the function `step` models — so all theorems of this file hold for observable
resources as well.) -/
theorem C06_observable_entry (req : Msg) :
    (obsEntry req = .observe ↔
      observeZero req = true ∧ req.block1 = none ∧ isFresh req = true) ∧
    (req.block1.isSome = true → obsEntry req = .plain) ∧
    (isFresh req = false → obsEntry req = .plain) := by
  unfold obsEntry
  cases ho : observeZero req <;> cases hb : req.block1 <;> cases hf : isFresh req <;> simp

/-- **C06 (a delivered assembly is gone).** Whatever the state: when a request carrying Block1
comes out of the first stage (an accepted final block — the only way a reassembled body can reach
the handler), nothing is left in the spool under its block key. -/
theorem C06_delivered_assembly_is_gone (T : Nat) (st : RState) (i : In) (m : Msg) (b : Blk)
    (hp : Passes T st i m) (hb : i.req.block1 = some b) :
    b.more = false ∧ alookup (blockKey i.req) (step T st i).1.spool.items = none := by
  refine ⟨?_, passes_block1_absent hp hb⟩
  cases hm : b.more with
  | false => rfl
  | true =>
    exfalso
    obtain ⟨_, hf⟩ := hp
    rcases feed_cases T i.now (spoolAt T st i) i.req b hb with ⟨_, _, e⟩ | ⟨_, _, e⟩ | ⟨_, _, e⟩ |
        ⟨_, self, er, _, _, e⟩ | ⟨_, self, self', _, _, e⟩
    · rw [e] at hf; simp at hf
    · rw [e] at hf; simp [hm] at hf
    · rw [e] at hf; simp at hf
    · rw [e] at hf; cases er <;> simp [feedOfErr] at hf
    · rw [e] at hf; simp [hm] at hf

/-- **C06 (a continuation after completion → 4.08).** In every time-ordered history from the empty
state: after a Block1 transfer was completed at step `cur` (its final block accepted, the body
passed on as `m`), and whatever requests under *other* block keys follow, at any time, a
continuation (`num ≠ 0`: the next block, the one after, the final block repeated, …) under that
block key is answered 4.08 and does not reach the handler: the handler sees each completed body
once. -/
theorem C06_continuation_after_completion_4_08 (T : Nat) (pre : List In) (cur : In) (m : Msg) (b : Blk)
    (rest : List In) (nxt : In) (b' : Blk)
    (hord : TimeOrdered 0 (pre ++ cur :: rest))
    (hp : Passes T (stateAfter T RState.init pre) cur m) (hb : cur.req.block1 = some b)
    (hne : ∀ i ∈ rest, i.assemble = true → blockKey i.req ≠ blockKey cur.req)
    (ha' : nxt.assemble = true) (hk : blockKey nxt.req = blockKey cur.req)
    (hb' : nxt.req.block1 = some b') (h0 : b'.num ≠ 0) :
    (step T (stateAfter T RState.init (pre ++ cur :: rest)) nxt).2.resp
      = errResp REQUEST_ENTITY_INCOMPLETE none ∧
    (step T (stateAfter T RState.init (pre ++ cur :: rest)) nxt).2.seen = none := by
  obtain ⟨o1, o2, o3, o4⟩ := timeOrdered_append hord
  have hr : RInv T cur.now (stateAfter T RState.init pre) :=
    stateAfter_rinv pre (rinv_init T 0) o1 cur.now o2 (Nat.zero_le _)
  have hst : stateAfter T RState.init (pre ++ cur :: rest) =
      stateAfter T (step T (stateAfter T RState.init pre) cur).1 rest := by
    rw [stateAfter_append]; rfl
  have hgone := spool_absent_aux (T := T) (k := blockKey cur.req) rest
    (step_rinv hr cur (Nat.le_refl _)) (passes_block1_absent hp hb) o4 hne nxt.now
  have := C06_bad_continuation_4_08 T (stateAfter T RState.init (pre ++ cur :: rest)) nxt b' ha' hb' h0
    (Or.inl (by rw [hk, hst]; exact hgone))
  exact ⟨this.1, this.2.1⟩

/-- **C06 (no block is delivered twice).** In every history from the empty state: if a Block1
transfer was completed at step `prev` (final block accepted, body passed on), then a body the
handler is invoked with at a later step `cur` under the same block key is made only of blocks
received *after* `prev` — `blocks` is a subsequence of the requests received since, ending with
`cur`'s.  Together with `C06_handler_sees_concatenation`: every completed body is handed to the
handler once, and a new body needs a new block 0. -/
theorem C06_no_block_delivered_twice (T : Nat) (pre : List In) (prev : In) (mp : Msg) (bp : Blk)
    (mid : List In) (cur : In) (m : Msg) (b : Blk)
    (hpp : Passes T (stateAfter T RState.init pre) prev mp) (hbp : prev.req.block1 = some bp)
    (hk : blockKey cur.req = blockKey prev.req)
    (ha : cur.assemble = true) (hb : cur.req.block1 = some b)
    (hseen : (step T (stateAfter T RState.init (pre ++ prev :: mid)) cur).2.seen = some m) :
    blockKey m = blockKey cur.req ∧
    ∃ blocks, Assembly (blockKey cur.req) blocks m.payload ∧
      blocks.Sublist (received (mid ++ [cur])) ∧ blocks.getLast? = some cur.req ∧
      AllMore blocks.dropLast := by
  have hst : stateAfter T RState.init (pre ++ prev :: mid) =
      stateAfter T (step T (stateAfter T RState.init pre) prev).1 mid := by
    rw [stateAfter_append]; rfl
  have h0 : KeyInv (blockKey cur.req) [] (step T (stateAfter T RState.init pre) prev).1.spool := by
    rw [hk]; exact keyInv_absent (passes_block1_absent hpp hbp) []
  have hinv : KeyInv (blockKey cur.req) (received mid)
      (stateAfter T RState.init (pre ++ prev :: mid)).spool := by
    rw [hst]; simpa using stateAfter_keyInv (T := T) mid h0
  have hadv : KeyInv (blockKey cur.req) (received mid)
      (spoolAt T (stateAfter T RState.init (pre ++ prev :: mid)) cur) :=
    hinv.of_lookup (fun v hl => advance_lookup_some hl)
  obtain ⟨⟨_, hf⟩, _⟩ := seen_passes ha hseen
  have hr : received (mid ++ [cur]) = received mid ++ [cur.req] := by
    simp [received, ha]
  rw [hr]
  rcases (feed_keyInv_self (T := T) (now := cur.now) cur.req hadv).2 m hf with ⟨e, _⟩ | ⟨e, _, r⟩
  · rw [hb] at e; cases e
  · exact ⟨e, r⟩

/-- what an `Assembly` is, spelled out: the body is the flattened list of the payloads, every
block carries Block1 and the one block key, the list is not empty and starts with block 0 -/
theorem C06_assembly_meaning (k : Key) (blocks : List Msg) (body : Bytes)
    (h : Assembly k blocks body) :
    body = (blocks.map (·.payload)).flatten ∧
    (∀ x ∈ blocks, blockKey x = k ∧ x.block1.isSome) ∧
    (∃ x b, blocks.head? = some x ∧ x.block1 = some b ∧ b.num = 0) :=
  ⟨h.body_eq, h.keys, h.head_zero⟩

-- histories: which rendering a later block comes from ---------------------------------------------

/-- **C06 (later blocks come from the latest rendering).** In every history from the empty state,
a request that reaches the second stage asking for a later block (`num ≠ 0`) never invokes the
handler, and is either answered 4.08 or answered from a representation `a` (in the sense of
`C06_block2_is_slice` / `C06_beyond_end_4_00`) that is what the *latest* handler invocation for this
block key returned — the single rendering made for the latest request for the beginning under that
key (`renderLog` lists the outcomes of all handler invocations in order, exceptions included: when
the latest invocation raised, there is no such `a`). -/
theorem C06_later_block_from_latest_rendering (T : Nat) (pre : List In) (cur : In) (m : Msg) (b : Blk)
    (hp : Passes T (stateAfter T RState.init pre) cur m) (hb : m.block2 = some b) (h0 : b.num ≠ 0) :
    (step T (stateAfter T RState.init pre) cur).2.seen = none ∧
    ((step T (stateAfter T RState.init pre) cur).2.resp = errResp REQUEST_ENTITY_INCOMPLETE none ∨
     ∃ a, latest (blockKey m) (renderLog T RState.init pre) = some (.ok a) ∧
          Source T (stateAfter T RState.init pre) cur m a) := by
  refine ⟨(C06_later_block_never_renders T _ cur m b hp hb h0).1, ?_⟩
  have hinv : CacheInv (renderLog T RState.init pre) (stateAfter T RState.init pre).cache := by
    simpa using stateAfter_cacheInv (T := T) pre (st := RState.init) (log := []) (cacheInv_empty [])
  cases hl : alookup (blockKey m) (cacheAt T (stateAfter T RState.init pre) cur).items with
  | none => exact Or.inl (C06_no_rendering_4_08 T _ cur m b hp hb h0 hl).1
  | some a =>
    refine Or.inr ⟨a, hinv _ _ (advance_lookup_some hl), Or.inr ⟨isFresh_later hb h0, hl⟩⟩

/-- … and when the latest request for the beginning under that block key produced no rendering —
the handler was never invoked for the key, or its latest invocation raised — or the latest
rendering was complete in one response (it is then not kept, see `C06_complete_when_fits`), the
answer is 4.08 -/
theorem C06_no_rendering_made_4_08 (T : Nat) (pre : List In) (cur : In) (m : Msg) (b : Blk)
    (hp : Passes T (stateAfter T RState.init pre) cur m) (hb : m.block2 = some b) (h0 : b.num ≠ 0)
    (hnone : ∀ a, latest (blockKey m) (renderLog T RState.init pre) ≠ some (.ok a)) :
    (step T (stateAfter T RState.init pre) cur).2.resp = errResp REQUEST_ENTITY_INCOMPLETE none := by
  rcases (C06_later_block_from_latest_rendering T pre cur m b hp hb h0).2 with h | ⟨a, ha, _⟩
  · exact h
  · exact absurd ha (hnone a)

/-- **C06 (after a raising handler, later blocks get 4.08).** In every time-ordered history from
the empty state: once a request for the beginning under a block key was answered with an error
because the handler raised (step `err`: exception rendered with `code`) — whatever rendering was
kept under that key before — and whatever requests under other block keys follow, a request for a
later block under that key is answered 4.08 and does not reach the handler: never bytes of a
rendering made for an older request for the beginning. -/
theorem C06_after_handler_error_4_08 (T : Nat) (pre : List In) (err : In) (me : Msg) (code : Nat)
    (rest : List In) (cur : In) (m : Msg) (b : Blk)
    (hord : TimeOrdered 0 (pre ++ err :: rest))
    (hpe : Passes T (stateAfter T RState.init pre) err me) (hfe : isFresh me = true)
    (hre : err.render me = .error code)
    (hne : ∀ i ∈ rest, i.assemble = true → blockKey i.req ≠ blockKey me)
    (hp : Passes T (stateAfter T RState.init (pre ++ err :: rest)) cur m)
    (hk : blockKey m = blockKey me) (hb : m.block2 = some b) (h0 : b.num ≠ 0) :
    (step T (stateAfter T RState.init pre) err).2.resp = errResp code none ∧
    (step T (stateAfter T RState.init (pre ++ err :: rest)) cur).2.resp
      = errResp REQUEST_ENTITY_INCOMPLETE none ∧
    (step T (stateAfter T RState.init (pre ++ err :: rest)) cur).2.seen = none := by
  have herr := C06_handler_error_drops_rendering T _ err me code hpe hfe hre
  obtain ⟨o1, o2, o3, o4⟩ := timeOrdered_append hord
  have hr : RInv T err.now (stateAfter T RState.init pre) :=
    stateAfter_rinv pre (rinv_init T 0) o1 err.now o2 (Nat.zero_le _)
  have hst : stateAfter T RState.init (pre ++ err :: rest) =
      stateAfter T (step T (stateAfter T RState.init pre) err).1 rest := by
    rw [stateAfter_append]; rfl
  have hgone := cache_absent_aux (T := T) (k := blockKey me) rest
    (step_rinv hr err (Nat.le_refl _)) herr.2.2 o4 hne cur.now
  have := C06_no_rendering_4_08 T (stateAfter T RState.init (pre ++ err :: rest)) cur m b hp hb h0
    (by rw [hk, hst]; exact hgone)
  exact ⟨herr.1, this.1, this.2.1⟩

/-- … which, in terms of the log of handler outcomes, is the case "the latest invocation for the
key raised" of `C06_no_rendering_made_4_08` -/
theorem C06_latest_outcome_error_4_08 (T : Nat) (pre : List In) (cur : In) (m : Msg) (b : Blk)
    (code : Nat)
    (hp : Passes T (stateAfter T RState.init pre) cur m) (hb : m.block2 = some b) (h0 : b.num ≠ 0)
    (herr : latest (blockKey m) (renderLog T RState.init pre) = some (.error code)) :
    (step T (stateAfter T RState.init pre) cur).2.resp = errResp REQUEST_ENTITY_INCOMPLETE none :=
  C06_no_rendering_made_4_08 T pre cur m b hp hb h0 (fun a ha => by rw [herr] at ha; cases ha)

/-- the rendering log, spelled out: a step of the machinery that invokes the handler with `m`
appends `(blockKey m, what the handler returned or raised)`; other steps append nothing; `latest`
is the last entry of a key -/
theorem C06_renderLog_meaning (T : Nat) (st : RState) (i : In) (rest : List In) (k k' : Key) (r : Outcome)
    (log : List (Key × Outcome)) :
    renderLog T st (i :: rest) =
      (if i.assemble then ((step T st i).2.seen.map fun m => (blockKey m, i.render m)).toList else [])
        ++ renderLog T (step T st i).1 rest ∧
    latest k (log ++ [(k, r)]) = some r ∧ (k' ≠ k → latest k (log ++ [(k', r)]) = latest k log) := by
  refine ⟨?_, latest_snoc_self _ _ _, fun h => latest_snoc_ne h _ _⟩
  by_cases ha : i.assemble = true <;> simp [renderLog, rendered, ha]

-- lifetime of the state -----------------------------------------------------------------------------

/-- **C06 (TimeoutDict lifetime).** For every timeout `T > 0` and every time-ordered sequence of
operations (get / set / del / in-place mutation, on any keys) on an initially empty `TimeoutDict`:
an entry accessed at time `t` (set, or successfully read) and not accessed or deleted afterwards
is present at every `t' < t + T` and absent at every `t' ≥ t + 2T`, whatever happens to other
keys before, in between and at which phases the timer fires. -/
theorem C06_lifetime {κ ν : Type} [DecidableEq κ] (T : Nat) (hT : 0 < T)
    (pre : List (Nat × TD.Op κ ν)) (t : Nat) (k : κ) (op : TD.Op κ ν)
    (hpre : TD.Chain 0 pre) (hpt : ∀ p ∈ pre, p.1 ≤ t)
    (hop : (∃ v, op = .set k v) ∨
           (op = .get k ∧ ((TD.runOps T TD.empty pre).advance T t).present k = true))
    (rest : List (Nat × TD.Op κ ν)) (hc : TD.Chain t rest) (hne : ∀ p ∈ rest, p.2.key ≠ k)
    (t' : Nat) (hle : ∀ p ∈ rest, p.1 ≤ t') (ht' : t ≤ t') :
    (t' < t + T →
      ((TD.runOps T TD.empty (pre ++ (t, op) :: rest)).advance T t').present k = true) ∧
    (t + 2 * T ≤ t' →
      ((TD.runOps T TD.empty (pre ++ (t, op) :: rest)).advance T t').present k = false) := by
  obtain ⟨hwf, hb⟩ := TD.runOps_wf_bounded (T := T) pre TD.empty_wf (TD.empty_bounded T 0) hpre t hpt
    (Nat.zero_le t)
  obtain ⟨D, h1, h2, hinv⟩ := TD.linv_of_access hT hwf hb op hop
  rw [TD.runOps_append]
  simp only [TD.runOps]
  obtain ⟨ha, hd⟩ := TD.lifetime_aux rest hinv hc hne t' hle ht'
  exact ⟨fun h => ha (by omega), fun h => hd (by omega)⟩

/-- **C06 (reassembly state: kept ≥ T, dropped within 2T).**  In every time-ordered history from
the empty state: after a Block1 block was accepted at time `t` (`cur`), and whatever requests under
*other* block keys follow (`rest`: any endpoints, resources' worth of interleaving, any timing), the
assembly stored under `cur`'s block key is, as the timers up to `t'` have run,
* when the block had the more flag (the transfer goes on): at every `t' < t + T` still there and
  unchanged (so an in-order continuation is accepted and extends exactly it), and
* in any case — also after a final block, which takes the assembly out at once
  (`C06_delivered_assembly_is_gone`) — at every `t' ≥ t + 2T` gone.
`T` is the spool's `MAX_TRANSMIT_WAIT` timeout. -/
theorem C06_assembly_lifetime (T : Nat) (hT : 0 < T) (pre : List In) (cur : In) (b : Blk)
    (rest : List In) (hord : TimeOrdered 0 (pre ++ cur :: rest))
    (ha : cur.assemble = true) (hb : cur.req.block1 = some b)
    (hacc : Accepted T (stateAfter T RState.init pre) cur b)
    (hne : ∀ i ∈ rest, i.assemble = true → blockKey i.req ≠ blockKey cur.req)
    (t' : Nat) (hle : ∀ i ∈ rest, i.now ≤ t') (ht' : cur.now ≤ t') :
    (b.more = true → t' < cur.now + T →
      ∃ asm, alookup (blockKey cur.req)
               (step T (stateAfter T RState.init pre) cur).1.spool.items = some asm ∧
             alookup (blockKey cur.req)
               ((stateAfter T RState.init (pre ++ cur :: rest)).spool.advance T t').items = some asm) ∧
    (cur.now + 2 * T ≤ t' →
      alookup (blockKey cur.req)
        ((stateAfter T RState.init (pre ++ cur :: rest)).spool.advance T t').items = none) := by
  obtain ⟨o1, o2, o3, o4⟩ := timeOrdered_append hord
  have hr : RInv T cur.now (stateAfter T RState.init pre) :=
    stateAfter_rinv pre (rinv_init T 0) o1 cur.now o2 (Nat.zero_le _)
  have hst : stateAfter T RState.init (pre ++ cur :: rest) =
      stateAfter T (step T (stateAfter T RState.init pre) cur).1 rest := by
    rw [stateAfter_append]; rfl
  rw [hst]
  cases hm : b.more with
  | false =>
    refine ⟨fun h => (by cases h), fun _ => ?_⟩
    obtain ⟨m, hp, _, _, hgone, _⟩ := C06_accepted_final_passes T _ cur b ha hb hm hacc
    exact spool_absent_aux (T := T) rest (step_rinv hr cur (Nat.le_refl _)) hgone o4 hne t'
  | true =>
    obtain ⟨D, asm, h1, h2, hinv, hl⟩ := accepted_linv hT hr cur (Nat.le_refl _) ha hb hm hacc
    obtain ⟨p1, p2⟩ := spool_lifetime_aux rest hinv o4 hne t' hle ht'
    constructor
    · intro _ hlt
      have hp := p1 (by omega)
      simp only [TD.present] at hp
      cases hv : alookup (blockKey cur.req)
          ((stateAfter T (step T (stateAfter T RState.init pre) cur).1 rest).spool.advance T t').items with
      | none => rw [hv] at hp; cases hp
      | some v =>
        have hback := (lookup_back (T := T) (k := blockKey cur.req) rest
          (step_rinv hr cur (Nat.le_refl _)) o4 hne t').1 v hv
        rw [hl] at hback
        simp only [Option.some.injEq] at hback
        subst hback
        exact ⟨asm, hl, rfl⟩
    · intro hge
      have hp := p2 (by omega)
      simp only [TD.present] at hp
      cases hv : alookup (blockKey cur.req)
          ((stateAfter T (step T (stateAfter T RState.init pre) cur).1 rest).spool.advance T t').items with
      | none => rfl
      | some v => rw [hv] at hp; cases hp

/-- **C06 (expired transfer → 4.08).** … hence a continuation arriving `2T` or more after the last
accepted block of its block key (nothing else having used that key) is answered 4.08 and does not
reach the handler. -/
theorem C06_expired_continuation_4_08 (T : Nat) (hT : 0 < T) (pre : List In) (cur : In) (b : Blk)
    (rest : List In) (nxt : In) (b' : Blk)
    (hord : TimeOrdered 0 (pre ++ cur :: rest))
    (ha : cur.assemble = true) (hb : cur.req.block1 = some b)
    (hacc : Accepted T (stateAfter T RState.init pre) cur b)
    (hne : ∀ i ∈ rest, i.assemble = true → blockKey i.req ≠ blockKey cur.req)
    (hle : ∀ i ∈ rest, i.now ≤ nxt.now) (hlate : cur.now + 2 * T ≤ nxt.now)
    (ha' : nxt.assemble = true) (hk : blockKey nxt.req = blockKey cur.req)
    (hb' : nxt.req.block1 = some b') (h0 : b'.num ≠ 0) :
    (step T (stateAfter T RState.init (pre ++ cur :: rest)) nxt).2.resp
      = errResp REQUEST_ENTITY_INCOMPLETE none ∧
    (step T (stateAfter T RState.init (pre ++ cur :: rest)) nxt).2.seen = none := by
  have hgone := (C06_assembly_lifetime T hT pre cur b rest hord ha hb hacc hne nxt.now hle
    (by omega)).2 hlate
  have := C06_bad_continuation_4_08 T (stateAfter T RState.init (pre ++ cur :: rest)) nxt b' ha' hb' h0
    (Or.inl (by rw [hk]; exact hgone))
  exact ⟨this.1, this.2.1⟩

/-- **C06 (rendering state: kept ≥ T, dropped within 2T).**  Likewise for the rendering cache: after
a request was answered in blocks from representation `a` at time `t` (the first block of a fresh
rendering, or a later block of the kept one), and whatever requests under other block keys follow,
`a` is still kept under the block key at every `t' < t + T` and nothing is kept at any
`t' ≥ t + 2T`. -/
theorem C06_rendering_lifetime (T : Nat) (hT : 0 < T) (pre : List In) (cur : In) (m : Msg) (a : Resp)
    (rest : List In) (hord : TimeOrdered 0 (pre ++ cur :: rest))
    (hp : Passes T (stateAfter T RState.init pre) cur m)
    (hsrc : Source T (stateAfter T RState.init pre) cur m a)
    (hchunk : needsChunking m a.payload.length = true)
    (hne : ∀ i ∈ rest, i.assemble = true → blockKey i.req ≠ blockKey m)
    (t' : Nat) (hle : ∀ i ∈ rest, i.now ≤ t') (ht' : cur.now ≤ t') :
    (t' < cur.now + T →
      alookup (blockKey m)
        ((stateAfter T RState.init (pre ++ cur :: rest)).cache.advance T t').items = some a) ∧
    (cur.now + 2 * T ≤ t' →
      alookup (blockKey m)
        ((stateAfter T RState.init (pre ++ cur :: rest)).cache.advance T t').items = none) := by
  obtain ⟨o1, o2, o3, o4⟩ := timeOrdered_append hord
  have hr : RInv T cur.now (stateAfter T RState.init pre) :=
    stateAfter_rinv pre (rinv_init T 0) o1 cur.now o2 (Nat.zero_le _)
  obtain ⟨D, h1, h2, hinv, hl⟩ := served_linv hT hr cur (Nat.le_refl _) hp hsrc hchunk
  have hst : stateAfter T RState.init (pre ++ cur :: rest) =
      stateAfter T (step T (stateAfter T RState.init pre) cur).1 rest := by
    rw [stateAfter_append]; rfl
  rw [hst]
  have hr' := step_rinv hr cur (Nat.le_refl _)
  obtain ⟨p1, p2⟩ := cache_lifetime_aux rest hinv hr'.hist o4 hne t' hle ht'
  constructor
  · intro hlt
    have hpres := p1 (by omega)
    simp only [TD.present] at hpres
    cases hv : alookup (blockKey m)
        ((stateAfter T (step T (stateAfter T RState.init pre) cur).1 rest).cache.advance T t').items with
    | none => rw [hv] at hpres; cases hpres
    | some v =>
      have hback := (lookup_back (T := T) (k := blockKey m) rest hr' o4 hne t').2 v hv
      rw [hl] at hback
      simp only [Option.some.injEq] at hback
      subst hback
      rfl
  · intro hge
    have hpres := p2 (by omega)
    simp only [TD.present] at hpres
    cases hv : alookup (blockKey m)
        ((stateAfter T (step T (stateAfter T RState.init pre) cur).1 rest).cache.advance T t').items with
    | none => rfl
    | some v => rw [hv] at hpres; cases hpres

/-- … and a later block requested `2T` or more after the rendering was last used is answered 4.08 -/
theorem C06_expired_rendering_4_08 (T : Nat) (hT : 0 < T) (pre : List In) (cur : In) (m : Msg) (a : Resp)
    (rest : List In) (nxt : In) (m' : Msg) (b' : Blk)
    (hord : TimeOrdered 0 (pre ++ cur :: rest))
    (hp : Passes T (stateAfter T RState.init pre) cur m)
    (hsrc : Source T (stateAfter T RState.init pre) cur m a)
    (hchunk : needsChunking m a.payload.length = true)
    (hne : ∀ i ∈ rest, i.assemble = true → blockKey i.req ≠ blockKey m)
    (hle : ∀ i ∈ rest, i.now ≤ nxt.now) (hlate : cur.now + 2 * T ≤ nxt.now)
    (hp' : Passes T (stateAfter T RState.init (pre ++ cur :: rest)) nxt m')
    (hk : blockKey m' = blockKey m) (hb' : m'.block2 = some b') (h0 : b'.num ≠ 0) :
    (step T (stateAfter T RState.init (pre ++ cur :: rest)) nxt).2.resp
      = errResp REQUEST_ENTITY_INCOMPLETE none ∧
    (step T (stateAfter T RState.init (pre ++ cur :: rest)) nxt).2.seen = none := by
  have hgone := (C06_rendering_lifetime T hT pre cur m a rest hord hp hsrc hchunk hne nxt.now hle
    (by omega)).2 hlate
  have := C06_no_rendering_4_08 T (stateAfter T RState.init (pre ++ cur :: rest)) nxt m' b' hp' hb' h0
    (by rw [hk]; exact hgone)
  exact ⟨this.1, this.2.1⟩

/-- **C06 (refinement step: per key, the blocks so far).** An accepted block with the more flag
leaves under its block key exactly: its own payload if its number is 0 (an earlier assembly of that
key is silently discarded — restart), the stored body extended by its payload otherwise.  An
accepted block without the more flag passes exactly that body on to the second stage and leaves
nothing under the key. -/
theorem C06_accepted_block_extends_assembly (T : Nat) (st : RState) (cur : In) (b : Blk)
    (ha : cur.assemble = true) (hb : cur.req.block1 = some b) (hacc : Accepted T st cur b) :
    ∃ asm, (if b.more then alookup (blockKey cur.req) (step T st cur).1.spool.items = some asm
            else Passes T st cur asm ∧
                 alookup (blockKey cur.req) (step T st cur).1.spool.items = none) ∧
      ((b.num = 0 ∧ asm.payload = cur.req.payload) ∨
       (b.num ≠ 0 ∧ ∃ old, alookup (blockKey cur.req) (spoolAt T st cur).items = some old ∧
          asm.payload = old.payload ++ cur.req.payload)) := by
  cases hm : b.more with
  | false =>
    obtain ⟨m, hp, _, _, hgone, hform⟩ := C06_accepted_final_passes T st cur b ha hb hm hacc
    refine ⟨m, by simpa using ⟨hp, hgone⟩, ?_⟩
    rcases hform with ⟨h0, e⟩ | ⟨h0, old, hl, hpay, _⟩
    · exact Or.inl ⟨h0, by rw [e]⟩
    · exact Or.inr ⟨h0, old, hl, hpay⟩
  | true =>
    obtain ⟨asm, prev, hprev, hpay, hform⟩ := accepted_spool hb hm hacc
    refine ⟨asm, ?_, ?_⟩
    · simp only [↓reduceIte]
      rw [step_spool_eq]
      simp only [ha, ↓reduceIte, hform]
      by_cases h0 : b.num = 0
      · simp [h0, TD.set, accessed_items, alookup_ainsert_self]
      · rcases hprev with ⟨e, _⟩ | ⟨_, old, hl, _⟩
        · exact absurd e h0
        · have hl' : alookup (blockKey cur.req)
              ((spoolAt T st cur).accessed T cur.now (blockKey cur.req)).items = some old := by
            rw [accessed_items]; exact hl
          simp [h0, TD.mutate, hl', alookup_ainsert_self]
    · rcases hprev with ⟨h0, e⟩ | ⟨h0, old, hl, e⟩
      · exact Or.inl ⟨h0, by rw [hpay, e]; rfl⟩
      · exact Or.inr ⟨h0, old, hl, by rw [hpay, e]⟩

-- the block key ------------------------------------------------------------------------------------------

/-- **C06 (one endpoint, one method, one set of cache-key options).** Two requests are filed under
the same block key exactly when they agree in the endpoint (`remote.blockwise_key`), the request
code, the path the request was sent to where a `Site` has taken it out of the options
(`_original_request_path`), and the remaining cache-key options (all options but Block1, Block2,
Observe and the NoCacheKey ones) — so a resource object that is registered under two paths keeps
the transfers at the two paths apart, and every theorem above that speaks of "the block key" speaks
of all four components. -/
theorem C06_block_key_components (m1 m2 : Msg) :
    blockKey m1 = blockKey m2 ↔
      m1.remote.key = m2.remote.key ∧ m1.code = m2.code ∧ m1.origPath = m2.origPath ∧
      cacheKeyOpts m1.opts = cacheKeyOpts m2.opts := by
  simp [blockKey]

-- handlers that overlap in time --------------------------------------------------------------------------

/-- **C06 (handlers that do not suspend: `step`).** The model with overlapping handlers
(`carrive` / `cfinish`: `extract_or_insert` split at its `await`) contains the sequential one: in
any state — whatever is pending under other block keys — in which no request for the beginning is
being built under the block key concerned, a request that arrives and whose handler, if it is
invoked with `m`, ends at once with `i.render m`, leaves spool and cache exactly as `step` leaves
them, is answered exactly as `step` answers it, and the handler sees what it sees in `step`; nothing
stays pending.  All theorems about `step` are therefore theorems about this special case. -/
theorem C06_atomic_is_step (T : Nat) (st : CState) (i : In)
    (hids : ∀ q ∈ st.pending, q.id ≠ st.next)
    (hkey : ∀ m, Passes T st.r i m → alookup (blockKey m) st.building = none) :
    ((carrive T st (arrOf i)).2.ticket = none →
      (carrive T st (arrOf i)).2.resp = some (step T st.r i).2.resp ∧
      (carrive T st (arrOf i)).2.seen = none ∧ (step T st.r i).2.seen = none ∧
      (carrive T st (arrOf i)).1 = { st with r := (step T st.r i).1 }) ∧
    (∀ id, (carrive T st (arrOf i)).2.ticket = some id →
      ∃ m, (carrive T st (arrOf i)).2.seen = some m ∧ (step T st.r i).2.seen = some m ∧
        (carrive T st (arrOf i)).2.resp = none ∧
        (cfinish T (carrive T st (arrOf i)).1 i.now id (i.render m)).2 =
          { resp := some (step T st.r i).2.resp, seen := none, ticket := some id } ∧
        (cfinish T (carrive T st (arrOf i)).1 i.now id (i.render m)).1 =
          { st with r := (step T st.r i).1, next := st.next + 1 }) :=
  carrive_cfinish_eq_step T st i hids hkey

/-- **C06 (overlapping handlers: the handler still sees the in-order concatenation).** Block1 blocks
are assembled when they arrive, before any handler is awaited, so suspended handlers change nothing
for the spool: after any sequence of events (arrivals and handler completions in any order) the
spool is the one of the sequential model after the arrivals alone, and a handler invoked on an
arrival sees what `C06_handler_sees_concatenation` says — the request itself, or the in-order
concatenation of Block1 blocks received under one block key, ending with this one. -/
theorem C06_overlap_handler_sees_concatenation (T : Nat) (pre : List Ev) (a : Arr) (m : Msg)
    (ha : a.assemble = true)
    (hseen : (carrive T (cstateAfter T CState.init pre) a).2.seen = some m) :
    (cstateAfter T CState.init pre).r.spool = (stateAfter T RState.init (arrivals pre)).spool ∧
    ((a.req.block1 = none ∧ m = a.req) ∨
     (blockKey m = blockKey a.req ∧
      ∃ blocks, Assembly (blockKey a.req) blocks m.payload ∧
        blocks.Sublist (received (arrivals pre ++ [inOf a])) ∧ blocks.getLast? = some a.req ∧
        AllMore blocks.dropLast)) := by
  have hsp := cstateAfter_spool T pre CState.init RState.init rfl
  refine ⟨hsp, ?_⟩
  obtain ⟨hf, hfresh⟩ := carrive_seen ha hseen
  rw [hsp] at hf
  have hp : Passes T (stateAfter T RState.init (arrivals pre)) (inOf a) m := ⟨ha, hf⟩
  have hs : (step T (stateAfter T RState.init (arrivals pre)) (inOf a)).2.seen = some m := by
    rw [step_pass hp]
    simp only
    cases hr : (inOf a).render m with
    | ok r => simp [inOf] at hr
    | error code => rw [extract_fresh_raised hfresh hr]; rfl
    | junk => simp [inOf] at hr
  exact C06_handler_sees_concatenation T (arrivals pre) (inOf a) m ha hs

/-- **C06 (overlapping handlers: later blocks come from the rendering of the latest request for the
beginning).** After any sequence of events on a resource — requests arriving, their handlers
returning or raising in any order, at any times — a request that reaches the second stage asking for
a later block (`num ≠ 0`) is answered at once, without the handler, and either with 4.08, or from
the representation `r` that the handler returned for the request whose token `id` is the *last*
entry of its block key in the log of handler invocations in order of arrival (`started`) — the
latest request for the beginning under that key, however many older ones were still being rendered
when it arrived and whichever finished last.  The answer is then `r`'s block as in
`C06_block2_is_slice`, or 4.00 beyond its end (`sliceOf`). -/
theorem C06_overlap_later_block_from_latest_request (T : Nat) (pre : List Ev) (a : Arr) (m : Msg) (b : Blk)
    (ha : a.assemble = true)
    (hp : (feedAndTake T a.now ((cstateAfter T CState.init pre).r.spool.advance T a.now) a.req).2 = .pass m)
    (hb : m.block2 = some b) (h0 : b.num ≠ 0) :
    (carrive T (cstateAfter T CState.init pre) a).2.seen = none ∧
    (carrive T (cstateAfter T CState.init pre) a).2.ticket = none ∧
    ((carrive T (cstateAfter T CState.init pre) a).2.resp = some (errResp REQUEST_ENTITY_INCOMPLETE none) ∨
     ∃ id r, lastOf (blockKey m) (ghostAfter T CState.init Ghost.init pre).started = some id ∧
       alookup id (ghostAfter T CState.init Ghost.init pre).ended = some (.ok r) ∧
       (carrive T (cstateAfter T CState.init pre) a).2.resp = some (respondExtract m (sliceOf r m))) := by
  have hinv : OInv (cstateAfter T CState.init pre) (ghostAfter T CState.init Ghost.init pre) :=
    cstateAfter_oinv pre oinv_init
  have hf : isFresh m = false := isFresh_later hb h0
  generalize cstateAfter T CState.init pre = st at hinv hp ⊢
  generalize ghostAfter T CState.init Ghost.init pre = g at hinv ⊢
  by_cases hbld : isBuilding st (blockKey m) = true
  · simp [carrive, ha, hp, hf, hbld, COut.answer]
  · have hbld' : isBuilding st (blockKey m) = false := by simpa using hbld
    have hnone : alookup (blockKey m) st.building = none := by
      simpa [isBuilding] using hbld'
    cases hl : alookup (blockKey m) (st.r.cache.advance T a.now).items with
    | none =>
      simp [carrive, ha, hp, hf, hbld', COut.answer, extract_later_none hb h0 hl, respondExtract]
    | some r =>
      obtain ⟨id, h1, h2⟩ := hinv.cache _ r hnone (advance_lookup_some hl)
      refine ⟨?_, ?_, Or.inr ⟨id, r, h1, h2, ?_⟩⟩ <;>
        simp [carrive, ha, hp, hf, hbld', COut.answer, extract_later_some hb h0 hl]

/-- … hence: while the latest request for the beginning under a block key is still being rendered,
after its handler raised, or when no handler was ever invoked for the key, a later block is answered
4.08 — never from a rendering made for an older request -/
theorem C06_overlap_no_rendering_of_latest_4_08 (T : Nat) (pre : List Ev) (a : Arr) (m : Msg) (b : Blk)
    (ha : a.assemble = true)
    (hp : (feedAndTake T a.now ((cstateAfter T CState.init pre).r.spool.advance T a.now) a.req).2 = .pass m)
    (hb : m.block2 = some b) (h0 : b.num ≠ 0)
    (hnone : ∀ id, lastOf (blockKey m) (ghostAfter T CState.init Ghost.init pre).started = some id →
      ∀ r, alookup id (ghostAfter T CState.init Ghost.init pre).ended ≠ some (.ok r)) :
    (carrive T (cstateAfter T CState.init pre) a).2.resp = some (errResp REQUEST_ENTITY_INCOMPLETE none) := by
  rcases (C06_overlap_later_block_from_latest_request T pre a m b ha hp hb h0).2.2 with h | ⟨id, r, h1, h2, _⟩
  · exact h
  · exact absurd h2 (hnone id h1 r)

/-- **C06 (overlapping handlers: what a completed handler does).** When the handler of a pending
request for the beginning `p.m` ends with `out`, the request is answered from its own outcome — the
first block of its own rendering, the whole rendering if it fits, or the rendered exception
(`afterBuild … .2` does not depend on `latest`) —, and if a newer request for the beginning under
its block key has arrived in the meantime (its token is no longer the one in `_building`) the
rendering cache keeps exactly what it kept (timers aside) and `_building` is not touched: the
superseded rendering is neither stored nor does it drop anything. -/
theorem C06_overlap_completion (T : Nat) (st : CState) (now id : Nat) (out : Outcome) (p : Pending)
    (hfind : st.pending.find? (fun q => q.id == id) = some p) (hv : p.viaCache = true) :
    (cfinish T st now id out).2.resp =
      some (respondExtract p.m (afterBuild T now (st.r.cache.advance T now) p.m out true).2) ∧
    (alookup (blockKey p.m) st.building ≠ some id →
      (cfinish T st now id out).1.r.cache = st.r.cache.advance T now ∧
      (cfinish T st now id out).1.building = st.building) := by
  constructor
  · simp only [cfinish, hfind, hv, ↓reduceIte]
    rw [afterBuild_response T now _ p.m out _ true]
  · intro hne
    have : (alookup (blockKey p.m) st.building == some id) = false := by simp [hne]
    simp [cfinish, hfind, hv, this, afterBuild_not_latest]

/-- **C06 (overlapping handlers: the rendering of the latest request is kept).** The positive side of
the theorems above (which a cache that never stores anything would satisfy as well): when the
handler of a pending request for the beginning returns a message `a` that has to be cut, and the
request is still the latest one for the beginning under its block key (its token is the one in
`_building`), then the request is answered with its block of `a`, afterwards `a` is what is kept
under the block key, and nothing is being built under it any more. -/
theorem C06_overlap_latest_rendering_is_kept (T : Nat) (st : CState) (now id : Nat) (a : Resp)
    (p : Pending) (hfind : st.pending.find? (fun q => q.id == id) = some p) (hv : p.viaCache = true)
    (hlat : alookup (blockKey p.m) st.building = some id)
    (hchunk : needsChunking p.m a.payload.length = true) :
    (cfinish T st now id (.ok a)).2.resp = some (respondExtract p.m (sliceOf a p.m)) ∧
    alookup (blockKey p.m) (cfinish T st now id (.ok a)).1.r.cache.items = some a ∧
    alookup (blockKey p.m) (cfinish T st now id (.ok a)).1.building = none := by
  have hlat' : (alookup (blockKey p.m) st.building == some id) = true := by simp [hlat]
  refine ⟨?_, ?_, ?_⟩ <;>
    simp [cfinish, hfind, hv, hlat', afterBuild, hchunk, alookup_aerase_self, TD.set, accessed_items,
      alookup_ainsert_self]

/-- **C06 (overlapping handlers: a kept rendering is served).** In any state in which no request for
the beginning is being built under a block key and `a` is kept under it as the timers due at the
arrival have run (it has not expired), a request for a later block under that key is answered at
once with its block of `a` (`sliceOf`: the slice of `C06_block2_is_slice`, 4.00 beyond the end),
without the handler; and `a` stays kept and nothing is being built, so the same holds for the next
such request. -/
theorem C06_overlap_kept_rendering_is_served (T : Nat) (st : CState) (x : Arr) (m : Msg) (b : Blk)
    (a : Resp) (ha : x.assemble = true)
    (hp : (feedAndTake T x.now (st.r.spool.advance T x.now) x.req).2 = .pass m)
    (hb : m.block2 = some b) (h0 : b.num ≠ 0)
    (hnb : alookup (blockKey m) st.building = none)
    (hl : alookup (blockKey m) (st.r.cache.advance T x.now).items = some a) :
    (carrive T st x).2.resp = some (respondExtract m (sliceOf a m)) ∧
    (carrive T st x).2.seen = none ∧ (carrive T st x).2.ticket = none ∧
    alookup (blockKey m) (carrive T st x).1.r.cache.items = some a ∧
    (carrive T st x).1.building = st.building := by
  have hf : isFresh m = false := isFresh_later hb h0
  have hbld : isBuilding st (blockKey m) = false := by simp [isBuilding, hnb]
  refine ⟨?_, ?_, ?_, ?_, ?_⟩ <;>
    simp [carrive, ha, hp, hf, hbld, COut.answer, extract_later_some hb h0 hl, TD.set, accessed_items,
      alookup_ainsert_self]

/-- **C06 (overlapping handlers: later blocks are cut from the rendering of the latest request).**
The two together: the handler of the latest request for the beginning under a block key returns `a`
(which needs cutting) — whatever older requests under that key are still being rendered —, and the
next event is a request for a later block under the same key that arrives before the rendering has
expired (`present` as the timers due have run; `C06_lifetime`: at every time before `now + T`):
that block is cut from `a`. -/
theorem C06_overlap_latest_rendering_is_served (T : Nat) (st : CState) (now id : Nat) (a : Resp)
    (p : Pending) (hfind : st.pending.find? (fun q => q.id == id) = some p) (hv : p.viaCache = true)
    (hlat : alookup (blockKey p.m) st.building = some id)
    (hchunk : needsChunking p.m a.payload.length = true)
    (x : Arr) (m : Msg) (b : Blk) (ha : x.assemble = true)
    (hp : (feedAndTake T x.now ((cfinish T st now id (.ok a)).1.r.spool.advance T x.now) x.req).2 = .pass m)
    (hb : m.block2 = some b) (h0 : b.num ≠ 0) (hk : blockKey m = blockKey p.m)
    (hpresent : ((cfinish T st now id (.ok a)).1.r.cache.advance T x.now).present (blockKey m) = true) :
    (carrive T (cfinish T st now id (.ok a)).1 x).2.resp = some (respondExtract m (sliceOf a m)) ∧
    (carrive T (cfinish T st now id (.ok a)).1 x).2.seen = none := by
  obtain ⟨_, hkept, hnb⟩ := C06_overlap_latest_rendering_is_kept T st now id a p hfind hv hlat hchunk
  rw [← hk] at hkept hnb
  have hl : alookup (blockKey m) ((cfinish T st now id (.ok a)).1.r.cache.advance T x.now).items =
      some a := by
    cases hl : alookup (blockKey m) ((cfinish T st now id (.ok a)).1.r.cache.advance T x.now).items with
    | none => simp [TD.present, hl] at hpresent
    | some v =>
      have := advance_lookup_some hl
      rw [hkept] at this
      rw [← Option.some.inj this]
  have := C06_overlap_kept_rendering_is_served T _ x m b a ha hp hb h0 hnb hl
  exact ⟨this.1, this.2.1⟩

/-- **C06 (overlapping handlers: a request for the beginning drops what is kept when it arrives).**
From the arrival of a request for the beginning nothing is kept under its block key, and it is the
one being built (`_building` holds its token): later blocks get 4.08
(`C06_overlap_no_rendering_of_latest_4_08`) until a rendering of the latest request is stored. -/
theorem C06_overlap_arrival_drops_rendering (T : Nat) (st : CState) (x : Arr) (m : Msg)
    (ha : x.assemble = true)
    (hp : (feedAndTake T x.now (st.r.spool.advance T x.now) x.req).2 = .pass m)
    (hf : isFresh m = true) :
    alookup (blockKey m) (carrive T st x).1.r.cache.items = none ∧
    alookup (blockKey m) (carrive T st x).1.building = some st.next ∧
    (carrive T st x).2.ticket = some st.next := by
  refine ⟨?_, ?_, ?_⟩ <;> simp [carrive, ha, hp, hf, delIf_lookup_self, alookup_ainsert_self]

/-- **C06 (overlapping handlers: a request that ends without a rendering leaves nothing kept).**
When nothing is kept under the block key of a pending request for the beginning (as its arrival left
it) and its handler ends without a rendering to keep — it raises, it returns something that is not a
message, or its response needs no cutting — nothing is kept afterwards either, whether the request
is still the latest or not; a handler that returned no message is answered 5.00. -/
theorem C06_overlap_no_rendering_nothing_kept (T : Nat) (st : CState) (now id : Nat) (out : Outcome)
    (p : Pending) (hfind : st.pending.find? (fun q => q.id == id) = some p) (hv : p.viaCache = true)
    (hnone : alookup (blockKey p.m) st.r.cache.items = none)
    (hout : ∀ a, out = .ok a → needsChunking p.m a.payload.length = false) :
    alookup (blockKey p.m) (cfinish T st now id out).1.r.cache.items = none ∧
    (out = .junk →
      (cfinish T st now id out).2.resp = some (errResp INTERNAL_SERVER_ERROR none)) := by
  have hadv := advance_lookup_none (T := T) (now := now) hnone
  constructor
  · simp only [cfinish, hfind, hv, ↓reduceIte]
    cases out with
    | error code => simpa [afterBuild] using hadv
    | junk => simpa [afterBuild] using hadv
    | ok a => simpa [afterBuild, hout a rfl] using hadv
  · intro hj
    subst hj
    simp [cfinish, hfind, hv, afterBuild, respondExtract]

/-- the log of handler invocations, spelled out: an arrival on which the handler is invoked through
the rendering cache with `m` appends `(blockKey m, token)` to `started` — in order of *arrival* —, a
completion appends `(token, outcome)` to `ended`; nothing else changes the log -/
theorem C06_overlap_log_meaning (T : Nat) (st : CState) (g : Ghost) (e : Ev) (rest : List Ev) :
    ghostAfter T st g (e :: rest) = ghostAfter T (cstep T st e).1 (ghostStep g e (cstep T st e).2) rest ∧
    (∀ a, e = .arrive a → a.assemble = true →
      ghostStep g e (cstep T st e).2 =
        match (carrive T st a).2.seen with
        | some m => { g with started := g.started ++ [(blockKey m, st.next)] }
        | none => g) ∧
    (∀ now id out, e = .finish now id out →
      ghostStep g e (cstep T st e).2 =
        if (st.pending.find? (fun q => q.id == id)).isSome then { g with ended := g.ended ++ [(id, out)] }
        else g) := by
  refine ⟨rfl, ?_, ?_⟩
  · intro a he ha
    subst he
    simp only [cstep, ghostStep, ha, ↓reduceIte]
    cases hfe : (feedAndTake T a.now (st.r.spool.advance T a.now) a.req).2 with
    | cont b => simp [carrive, ha, hfe, COut.answer]
    | incomplete => simp [carrive, ha, hfe, COut.answer]
    | badRequest => simp [carrive, ha, hfe, COut.answer]
    | keyError => simp [carrive, ha, hfe, COut.answer]
    | pass m =>
      by_cases hf : isFresh m = true
      · simp [carrive, ha, hfe, hf]
      · have hf' : isFresh m = false := by simpa using hf
        by_cases hb : isBuilding st (blockKey m) = true
        · simp [carrive, ha, hfe, hf', hb, COut.answer]
        · have hb' : isBuilding st (blockKey m) = false := by simpa using hb
          simp [carrive, ha, hfe, hf', hb', COut.answer]
  · intro now id out he
    subst he
    simp only [cstep, ghostStep]
    cases hfind : st.pending.find? (fun q => q.id == id) with
    | none => simp [cfinish, hfind]
    | some p => by_cases hv : p.viaCache = true <;> simp [cfinish, hfind, hv]

-- non-vacuity and sanity ---------------------------------------------------------------------------

section examples

private def epA : Remote := { key := 1, maxPayload := 1124, maxSzx := 6 }
private def epB : Remote := { key := 2, maxPayload := 1124, maxSzx := 6 }
private def ok (body : Bytes) : Msg → Outcome :=
  fun _ => .ok { code := 69, opts := [(12, [42])], block1 := none, block2 := none, payload := body }
private def raises (code : Nat) : Msg → Outcome := fun _ => .error code
private def put (r : Remote) (b1 : Option Blk) (b2 : Option Blk) (pl : Bytes) : Msg :=
  { remote := r, code := 3, opts := [(11, [97])], block1 := b1, block2 := b2, payload := pl }
private def rq (now : Nat) (m : Msg) (h : Msg → Outcome) : In :=
  { now := now, assemble := true, req := m, render := h }

/-- two endpoints interleaved on one resource: A uploads 16+3 bytes, B's upload has a gap;
then A fetches a 40-byte rendering in 16-byte blocks, asks beyond its end, and comes back
after 2T -/
private def exampleHistory : List In :=
  [ rq 0 (put epA (some ⟨0, true, 0⟩) none (List.replicate 16 65)) (ok []),
    rq 1 (put epB (some ⟨0, true, 0⟩) none (List.replicate 16 66)) (ok []),
    rq 2 (put epA (some ⟨1, false, 0⟩) (some ⟨0, false, 0⟩) [1, 2, 3]) (ok (List.range 40)),
    rq 3 (put epB (some ⟨2, true, 0⟩) none (List.replicate 16 66)) (ok []),
    rq 4 (put epB (some ⟨1, true, 0⟩) none (List.replicate 15 66)) (ok []),
    rq 5 (put epA none (some ⟨2, false, 0⟩) []) (ok [9]),
    rq 6 (put epA none (some ⟨3, false, 0⟩) []) (ok [9]),
    rq 7 (put epB none (some ⟨1, false, 0⟩) []) (ok [9]),
    rq 30 (put epA none (some ⟨1, false, 0⟩) []) (ok [9]) ]

/-- sanity: codes, Block1, Block2, payload length and the body the handler saw, with T = 10 -/
example : (run 10 RState.init exampleHistory).map
      (fun o => (o.resp.code, o.resp.block1, o.resp.block2, o.resp.payload.length,
                 o.seen.map (·.payload.length))) =
    [ (95, some ⟨0, true, 0⟩, none, 0, none),
      (95, some ⟨0, true, 0⟩, none, 0, none),
      (69, some ⟨1, false, 0⟩, some ⟨0, true, 0⟩, 16, some 19),
      (136, none, none, 0, none),
      (128, none, none, 0, none),
      (69, none, some ⟨2, false, 0⟩, 8, none),
      (128, none, none, 0, none),
      (136, none, none, 0, none),
      (136, none, none, 0, none) ] := by decide

/-- the slice served for block 2 is bytes 32..39 of the rendering -/
example : ((run 10 RState.init exampleHistory)[5]?).map (·.resp.payload) =
    some [32, 33, 34, 35, 36, 37, 38, 39] := by decide

/-- final blocks and raising handlers: A's final block of 17 bytes at 16-byte size is refused with
4.00, a 16-byte one completes the upload (32 bytes reach the handler), the next block and the
repeated final block get 4.08; A's rendering of 40 bytes is kept, a newer request for the
beginning makes the handler raise 4.04, and block 1 is then answered 4.08 (not bytes 16..31) -/
private def exampleHistory2 : List In :=
  [ rq 0 (put epA (some ⟨0, true, 0⟩) none (List.replicate 16 65)) (ok []),
    rq 1 (put epA (some ⟨1, false, 0⟩) none (List.replicate 17 65)) (ok []),
    rq 2 (put epA (some ⟨1, false, 0⟩) none (List.replicate 16 65)) (ok []),
    rq 3 (put epA (some ⟨2, false, 0⟩) none [1]) (ok []),
    rq 4 (put epA (some ⟨1, false, 0⟩) none (List.replicate 16 65)) (ok []),
    rq 5 (put epA none (some ⟨0, false, 0⟩) []) (ok (List.range 40)),
    rq 6 (put epA none (some ⟨0, false, 0⟩) []) (raises 132),
    rq 7 (put epA none (some ⟨1, false, 0⟩) []) (ok [9]) ]

example : (run 10 RState.init exampleHistory2).map
      (fun o => (o.resp.code, o.resp.block1, o.resp.block2, o.resp.payload.length,
                 o.seen.map (·.payload.length))) =
    [ (95, some ⟨0, true, 0⟩, none, 0, none),
      (128, none, none, 0, none),
      (69, some ⟨1, false, 0⟩, none, 0, some 32),
      (136, none, none, 0, none),
      (136, none, none, 0, none),
      (69, none, some ⟨0, true, 0⟩, 16, some 0),
      (132, none, none, 0, some 0),
      (136, none, none, 0, none) ] := by decide

/-- hypotheses of the theorems are met by these histories: accepted blocks, a refused continuation
with an existing assembly, a request passing to the second stage, a kept rendering as `Source`,
an oversize final block, a completed transfer, a raising handler with an older rendering kept -/
example : Accepted 10 RState.init (rq 0 (put epA (some ⟨0, true, 0⟩) none (List.replicate 16 65)) (ok []))
    ⟨0, true, 0⟩ := Or.inl ⟨rfl, by decide⟩
example : ∃ asm, alookup (blockKey (put epA none none []))
      (spoolAt 10 (stateAfter 10 RState.init (exampleHistory.take 2)) (exampleHistory[2]'(by decide))).items
      = some asm ∧ isRequestCode asm.code = true ∧ (⟨1, false, 0⟩ : Blk).start = asm.payload.length :=
  ⟨put epA (some ⟨0, true, 0⟩) none (List.replicate 16 65), by decide, by decide, by decide⟩
example : TimeOrdered 0 exampleHistory := by simp [exampleHistory, TimeOrdered, rq]
example : TimeOrdered 0 exampleHistory2 := by simp [exampleHistory2, TimeOrdered, rq]
example : Passes 10 (stateAfter 10 RState.init (exampleHistory.take 5)) (exampleHistory[5]'(by decide))
    (put epA none (some ⟨2, false, 0⟩) []) := ⟨rfl, by decide⟩
example : Source 10 (stateAfter 10 RState.init (exampleHistory.take 5)) (exampleHistory[5]'(by decide))
    (put epA none (some ⟨2, false, 0⟩) [])
    { code := 69, opts := [(12, [42])], block1 := none, block2 := none, payload := List.range 40 } :=
  Or.inr ⟨by decide, by decide⟩
example : latest (blockKey (put epA none none [])) (renderLog 10 RState.init (exampleHistory.take 5))
    = some (ok (List.range 40) (put epA none none [])) := by decide
/-- `C06_size_contradiction_4_00`, final-block case: 17 bytes in a final block of size 16 -/
example : ∃ asm, alookup (blockKey (put epA none none []))
      (spoolAt 10 (stateAfter 10 RState.init (exampleHistory2.take 1)) (exampleHistory2[1]'(by decide))).items
      = some asm ∧ isRequestCode asm.code = true ∧
      ((⟨1, false, 0⟩ : Blk).more = false ∧ (⟨1, false, 0⟩ : Blk).szx ≠ 7 ∧
       (⟨1, false, 0⟩ : Blk).size < (List.replicate 17 65).length) :=
  ⟨put epA (some ⟨0, true, 0⟩) none (List.replicate 16 65), by decide, by decide, by decide⟩
/-- `C06_continuation_after_completion_4_08` / `C06_delivered_assembly_is_gone`: the final block of
step 2 passes as the 32-byte body -/
example : ∃ m, Passes 10 (stateAfter 10 RState.init (exampleHistory2.take 2)) (exampleHistory2[2]'(by decide)) m
    ∧ m.payload.length = 32 :=
  ⟨put epA (some ⟨1, false, 0⟩) none (List.replicate 32 65), ⟨rfl, by decide⟩, by decide⟩
/-- `C06_after_handler_error_4_08`: at step 6 a rendering is kept under the key and the handler
raises on a request for the beginning -/
example : Passes 10 (stateAfter 10 RState.init (exampleHistory2.take 6)) (exampleHistory2[6]'(by decide))
      (put epA none (some ⟨0, false, 0⟩) []) ∧
    isFresh (put epA none (some ⟨0, false, 0⟩) []) = true ∧
    (exampleHistory2[6]'(by decide)).render (put epA none (some ⟨0, false, 0⟩) []) = .error 132 ∧
    (alookup (blockKey (put epA none none []))
      (cacheAt 10 (stateAfter 10 RState.init (exampleHistory2.take 6)) (exampleHistory2[6]'(by decide))).items).isSome
      = true :=
  ⟨⟨rfl, by decide⟩, by decide, rfl, by decide⟩
example : latest (blockKey (put epA none none [])) (renderLog 10 RState.init (exampleHistory2.take 7))
    = some (.error 132) := by decide

/-- block 0 is size-checked, and the final block's Block2 option governs: block 0 with the more
flag and 32 bytes at a 16-byte size → 4.00, block 2 then finds no assembly → 4.08; a short block 0
(5 bytes, more flag) → 4.00; a single final block 0 of 17 bytes → 4.00, of 16 bytes → handler.
Then a 40-byte rendering is kept (step 5), a new upload starts with a block 0 that carries
Block2 1/0/0 (2.31), and its final block without Block2 reaches the handler with the new 19-byte
body and is answered with the whole new 3-byte rendering — not with block 1 of the kept one. -/
private def exampleHistory3 : List In :=
  [ rq 0 (put epA (some ⟨0, true, 0⟩) none (List.replicate 32 65)) (ok []),
    rq 1 (put epA (some ⟨2, false, 0⟩) none [1, 2, 3, 4, 5]) (ok []),
    rq 2 (put epA (some ⟨0, true, 0⟩) none [1, 2, 3, 4, 5]) (ok []),
    rq 3 (put epA (some ⟨0, false, 0⟩) none (List.replicate 17 65)) (ok []),
    rq 4 (put epA (some ⟨0, false, 0⟩) none (List.replicate 16 65)) (ok []),
    rq 5 (put epA none (some ⟨0, false, 0⟩) []) (ok (List.range 40)),
    rq 6 (put epA (some ⟨0, true, 0⟩) (some ⟨1, false, 0⟩) (List.replicate 16 78)) (ok [7, 7, 7]),
    rq 7 (put epA (some ⟨1, false, 0⟩) none [78, 78, 78]) (ok [7, 7, 7]),
    rq 8 (put epA none (some ⟨1, false, 0⟩) []) (ok [9]) ]

example : (run 10 RState.init exampleHistory3).map
      (fun o => (o.resp.code, o.resp.block1, o.resp.block2, o.resp.payload.length,
                 o.seen.map (·.payload.length))) =
    [ (128, none, none, 0, none),
      (136, none, none, 0, none),
      (128, none, none, 0, none),
      (128, none, none, 0, none),
      (69, some ⟨0, false, 0⟩, none, 0, some 16),
      (69, none, some ⟨0, true, 0⟩, 16, some 0),
      (95, some ⟨0, true, 0⟩, none, 0, none),
      (69, some ⟨1, false, 0⟩, none, 3, some 19),
      (136, none, none, 0, none) ] := by decide
/-- the Block2 option of the requests the handler saw at steps 4, 5 and 7: the final block's own -/
example : (run 10 RState.init exampleHistory3).filterMap (fun o => o.seen.map (·.block2)) =
    [none, some ⟨0, false, 0⟩, none] := by decide
example : TimeOrdered 0 exampleHistory3 := by simp [exampleHistory3, TimeOrdered, rq]

/-- `C06_block0_size_contradiction_4_00`: both kinds of contradiction occur (steps 0 and 3) -/
example : (⟨0, true, 0⟩ : Blk).more = true ∧ (List.replicate 32 65).length ≠ (⟨0, true, 0⟩ : Blk).size ∧
    ¬ ((⟨0, true, 0⟩ : Blk).szx = 7 ∧ (List.replicate 32 65).length % (⟨0, true, 0⟩ : Blk).size = 0 ∧
       0 < (List.replicate 32 65).length) := by
  decide
example : (⟨0, false, 0⟩ : Blk).more = false ∧ (⟨0, false, 0⟩ : Blk).szx ≠ 7 ∧
    (⟨0, false, 0⟩ : Blk).size < (List.replicate 17 65).length := by decide
/-- `C06_completed_upload_reaches_handler` / `C06_second_stage_has_own_block_options`: at step 7 a
rendering is kept under the key, the stored block 0 carries Block2 1/0/0, the final block none -/
example : Accepted 10 (stateAfter 10 RState.init (exampleHistory3.take 7)) (exampleHistory3[7]'(by decide))
    ⟨1, false, 0⟩ ∧
    (alookup (blockKey (put epA none none []))
      (cacheAt 10 (stateAfter 10 RState.init (exampleHistory3.take 7)) (exampleHistory3[7]'(by decide))).items).isSome
      = true ∧
    ((alookup (blockKey (put epA none none []))
      (spoolAt 10 (stateAfter 10 RState.init (exampleHistory3.take 7)) (exampleHistory3[7]'(by decide))).items).map
        (·.block2)) = some (some ⟨1, false, 0⟩) :=
  ⟨Or.inr ⟨put epA (some ⟨0, true, 0⟩) (some ⟨1, false, 0⟩) (List.replicate 16 78), by decide, by decide,
    by decide, by decide⟩, by decide, by decide⟩
/-- `C06_handler_sees_blocks_0_to_n`: the handler is invoked with a reassembled body at step 2 of
the first history, and a two-block assembly with uniform size exponent exists -/
example : ((step 10 (stateAfter 10 RState.init (exampleHistory.take 2)) (exampleHistory[2]'(by decide))).2.seen.map
    (·.payload.length)) = some 19 := by decide
example : Assembly (blockKey (put epA none none []))
      [put epA (some ⟨0, true, 0⟩) none (List.replicate 16 65), put epA (some ⟨1, false, 0⟩) none [1, 2, 3]]
      (List.replicate 16 65 ++ [1, 2, 3]) ∧
    UniformSzx 0 [put epA (some ⟨0, true, 0⟩) none (List.replicate 16 65),
                  put epA (some ⟨1, false, 0⟩) none [1, 2, 3]] :=
  ⟨Assembly.next (Assembly.first (by decide) rfl rfl (by decide)) (by decide) rfl (by decide) (by decide)
      (by decide),
   by intro m hm b hb; simp at hm; rcases hm with e | e <;> (subst e; simp [put] at hb; subst hb; rfl)⟩
/-- `C06_observable_entry`: FETCH with Observe: 0 — plain when it carries Block1 or asks for a later
block, the observation branch otherwise; no Observe option: plain -/
example : obsEntry { (put epA (some ⟨0, true, 0⟩) none []) with code := 5, opts := [(6, []), (11, [97])] }
    = .plain := by decide
example : obsEntry { (put epA none (some ⟨1, false, 0⟩) []) with code := 5, opts := [(6, []), (11, [97])] }
    = .plain := by decide
example : obsEntry { (put epA none (some ⟨0, false, 0⟩) []) with code := 5, opts := [(6, []), (11, [97])] }
    = .observe := by decide
example : obsEntry { (put epA none none []) with code := 5, opts := [(6, [1]), (11, [97])] } = .plain := by
  decide
example : obsEntry (put epA none none []) = .plain := by decide

/-- an empty block with the more flag and size exponent 7 contradicts its block size (first case of
`C06_size_contradiction_4_00` / `C06_block0_size_contradiction_4_00`); 2048 bytes do not -/
example : (⟨1, true, 7⟩ : Blk).more = true ∧ (0 : Nat) ≠ (⟨1, true, 7⟩ : Blk).size ∧
    ¬ ((⟨1, true, 7⟩ : Blk).szx = 7 ∧ 0 % (⟨1, true, 7⟩ : Blk).size = 0 ∧ 0 < (0 : Nat)) := by decide
example : sizeOk ⟨1, true, 7⟩ 0 = false ∧ sizeOk ⟨0, true, 7⟩ 0 = false ∧ sizeOk ⟨1, true, 7⟩ 2048 = true ∧
    sizeOk ⟨1, false, 7⟩ 0 = true := by decide

/-- `C06_block_key_components`: the same request sent to two paths of one resource object (the `Site`
has taken the path out of the options) has two block keys; block 1 sent to the other path finds no
assembly -/
private def viaSite (path : List Bytes) (m : Msg) : Msg := { m with opts := [], origPath := some path }
example : blockKey (viaSite [[105, 110]] (put epA none none [])) ≠
    blockKey (viaSite [[97], [105, 110]] (put epA none none [])) := by decide
example : (run 10 RState.init
      [ rq 0 (viaSite [[105, 110]] (put epA (some ⟨0, true, 0⟩) none (List.replicate 16 65))) (ok []),
        rq 1 (viaSite [[97], [105, 110]] (put epA (some ⟨1, false, 0⟩) none [1, 2, 3])) (ok []),
        rq 2 (viaSite [[105, 110]] (put epA (some ⟨1, false, 0⟩) none [1, 2, 3])) (ok []) ]).map
      (fun o => (o.resp.code, o.seen.map (·.payload.length))) =
    [(95, none), (136, none), (69, some 19)] := by decide

/-- overlapping handlers: a request for the beginning arrives at 0 (its handler takes until 5 and
renders 40 × 1), a second one under the same block key at 1 (done at 2, 40 × 2); block 1 asked for
at 1 (both pending) and at 3 (the older one still pending) and at 10.  Answers: the two pending ones
none yet, 4.08 while the latest has no rendering, block 0 of 2…, block 1 of 2…, block 0 of 1… for the
superseded request, and block 1 of 2… — the rendering of the request that arrived last, not of the
one that finished last. -/
private def getA (b2 : Blk) : Msg :=
  { remote := epA, code := 1, opts := [(11, [97])], block1 := none, block2 := some b2, payload := [] }
private def rendering (x : Nat) : Outcome :=
  .ok { code := 69, opts := [], block1 := none, block2 := none, payload := List.replicate 40 x }
private def overlapHistory : List Ev :=
  [ .arrive { now := 0, assemble := true, req := getA ⟨0, false, 0⟩ },
    .arrive { now := 1, assemble := true, req := getA ⟨0, false, 0⟩ },
    .arrive { now := 1, assemble := true, req := getA ⟨1, false, 0⟩ },
    .finish 2 1 (rendering 2),
    .arrive { now := 3, assemble := true, req := getA ⟨1, false, 0⟩ },
    .finish 5 0 (rendering 1),
    .arrive { now := 10, assemble := true, req := getA ⟨1, false, 0⟩ } ]

example : (crun 100 CState.init overlapHistory).map
      (fun o => (o.resp.map (fun r => (r.code, r.block2, r.payload.head?)), o.ticket)) =
    [ (none, some 0), (none, some 1), (some (136, none, none), none),
      (some (69, some ⟨0, true, 0⟩, some 2), some 1),
      (some (69, some ⟨1, true, 0⟩, some 2), none),
      (some (69, some ⟨0, true, 0⟩, some 1), some 0),
      (some (69, some ⟨1, true, 0⟩, some 2), none) ] := by decide
/-- the hypotheses of `C06_overlap_later_block_from_latest_request` at the last event, and the log -/
example : (feedAndTake 100 10 ((cstateAfter 100 CState.init (overlapHistory.take 6)).r.spool.advance 100 10)
      (getA ⟨1, false, 0⟩)).2 = .pass (getA ⟨1, false, 0⟩) := by decide
example : (ghostAfter 100 CState.init Ghost.init (overlapHistory.take 6)).started =
      [(blockKey (getA ⟨0, false, 0⟩), 0), (blockKey (getA ⟨0, false, 0⟩), 1)] ∧
    (ghostAfter 100 CState.init Ghost.init (overlapHistory.take 6)).ended = [(1, rendering 2), (0, rendering 1)] ∧
    lastOf (blockKey (getA ⟨1, false, 0⟩)) (ghostAfter 100 CState.init Ghost.init (overlapHistory.take 6)).started
      = some 1 := by decide
/-- `C06_overlap_completion`: at the sixth event token 0 is pending and no longer the one in `_building` -/
example : ((cstateAfter 100 CState.init (overlapHistory.take 5)).pending.find? (fun q => q.id == 0)).map (·.viaCache)
      = some true ∧
    alookup (blockKey (getA ⟨0, false, 0⟩)) (cstateAfter 100 CState.init (overlapHistory.take 5)).building = none :=
  by decide
/-- `C06_overlap_latest_rendering_is_kept` / `…_is_served` at the fourth event (`.finish 2 1 …`): token 1
is pending, it is the one in `_building`, its outcome needs cutting; afterwards its rendering is what
is kept, and the next event — block 1 at time 3, the rendering still present — is bytes of it -/
example : ((cstateAfter 100 CState.init (overlapHistory.take 3)).pending.find? (fun q => q.id == 1)).map
      (fun p => (p.viaCache, p.m)) = some (true, getA ⟨0, false, 0⟩) ∧
    alookup (blockKey (getA ⟨0, false, 0⟩)) (cstateAfter 100 CState.init (overlapHistory.take 3)).building
      = some 1 ∧
    needsChunking (getA ⟨0, false, 0⟩) 40 = true := by decide
example : (alookup (blockKey (getA ⟨0, false, 0⟩))
      (cstateAfter 100 CState.init (overlapHistory.take 4)).r.cache.items).map (·.payload) =
      some (List.replicate 40 2) ∧
    ((cstateAfter 100 CState.init (overlapHistory.take 4)).r.cache.advance 100 3).present
      (blockKey (getA ⟨1, false, 0⟩)) = true ∧
    ((crun 100 CState.init overlapHistory)[4]?).map (fun o => o.resp.map (·.payload)) =
      some (some (List.replicate 16 2)) := by decide
/-- a handler that returns no message: rendering 1 is kept and block 1 served from it; a second
request for the beginning returns a non-message and is answered 5.00; block 1 is then answered 4.08
(`C06_overlap_arrival_drops_rendering`, `C06_overlap_no_rendering_nothing_kept`), also while that
request is still under way -/
private def junkHistory : List Ev :=
  [ .arrive { now := 0, assemble := true, req := getA ⟨0, false, 0⟩ },
    .finish 0 0 (rendering 1),
    .arrive { now := 1, assemble := true, req := getA ⟨1, false, 0⟩ },
    .arrive { now := 2, assemble := true, req := getA ⟨0, false, 0⟩ },
    .arrive { now := 3, assemble := true, req := getA ⟨1, false, 0⟩ },
    .finish 4 1 .junk,
    .arrive { now := 5, assemble := true, req := getA ⟨1, false, 0⟩ } ]
example : (crun 100 CState.init junkHistory).map
      (fun o => (o.resp.map (fun r => (r.code, r.block2, r.payload.head?)), o.ticket)) =
    [ (none, some 0), (some (69, some ⟨0, true, 0⟩, some 1), some 0),
      (some (69, some ⟨1, true, 0⟩, some 1), none),
      (none, some 1), (some (136, none, none), none),
      (some (160, none, none), some 1),
      (some (136, none, none), none) ] := by decide
/-- `C06_atomic_is_step`: its hypotheses hold in the initial state, and in a state where another block
key has a pending request -/
example : (∀ q ∈ CState.init.pending, q.id ≠ CState.init.next) ∧
    alookup (blockKey (put epA none none [])) CState.init.building = none := by
  constructor
  · intro q hq; simp [CState.init] at hq
  · rfl

/-- TimeoutDict: set at 0 with T = 10, other key accessed at 5; present at 9, absent at 20 -/
example : ((TD.runOps 10 (TD.empty : TD Nat Nat) [(0, .set 1 7), (5, .set 2 8)]).advance 10 9).present 1
    = true := by decide
example : ((TD.runOps 10 (TD.empty : TD Nat Nat) [(0, .set 1 7), (5, .set 2 8)]).advance 10 20).present 1
    = false := by decide
/-- the bound 2T is tight in the model: accessed twice, the entry outlives T -/
example : ((TD.runOps 10 (TD.empty : TD Nat Nat) [(0, .set 9 0), (9, .set 1 7)]).advance 10 19).present 1
    = true := by decide

end examples

end Aiocoap.BwServer
