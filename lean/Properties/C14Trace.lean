import Proofs.MsgLayer.Fifo
/-!
# C14, trace level — per remote, the confirmable messages form one FIFO queue, over every run

`Properties/C14.lean` and `Properties/C14Queue.lean` state single steps (push at the tail, pop at the
head) under hypotheses about the step.  This file states the queue discipline over **arbitrary event
sequences** (every run of the model from `init`, of any length, any interleaving of submissions,
responses, datagrams from any peer, timers, transport errors, cancellations and shutdown) and for
**every** remote `R`.  The definitions are in `Proofs/MsgLayer/Fifo.lean`:

* `pending s R` — the message in flight to `R` followed by the held-back ones (`C14Queue.lean`);
* `arrivals s R ev` — the confirmable message the application hands to the message layer for `R`
  in event `ev` (at most one: a `submit` or `respond` that `send_message` types CON — no piggy-backed
  ACK possible, not suppressed by No-Response, `chooseType = .con`, not multicast);
* `departures s R ev` — how many messages leave `R`'s queue in `ev`, always *at its head*: 1 when an
  ACK/RST from `R` matches the exchange in flight, the whole queue on a transport error for `R`,
  on give-up of the exchange in flight, and on shutdown; 0 otherwise;
* `arrivalsRun`, `departuresRun` — the same accumulated along a run;
* `conSends R os` — the CONs put on the wire to `R` among the outputs `os`; `firstSendsRun` — those
  of a whole run except what `R`'s own retransmission timers repeat.

A statement of the bare shape `∃ k xs, p' = p.drop k ++ xs` would be void (any two lists satisfy it
with `k := p.length`, `xs := p'`, see `FifoStep_trivial`); here `k` and `xs` are the departures and
arrivals determined by the events.
-/
namespace Aiocoap.MsgLayer

private theorem reach (cfg : Cfg) (mid token : Nat) (f : Nat → Nat) (es : List TEv) :
    Inv (run (init cfg mid token f) es).1 ∧ QInv (run (init cfg mid token f) es).1 :=
  ⟨run_Inv (init_Inv cfg mid token f) es, run_QInv (init_QInv cfg mid token f) es⟩

/-- **C14 (FIFO, every event).** In every reachable state, for every event and every remote `R`:
`R`'s queue after the event is its queue before, minus `departures` messages at the head, plus the
`arrivals` at the tail.  Nothing is removed from the middle, inserted before the tail, or reordered;
events concerning other remotes leave `R`'s queue as it is (both numbers are 0/empty for them). -/
theorem C14_fifo_every_event (cfg : Cfg) (mid token : Nat) (f : Nat → Nat) (es : List TEv) (e : TEv)
    (R : Remote) :
    let s := (run (init cfg mid token f) es).1
    pending (step s e).1 R = (pending s R).drop (departures s R e.ev) ++ arrivals s R e.ev ∧
    departures s R e.ev ≤ (pending s R).length ∧ (arrivals s R e.ev).length ≤ 1 := by
  obtain ⟨hi, hq⟩ := reach cfg mid token f es
  exact ⟨step_Fifo hi hq e R, departures_le hi R e.ev, arrivals_length _ R e.ev⟩

/-- **C14 (the queue is a suffix of the arrivals).** After any run from the initial state, `R`'s
queue is exactly the sequence of confirmable messages handed to the message layer for `R` during the
run, in the order they were handed over, without its `departuresRun` oldest elements. -/
theorem C14_queue_is_arrivals_suffix (cfg : Cfg) (mid token : Nat) (f : Nat → Nat) (es : List TEv)
    (R : Remote) :
    let s0 := init cfg mid token f
    pending (run s0 es).1 R = (arrivalsRun s0 R es).drop (departuresRun s0 R es) ∧
    departuresRun s0 R es ≤ (arrivalsRun s0 R es).length := by
  have h := run_Fifo (init_Inv cfg mid token f) (init_QInv cfg mid token f) es R
  have h0 : pending (init cfg mid token f) R = [] := rfl
  simpa [h0] using h

/-- **C14 (FIFO, all runs).** Cut any run from the initial state in two, `pre ++ post`.  `R`'s queue
at the end is its queue at the cut minus `k` messages at the head, followed by the messages that
arrived for `R` after the cut in arrival order (minus those of them that have left already, when
`k` exceeds the queue at the cut), where `k` counts the departures after the cut.  Messages queued
at any moment leave only from the head and in queue order; later messages are behind them. -/
theorem C14_fifo_all_runs (cfg : Cfg) (mid token : Nat) (f : Nat → Nat) (pre post : List TEv)
    (R : Remote) :
    let s1 := (run (init cfg mid token f) pre).1
    let k := departuresRun s1 R post
    pending (run (init cfg mid token f) (pre ++ post)).1 R =
      (pending s1 R).drop k ++ (arrivalsRun s1 R post).drop (k - (pending s1 R).length) := by
  obtain ⟨hi, hq⟩ := reach cfg mid token f pre
  have h := (run_Fifo hi hq post R).1
  simp only [run_append]
  rw [h, List.drop_append]

/-- **C14 (no overtaking).** If `b` is at position `j` of `R`'s queue at some point of a run and at
most `j` messages have left the queue since (`k ≤ j`), then `b` is still queued, at position
`j - k`, and the messages in front of it are exactly the ones that were in front of it before (those
at the earlier positions `k … j-1`), in the same order: nothing overtakes `b`, and nothing that was
ahead of `b` is lost other than by leaving at the head. -/
theorem C14_order_preserved (cfg : Cfg) (mid token : Nat) (f : Nat → Nat) (pre post : List TEv)
    (R : Remote) (j : Nat) (b : Wire) :
    let s1 := (run (init cfg mid token f) pre).1
    let s2 := (run (init cfg mid token f) (pre ++ post)).1
    let k := departuresRun s1 R post
    (pending s1 R)[j]? = some b → k ≤ j →
    (pending s2 R)[j - k]? = some b ∧
    ∀ i, i < j - k → (pending s2 R)[i]? = (pending s1 R)[i + k]? := by
  intro s1 s2 k hb hk
  have h : pending s2 R =
      (pending s1 R).drop k ++ (arrivalsRun s1 R post).drop (k - (pending s1 R).length) :=
    C14_fifo_all_runs cfg mid token f pre post R
  have hj : j < (pending s1 R).length := by
    rcases Nat.lt_or_ge j (pending s1 R).length with h' | h'
    · exact h'
    · rw [List.getElem?_eq_none h'] at hb; cases hb
  refine ⟨?_, ?_⟩
  · rw [h, List.getElem?_append_left (by rw [List.length_drop]; omega), List.getElem?_drop]
    have : k + (j - k) = j := by omega
    rw [this]; exact hb
  · intro i hi
    rw [h, List.getElem?_append_left (by rw [List.length_drop]; omega), List.getElem?_drop,
      Nat.add_comm]

/-- **C14 (only the head is on the wire).** In every reachable state, whatever event comes next —
first transmissions and retransmissions alike —, a confirmable message put on the wire to `R` is
the head of `R`'s queue after that event, and at most one is put on the wire.  With `C14_one_open`:
it is the only unacknowledged message to `R`. -/
theorem C14_transmitted_is_head (cfg : Cfg) (mid token : Nat) (f : Nat → Nat) (es : List TEv)
    (e : TEv) (R : Remote) :
    let s := (run (init cfg mid token f) es).1
    (∀ w ∈ conSends R (step s e).2, (pending (step s e).1 R).head? = some w) ∧
    (conSends R (step s e).2).length ≤ 1 := by
  obtain ⟨hi, hq⟩ := reach cfg mid token f es
  have hi' : Inv (setNow (run (init cfg mid token f) es).1 e.time) := Inv_of_fields hi rfl rfl rfl
  have hq' : QInv (setNow (run (init cfg mid token f) es).1 e.time) := QInv_of_tables hq rfl rfl
  exact ⟨handle_conSends_head hi' hq' e.ev R, handle_conSends_length hi' hq' e.ev R⟩

/-- **C14 (first transmission ⇔ new head).** In every reachable state, for every next event that is
not a retransmission timer of `R`: a confirmable message goes on the wire to `R` exactly when `R`'s
queue gets a new head in this step — the queue was empty, or messages left at its head — and is
non-empty afterwards; what goes on the wire is that new head and nothing else.  In particular a
message appended to a non-empty queue is not transmitted, and the ACK for the head transmits the
next message in that same step. -/
theorem C14_first_transmission_iff_new_head (cfg : Cfg) (mid token : Nat) (f : Nat → Nat)
    (es : List TEv) (e : TEv) (R : Remote) (hne : ∀ m, e.ev ≠ .fireRetransmit R m) :
    let s := (run (init cfg mid token f) es).1
    conSends R (step s e).2 =
      if pending s R = [] ∨ departures s R e.ev ≠ 0 then (pending (step s e).1 R).head?.toList
      else [] := by
  obtain ⟨hi, hq⟩ := reach cfg mid token f es
  have hi' : Inv (setNow (run (init cfg mid token f) es).1 e.time) := Inv_of_fields hi rfl rfl rfl
  have hq' : QInv (setNow (run (init cfg mid token f) es).1 e.time) := QInv_of_tables hq rfl rfl
  have h := (handle_Spec hi' hq' e.ev R hne).2
  rw [departures_setNow] at h
  exact h

/-- **C14 (a retransmission repeats the head).** The remaining case: what a retransmission timer of
`R` puts on the wire to `R` is the head of `R`'s queue, which that event leaves in place. -/
theorem C14_retransmission_is_head (cfg : Cfg) (mid token : Nat) (f : Nat → Nat) (es : List TEv)
    (t m : Nat) (R : Remote) :
    let s := (run (init cfg mid token f) es).1
    ∀ w ∈ conSends R (step s ⟨t, .fireRetransmit R m⟩).2,
      (pending s R).head? = some w ∧ (pending (step s ⟨t, .fireRetransmit R m⟩).1 R).head? = some w := by
  obtain ⟨hi, _⟩ := reach cfg mid token f es
  have hi' : Inv (setNow (run (init cfg mid token f) es).1 t) := Inv_of_fields hi rfl rfl rfl
  exact fireRetransmit_head hi' R m

/-- **C14 (wire order, every run).** Over any run from the initial state, the confirmable messages
first-transmitted to `R` (everything `conSends` reports except what `R`'s own retransmission timers
repeat), in the order they go on the wire, are a subsequence of the confirmable messages handed to
the message layer for `R`, in the order they were handed over: transmissions to one endpoint never
overtake one another.  (A proper subsequence when an error, a give-up or shutdown dropped messages
that were still waiting, cf. `C14_none_forgotten_*`.) -/
theorem C14_wire_order (cfg : Cfg) (mid token : Nat) (f : Nat → Nat) (es : List TEv) (R : Remote) :
    (firstSendsRun (init cfg mid token f) R es).Sublist (arrivalsRun (init cfg mid token f) R es) := by
  have h := run_firstSends_sublist (init_Inv cfg mid token f) (init_QInv cfg mid token f) es R
  have h0 : pending (init cfg mid token f) R = [] := rfl
  simpa [h0] using h

-- non-vacuity ---------------------------------------------------------------------------------------

/-- In the C14 example run (three confirmable requests to remote 0, then the ACK for the first):
the arrivals are 100, 101, 102 in this order and one message has left; -/
example : (arrivalsRun (init exCfg 7 0 (fun _ => 50)) 0 exRun).map (·.body) = [100, 101, 102] := by
  decide
example : departuresRun (init exCfg 7 0 (fun _ => 50)) 0 exRun = 1 := by decide
/-- the queue [100, 101, 102] after the three submissions has become [101, 102] after the ACK; -/
example : (pending (run (init exCfg 7 0 (fun _ => 50)) (exRun.take 3)).1 0).map (·.body) = [100, 101, 102] ∧
    (pending (run (init exCfg 7 0 (fun _ => 50)) exRun).1 0).map (·.body) = [101, 102] := by
  decide
/-- and the first transmissions to remote 0 are 100, then 101 — each the head of the queue at its
time, 102 not yet on the wire. -/
example : (conSends 0 (run (init exCfg 7 0 (fun _ => 50)) exRun).2).map (·.body) = [100, 101] := by
  decide
example : (conSends 0 (run (init exCfg 7 0 (fun _ => 50)) (exRun.take 3)).2).map (·.body) = [100] := by
  decide
example : (firstSendsRun (init exCfg 7 0 (fun _ => 50)) 0 exRun).map (·.body) = [100, 101] := by
  decide
/-- nothing of this concerns another remote -/
example : pending (run (init exCfg 7 0 (fun _ => 50)) exRun).1 1 = [] ∧
    arrivalsRun (init exCfg 7 0 (fun _ => 50)) 1 exRun = [] := by decide

end Aiocoap.MsgLayer
