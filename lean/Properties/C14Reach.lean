import Properties.C14
import Properties.C18
/-!
# C14 — "none forgotten" for every reachable state, without flag hypotheses

`C14_none_forgotten_timeout` and `C14_none_forgotten_error` (Properties/C14.lean) are single-step
theorems with the hypotheses "not shut down".  For the states a context can actually reach those
hypotheses are consequences of `C18_open_or_shut` / `C18_layers_shut_together`: a state with an
exchange in flight is not shut down, and in a shut-down state there is nothing left to forget.
-/
namespace Aiocoap.MsgLayer

/-- **C14 (none forgotten — time-out, any history).** After any history from the creation of the
context, at any time `t`: when the last retransmission timer of the exchange in flight with
`remote` fires, every request outstanding towards `remote` fails in that step and no backlog for
`remote` is left. -/
theorem C14_none_forgotten_timeout_reachable (cfg : Cfg) (mid0 token : Nat) (f : Nat → Nat)
    (es : List TEv) (t : Nat) (remote : Remote) (mid : Nat) (e : Exchange)
    (he : findExchange (run (init cfg mid0 token f) es).1 remote mid = some e)
    (hlast : ¬ e.counter < e.maxRetr) :
    let s := (run (init cfg mid0 token f) es).1
    let r := step s ⟨t, .fireRetransmit remote mid⟩
    (∀ o ∈ s.outgoing, o.remote = some remote → Out.fail o.req .conRetransmitsExceeded ∈ r.2) ∧
    hasBacklog r.1 remote = false := by
  intro s r
  have hopen : s.shutTok = false := by
    rcases C18_open_or_shut cfg mid0 token f es with h | h
    · exact h
    · have hex : s.exchanges = [] := h.ex
      have : findExchange s remote mid = none := by simp [findExchange, hex]
      rw [this] at he; cases he
  exact C14_none_forgotten_timeout (setNow s t) remote mid e he hlast hopen

/-- **C14 (none forgotten — transport error, any history).** After any history, at any time: a
transport error reported for `remote` fails every request outstanding towards it and leaves
neither exchange nor backlog for it — whether or not the context has been shut down meanwhile
(then nothing was outstanding any more). -/
theorem C14_none_forgotten_error_reachable (cfg : Cfg) (mid0 token : Nat) (f : Nat → Nat)
    (es : List TEv) (t : Nat) (remote : Remote) :
    let s := (run (init cfg mid0 token f) es).1
    let r := step s ⟨t, .error remote⟩
    (∀ o ∈ s.outgoing, o.remote = some remote → Out.fail o.req .networkError ∈ r.2) ∧
    hasBacklog r.1 remote = false ∧ hasExchange r.1 remote = false := by
  intro s r
  rcases C18_open_or_shut cfg mid0 token f es with h | h
  · have hm : s.shutMsg = false := (C18_layers_shut_together cfg mid0 token f es).trans h
    exact C14_none_forgotten_error (setNow s t) remote hm h
  · have hr : r = (setNow s t, []) := by
      show dispatchError (setNow s t) remote = _
      have : (setNow s t).shutMsg = true := h.msg
      simp [dispatchError, this]
    rw [hr]
    refine ⟨?_, ?_, ?_⟩
    · intro o ho; rw [h.og] at ho; cases ho
    · show hasBacklog (setNow s t) remote = false
      have hbl : s.backlogs = [] := h.bl
      simp [hasBacklog, setNow, hbl]
    · show hasExchange (setNow s t) remote = false
      have hex : s.exchanges = [] := h.ex
      simp [hasExchange, setNow, hex]

end Aiocoap.MsgLayer
