import Properties.C10
import Proofs.MsgLayer.AckBudget
import Proofs.MsgLayer.AckTimer
import Proofs.MsgLayer.AckOwed
import Proofs.MsgLayer.Deliver
/-!
# C10, trace level — acknowledgements are paid for by confirmable messages

`Properties/C10.lean` states the reactions of the message layer step by step.  This file states
the clause "a confirmable request is acknowledged exactly once under its message ID … unmatched
non-confirmable responses, ACKs and Resets are never answered" over **arbitrary event sequences**
(every run of the model, of any length, any interleaving of peers, timers, responses, errors,
cancellations and shutdown), by an accounting argument (`Proofs/MsgLayer/AckBudget.lean`):

    #ACKs sent to R under M  +  #pending opportunities for (R, M)
        ≤  #opportunities at the start  +  #confirmable messages received from R under M

preserved by every handler, given that everything held for retransmission or in a back-log is
confirmable (`QInv`) and that a stored duplicate-reply carries the ID of its table entry (`RMid`).

**Excluded input (`AppOk`).**  The theorems quantify over event sequences in which the
*application* does not itself set the message type of what it submits or responds to ACK or RST
(`m.mtype ≠ some .ack ∧ m.mtype ≠ some .rst` for `.submit … m` and `.respond … m`).  `send_message`
honours an explicitly set type, so such a message would go out as an ACK under a fresh message ID
without any confirmable message having been received; the example after `handle_Bud` in
`AckBudget.lean` and the one below show the budget failing for it.  aiocoap's own request and
response paths never set these types, and the correspondence harness never generates them.

The complementary half (`C10_ack_by_deadline`, from `Proofs/MsgLayer/AckTimer.lean`): a pending
opportunity is acknowledged by its own empty-ACK timer at the latest, at `fireAt`, when the event
loop (`advance`) runs the due timers; this needs no assumption on the application.
-/
namespace Aiocoap.MsgLayer

/-- **C10 (ACK budget, any state).** From any state in which the held messages are confirmable and
stored replies carry their entry's ID — in particular every reachable state — over every
`AppOk` event sequence: the ACKs sent to `R` under `M` plus the opportunities still pending for
`(R, M)` at the end never exceed the opportunities pending at the start plus the confirmable
messages received from `R` under `M`. -/
theorem C10_ack_budget_any_state (s : State) (hq : QInv s) (hr : RMid s) (es : List TEv)
    (hok : ∀ e ∈ es, AppOk e.ev) (R : Remote) (M : Nat) :
    ackCount R M (run s es).2 + oppCount R M (run s es).1 ≤ oppCount R M s + conRecvs R M es :=
  run_Bud R M hq hr es hok

/-- **C10 (ACK budget).** Over every event sequence from the initial state in which the
application does not itself type its messages ACK/RST (`AppOk`, see the file header), for every
peer `R` and message ID `M`: the number of ACKs sent to `R` under `M` never exceeds the number of
confirmable messages (requests, their duplicates, responses, pings) received from `R` under `M`. -/
theorem C10_ack_budget (cfg : Cfg) (mid token : Nat) (drawFn : Nat → Nat) (es : List TEv)
    (hok : ∀ e ∈ es, AppOk e.ev) (R : Remote) (M : Nat) :
    ackCount R M (run (init cfg mid token drawFn) es).2 ≤ conRecvs R M es := by
  have h := run_Bud R M (init_QInv cfg mid token drawFn) (init_RMid cfg mid token drawFn) es hok
  have h0 : oppCount R M (init cfg mid token drawFn) = 0 := rfl
  omega

/-- **C10 (nothing but a confirmable message is acknowledged).** If, in a run from the initial
state (`AppOk`), no confirmable message with ID `M` was received from `R`, then no ACK with ID `M`
is ever sent to `R`: NON requests, NON responses matched or not, ACKs and Resets are never
acknowledged, whatever IDs they carry. -/
theorem C10_no_unsolicited_ack (cfg : Cfg) (mid token : Nat) (drawFn : Nat → Nat) (es : List TEv)
    (hok : ∀ e ∈ es, AppOk e.ev) (R : Remote) (M : Nat)
    (hno : ∀ e ∈ es, ∀ mcl w, e.ev = .recv R mcl w → w.mtype = .con → w.mid ≠ M) :
    ∀ t w, Out.send t R w ∈ (run (init cfg mid token drawFn) es).2 → w.mtype = .ack → w.mid ≠ M := by
  intro t w hmem hack hmid
  have h := C10_ack_budget cfg mid token drawFn es hok R M
  rw [conRecvs_eq_zero hno] at h
  have h0 : ackCount R M (run (init cfg mid token drawFn) es).2 = 0 := by omega
  simp only [ackCount, List.countP_eq_zero] at h0
  exact h0 _ hmem (by simp [isAckTo, hack, hmid])

/-- **C10 (acknowledged at most once).** If exactly one confirmable message with ID `M` arrived
from `R` in the run (no duplicate), at most one ACK with ID `M` goes out to `R` in the whole run —
piggy-backed or empty, never both — whatever else happens (other peers, timers, responses,
errors, cancellations, shutdown). -/
theorem C10_ack_at_most_once (cfg : Cfg) (mid token : Nat) (drawFn : Nat → Nat) (es : List TEv)
    (hok : ∀ e ∈ es, AppOk e.ev) (R : Remote) (M : Nat) (h1 : conRecvs R M es = 1) :
    ackCount R M (run (init cfg mid token drawFn) es).2 ≤ 1 :=
  h1 ▸ C10_ack_budget cfg mid token drawFn es hok R M

-- the complementary half: the opportunity's deadline -----------------------------------------------

/-- **C10 (one opportunity per request key).** In every reachable state there is at most one
pending piggy-back opportunity per (remote, token): a repeated request with the same token
replaces the older opportunity. -/
theorem C10_opportunity_unique (cfg : Cfg) (mid token : Nat) (drawFn : Nat → Nat) (es : List TEv)
    (p q : Piggy) (hp : p ∈ (run (init cfg mid token drawFn) es).1.piggy)
    (hq : q ∈ (run (init cfg mid token drawFn) es).1.piggy)
    (hr : p.remote = q.remote) (ht : p.token = q.token) : p = q :=
  PInv_unique (run_PInv (init_QInv cfg mid token drawFn) (init_PInv cfg mid token drawFn) es) hp hq hr ht

/-- **C10 (acknowledged by the deadline).** In every reachable state `s`, for every pending
opportunity `p` (a confirmable request from `p.remote` with message ID `p.mid` not yet
acknowledged): when the event loop runs the timers due before `bound > p.fireAt`
(`advance fuel s bound`, earliest first, whatever other timers are pending or get re-armed in
between) and is not cut short by its fuel (it stopped because no timer due before `bound` was
left), then the empty ACK for `p` is among the outputs: sent at `p.fireAt`
(= arrival + `EMPTY_ACK_DELAY`) to `p.remote` under `p.mid`.  Together with
`C10_ack_at_most_once`: exactly once. -/
theorem C10_ack_by_deadline (cfg : Cfg) (mid token : Nat) (drawFn : Nat → Nat) (es : List TEv)
    (p : Piggy) (fuel bound : Nat)
    (hp : p ∈ (run (init cfg mid token drawFn) es).1.piggy) (hb : p.fireAt < bound)
    (hfuel : (advance fuel (run (init cfg mid token drawFn) es).1 bound).2.2.length < fuel) :
    Out.send p.fireAt p.remote (bare .ack p.mid) ∈
      (advance fuel (run (init cfg mid token drawFn) es).1 bound).2.1 :=
  advance_fires fuel _ bound p
    (run_PInv (init_QInv cfg mid token drawFn) (init_PInv cfg mid token drawFn) es) hp hb hfuel

-- the lower half: an acknowledgement is never forgotten ------------------------------------------

/-- a confirmable request that is no duplicate opens its opportunity: message ID of the request,
due `EMPTY_ACK_DELAY` after the arrival -/
theorem recv_opens (s : State) (remote : Remote) (mcl : Bool) (w : Wire)
    (hreq : isRequest w.code = true) (hc : w.mtype = .con) (hnew : isDup s remote w = false) :
    (⟨remote, w.token, w.mid, s.now + s.cfg.emptyAckDelay⟩ : Piggy) ∈ (recv s remote mcl w).1.piggy := by
  have hdd : dedupable w = true := by simp [dedupable, hreq, hc]
  have hna : fitsReply w = false := by simp [fitsReply, hc]
  have hc0 : (w.code == 0) = false := by
    simp only [isRequest, Bool.and_eq_true, decide_eq_true_eq] at hreq
    simp; omega
  simp only [recv, hnew, Bool.false_eq_true, ↓reduceIte, hdd, hna, recvCode, hc0, Bool.false_and, hreq, hc,
    beq_self_eq_true, Bool.true_or, Bool.and_self]
  exact List.mem_of_find?_eq_some ((C10_request_opportunity _ remote w).2.1 hc).2

/-- **C10 (the acknowledgement of a confirmable request is never forgotten).** Let a confirmable
request `w` that is no duplicate arrive from `R` at time `t` in any reachable state whose message
layer is not shut down, and let anything but a shutdown happen afterwards (`post`: responses of
this or other handlers, other requests — also on the *same token* —, copies, timers, errors,
cancellations, in any order).  Then at the end either an ACK under `w.mid` has gone to `R`, or the
opportunity is still pending with its deadline `t + EMPTY_ACK_DELAY` — and then
`C10_ack_by_deadline` sends the empty ACK at that time.  With `C10_ack_at_most_once`: exactly once.
(Before the repair of `_process_request` a second request on the token made the message layer
forget the first one's message ID; this theorem did not hold.) -/
theorem C10_request_acknowledged (cfg : Cfg) (mid token : Nat) (drawFn : Nat → Nat) (pre post : List TEv)
    (t : Nat) (R : Remote) (mcl : Bool) (w : Wire)
    (hs : (run (init cfg mid token drawFn) pre).1.shutMsg = false)
    (hreq : isRequest w.code = true) (hc : w.mtype = .con)
    (hnew : isDup (run (init cfg mid token drawFn) pre).1 R w = false)
    (hpost : ∀ e ∈ post, e.ev ≠ .shutdown) :
    let s := (run (init cfg mid token drawFn) pre).1
    let p : Piggy := ⟨R, w.token, w.mid, t + s.cfg.emptyAckDelay⟩
    let s1 := (step s ⟨t, .recv R mcl w⟩).1
    p ∈ (run s1 post).1.piggy ∨ AckedIn p (run s1 post).2 := by
  intro s p s1
  have hq : QInv s := run_QInv (init_QInv cfg mid token drawFn) pre
  have hk : PInv s := run_PInv (init_QInv cfg mid token drawFn) (init_PInv cfg mid token drawFn) pre
  have hp : p ∈ s1.piggy := by
    have hs' : (setNow s t).shutMsg = false := hs
    show p ∈ (handle (setNow s t) (.recv R mcl w)).1.piggy
    simp only [handle, hs', Bool.false_eq_true, ↓reduceIte]
    exact recv_opens (setNow s t) R mcl w hreq hc hnew
  exact run_Owed (step_QInv hq _) (step_PInv hq hk _) hp post hpost

theorem ackCount_pos_of_AckedIn {p : Piggy} {os : List Out} (h : AckedIn p os) :
    1 ≤ ackCount p.remote p.mid os := by
  obtain ⟨t, w, hm, h1, h2⟩ := h
  unfold ackCount
  exact List.countP_pos_iff.mpr ⟨_, hm, by simp [isAckTo, h1, h2]⟩

/-- **C10 (acknowledged exactly once).** The two halves put together, over a whole run from the
initial state: `pre`, then a confirmable request `w` from `R` that is no duplicate, then `post`
without a shutdown.  If `w` is the only confirmable message from `R` under its message ID in the
run (no retransmission arrived), the application does not type its messages ACK/RST (`AppOk`), and
the opportunity is no longer pending at the end (a response was given, the timer has fired, or a
later request took the token), then **exactly one** ACK under `w.mid` went to `R` in the whole run. -/
theorem C10_ack_exactly_once (cfg : Cfg) (mid token : Nat) (drawFn : Nat → Nat) (pre post : List TEv)
    (t : Nat) (R : Remote) (mcl : Bool) (w : Wire)
    (hs : (run (init cfg mid token drawFn) pre).1.shutMsg = false)
    (hreq : isRequest w.code = true) (hc : w.mtype = .con)
    (hnew : isDup (run (init cfg mid token drawFn) pre).1 R w = false)
    (hpost : ∀ e ∈ post, e.ev ≠ .shutdown)
    (hok : ∀ e ∈ pre ++ ⟨t, .recv R mcl w⟩ :: post, AppOk e.ev)
    (h1 : conRecvs R w.mid (pre ++ ⟨t, .recv R mcl w⟩ :: post) = 1)
    (hgone : (⟨R, w.token, w.mid, t + (run (init cfg mid token drawFn) pre).1.cfg.emptyAckDelay⟩ : Piggy) ∉
      (run (init cfg mid token drawFn) (pre ++ ⟨t, .recv R mcl w⟩ :: post)).1.piggy) :
    ackCount R w.mid (run (init cfg mid token drawFn) (pre ++ ⟨t, .recv R mcl w⟩ :: post)).2 = 1 := by
  have hle := C10_ack_at_most_once cfg mid token drawFn _ hok R w.mid h1
  have hack := C10_request_acknowledged cfg mid token drawFn pre post t R mcl w hs hreq hc hnew hpost
  simp only at hack
  rw [run_append] at hgone hle ⊢
  simp only [run] at hgone hle ⊢
  rcases hack with hp | ha
  · exact absurd hp hgone
  · have h2 := ackCount_pos_of_AckedIn ha
    simp only [ackCount_append] at hle ⊢
    simp only at h2
    omega

-- non-vacuity -------------------------------------------------------------------------------

def c10t0 : State := init c10Cfg 500 0 (fun _ => 20)

/-- a CON request (id 70) answered by a piggy-backed response, then its duplicate, answered from
the table: two confirmable messages under 70, two ACKs under 70 — the budget is tight -/
def c10DupRun : List TEv :=
  [⟨5, .recv 1 false (c10Req .con 70)⟩, ⟨8, .respond 0 (c10Resp 0) true⟩,
   ⟨20, .recv 1 false (c10Req .con 70)⟩]

example : (∀ e ∈ c10DupRun, AppOk e.ev) ∧ conRecvs 1 70 c10DupRun = 2 ∧
    ackCount 1 70 (run c10t0 c10DupRun).2 = 2 ∧
    (sendsOf (run c10t0 c10DupRun).2).map (fun x => (x.1, x.2.2.mtype, x.2.2.code, x.2.2.mid)) =
      [(8, .ack, 69, 70), (20, .ack, 69, 70)] := by decide

/-- one CON request (id 71), slow handler: empty ACK from the timer, separate CON response under a
fresh ID which the peer acknowledges; one confirmable message under 71, exactly one ACK under 71;
the peer's ACK (id 500) and a later Reset (id 71!) are not answered -/
def c10OnceRun : List TEv :=
  [⟨5, .recv 1 false (c10Req .con 71)⟩, ⟨15, .fireEmptyAck 1 [1]⟩, ⟨40, .respond 0 (c10Resp 0) true⟩,
   ⟨45, .recv 1 false { mtype := .ack, code := 0, mid := 500, token := [], obs := none, body := 0 }⟩,
   ⟨50, .recv 1 false { mtype := .rst, code := 0, mid := 71, token := [], obs := none, body := 0 }⟩]

example : (∀ e ∈ c10OnceRun, AppOk e.ev) ∧ conRecvs 1 71 c10OnceRun = 1 ∧
    ackCount 1 71 (run c10t0 c10OnceRun).2 = 1 ∧ ackCount 1 500 (run c10t0 c10OnceRun).2 = 0 ∧
    (sendsOf (run c10t0 c10OnceRun).2).map (fun x => (x.1, x.2.2.mtype, x.2.2.code, x.2.2.mid)) =
      [(15, .ack, 0, 71), (40, .con, 69, 500)] := by decide

/-- a NON request and its (NON) response, then an unmatched NON response from the peer: nothing
confirmable was received, and no ACK at all goes out -/
def c10NonRun : List TEv :=
  [⟨5, .recv 1 false (c10Req .non 74)⟩, ⟨8, .respond 0 (c10Resp 0) true⟩,
   ⟨20, .recv 1 false { mtype := .non, code := 69, mid := 75, token := [9], obs := none, body := 0 }⟩]

example : (∀ e ∈ c10NonRun, AppOk e.ev) ∧ conRecvs 1 74 c10NonRun = 0 ∧ conRecvs 1 75 c10NonRun = 0 ∧
    ackCount 1 74 (run c10t0 c10NonRun).2 = 0 ∧ ackCount 1 75 (run c10t0 c10NonRun).2 = 0 ∧
    (sendsOf (run c10t0 c10NonRun).2).map (fun x => (x.1, x.2.2.mtype, x.2.2.code, x.2.2.mid)) =
      [(8, .non, 69, 500)] := by decide

/-- a CON request (id 70, token [1]) is followed within EMPTY_ACK_DELAY by another CON request on
the same token (id 71): the first one gets its empty ACK at once (time 8), the second one its own
at 8 + 10; a NON request on the token (id 72) at 30 with an unacknowledged CON (id 73, at 28)
before it: 73 is acknowledged at 30 and the response to 72 leaves as a NON under a fresh ID -/
def c10ReuseRun : List TEv :=
  [⟨5, .recv 1 false (c10Req .con 70)⟩, ⟨8, .recv 1 false (c10Req .con 71)⟩, ⟨18, .fireEmptyAck 1 [1]⟩,
   ⟨28, .recv 1 false (c10Req .con 73)⟩, ⟨30, .recv 1 false (c10Req .non 72)⟩,
   ⟨33, .respond 3 (c10Resp 0) true⟩]

example : (sendsOf (run c10t0 c10ReuseRun).2).map (fun x => (x.1, x.2.2.mtype, x.2.2.code, x.2.2.mid)) =
    [(8, .ack, 0, 70), (18, .ack, 0, 71), (30, .ack, 0, 73), (33, .non, 69, 500)] ∧
    (run c10t0 c10ReuseRun).1.piggy = [] := by decide

/-- misfits aimed at an exchange in flight (our CON request, id 500): an ACK and a RST carrying a
request code, a RST carrying a response code — nothing changes, the exchange stays; a genuine CON
request under ID 500 afterwards is delivered (no duplicate) -/
def c10MisfitRun : List TEv :=
  [⟨5, .submit 0 1 false false
      { mtype := none, reliability := some true, code := 1, obs := none, body := 0, noResponse := 0, maxRetr := 4 }⟩,
   ⟨7, .recv 1 false { mtype := .ack, code := 1, mid := 500, token := [1], obs := none, body := 0 }⟩,
   ⟨8, .recv 1 false { mtype := .rst, code := 1, mid := 500, token := [1], obs := none, body := 0 }⟩,
   ⟨9, .recv 1 false { mtype := .rst, code := 69, mid := 500, token := [1], obs := none, body := 0 }⟩]

example : (run c10t0 c10MisfitRun).1.exchanges.length = 1 ∧ (run c10t0 c10MisfitRun).1.recent = [] ∧
    (run c10t0 c10MisfitRun).2.length = 1 ∧
    deliverCount 1 500 (run c10t0 (c10MisfitRun ++ [⟨12, .recv 1 false (c10Req .con 500)⟩])).2 = 1 := by
  decide

/-- the theorems apply to these runs (hypotheses discharged by evaluation) -/
example : ackCount 1 71 (run c10t0 c10OnceRun).2 ≤ 1 :=
  C10_ack_at_most_once c10Cfg 500 0 (fun _ => 20) c10OnceRun (by decide) 1 71 (by decide)

/-- `C10_ack_exactly_once` applies to `c10OnceRun` (all hypotheses discharged by evaluation) and to
the token re-use run (request 70, superseded at 8 by request 71 on the same token) -/
example : ackCount 1 71 (run c10t0 ([] ++ ⟨5, .recv 1 false (c10Req .con 71)⟩ :: c10OnceRun.tail)).2 = 1 :=
  C10_ack_exactly_once c10Cfg 500 0 (fun _ => 20) [] c10OnceRun.tail 5 1 false (c10Req .con 71)
    (by decide) (by decide) rfl (by decide) (by decide) (by decide) (by decide) (by decide)

example : ackCount 1 70 (run c10t0 ([] ++ ⟨5, .recv 1 false (c10Req .con 70)⟩ :: c10ReuseRun.tail)).2 = 1 :=
  C10_ack_exactly_once c10Cfg 500 0 (fun _ => 20) [] c10ReuseRun.tail 5 1 false (c10Req .con 70)
    (by decide) (by decide) rfl (by decide) (by decide) (by decide) (by decide) (by decide)

/-- a CON request (id 71, arrived at 5) is pending; the event loop runs up to 100 with fuel 10:
one timer fires (the fuel is not exhausted), the empty ACK goes out at 5 + 10 -/
example :
    let s := (run c10t0 [⟨5, .recv 1 false (c10Req .con 71)⟩]).1
    s.piggy = [⟨1, [1], 71, 15⟩] ∧ (advance 10 s 100).2.2.length = 1 ∧
    sendsOf (advance 10 s 100).2.1 = [(15, 1, bare .ack 71)] := by decide

/-- the excluded input: a request *submitted with type ACK* goes out as an ACK although nothing
confirmable was ever received — without `AppOk` the budget theorem would be false -/
example :
    let ev : Ev := .submit 0 1 false false
      { mtype := some .ack, reliability := none, code := 1, obs := none, body := 0, noResponse := 0,
        maxRetr := 4 }
    ¬ AppOk ev ∧ conRecvs 1 500 [⟨5, ev⟩] = 0 ∧ ackCount 1 500 (run c10t0 [⟨5, ev⟩]).2 = 1 := by decide

end Aiocoap.MsgLayer
