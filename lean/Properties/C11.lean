import Proofs.Oscore.ProtTamper
/-!
# C11 — OSCORE: round trip, inner data hidden, responses bound, tampering detected

Model: `AiocoapModel/Oscore/{Cbor,Compress,Nonce,Aad,Aead,Inner,Protect}.lean` (`protect`,
`unprotect` and the helpers the driver runs).  The AEAD is a parameter `E : AEAD`; its laws
(`correct`, `integrity`, `binding`, `tagLen`) are the cryptographic assumptions and are
satisfied by the concrete `transparentAead`, so no statement is vacuous.

All theorems quantify over every message (code, option list, payload), every pair of admissible
matching contexts (`Ctx.wf`, `Sends`), every sender sequence number the sender accepts, and —
for the tamper clauses — every rewritten OSCORE option / foreign request identifiers / key.
Only property theorems and non-vacuity examples live in this file.
-/
namespace Aiocoap.Oscore.Prot

-- ## Compressed COSE object and nonce ----------------------------------------------------------

/-- **compress/uncompress round trip.**  Every header `protect` can produce (Partial IV of 1–5
bytes or none, KID or none, KID context of at most 255 bytes or none, with or without the group
flag) is encoded by `_compress` and decoded back to itself by `_uncompress`. -/
theorem C11_compress_roundtrip (u : Unprot) (hu : u.sendable) :
    ∃ o, compress u = some o ∧ uncompress o = some u :=
  uncompress_compress u hu

/-- **nonce injectivity.**  For a fixed common IV and nonce length, admissible (generator id,
Partial IV) pairs with the same nonce have the same id and numerically the same Partial IV —
for Partial IVs of equal length, the same bytes. -/
theorem C11_nonce_injective {iv : Nat} {civ piv id piv' id' n : Bytes} (hiv : 6 ≤ iv)
    (hid : id.length ≤ iv - 6) (hp : piv.length ≤ 5)
    (hid' : id'.length ≤ iv - 6) (hp' : piv'.length ≤ 5)
    (h : constructNonce iv civ piv id = some n) (h' : constructNonce iv civ piv' id' = some n) :
    id = id' ∧ beToNat piv = beToNat piv' ∧ (piv.length = piv'.length → piv = piv') := by
  obtain ⟨h1, h2⟩ := constructNonce_inj hiv hid hp hid' hp' h h'
  refine ⟨h1, ?_, ?_⟩
  · rw [← beToNat_padPiv piv, ← beToNat_padPiv piv', h2]
  · intro hl
    simp only [padPiv, hl] at h2
    exact List.append_cancel_left h2

-- ## Round trip --------------------------------------------------------------------------------

/-- **Round trip, requests.**  For matching contexts, unprotecting a protected request yields
the original code, the original options except the class-U ones `_split_message` keeps outside
(Uri-Host, Uri-Port, Proxy-Uri, Proxy-Scheme), and the original payload.  Observe is reported
separately: it survives exactly when it is a registration (value 0), as RFC 8613 §4.1.3.5.1
prescribes.  The request identifiers the server keeps are the client's sender id and Partial
IV. -/
theorem C11_roundtrip_request (E : AEAD) {A B : Ctx} (hA : A.wf) (hAB : Sends A B)
    {seq : Nat} {m : Msg} {P : Protected} (h : protect E A seq m none = .ok P) :
    unprotect E B none P.outer = .ok (
      { code := m.code,
        opts := m.opts.filter (fun o => !isOuterOnly o.1 && o.1 != 6),
        observe := (match findOpt 6 m.opts with
          | some v => if beToNat v = 0 then some 0 else none
          | none => none),
        payload := m.payload },
      { kid := A.senderId, piv := shortPiv seq, canReuse := true, style := P.outer.code }) := by
  obtain ⟨pt, nonce, hpt, _, hpay, hobs, hrp⟩ := recv_request (B := B) hA hAB h
  have hreq := (protect_request_shape h).1
  have hd : E.dec B.recipientKey nonce (aad A.algValue A.senderId (shortPiv seq)) P.outer.payload
      = some pt := by rw [hpay, ← hAB.key]; exact E.correct _ _ _ _
  rw [unprotect_of_dec_some hrp hd (parsePlaintext_buildPlaintext hpt)]
  simp only [finishUnprotect, observeResult, hreq, if_true, hobs, findOpt_innerOpts_6]
  have hopts : List.filter (fun x => x.1 != 6) (innerOpts m) =
      m.opts.filter (fun o => !isOuterOnly o.1 && o.1 != 6) := by
    simp [innerOpts, hreq, List.filter_filter, Bool.and_comm]
  rw [hopts]
  congr 2
  cases h6 : findOpt 6 m.opts with
  | none => rfl
  | some v =>
    simp only [Option.map_some]
    split
    · rename_i h0; simp [h0]
    · rfl

/-- **Round trip, responses** (both nonce modes: reusing the request's nonce, or an own Partial
IV).  `r` are the request identifiers the server obtained from unprotecting the request, `rc`
those the client kept when protecting it; they name the same request. -/
theorem C11_roundtrip_response (E : AEAD) {S C : Ctx} (hSC : Sends S C)
    {seq : Nat} {m : Msg} {r rc : ReqId} {P : Protected}
    (hk : rc.kid = r.kid) (hp : rc.piv = r.piv)
    (h : protect E S seq m (some r) = .ok P) :
    unprotect E C (some rc) P.outer = .ok (
      { code := m.code,
        opts := m.opts.filter (fun o => o.1 != 6),
        observe := (findOpt 6 m.opts).map (fun b => (beToNat b : Int)),
        payload := m.payload },
      rc) := by
  obtain ⟨pt, nonce, hpt, hpay, hcode, hobs, _, hrp⟩ := recv_response (B := C) hSC hk hp h
  have hd : E.dec C.recipientKey nonce (aad S.algValue r.kid r.piv) P.outer.payload = some pt := by
    rw [hpay, ← hSC.key]; exact E.correct _ _ _ _
  have hnr := (protect_response_shape h).1
  rw [unprotect_of_dec_some hrp hd (parsePlaintext_buildPlaintext hpt)]
  simp [finishUnprotect, observeResult, hnr, hobs]

-- ## The outer message reveals only what it must -------------------------------------------------

/-- **Outer message, shape.**  Whatever is protected, the outer message has a code in
{POST, FETCH, 2.04, 2.05} and carries only options out of {OSCORE, Uri-Host, Uri-Port,
Proxy-Uri, Proxy-Scheme, Observe} (this implementation in fact only ever emits OSCORE, Uri-Host
and Observe). -/
theorem C11_outer_reveals_only (E : AEAD) {A : Ctx} {seq : Nat} {m : Msg} {rid : Option ReqId}
    {P : Protected} (h : protect E A seq m rid = .ok P) :
    (P.outer.code = 2 ∨ P.outer.code = 5 ∨ P.outer.code = 68 ∨ P.outer.code = 69) ∧
    (∀ o ∈ P.outer.opts, o.1 = 9 ∨ o.1 = 3 ∨ o.1 = 6) ∧
    (∀ o ∈ P.outer.opts, o.1 = 9 ∨ o.1 = 3 ∨ o.1 = 7 ∨ o.1 = 35 ∨ o.1 = 39 ∨ o.1 = 6) := by
  have key : (P.outer.code = 2 ∨ P.outer.code = 5 ∨ P.outer.code = 68 ∨ P.outer.code = 69) ∧
      (∀ o ∈ P.outer.opts, o.1 = 9 ∨ o.1 = 3 ∨ o.1 = 6) := by
    cases rid with
    | none =>
      obtain ⟨hreq, _, _, pt, nonce, o, _, _, _, hP⟩ := protect_request_shape h
      subst hP
      refine ⟨?_, ?_⟩
      · rcases outerCode_request hreq with h | h <;> simp [h]
      · intro x hx
        rcases outerOpts_nums m o x hx with h | h | h <;> simp [h]
    | some r =>
      obtain ⟨_, _, pt, nonce, o, _, _, hP⟩ := protect_response_shape h
      rw [hP]
      refine ⟨?_, ?_⟩
      · rcases responseCode_cases r.style with h | h <;> simp [h]
      · intro x hx; simp at hx; simp [hx]
  refine ⟨key.1, key.2, ?_⟩
  intro o ho
  rcases key.2 o ho with h | h | h <;> simp [h]

/-- **Outer message, non-interference.**  Two messages that agree on the outer-visible fields
(request or response; the Uri-Host option; the Observe option) — and differ arbitrarily in
code, all other options and payload — yield, from the same context state, outer messages that
are equal apart from the ciphertext, and the same request identifiers and sequence number. -/
theorem C11_outer_noninterference (E : AEAD) {A : Ctx} {seq : Nat} {rid : Option ReqId}
    {m1 m2 : Msg} {P1 P2 : Protected}
    (hhost : findOpt 3 m1.opts = findOpt 3 m2.opts)
    (hobs : findOpt 6 m1.opts = findOpt 6 m2.opts)
    (h1 : protect E A seq m1 rid = .ok P1) (h2 : protect E A seq m2 rid = .ok P2) :
    P1.outer.code = P2.outer.code ∧ P1.outer.opts = P2.outer.opts ∧
    P1.rid = P2.rid ∧ P1.seq = P2.seq := by
  cases rid with
  | none =>
    obtain ⟨hr1, _, _, _, _, o1, _, _, hc1, hP1⟩ := protect_request_shape h1
    obtain ⟨hr2, _, _, _, _, o2, _, _, hc2, hP2⟩ := protect_request_shape h2
    rw [hc1] at hc2; cases hc2
    have hcode : outerCode m1 none = outerCode m2 none := by simp [outerCode, hr1, hr2, hobs]
    subst hP1; subst hP2
    simp [hcode, outerOpts, hr1, hr2, hhost, hobs]
  | some r =>
    obtain ⟨_, _, _, n1, o1, _, hm1, hP1⟩ := protect_response_shape h1
    obtain ⟨_, _, _, n2, o2, _, hm2, hP2⟩ := protect_response_shape h2
    rw [hP1, hP2]
    rcases hm1 with ⟨hc1, _, hk1, hs1, hr1⟩ | ⟨hc1, _, _, hk1, hs1, hr1⟩ <;>
      rcases hm2 with ⟨hc2, _, hk2, hs2, hr2⟩ | ⟨hc2, _, _, hk2, hs2, hr2⟩
    · rw [hk1] at hk2; cases hk2; simp [hs1, hs2, hr1, hr2]
    · rw [hc1] at hc2; cases hc2
    · rw [hc1] at hc2; cases hc2
    · rw [hk1] at hk2; cases hk2; simp [hs1, hs2, hr1, hr2]

/-- **Inner data only enters as AEAD plaintext.**  From the same context state, the
ciphertexts of any two messages are encryptions under the same key, the same nonce and the same
AAD (built from the context, the sequence number and the request identifiers only); code,
class-E options and payload occur in the AEAD plaintext and nowhere else. -/
theorem C11_inner_only_in_plaintext (E : AEAD) {A : Ctx} {seq : Nat} {rid : Option ReqId}
    {m1 m2 : Msg} {P1 P2 : Protected}
    (h1 : protect E A seq m1 rid = .ok P1) (h2 : protect E A seq m2 rid = .ok P2) :
    ∃ nonce pt1 pt2,
      buildPlaintext m1.code (innerOpts m1) m1.payload = some pt1 ∧
      buildPlaintext m2.code (innerOpts m2) m2.payload = some pt2 ∧
      P1.outer.payload = E.enc A.senderKey nonce (aad A.algValue P1.rid.kid P1.rid.piv) pt1 ∧
      P2.outer.payload = E.enc A.senderKey nonce (aad A.algValue P1.rid.kid P1.rid.piv) pt2 := by
  cases rid with
  | none =>
    obtain ⟨_, _, _, pt1, n1, _, hp1, hn1, _, hP1⟩ := protect_request_shape h1
    obtain ⟨_, _, _, pt2, n2, _, hp2, hn2, _, hP2⟩ := protect_request_shape h2
    rw [hn1] at hn2; cases hn2
    subst hP1; subst hP2
    exact ⟨n1, pt1, pt2, hp1, hp2, rfl, rfl⟩
  | some r =>
    obtain ⟨hr1, _, pt1, n1, _, hp1, hm1, hP1⟩ := protect_response_shape h1
    obtain ⟨hr2, _, pt2, n2, _, hp2, hm2, hP2⟩ := protect_response_shape h2
    have hi1 : innerOpts m1 = m1.opts := by simp [innerOpts, hr1]
    have hi2 : innerOpts m2 = m2.opts := by simp [innerOpts, hr2]
    rw [hi1, hi2, hP1, hP2]
    rcases hm1 with ⟨hc1, hn1, _, _, hq1⟩ | ⟨hc1, _, hn1, _, _, hq1⟩ <;>
      rcases hm2 with ⟨hc2, hn2, _⟩ | ⟨hc2, _, hn2, _⟩
    · rw [hn1] at hn2; cases hn2
      exact ⟨n1, pt1, pt2, hp1, hp2, by rw [hq1], by rw [hq1]⟩
    · rw [hc1] at hc2; cases hc2
    · rw [hc1] at hc2; cases hc2
    · rw [hn1] at hn2; cases hn2
      exact ⟨n1, pt1, pt2, hp1, hp2, by rw [hq1], by rw [hq1]⟩

-- ## Responses are bound to their request ----------------------------------------------------------

/-- **Response binding.**  A protected response verifies only together with the identifiers
(kid, Partial IV) of the request it answers: unprotecting it with the identifiers `r'` of any
other request — differing in the kid or in the Partial IV bytes — fails with a protection error
and yields no message.  (Both nonce modes.) -/
theorem C11_response_bound (E : AEAD) {S C : Ctx} (hC : C.wf) (hSC : Sends S C)
    {seq : Nat} {m : Msg} {r : ReqId} {P : Protected} (hr : r.wfFor C)
    (h : protect E S seq m (some r) = .ok P)
    (r' : ReqId) (hr' : r'.wfFor C) (hne : ¬ (r'.kid = r.kid ∧ r'.piv = r.piv)) :
    ∃ e, unprotect E C (some r') P.outer = .error e ∧ e.isProtection = true := by
  obtain ⟨_, _, pt, nonce, o, _, _, hP⟩ := protect_response_shape h
  apply unprotect_rejects (k := S.senderKey) (n := nonce) (a := aad S.algValue r.kid r.piv) (pt := pt)
    hC (by intro x hx; cases hx; exact hr')
  · rw [hP]; simp [responseCode_isResponse]
  · rw [hP]; simp [findOpt]
  · intro hx; cases hx
  · rw [hP]
  · intro rp hrp ⟨_, _, ha⟩
    obtain ⟨_, _, s, _, _, _, _, hsel, _, _, _, haad, _, _⟩ := recvParams_ok_inv hrp
    rw [haad, selectPiv_rid_some hsel, hSC.alg] at ha
    obtain ⟨e1, e2⟩ := aad_inj (wf_len_lt hC hr.1) (five_lt hr.2) (wf_len_lt hC hr'.1)
      (five_lt hr'.2) ha
    exact hne ⟨e1.symm, e2.symm⟩

-- ## Tampering is detected ---------------------------------------------------------------------

/-- **Whatever is accepted is authentic.**  If `unprotect` returns a message and request
identifiers, the payload *is* the AEAD encryption, under the recipient key, of exactly the
returned code/options/payload, with the nonce built from the selected generator id and Partial
IV, and with the AAD built from exactly the returned request identifiers.  Producing such a
ciphertext without the key is what the AEAD assumption excludes. -/
theorem C11_accepted_is_authentic (E : AEAD) {B : Ctx} {rid : Option ReqId} {o : Msg}
    {u : Unprotected} {r : ReqId} (h : unprotect E B rid o = .ok (u, r)) :
    ∃ (nonce pt : Bytes) (inner : Msg) (opt : Bytes) (hdr : Unprot) (s : Selected),
      findOpt 9 o.opts = some opt ∧ uncompress opt = some hdr ∧
      selectPiv B rid o.code hdr = .ok s ∧ s.rid = r ∧
      constructNonce B.ivBytes B.commonIv s.piv s.gen = some nonce ∧
      o.payload = E.enc B.recipientKey nonce (aad B.algValue r.kid r.piv) pt ∧
      parsePlaintext pt = some inner ∧
      u.code = inner.code ∧ u.payload = inner.payload ∧
      u.opts = inner.opts.filter (fun x => x.1 != 6) := by
  obtain ⟨rp, pt, inner, hrp, hd, hp, hu, hr⟩ := unprotect_ok_inv h
  obtain ⟨opt, hdr, s, _, hopt, hunc, _, hsel, _, _, hn, haad, hrid, _⟩ := recvParams_ok_inv hrp
  refine ⟨rp.nonce, pt, inner, opt, hdr, s, hopt, hunc, hsel, by rw [hr, hrid], hn, ?_, hp, ?_, ?_, ?_⟩
  · have := E.integrity _ _ _ _ _ hd
    rw [this, haad, hr, hrid]
  · rw [hu]; rfl
  · rw [hu]; rfl
  · rw [hu]; rfl

/-- **Tampering with the Partial IV of a request.**  Take an honestly protected request and
replace its options by any option list whose OSCORE option does not decompress to the original
Partial IV *bytes* (changed value, changed length, leading zero, removed, or not decompressible
at all) — whatever else the rewritten option says.  Unprotection fails with a protection error.
(For requests the Partial IV bytes are authenticated through the AAD, so here every change of
representation counts.) -/
theorem C11_tamper_request_piv (E : AEAD) {A B : Ctx} (hB : B.wf) (hAB : Sends A B)
    {seq : Nat} {m : Msg} {P : Protected} (h : protect E A seq m none = .ok P)
    (opts' : List Opt) (opt' : Bytes) (hopt : findOpt 9 opts' = some opt')
    (hchg : ∀ u', uncompress opt' = some u' → u'.piv ≠ some (shortPiv seq)) :
    ∃ e, unprotect E B none { P.outer with opts := opts' } = .error e ∧ e.isProtection = true := by
  obtain ⟨hreq, hseq, _, pt, nonce, o, _, _, _, hP⟩ := protect_request_shape h
  subst hP
  have hcode := outerCode_request hreq
  apply unprotect_rejects (k := A.senderKey) (n := nonce)
    (a := aad A.algValue A.senderId (shortPiv seq)) (pt := pt) hB (by intro x hx; cases hx)
  · simp [isResponse_of_post_fetch hcode]
  · simp [hopt]
  · intro _; exact hcode
  · rfl
  · intro rp hrp ⟨_, _, ha⟩
    obtain ⟨option, u', s, _, hopt', hunc, _, hsel, _, _, _, haad, _, _⟩ := recvParams_ok_inv hrp
    simp only at hopt'
    rw [hopt] at hopt'; cases hopt'
    obtain ⟨p, hp, hk, hpv, _, _⟩ := selectPiv_none_rid hsel
    rw [haad, hk, hpv, hAB.alg, hAB.id] at ha
    have hpl := (uncompress_piv_bounds hunc p hp).2
    obtain ⟨_, e2⟩ := aad_inj (wf_len_lt hB hB.rid) (five_lt (shortPiv_length hseq).2)
      (wf_len_lt hB hB.rid) (five_lt hpl) ha
    exact hchg u' hunc (by rw [hp, e2])

/-- the header an honest response carries -/
def sentResponseHeader (S : Ctx) (r : ReqId) (seq : Nat) : Unprot :=
  respUnprot S (if r.canReuse then none else some (shortPiv seq))

/-- **Tampering with the Partial IV of a response.**  Take an honestly protected response and
replace its options by any option list whose OSCORE option changes where the nonce comes from:
a Partial IV with a different *numeric value*, a Partial IV added where the request's nonce was
reused, or removed where the responder used its own (`nonceSource`: generator id and number).
Unprotection fails with a protection error.  What is deliberately *not* covered: a response
Partial IV with leading zero bytes has the same value and is not authenticated (RFC 8613 puts
only the request's Partial IV into the AAD) — see `C11_response_piv_leading_zero_accepted`. -/
theorem C11_tamper_response_piv (E : AEAD) {S C : Ctx} (hC : C.wf) (hSC : Sends S C)
    {seq : Nat} {m : Msg} {r rc : ReqId} {P : Protected}
    (hk : rc.kid = r.kid) (hp : rc.piv = r.piv) (hrc : rc.wfFor C)
    (h : protect E S seq m (some r) = .ok P)
    (opts' : List Opt) (opt' : Bytes) (hopt : findOpt 9 opts' = some opt')
    (hchg : ∀ u', uncompress opt' = some u' →
      nonceSource C rc u' ≠ nonceSource C rc (sentResponseHeader S r seq)) :
    ∃ e, unprotect E C (some rc) { P.outer with opts := opts' } = .error e ∧
      e.isProtection = true := by
  obtain ⟨_, _, pt, nonce, o, _, hmode, hP⟩ := protect_response_shape h
  apply unprotect_rejects (k := S.senderKey) (n := nonce) (a := aad S.algValue r.kid r.piv)
    (pt := pt) hC (by intro x hx; cases hx; exact hrc)
  · rw [hP]; simp [responseCode_isResponse]
  · simp [hopt]
  · intro hx; cases hx
  · rw [hP]
  · intro rp hrp ⟨_, hn, _⟩
    obtain ⟨option, u', s, _, hopt', hunc, _, hsel, _, _, hnonce, _, _, _⟩ := recvParams_ok_inv hrp
    simp only at hopt'
    rw [hopt] at hopt'; cases hopt'
    have hb := selectPiv_bounds hC (by intro x hx; cases hx; exact hrc) hunc hsel
    have hsrc := selectPiv_source hsel
    rw [← hn] at hnonce
    apply hchg u' hunc
    rw [← hsrc]
    rcases hmode with ⟨hcr, hn0, _⟩ | ⟨hcr, hseq, hn0, _⟩
    · -- the sender reused the request's nonce
      rw [hSC.iv, hSC.civ, ← hk, ← hp] at hn0
      obtain ⟨e1, e2⟩ := constructNonce_inj hC.ivLo hb.1 hb.2.1 hrc.1 hrc.2 hnonce hn0
      simp only [sentResponseHeader, hcr, if_true, nonceSource, respUnprot]
      rw [e1, ← beToNat_padPiv s.piv, e2, beToNat_padPiv]
    · -- the sender used its own sequence number
      rw [hSC.iv, hSC.civ, hSC.id] at hn0
      obtain ⟨e1, e2⟩ := constructNonce_inj hC.ivLo hb.1 hb.2.1 hC.rid
        (by rw [natToBE_length]; omega) hnonce hn0
      simp only [sentResponseHeader, hcr, nonceSource, respUnprot]
      simp only [Bool.false_eq_true, if_false]
      have : seq < 256 ^ 5 := by simp [maxSeqno] at hseq; omega
      rw [e1, ← beToNat_padPiv s.piv, e2, padPiv_full (natToBE_length 5 seq), beToNat_shortPiv,
        beToNat_natToBE, Nat.mod_eq_of_lt this]

/-- **Tampering with the KID.**  Any message — authentic or not — whose OSCORE option carries a
KID different from the recipient's `recipient_id` is refused with a protection error before any
cryptography. -/
theorem C11_tamper_kid (E : AEAD) {B : Ctx} {rid : Option ReqId} {o : Msg} {opt : Bytes}
    {u : Unprot} {k : Bytes} (hcode : rid.isSome = isResponse o.code)
    (hopt : findOpt 9 o.opts = some opt) (hu : uncompress opt = some u)
    (hk : u.kid = some k) (hne : k ≠ B.recipientId) :
    unprotect E B rid o = .error .protectionInvalid := by
  apply unprotect_of_recv_error
  have : idsAcceptable B u = false := by
    simp only [idsAcceptable, hk]
    have : (k == B.recipientId) = false := by simpa using hne
    simp [this]
  simp [recvParams, hcode, hopt, hu, this]

/-- **Tampering with the ID context.**  Any message whose OSCORE option carries a KID context
different from the recipient's ID context (including a recipient without one) is refused with
a protection error before any cryptography. -/
theorem C11_tamper_idcontext (E : AEAD) {B : Ctx} {rid : Option ReqId} {o : Msg} {opt : Bytes}
    {u : Unprot} {c : Bytes} (hcode : rid.isSome = isResponse o.code)
    (hopt : findOpt 9 o.opts = some opt) (hu : uncompress opt = some u)
    (hc : u.kidContext = some c) (hne : B.idContext ≠ some c) :
    unprotect E B rid o = .error .protectionInvalid := by
  apply unprotect_of_recv_error
  have : idsAcceptable B u = false := by
    simp only [idsAcceptable, hc]
    have : (some c == B.idContext) = false := by
      simp only [beq_eq_false_iff_ne, ne_eq]
      intro e; exact hne e.symm
    simp [this]
  simp [recvParams, hcode, hopt, hu, this]

/-- **Verification with another context's key, requests.**  The matching recipient context with
any other recipient key refuses an honest request with a protection error. -/
theorem C11_tamper_request_other_key (E : AEAD) {A B : Ctx} (hA : A.wf) (hAB : Sends A B)
    {seq : Nat} {m : Msg} {P : Protected} (h : protect E A seq m none = .ok P)
    (k' : Bytes) (hk' : k' ≠ A.senderKey) :
    unprotect E { B with recipientKey := k' } none P.outer = .error .protectionInvalid := by
  obtain ⟨pt, nonce, _, _, hpay, _, hrp⟩ := recv_request (B := B) hA hAB h
  rw [← recvParams_key_irrel E.tagBytes B k'] at hrp
  apply unprotect_of_dec_none hrp
  rw [hpay]
  apply E.dec_other
  intro ⟨e, _, _⟩
  exact hk' e.symm

/-- **Verification with another context's key, responses.** -/
theorem C11_tamper_response_other_key (E : AEAD) {S C : Ctx} (hSC : Sends S C)
    {seq : Nat} {m : Msg} {r rc : ReqId} {P : Protected}
    (hk : rc.kid = r.kid) (hp : rc.piv = r.piv)
    (h : protect E S seq m (some r) = .ok P) (k' : Bytes) (hk' : k' ≠ S.senderKey) :
    unprotect E { C with recipientKey := k' } (some rc) P.outer = .error .protectionInvalid := by
  obtain ⟨pt, nonce, _, hpay, _, _, _, hrp⟩ := recv_response (B := C) hSC hk hp h
  rw [← recvParams_key_irrel E.tagBytes C k'] at hrp
  apply unprotect_of_dec_none hrp
  rw [hpay]
  apply E.dec_other
  intro ⟨e, _, _⟩
  exact hk' e.symm

/-
**Tampering with the ciphertext — full statement (not provable, and false of model and code
alike):**

    ∀ c' ≠ P.outer.payload, unprotect E B rid { P.outer with payload := c' } is a protection error

It fails for every AEAD with more than one plaintext: `c' = E.enc key nonce aad pt'` for another
plaintext `pt'` is a perfectly valid ciphertext under the same key, nonce and AAD and is accepted
(witness: `C11_reencryption_accepted` below).  What an attacker cannot do is *produce* such a
`c'` without the key — a computational statement about the AEAD that is not an equation of the
model.  Proved instead: every changed ciphertext that is not itself an encryption under the
recipient's key, the honest nonce and the honest AAD is rejected.
-/

/-- **Tampering with the ciphertext, requests** (`_partial`: see the comment above). -/
theorem C11_tamper_request_ciphertext_partial (E : AEAD) {A B : Ctx} (hA : A.wf)
    (hAB : Sends A B) {seq : Nat} {m : Msg} {P : Protected}
    (h : protect E A seq m none = .ok P) (c' : Bytes)
    (hforge : ∀ nonce pt', constructNonce A.ivBytes A.commonIv (natToBE 5 seq) A.senderId = some nonce →
      c' ≠ E.enc A.senderKey nonce (aad A.algValue A.senderId (shortPiv seq)) pt') :
    unprotect E B none { P.outer with payload := c' } = .error .protectionInvalid := by
  obtain ⟨pt, nonce, _, hn, _, _, hrp⟩ := recv_request (B := B) hA hAB h
  rcases recvParams_payload_irrel (c := c') hrp with h1 | h1
  · apply unprotect_of_dec_none h1
    cases hd : E.dec B.recipientKey nonce (aad A.algValue A.senderId (shortPiv seq)) c' with
    | none => rfl
    | some p' =>
      have := E.integrity _ _ _ _ _ hd
      rw [← hAB.key] at this
      exact absurd this (hforge nonce p' hn)
  · exact unprotect_of_recv_error h1

/-- **Tampering with the ciphertext, responses** (`_partial`: see the comment above). -/
theorem C11_tamper_response_ciphertext_partial (E : AEAD) {S C : Ctx} (hSC : Sends S C)
    {seq : Nat} {m : Msg} {r rc : ReqId} {P : Protected}
    (hk : rc.kid = r.kid) (hp : rc.piv = r.piv)
    (h : protect E S seq m (some r) = .ok P) (c' : Bytes)
    (hforge : ∀ nonce pt', c' ≠ E.enc S.senderKey nonce (aad S.algValue r.kid r.piv) pt') :
    unprotect E C (some rc) { P.outer with payload := c' } = .error .protectionInvalid := by
  obtain ⟨pt, nonce, _, _, _, _, _, hrp⟩ := recv_response (B := C) hSC hk hp h
  rcases recvParams_payload_irrel (c := c') hrp with h1 | h1
  · apply unprotect_of_dec_none h1
    cases hd : E.dec C.recipientKey nonce (aad S.algValue r.kid r.piv) c' with
    | none => rfl
    | some p' =>
      have := E.integrity _ _ _ _ _ hd
      rw [← hSC.key] at this
      exact absurd this (hforge nonce p')
  · exact unprotect_of_recv_error h1

/-- Witness that the full ciphertext clause is false: a re-encryption of any other well-formed
plaintext under the same key, nonce and AAD — something only a key holder can produce — is a
changed ciphertext that is accepted. -/
theorem C11_reencryption_accepted (E : AEAD) {A B : Ctx} (hA : A.wf) (hAB : Sends A B)
    {seq : Nat} {m : Msg} {P : Protected} (h : protect E A seq m none = .ok P)
    {nonce pt' : Bytes} {inner' : Msg}
    (hn : constructNonce A.ivBytes A.commonIv (natToBE 5 seq) A.senderId = some nonce)
    (hp : parsePlaintext pt' = some inner') :
    ∃ u r,
      unprotect E B none
        { P.outer with
          payload := E.enc A.senderKey nonce (aad A.algValue A.senderId (shortPiv seq)) pt' } =
        .ok (u, r) ∧
      u.code = inner'.code ∧ u.payload = inner'.payload := by
  obtain ⟨pt, nonce0, _, hn0, _, _, hrp⟩ := recv_request (B := B) hA hAB h
  rw [hn] at hn0; cases hn0
  have hl : E.tagBytes + 1 ≤
      (E.enc A.senderKey nonce (aad A.algValue A.senderId (shortPiv seq)) pt').length := by
    have := E.tagLen A.senderKey nonce (aad A.algValue A.senderId (shortPiv seq)) pt'
    have := parsePlaintext_ne_nil hp
    omega
  have hrp' := recvParams_payload_long hrp hl
  have hd : E.dec B.recipientKey nonce (aad A.algValue A.senderId (shortPiv seq))
      (E.enc A.senderKey nonce (aad A.algValue A.senderId (shortPiv seq)) pt') = some pt' := by
    rw [← hAB.key]; exact E.correct _ _ _ _
  exact ⟨_, _, unprotect_of_dec_some hrp' hd hp, rfl, rfl⟩

-- ## What is *not* a change of value (and is accepted, by the code as by the model) --------------

/-- A response Partial IV with a leading zero byte has the same numeric value; only the
request's Partial IV is in the AAD (RFC 8613 §5.4), so the rewritten response is still accepted
and yields the same message.  This is the boundary of `C11_tamper_response_piv`. -/
theorem C11_response_piv_leading_zero_accepted (E : AEAD) {S C : Ctx} (hSC : Sends S C)
    {seq : Nat} {m : Msg} {r rc : ReqId} {P : Protected}
    (hk : rc.kid = r.kid) (hp : rc.piv = r.piv) (hown : r.canReuse = false)
    (hshort : (shortPiv seq).length < 5)
    (h : protect E S seq m (some r) = .ok P)
    (opts' : List Opt) (opt' : Bytes) (hopt : findOpt 9 opts' = some opt')
    (hobs : findOpt 6 opts' = none)
    (hu : uncompress opt' = some (respUnprot S (some (0 :: shortPiv seq)))) :
    unprotect E C (some rc) { P.outer with opts := opts' } = .ok (
      { code := m.code,
        opts := m.opts.filter (fun o => o.1 != 6),
        observe := (findOpt 6 m.opts).map (fun b => (beToNat b : Int)),
        payload := m.payload },
      rc) := by
  obtain ⟨pt, nonce, hpt, hpay, hcode, _, hmode, hrp⟩ := recv_response (B := C) hSC hk hp h
  obtain ⟨_, _, _, _, _, _, _, _, _, hlen, _⟩ := recvParams_ok_inv hrp
  have hn0 : constructNonce C.ivBytes C.commonIv (0 :: shortPiv seq) C.recipientId = some nonce := by
    rcases hmode with ⟨hcr, _⟩ | ⟨_, _, hn1⟩
    · rw [hown] at hcr; cases hcr
    · rw [constructNonce_padPiv_congr (padPiv_zero_cons hshort)]; exact hn1
  have hsel : selectPiv C (some rc) P.outer.code (respUnprot S (some (0 :: shortPiv seq))) =
      .ok { piv := 0 :: shortPiv seq, gen := C.recipientId,
            seqno := some (beToNat (0 :: shortPiv seq)), rid := rc } := by
    simp [selectPiv]
  have hrp' := recvParams_of_fields (tb := E.tagBytes) (B := C) (rid := some rc)
    (o := { P.outer with opts := opts' })
    (by simp [hcode, responseCode_isResponse]) hopt hu (idsAcceptable_resp hSC _) hsel rfl hlen hn0
  have hd : E.dec C.recipientKey nonce (aad C.algValue rc.kid rc.piv) P.outer.payload = some pt := by
    rw [hpay, ← hSC.key, ← hSC.alg, hk, hp]; exact E.correct _ _ _ _
  have hnr := (protect_response_shape h).1
  rw [unprotect_of_dec_some hrp' hd (parsePlaintext_buildPlaintext hpt)]
  simp [finishUnprotect, observeResult, hnr, hobs]

/-- A request whose (redundant) KID and KID context were stripped from the OSCORE option is
still accepted by the context it is handed to, and yields the same message: absent fields are
not checked (`unprotected.pop(COSE_KID, self.recipient_id)`), and neither is in the AAD. -/
theorem C11_request_without_kid_accepted (E : AEAD) {A B : Ctx} (hA : A.wf) (hAB : Sends A B)
    {seq : Nat} {m : Msg} {P : Protected} (h : protect E A seq m none = .ok P)
    (opts' : List Opt) (opt' : Bytes) (hopt : findOpt 9 opts' = some opt')
    (hobs : findOpt 6 opts' = findOpt 6 m.opts)
    (hu : uncompress opt' =
      some { piv := some (shortPiv seq), kid := none, kidContext := none, group := false }) :
    unprotect E B none { P.outer with opts := opts' } = unprotect E B none P.outer := by
  obtain ⟨pt, nonce, hpt, hn, hpay, hobs0, hrp⟩ := recv_request (B := B) hA hAB h
  obtain ⟨hreq, hseq, _⟩ := protect_request_shape h
  obtain ⟨_, _, _, hcode0, _, _, _, _, _, hlen, _⟩ := recvParams_ok_inv hrp
  have hcode : P.outer.code = 2 ∨ P.outer.code = 5 := by
    obtain ⟨_, _, _, _, _, _, _, _, _, hP⟩ := protect_request_shape h
    rw [hP]; exact outerCode_request hreq
  have hn' : constructNonce B.ivBytes B.commonIv (shortPiv seq) B.recipientId = some nonce := by
    rw [← hAB.iv, ← hAB.civ, ← hAB.id, constructNonce_shortPiv hseq]; exact hn
  have hsel : selectPiv B none P.outer.code
      { piv := some (shortPiv seq), kid := none, kidContext := none, group := false } =
      .ok { piv := shortPiv seq, gen := B.recipientId, seqno := some (beToNat (shortPiv seq)),
            rid := { kid := B.recipientId, piv := shortPiv seq, canReuse := true,
                     style := P.outer.code } } := by
    simp [selectPiv, hcode]
  have hrp' := recvParams_of_fields (tb := E.tagBytes) (B := B) (rid := none)
    (o := { P.outer with opts := opts' }) (by simpa using hcode0) hopt hu
    (by simp [idsAcceptable]) hsel rfl hlen hn'
  have hd : E.dec B.recipientKey nonce (aad A.algValue A.senderId (shortPiv seq)) P.outer.payload
      = some pt := by rw [hpay, ← hAB.key]; exact E.correct _ _ _ _
  have hd' : E.dec B.recipientKey nonce (aad B.algValue B.recipientId (shortPiv seq))
      P.outer.payload = some pt := by rw [← hAB.alg, ← hAB.id]; exact hd
  rw [unprotect_of_dec_some hrp' hd' (parsePlaintext_buildPlaintext hpt),
    unprotect_of_dec_some hrp hd (parsePlaintext_buildPlaintext hpt)]
  simp [finishUnprotect, hobs, hobs0, hAB.id, beToNat_shortPiv]

-- ## Non-vacuity: the hypotheses are satisfiable, and the model computes ------------------------

/-- the AEAD laws have a model (the instance the harness runs the real code with) -/
example : AEAD := transparentAead

def exA : Ctx :=
  { algValue := 10, ivBytes := 13, senderId := [1], recipientId := [2, 3], idContext := some [55],
    senderKey := [11, 12], recipientKey := [21, 22],
    commonIv := [0, 1, 2, 3, 4, 5, 6, 7, 8, 9, 10, 11, 12], responsesSendKid := false }
def exB : Ctx :=
  { exA with senderId := [2, 3], recipientId := [1], senderKey := [21, 22], recipientKey := [11, 12] }
/-- GET with Uri-Host, Observe: 0, Uri-Port, Uri-Path, Content-Format and a payload -/
def exMsg : Msg :=
  { code := 1, opts := [(3, [104]), (6, []), (7, [22, 51]), (11, [97, 98]), (12, [50])],
    payload := [1, 2, 3] }
def exResp : Msg := { code := 69, opts := [(12, [0])], payload := [104, 105] }

def okOf {α : Type} : Except Err α → Option α
  | .ok a => some a
  | .error _ => none
def errOf {α : Type} : Except Err α → Option Err
  | .ok _ => none
  | .error e => some e

example : exA.wf :=
  ⟨by decide, by decide, by decide, by decide, by decide, by intro c h; cases h; decide⟩
example : exB.wf :=
  ⟨by decide, by decide, by decide, by decide, by decide, by intro c h; cases h; decide⟩
example : Sends exA exB ∧ Sends exB exA :=
  ⟨⟨rfl, rfl, rfl, rfl, rfl, rfl⟩, ⟨rfl, rfl, rfl, rfl, rfl, rfl⟩⟩
example : (reqUnprot exA 300).sendable := reqUnprot_sendable
  ⟨by decide, by decide, by decide, by decide, by decide, by intro c h; cases h; decide⟩ (by decide)

/-- the protected request: FETCH, only Uri-Host / Observe / OSCORE outside (Uri-Port is dropped
by this implementation), option `1a 012c 01 37 01` = n=2,k,h ‖ PIV 300 ‖ ctx ‖ kid -/
def exProtected : Option Protected := okOf (protect transparentAead exA 300 exMsg none)

example : exProtected.map (fun P => (P.outer.code, P.outer.opts, P.rid, P.seq)) =
    some (5, [(3, [104]), (6, []), (9, [26, 1, 44, 1, 55, 1])],
      { kid := [1], piv := [1, 44], canReuse := false, style := 5 }, 301) := by decide +kernel

/-- round trip on the concrete request: Uri-Host/Uri-Port stay outside, Observe 0 is kept -/
example : (exProtected.bind fun P => okOf (unprotect transparentAead exB none P.outer)) =
    some ({ code := 1, opts := [(11, [97, 98]), (12, [50])], observe := some 0,
            payload := [1, 2, 3] },
          { kid := [1], piv := [1, 44], canReuse := true, style := 5 }) := by decide +kernel

def exRs : ReqId := { kid := [1], piv := [1, 44], canReuse := true, style := 5 }
def exRc : ReqId := { kid := [1], piv := [1, 44], canReuse := false, style := 5 }
def exRx : ReqId := { kid := [1], piv := [1, 45], canReuse := false, style := 5 }
def exFirst : Option Protected := okOf (protect transparentAead exB 7 exResp (some exRs))
def exLater : Option Protected := okOf (protect transparentAead exB 7 exResp (some exRc))

/-- a response reusing the request nonce has an empty OSCORE option and consumes no sequence
number; a later one carries its own Partial IV -/
example :
    exFirst.map (fun P => (P.outer.code, P.outer.opts, P.seq)) = some (69, [(9, [])], 7) ∧
    exLater.map (fun P => (P.outer.code, P.outer.opts, P.seq)) = some (69, [(9, [1, 7])], 8) := by
  decide +kernel

/-- both come back at the client … -/
example :
    (exFirst.bind fun P => okOf (unprotect transparentAead exA (some exRc) P.outer)) =
      some ({ code := 69, opts := [(12, [0])], observe := none, payload := [104, 105] }, exRc) ∧
    (exLater.bind fun P => okOf (unprotect transparentAead exA (some exRc) P.outer)) =
      some ({ code := 69, opts := [(12, [0])], observe := none, payload := [104, 105] }, exRc) := by
  decide +kernel

/-- … but not with the identifiers of request 301 instead of request 300 -/
example :
    (exFirst.bind fun P => errOf (unprotect transparentAead exA (some exRx) P.outer)) =
      some .protectionInvalid ∧
    (exLater.bind fun P => errOf (unprotect transparentAead exA (some exRx) P.outer)) =
      some .protectionInvalid := by decide +kernel

/-- manipulated OSCORE options on the concrete request: PIV 301 instead of 300, wrong KID,
wrong ID context, a lone context-hint flag, a reserved Partial-IV length, the group flag -/
example :
    (exProtected.bind fun P => errOf (unprotect transparentAead exB none
      { P.outer with opts := [(9, [26, 1, 45, 1, 55, 1])] })) = some .protectionInvalid ∧
    (exProtected.bind fun P => errOf (unprotect transparentAead exB none
      { P.outer with opts := [(9, [26, 1, 44, 1, 55, 9])] })) = some .protectionInvalid ∧
    (exProtected.bind fun P => errOf (unprotect transparentAead exB none
      { P.outer with opts := [(9, [26, 1, 44, 1, 56, 1])] })) = some .protectionInvalid ∧
    (exProtected.bind fun P => errOf (unprotect transparentAead exB none
      { P.outer with opts := [(9, [16])] })) = some .decodeError ∧
    (exProtected.bind fun P => errOf (unprotect transparentAead exB none
      { P.outer with opts := [(9, [14, 0, 0, 0, 0, 1, 44, 1])] })) = some .decodeError ∧
    (exProtected.bind fun P => errOf (unprotect transparentAead exB none
      { P.outer with opts := [(9, [58, 1, 44, 1, 55, 1])] })) = some .decodeError ∧
    (exProtected.bind fun P => okOf (unprotect transparentAead exB none
      { P.outer with opts := [(6, []), (9, [2, 1, 44])] })).isSome = true := by decide +kernel

/-- the model reproduces the published values of RFC 8613 appendix C.4 (request, client with
empty sender id, sequence number 20): external AAD, Encrypt0 AAD, nonce, OSCORE option — and the
option of C.6 (ID context `37cbf3210017a2d3`) -/
example :
    externalAad 10 [] [0x14] = [0x85, 0x01, 0x81, 0x0a, 0x40, 0x41, 0x14, 0x40] ∧
    aad 10 [] [0x14] = [0x83, 0x68, 0x45, 0x6e, 0x63, 0x72, 0x79, 0x70, 0x74, 0x30, 0x40, 0x48,
      0x85, 0x01, 0x81, 0x0a, 0x40, 0x41, 0x14, 0x40] ∧
    constructNonce 13 [0x46, 0x22, 0xd4, 0xdd, 0x6d, 0x94, 0x41, 0x68, 0xee, 0xfb, 0x54, 0x98, 0x7c]
      [0x14] [] =
      some [0x46, 0x22, 0xd4, 0xdd, 0x6d, 0x94, 0x41, 0x68, 0xee, 0xfb, 0x54, 0x98, 0x68] ∧
    compress { piv := some [0x14], kid := some [], kidContext := none, group := false } =
      some [0x09, 0x14] ∧
    compress { piv := some [0x14], kid := some [],
               kidContext := some [0x37, 0xcb, 0xf3, 0x21, 0x00, 0x17, 0xa2, 0xd3], group := false } =
      some [0x19, 0x14, 0x08, 0x37, 0xcb, 0xf3, 0x21, 0x00, 0x17, 0xa2, 0xd3] := by decide +kernel

/-- the confirmed defects, in the model of the fixed code: a context-hint flag without its length
byte, a reserved Partial-IV length, are decode errors -/
example : uncompress [0x10] = none ∧ uncompress [0x11, 0x01] = none ∧
    uncompress [0x0e, 0, 0, 0, 0, 0, 0, 0x6b] = none ∧
    uncompress [0x19, 0x14, 0x01, 0x37, 0x01] =
      some { piv := some [0x14], kid := some [1], kidContext := some [0x37], group := false } := by
  decide +kernel

/-- the hypothesis of the `_partial` ciphertext clauses is satisfiable: a ciphertext with one
flipped bit is not an encryption of anything under the same key, nonce and AAD -/
example : ∀ pt', (tEnc [11, 12] [7] [8] [1, 2, 3]).set 3 13 ≠ transparentAead.enc [11, 12] [7] [8] pt' := by
  intro pt' h
  have hc := transparentAead.correct [11, 12] [7] [8] pt'
  rw [← h] at hc
  have hnone : transparentAead.dec [11, 12] [7] [8] ((tEnc [11, 12] [7] [8] [1, 2, 3]).set 3 13) = none := by
    decide +kernel
  rw [hnone] at hc
  cases hc

/-- … while a re-encryption of another plaintext is a *different* ciphertext that is accepted
(the witness against the unrestricted ciphertext clause) -/
example : tEnc [11, 12] [7] [8] [1, 2, 4] ≠ tEnc [11, 12] [7] [8] [1, 2, 3] ∧
    transparentAead.dec [11, 12] [7] [8] (tEnc [11, 12] [7] [8] [1, 2, 4]) = some [1, 2, 4] := by
  decide +kernel

end Aiocoap.Oscore.Prot
