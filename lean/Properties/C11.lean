import Proofs.Oscore.ProtTamper
/-!
# C11 — OSCORE: round trip, inner data hidden, responses bound, tampering detected

Model: `AiocoapModel/Oscore/{Cbor,Compress,Nonce,Aad,Aead,Inner,Protect}.lean` (`protect`,
`unprotect` and the helpers the driver runs).  The AEAD is a parameter `E : AEAD`; its laws
(`correct`, `integrity`, `binding`, `tagLen`) are the cryptographic assumptions and are
satisfied by the concrete `transparentAead`, so no statement is vacuous.

All theorems quantify over every message (code, option list, payload), every pair of admissible
matching contexts (`Ctx.wf`, `Sends`), every sender sequence number the sender accepts, and —
for the tamper clauses — every rewritten OSCORE option / foreign request identifiers / key.
Only property theorems and non-vacuity examples live in this file.
-/
namespace Aiocoap.Oscore.Prot

-- ## Compressed COSE object and nonce ----------------------------------------------------------

/-- **compress/uncompress round trip.**  Every header `protect` can produce (Partial IV of 1–5
bytes or none, KID or none, KID context of at most 255 bytes or none, with or without the group
flag) is encoded by `_compress` and decoded back to itself by `_uncompress`. -/
theorem C11_compress_roundtrip (u : Unprot) (hu : u.sendable) :
    ∃ o, compress u = some o ∧ uncompress o = some u :=
  uncompress_compress u hu

/-- **nonce injectivity.**  For a fixed common IV and nonce length, admissible (generator id,
Partial IV) pairs with the same nonce have the same id and numerically the same Partial IV —
for Partial IVs of equal length, the same bytes. -/
theorem C11_nonce_injective {iv : Nat} {civ piv id piv' id' n : Bytes} (hiv : 6 ≤ iv)
    (hid : id.length ≤ iv - 6) (hp : piv.length ≤ 5)
    (hid' : id'.length ≤ iv - 6) (hp' : piv'.length ≤ 5)
    (h : constructNonce iv civ piv id = some n) (h' : constructNonce iv civ piv' id' = some n) :
    id = id' ∧ beToNat piv = beToNat piv' ∧ (piv.length = piv'.length → piv = piv') := by
  obtain ⟨h1, h2⟩ := constructNonce_inj hiv hid hp hid' hp' h h'
  refine ⟨h1, ?_, ?_⟩
  · rw [← beToNat_padPiv piv, ← beToNat_padPiv piv', h2]
  · intro hl
    simp only [padPiv, hl] at h2
    exact List.append_cancel_left h2

-- ## Round trip --------------------------------------------------------------------------------

/-- **Round trip, requests.**  For matching contexts, unprotecting a protected request yields
the original code, the original options except the class-U ones `_split_message` keeps outside
(Uri-Host, Uri-Port, Proxy-Uri, Proxy-Scheme), and the original payload.  Observe is reported
separately: it survives exactly when it is a registration (value 0), as RFC 8613 §4.1.3.5.1
prescribes.  The request identifiers the server keeps are the client's sender id and Partial
IV. -/
theorem C11_roundtrip_request (E : AEAD) {A B : Ctx} (hA : A.wf) (hAB : Sends A B)
    {seq : Nat} {m : Msg} {P : Protected} (h : protect E A seq m none = .ok P) :
    unprotect E B none P.outer = .ok (
      { code := m.code,
        opts := m.opts.filter (fun o => !isOuterOnly o.1 && o.1 != 6),
        observe := (match findOpt 6 m.opts with
          | some v => if beToNat v = 0 then some 0 else none
          | none => none),
        payload := m.payload },
      { kid := A.senderId, piv := shortPiv seq, canReuse := true, style := P.outer.code }) := by
  obtain ⟨pt, nonce, hpt, _, hpay, hobs, hrp⟩ := recv_request (B := B) hA hAB h
  have hreq := (protect_request_shape h).1
  have hd : E.dec B.recipientKey nonce (aad A.algValue A.senderId (shortPiv seq)) P.outer.payload
      = some pt := by rw [hpay, ← hAB.key]; exact E.correct _ _ _ _
  rw [unprotect_of_dec_some hrp hd (parsePlaintext_buildPlaintext hpt)]
  simp only [finishUnprotect, observeResult, hreq, if_true, hobs, findOpt_innerOpts_6]
  have hopts : List.filter (fun x => x.1 != 6) (innerOpts m) =
      m.opts.filter (fun o => !isOuterOnly o.1 && o.1 != 6) := by
    simp [innerOpts, hreq, List.filter_filter, Bool.and_comm]
  rw [hopts]
  congr 2
  cases h6 : findOpt 6 m.opts with
  | none => rfl
  | some v =>
    simp only [Option.map_some]
    split
    · rename_i h0; simp [h0]
    · rfl

/-- **Round trip, responses** (both nonce modes: reusing the request's nonce, or an own Partial
IV).  `r` are the request identifiers the server obtained from unprotecting the request, `rc`
those the client kept when protecting it; they name the same request. -/
theorem C11_roundtrip_response (E : AEAD) {S C : Ctx} (hSC : Sends S C)
    {seq : Nat} {m : Msg} {r rc : ReqId} {P : Protected}
    (hk : rc.kid = r.kid) (hp : rc.piv = r.piv)
    (h : protect E S seq m (some r) = .ok P) :
    unprotect E C (some rc) P.outer = .ok (
      { code := m.code,
        opts := m.opts.filter (fun o => o.1 != 6),
        observe := (findOpt 6 m.opts).map (fun b => (beToNat b : Int)),
        payload := m.payload },
      rc) := by
  obtain ⟨pt, nonce, hpt, hpay, hcode, hobs, _, hrp⟩ := recv_response (B := C) hSC hk hp h
  have hd : E.dec C.recipientKey nonce (aad S.algValue r.kid r.piv) P.outer.payload = some pt := by
    rw [hpay, ← hSC.key]; exact E.correct _ _ _ _
  have hnr := (protect_response_shape h).1
  rw [unprotect_of_dec_some hrp hd (parsePlaintext_buildPlaintext hpt)]
  simp [finishUnprotect, observeResult, hnr, hobs]

-- ## The outer message reveals only what it must -------------------------------------------------

/-- **Outer message, shape.**  Whatever is protected, the outer message has a code in
{POST, FETCH, 2.04, 2.05} and carries only options out of {OSCORE, Uri-Host, Uri-Port,
Proxy-Uri, Proxy-Scheme, Observe} (this implementation in fact only ever emits OSCORE, Uri-Host
and Observe). -/
theorem C11_outer_reveals_only (E : AEAD) {A : Ctx} {seq : Nat} {m : Msg} {rid : Option ReqId}
    {P : Protected} (h : protect E A seq m rid = .ok P) :
    (P.outer.code = 2 ∨ P.outer.code = 5 ∨ P.outer.code = 68 ∨ P.outer.code = 69) ∧
    (∀ o ∈ P.outer.opts, o.1 = 9 ∨ o.1 = 3 ∨ o.1 = 6) ∧
    (∀ o ∈ P.outer.opts, o.1 = 9 ∨ o.1 = 3 ∨ o.1 = 7 ∨ o.1 = 35 ∨ o.1 = 39 ∨ o.1 = 6) := by
  have key : (P.outer.code = 2 ∨ P.outer.code = 5 ∨ P.outer.code = 68 ∨ P.outer.code = 69) ∧
      (∀ o ∈ P.outer.opts, o.1 = 9 ∨ o.1 = 3 ∨ o.1 = 6) := by
    cases rid with
    | none =>
      obtain ⟨hreq, _, _, pt, nonce, o, _, _, _, hP⟩ := protect_request_shape h
      subst hP
      refine ⟨?_, ?_⟩
      · rcases outerCode_request hreq with h | h <;> simp [h]
      · intro x hx
        rcases outerOpts_nums m o x hx with h | h | h <;> simp [h]
    | some r =>
      obtain ⟨_, _, pt, nonce, o, _, _, hP⟩ := protect_response_shape h
      rw [hP]
      refine ⟨?_, ?_⟩
      · rcases responseCode_cases r.style with h | h <;> simp [h]
      · intro x hx; simp at hx; simp [hx]
  refine ⟨key.1, key.2, ?_⟩
  intro o ho
  rcases key.2 o ho with h | h | h <;> simp [h]

/-- **Outer message, non-interference.**  Two messages that agree on the outer-visible fields
(request or response; the Uri-Host option; the Observe option) — and differ arbitrarily in
code, all other options and payload — yield, from the same context state, outer messages that
are equal apart from the ciphertext, and the same request identifiers and sequence number. -/
theorem C11_outer_noninterference (E : AEAD) {A : Ctx} {seq : Nat} {rid : Option ReqId}
    {m1 m2 : Msg} {P1 P2 : Protected}
    (hhost : findOpt 3 m1.opts = findOpt 3 m2.opts)
    (hobs : findOpt 6 m1.opts = findOpt 6 m2.opts)
    (h1 : protect E A seq m1 rid = .ok P1) (h2 : protect E A seq m2 rid = .ok P2) :
    P1.outer.code = P2.outer.code ∧ P1.outer.opts = P2.outer.opts ∧
    P1.rid = P2.rid ∧ P1.seq = P2.seq := by
  cases rid with
  | none =>
    obtain ⟨hr1, _, _, _, _, o1, _, _, hc1, hP1⟩ := protect_request_shape h1
    obtain ⟨hr2, _, _, _, _, o2, _, _, hc2, hP2⟩ := protect_request_shape h2
    rw [hc1] at hc2; cases hc2
    have hcode : outerCode m1 none = outerCode m2 none := by simp [outerCode, hr1, hr2, hobs]
    subst hP1; subst hP2
    simp [hcode, outerOpts, hr1, hr2, hhost, hobs]
  | some r =>
    obtain ⟨_, _, _, n1, o1, _, hm1, hP1⟩ := protect_response_shape h1
    obtain ⟨_, _, _, n2, o2, _, hm2, hP2⟩ := protect_response_shape h2
    rw [hP1, hP2]
    rcases hm1 with ⟨hc1, _, hk1, hs1, hr1⟩ | ⟨hc1, _, _, hk1, hs1, hr1⟩ <;>
      rcases hm2 with ⟨hc2, _, hk2, hs2, hr2⟩ | ⟨hc2, _, _, hk2, hs2, hr2⟩
    · rw [hk1] at hk2; cases hk2; simp [hs1, hs2, hr1, hr2]
    · rw [hc1] at hc2; cases hc2
    · rw [hc1] at hc2; cases hc2
    · rw [hk1] at hk2; cases hk2; simp [hs1, hs2, hr1, hr2]

/-- **Inner data only enters as AEAD plaintext.**  From the same context state, the
ciphertexts of any two messages are encryptions under the same key, the same nonce and the same
AAD (built from the context, the sequence number and the request identifiers only); code,
class-E options and payload occur in the AEAD plaintext and nowhere else. -/
theorem C11_inner_only_in_plaintext (E : AEAD) {A : Ctx} {seq : Nat} {rid : Option ReqId}
    {m1 m2 : Msg} {P1 P2 : Protected}
    (h1 : protect E A seq m1 rid = .ok P1) (h2 : protect E A seq m2 rid = .ok P2) :
    ∃ nonce pt1 pt2,
      buildPlaintext m1.code (innerOpts m1) m1.payload = some pt1 ∧
      buildPlaintext m2.code (innerOpts m2) m2.payload = some pt2 ∧
      P1.outer.payload = E.enc A.senderKey nonce (aad A.algValue P1.rid.kid P1.rid.piv) pt1 ∧
      P2.outer.payload = E.enc A.senderKey nonce (aad A.algValue P1.rid.kid P1.rid.piv) pt2 := by
  cases rid with
  | none =>
    obtain ⟨_, _, _, pt1, n1, _, hp1, hn1, _, hP1⟩ := protect_request_shape h1
    obtain ⟨_, _, _, pt2, n2, _, hp2, hn2, _, hP2⟩ := protect_request_shape h2
    rw [hn1] at hn2; cases hn2
    subst hP1; subst hP2
    exact ⟨n1, pt1, pt2, hp1, hp2, rfl, rfl⟩
  | some r =>
    obtain ⟨hr1, _, pt1, n1, _, hp1, hm1, hP1⟩ := protect_response_shape h1
    obtain ⟨hr2, _, pt2, n2, _, hp2, hm2, hP2⟩ := protect_response_shape h2
    have hi1 : innerOpts m1 = m1.opts := by simp [innerOpts, hr1]
    have hi2 : innerOpts m2 = m2.opts := by simp [innerOpts, hr2]
    rw [hi1, hi2, hP1, hP2]
    rcases hm1 with ⟨hc1, hn1, _, _, hq1⟩ | ⟨hc1, _, hn1, _, _, hq1⟩ <;>
      rcases hm2 with ⟨hc2, hn2, _⟩ | ⟨hc2, _, hn2, _⟩
    · rw [hn1] at hn2; cases hn2
      exact ⟨n1, pt1, pt2, hp1, hp2, by rw [hq1], by rw [hq1]⟩
    · rw [hc1] at hc2; cases hc2
    · rw [hc1] at hc2; cases hc2
    · rw [hn1] at hn2; cases hn2
      exact ⟨n1, pt1, pt2, hp1, hp2, by rw [hq1], by rw [hq1]⟩

-- ## Responses are bound to their request ----------------------------------------------------------

/-- **Response binding.**  A protected response verifies only together with the identifiers
(kid, Partial IV) of the request it answers: unprotecting it with the identifiers `r'` of any
other request — differing in the kid or in the Partial IV bytes — fails with a protection error
and yields no message.  (Both nonce modes.) -/
theorem C11_response_bound (E : AEAD) {S C : Ctx} (hC : C.wf) (hSC : Sends S C)
    {seq : Nat} {m : Msg} {r : ReqId} {P : Protected} (hr : r.wfFor C)
    (h : protect E S seq m (some r) = .ok P)
    (r' : ReqId) (hr' : r'.wfFor C) (hne : ¬ (r'.kid = r.kid ∧ r'.piv = r.piv)) :
    ∃ e, unprotect E C (some r') P.outer = .error e ∧ e.isProtection = true := by
  obtain ⟨_, _, pt, nonce, o, _, _, hP⟩ := protect_response_shape h
  apply unprotect_rejects (k := S.senderKey) (n := nonce) (a := aad S.algValue r.kid r.piv) (pt := pt)
    hC (by intro x hx; cases hx; exact hr')
  · rw [hP]; simp [findOpt]
  · rw [hP]
  · intro rp hrp ⟨_, _, ha⟩
    obtain ⟨_, _, s, _, _, _, _, hsel, _, _, _, haad, _, _⟩ := recvParams_ok_inv hrp
    rw [haad, selectPiv_rid_some hsel, hSC.alg] at ha
    obtain ⟨e1, e2⟩ := aad_inj (wf_len_lt hC hr.1) (five_lt hr.2) (wf_len_lt hC hr'.1)
      (five_lt hr'.2) ha
    exact hne ⟨e1.symm, e2.symm⟩

-- ## Tampering is detected ---------------------------------------------------------------------

/-- **Whatever is accepted is authentic.**  If `unprotect` returns a message and request
identifiers, the payload *is* the AEAD encryption, under the recipient key, of exactly the
returned code/options/payload, with the nonce built from the selected generator id and Partial
IV, and with the AAD built from exactly the returned request identifiers.  Producing such a
ciphertext without the key is what the AEAD assumption excludes. -/
theorem C11_accepted_is_authentic (E : AEAD) {B : Ctx} {rid : Option ReqId} {o : Msg}
    {u : Unprotected} {r : ReqId} (h : unprotect E B rid o = .ok (u, r)) :
    ∃ (nonce pt : Bytes) (inner : Msg) (opt : Bytes) (hdr : Unprot) (s : Selected),
      findOpt 9 o.opts = some opt ∧ uncompress opt = some hdr ∧
      selectPiv B rid o.code hdr = .ok s ∧ s.rid = r ∧
      constructNonce B.ivBytes B.commonIv s.piv s.gen = some nonce ∧
      o.payload = E.enc B.recipientKey nonce (aad B.algValue r.kid r.piv) pt ∧
      parsePlaintext pt = some inner ∧
      u.code = inner.code ∧ u.payload = inner.payload ∧
      u.opts = inner.opts.filter (fun x => x.1 != 6) := by
  obtain ⟨rp, pt, inner, hrp, hd, hp, hu, hr⟩ := unprotect_ok_inv h
  obtain ⟨opt, hdr, s, _, hopt, hunc, _, hsel, _, _, hn, haad, hrid, _⟩ := recvParams_ok_inv hrp
  refine ⟨rp.nonce, pt, inner, opt, hdr, s, hopt, hunc, hsel, by rw [hr, hrid], hn, ?_, hp, ?_, ?_, ?_⟩
  · have := E.integrity _ _ _ _ _ hd
    rw [this, haad, hr, hrid]
  · rw [hu]; rfl
  · rw [hu]; rfl
  · rw [hu]; rfl

/-- **Tampering with the Partial IV of a request.**  Take an honestly protected request and
replace its options by any option list whose OSCORE option does not decompress to the original
Partial IV *bytes* (changed value, changed length, leading zero, removed, or not decompressible
at all) — whatever else the rewritten option says, and whatever the outer code was changed to.
Unprotection fails with a protection error.  (For requests the Partial IV bytes are authenticated
through the AAD.) -/
theorem C11_tamper_request_piv (E : AEAD) {A B : Ctx} (hB : B.wf) (hAB : Sends A B)
    {seq : Nat} {m : Msg} {P : Protected} (h : protect E A seq m none = .ok P)
    (opts' : List Opt) (opt' : Bytes) (hopt : findOpt 9 opts' = some opt') (code' : Nat)
    (hchg : ∀ u', uncompress opt' = some u' → u'.piv ≠ some (shortPiv seq)) :
    ∃ e, unprotect E B none { P.outer with opts := opts', code := code' } = .error e ∧
      e.isProtection = true := by
  obtain ⟨hreq, hseq, _, pt, nonce, o, _, _, _, hP⟩ := protect_request_shape h
  subst hP
  apply unprotect_rejects (k := A.senderKey) (n := nonce)
    (a := aad A.algValue A.senderId (shortPiv seq)) (pt := pt) hB (by intro x hx; cases hx)
  · simp [hopt]
  · rfl
  · intro rp hrp ⟨_, _, ha⟩
    obtain ⟨option, u', s, _, hopt', hunc, _, hsel, _, _, _, haad, _, _⟩ := recvParams_ok_inv hrp
    simp only at hopt'
    rw [hopt] at hopt'; cases hopt'
    obtain ⟨p, hp, hk, hpv, _, _⟩ := selectPiv_none_rid hsel
    rw [haad, hk, hpv, hAB.alg, hAB.id] at ha
    have hpl := (uncompress_piv_bounds hunc p hp).2
    obtain ⟨_, e2⟩ := aad_inj (wf_len_lt hB hB.rid) (five_lt (shortPiv_length hseq).2)
      (wf_len_lt hB hB.rid) (five_lt hpl) ha
    exact hchg u' hunc (by rw [hp, e2])

/-- the header an honest response carries -/
def sentResponseHeader (S : Ctx) (r : ReqId) (seq : Nat) : Unprot :=
  respUnprot S (if r.canReuse then none else some (shortPiv seq))

/-- **Tampering with the Partial IV of a response.**  Take an honestly protected response and
replace its options by any option list whose OSCORE option changes where the nonce comes from:
a Partial IV with a different *numeric value*, a Partial IV added where the request's nonce was
reused, or removed where the responder used its own (`nonceSource`: generator id and number).
Unprotection fails with a protection error, whatever the outer code was changed to.  (The
byte-level statement, which also covers a re-encoded Partial IV, is
`C11_tamper_response_piv_bytes`.) -/
theorem C11_tamper_response_piv (E : AEAD) {S C : Ctx} (hC : C.wf) (hSC : Sends S C)
    {seq : Nat} {m : Msg} {r rc : ReqId} {P : Protected}
    (hk : rc.kid = r.kid) (hp : rc.piv = r.piv) (hrc : rc.wfFor C)
    (h : protect E S seq m (some r) = .ok P)
    (opts' : List Opt) (opt' : Bytes) (hopt : findOpt 9 opts' = some opt') (code' : Nat)
    (hchg : ∀ u', uncompress opt' = some u' →
      nonceSource C rc u' ≠ nonceSource C rc (sentResponseHeader S r seq)) :
    ∃ e, unprotect E C (some rc) { P.outer with opts := opts', code := code' } = .error e ∧
      e.isProtection = true := by
  obtain ⟨_, _, pt, nonce, o, _, hmode, hP⟩ := protect_response_shape h
  apply unprotect_rejects (k := S.senderKey) (n := nonce) (a := aad S.algValue r.kid r.piv)
    (pt := pt) hC (by intro x hx; cases hx; exact hrc)
  · simp [hopt]
  · rw [hP]
  · intro rp hrp ⟨_, hn, _⟩
    obtain ⟨option, u', s, _, hopt', hunc, _, hsel, _, _, hnonce, _, _, _⟩ := recvParams_ok_inv hrp
    simp only at hopt'
    rw [hopt] at hopt'; cases hopt'
    have hb := selectPiv_bounds hC (by intro x hx; cases hx; exact hrc) hunc hsel
    have hsrc := selectPiv_source hsel
    rw [← hn] at hnonce
    apply hchg u' hunc
    rw [← hsrc]
    rcases hmode with ⟨hcr, hn0, _⟩ | ⟨hcr, hseq, hn0, _⟩
    · -- the sender reused the request's nonce
      rw [hSC.iv, hSC.civ, ← hk, ← hp] at hn0
      obtain ⟨e1, e2⟩ := constructNonce_inj hC.ivLo hb.1 hb.2.1 hrc.1 hrc.2 hnonce hn0
      simp only [sentResponseHeader, hcr, if_true, nonceSource, respUnprot]
      rw [e1, ← beToNat_padPiv s.piv, e2, beToNat_padPiv]
    · -- the sender used its own sequence number
      rw [hSC.iv, hSC.civ, hSC.id] at hn0
      obtain ⟨e1, e2⟩ := constructNonce_inj hC.ivLo hb.1 hb.2.1 hC.rid
        (by rw [natToBE_length]; omega) hnonce hn0
      simp only [sentResponseHeader, hcr, nonceSource, respUnprot]
      simp only [Bool.false_eq_true, if_false]
      have : seq < 256 ^ 5 := by simp [maxSeqno] at hseq; omega
      rw [e1, ← beToNat_padPiv s.piv, e2, padPiv_full (natToBE_length 5 seq), beToNat_shortPiv,
        beToNat_natToBE, Nat.mod_eq_of_lt this]

/-- **Tampering with the KID.**  Any message — authentic or not — whose OSCORE option carries a
KID different from the recipient's `recipient_id` is refused with a protection error before any
cryptography. -/
theorem C11_tamper_kid (E : AEAD) {B : Ctx} {rid : Option ReqId} {o : Msg} {opt : Bytes}
    {u : Unprot} {k : Bytes} (hcode : rid.isSome = isResponse o.code)
    (hopt : findOpt 9 o.opts = some opt) (hu : uncompress opt = some u)
    (hk : u.kid = some k) (hne : k ≠ B.recipientId) :
    unprotect E B rid o = .error .protectionInvalid := by
  apply unprotect_of_recv_error
  have : idsAcceptable B (isResponse o.code) u = false := by
    simp only [idsAcceptable, hk]
    have : (k == B.recipientId) = false := by simpa using hne
    simp [this]
  simp [recvParams, hcode, hopt, hu, this]

/-- **Tampering with the ID context.**  Any message whose OSCORE option carries a KID context
different from the recipient's ID context (including a recipient without one) is refused with
a protection error before any cryptography. -/
theorem C11_tamper_idcontext (E : AEAD) {B : Ctx} {rid : Option ReqId} {o : Msg} {opt : Bytes}
    {u : Unprot} {c : Bytes} (hcode : rid.isSome = isResponse o.code)
    (hopt : findOpt 9 o.opts = some opt) (hu : uncompress opt = some u)
    (hc : u.kidContext = some c) (hne : B.idContext ≠ some c) :
    unprotect E B rid o = .error .protectionInvalid := by
  apply unprotect_of_recv_error
  have : idsAcceptable B (isResponse o.code) u = false := by
    simp only [idsAcceptable, hc]
    have : (some c == B.idContext) = false := by
      simp only [beq_eq_false_iff_ne, ne_eq]
      intro e; exact hne e.symm
    simp [this]
  simp [recvParams, hcode, hopt, hu, this]

/-- **Verification with another context's key, requests.**  The matching recipient context with
any other recipient key refuses an honest request with a protection error. -/
theorem C11_tamper_request_other_key (E : AEAD) {A B : Ctx} (hA : A.wf) (hAB : Sends A B)
    {seq : Nat} {m : Msg} {P : Protected} (h : protect E A seq m none = .ok P)
    (k' : Bytes) (hk' : k' ≠ A.senderKey) :
    unprotect E { B with recipientKey := k' } none P.outer = .error .protectionInvalid := by
  obtain ⟨pt, nonce, _, _, hpay, _, hrp⟩ := recv_request (B := B) hA hAB h
  rw [← recvParams_key_irrel E.tagBytes B k'] at hrp
  apply unprotect_of_dec_none hrp
  rw [hpay]
  apply E.dec_other
  intro ⟨e, _, _⟩
  exact hk' e.symm

/-- **Verification with another context's key, responses.** -/
theorem C11_tamper_response_other_key (E : AEAD) {S C : Ctx} (hSC : Sends S C)
    {seq : Nat} {m : Msg} {r rc : ReqId} {P : Protected}
    (hk : rc.kid = r.kid) (hp : rc.piv = r.piv)
    (h : protect E S seq m (some r) = .ok P) (k' : Bytes) (hk' : k' ≠ S.senderKey) :
    unprotect E { C with recipientKey := k' } (some rc) P.outer = .error .protectionInvalid := by
  obtain ⟨pt, nonce, _, hpay, _, _, _, hrp⟩ := recv_response (B := C) hSC hk hp h
  rw [← recvParams_key_irrel E.tagBytes C k'] at hrp
  apply unprotect_of_dec_none hrp
  rw [hpay]
  apply E.dec_other
  intro ⟨e, _, _⟩
  exact hk' e.symm

/-
**Tampering with the ciphertext — full statement (not provable, and false of model and code
alike):**

    ∀ c' ≠ P.outer.payload, unprotect E B rid { P.outer with payload := c' } is a protection error

It fails for every AEAD with more than one plaintext: `c' = E.enc key nonce aad pt'` for another
plaintext `pt'` is a perfectly valid ciphertext under the same key, nonce and AAD and is accepted
(witness: `C11_reencryption_accepted` below).  What an attacker cannot do is *produce* such a
`c'` without the key — a computational statement about the AEAD that is not an equation of the
model.  Proved instead: every changed ciphertext that is not itself an encryption under the
recipient's key, the honest nonce and the honest AAD is rejected.
-/

/-- **Tampering with the ciphertext, requests** (`_partial`: see the comment above). -/
theorem C11_tamper_request_ciphertext_partial (E : AEAD) {A B : Ctx} (hA : A.wf)
    (hAB : Sends A B) {seq : Nat} {m : Msg} {P : Protected}
    (h : protect E A seq m none = .ok P) (c' : Bytes)
    (hforge : ∀ nonce pt', constructNonce A.ivBytes A.commonIv (natToBE 5 seq) A.senderId = some nonce →
      c' ≠ E.enc A.senderKey nonce (aad A.algValue A.senderId (shortPiv seq)) pt') :
    unprotect E B none { P.outer with payload := c' } = .error .protectionInvalid := by
  obtain ⟨pt, nonce, _, hn, _, _, hrp⟩ := recv_request (B := B) hA hAB h
  rcases recvParams_payload_irrel (c := c') hrp with h1 | h1
  · apply unprotect_of_dec_none h1
    cases hd : E.dec B.recipientKey nonce (aad A.algValue A.senderId (shortPiv seq)) c' with
    | none => rfl
    | some p' =>
      have := E.integrity _ _ _ _ _ hd
      rw [← hAB.key] at this
      exact absurd this (hforge nonce p' hn)
  · exact unprotect_of_recv_error h1

/-- **Tampering with the ciphertext, responses** (`_partial`: see the comment above). -/
theorem C11_tamper_response_ciphertext_partial (E : AEAD) {S C : Ctx} (hSC : Sends S C)
    {seq : Nat} {m : Msg} {r rc : ReqId} {P : Protected}
    (hk : rc.kid = r.kid) (hp : rc.piv = r.piv)
    (h : protect E S seq m (some r) = .ok P) (c' : Bytes)
    (hforge : ∀ nonce pt', c' ≠ E.enc S.senderKey nonce (aad S.algValue r.kid r.piv) pt') :
    unprotect E C (some rc) { P.outer with payload := c' } = .error .protectionInvalid := by
  obtain ⟨pt, nonce, _, _, _, _, _, hrp⟩ := recv_response (B := C) hSC hk hp h
  rcases recvParams_payload_irrel (c := c') hrp with h1 | h1
  · apply unprotect_of_dec_none h1
    cases hd : E.dec C.recipientKey nonce (aad S.algValue r.kid r.piv) c' with
    | none => rfl
    | some p' =>
      have := E.integrity _ _ _ _ _ hd
      rw [← hSC.key] at this
      exact absurd this (hforge nonce p')
  · exact unprotect_of_recv_error h1

/-- Witness that the full ciphertext clause is false: a re-encryption of any other well-formed
plaintext under the same key, nonce and AAD — something only a key holder can produce — is a
changed ciphertext that is accepted. -/
theorem C11_reencryption_accepted (E : AEAD) {A B : Ctx} (hA : A.wf) (hAB : Sends A B)
    {seq : Nat} {m : Msg} {P : Protected} (h : protect E A seq m none = .ok P)
    {nonce pt' : Bytes} {inner' : Msg}
    (hn : constructNonce A.ivBytes A.commonIv (natToBE 5 seq) A.senderId = some nonce)
    (hp : parsePlaintext pt' = some inner') :
    ∃ u r,
      unprotect E B none
        { P.outer with
          payload := E.enc A.senderKey nonce (aad A.algValue A.senderId (shortPiv seq)) pt' } =
        .ok (u, r) ∧
      u.code = inner'.code ∧ u.payload = inner'.payload := by
  obtain ⟨pt, nonce0, _, hn0, _, _, hrp⟩ := recv_request (B := B) hA hAB h
  rw [hn] at hn0; cases hn0
  have hl : E.tagBytes + 1 ≤
      (E.enc A.senderKey nonce (aad A.algValue A.senderId (shortPiv seq)) pt').length := by
    have := E.tagLen A.senderKey nonce (aad A.algValue A.senderId (shortPiv seq)) pt'
    have := parsePlaintext_ne_nil hp
    omega
  have hrp' := recvParams_payload_long hrp hl
  have hd : E.dec B.recipientKey nonce (aad A.algValue A.senderId (shortPiv seq))
      (E.enc A.senderKey nonce (aad A.algValue A.senderId (shortPiv seq)) pt') = some pt' := by
    rw [← hAB.key]; exact E.correct _ _ _ _
  exact ⟨_, _, unprotect_of_dec_some hrp' hd hp, rfl, rfl⟩


/-- **Tampering with the Partial IV of a response, byte level** (round 4: the response-side
counterpart of `C11_tamper_request_piv`).  `_uncompress` hands out a Partial IV only in its shortest
form, so the numeric statement above becomes one about bytes: replace the options of an honest
response by any list whose OSCORE option does not decompress to exactly the Partial IV field that
was sent (none when the request's nonce was reused, the bytes of the responder's own number
otherwise) — a changed value, a leading zero byte (`01 05` → `02 00 05`), a field added, removed
or undecodable — and unprotection fails with a protection error, whatever the outer code was
changed to.  `hdist`: the request's key ID (the client's sender id) is not the responder's id
(RFC 8613 §3.3: sender ids are unique under one key). -/
theorem C11_tamper_response_piv_bytes (E : AEAD) {S C : Ctx} (hC : C.wf) (hSC : Sends S C)
    {seq : Nat} {m : Msg} {r rc : ReqId} {P : Protected}
    (hk : rc.kid = r.kid) (hp : rc.piv = r.piv) (hrc : rc.wfFor C)
    (hdist : rc.kid ≠ C.recipientId)
    (h : protect E S seq m (some r) = .ok P)
    (opts' : List Opt) (opt' : Bytes) (hopt : findOpt 9 opts' = some opt') (code' : Nat)
    (hchg : ∀ u', uncompress opt' = some u' → u'.piv ≠ (sentResponseHeader S r seq).piv) :
    ∃ e, unprotect E C (some rc) { P.outer with opts := opts', code := code' } = .error e ∧
      e.isProtection = true := by
  obtain ⟨_, _, pt, nonce, o, _, hmode, hP⟩ := protect_response_shape h
  apply unprotect_rejects (k := S.senderKey) (n := nonce) (a := aad S.algValue r.kid r.piv)
    (pt := pt) hC (by intro x hx; cases hx; exact hrc)
  · simp [hopt]
  · rw [hP]
  · intro rp hrp ⟨_, hn, _⟩
    obtain ⟨option, u', s, _, hopt', hunc, _, hsel, _, _, hnonce, _, _, _⟩ := recvParams_ok_inv hrp
    simp only at hopt'
    rw [hopt] at hopt'; cases hopt'
    have hb := selectPiv_bounds hC (by intro x hx; cases hx; exact hrc) hunc hsel
    rw [← hn] at hnonce
    apply hchg u' hunc
    rcases hmode with ⟨hcr, hn0, _⟩ | ⟨hcr, hseq, hn0, _⟩
    · -- the sender reused the request's nonce: no Partial IV was sent
      rw [hSC.iv, hSC.civ, ← hk, ← hp] at hn0
      obtain ⟨e1, _⟩ := constructNonce_inj hC.ivLo hb.1 hb.2.1 hrc.1 hrc.2 hnonce hn0
      simp only [sentResponseHeader, hcr, if_true, respUnprot]
      cases hpv : u'.piv with
      | none => rfl
      | some p =>
        simp only [selectPiv, hpv] at hsel
        cases hsel
        exact absurd e1.symm hdist
    · -- the sender used its own sequence number
      rw [hSC.iv, hSC.civ, hSC.id] at hn0
      obtain ⟨e1, e2⟩ := constructNonce_inj hC.ivLo hb.1 hb.2.1 hC.rid
        (by rw [natToBE_length]; omega) hnonce hn0
      simp only [sentResponseHeader, hcr, respUnprot, Bool.false_eq_true, if_false]
      cases hpv : u'.piv with
      | none =>
        simp only [selectPiv, hpv] at hsel
        cases hsel
        exact absurd e1 hdist
      | some p =>
        simp only [selectPiv, hpv] at hsel
        cases hsel
        simp only at e2
        have hpb := uncompress_piv_bounds hunc p hpv
        have hmin := uncompress_piv_minimal hunc p hpv
        have hs := shortPiv_length hseq
        have e3 : padPiv p = padPiv (shortPiv seq) := by
          rw [e2, padPiv_full (natToBE_length 5 seq), padPiv_shortPiv hseq]
        rw [padPiv_inj_of_minimal hmin (shortPiv_minimal seq) hpb.1 hpb.2 hs.1 hs.2 e3]

/-- **Every byte of the OSCORE option counts.**  `_uncompress` is injective: two option values
that decode to the same header (Partial IV, KID, KID context, group flag) are the same bytes.  So
any change to the option value — bytes appended behind the announced fields, a flags byte put in
front of an empty option, a re-encoded field — either makes the option undecodable (`DecodeError`)
or changes one of the decoded fields, which the clauses about Partial IV, KID and KID context then
judge.  (`wf`: the values consist of bytes.) -/
theorem C11_option_bytes_determine_fields {o o' : Bytes} {u : Unprot} (hwf : o.wf) (hwf' : o'.wf)
    (h : uncompress o = some u) (h' : uncompress o' = some u) : o = o' :=
  uncompress_injective hwf hwf' h h'

/-- … and what `_uncompress` accepts is exactly what `_compress` writes for that header -/
theorem C11_uncompress_only_compressed {o : Bytes} {u : Unprot} (hwf : o.wf)
    (h : uncompress o = some u) : compress u = some o :=
  compress_uncompress hwf h

/-- an undecodable OSCORE option is a `DecodeError`, for any message with a fitting outer code -/
theorem unprotect_of_uncompress_none (E : AEAD) {B : Ctx} {rid : Option ReqId} {o : Msg}
    {opt : Bytes} (hopt : findOpt 9 o.opts = some opt) (hu : uncompress opt = none) :
    ∃ e, unprotect E B rid o = .error e ∧ e.isProtection = true := by
  by_cases h1 : (rid.isSome != isResponse o.code) = true
  · exact ⟨.protectionInvalid, unprotect_of_recv_error (by simp [recvParams, h1]), rfl⟩
  by_cases h2 : (!isResponse o.code && !(o.code == 2 || o.code == 5)) = true
  · exact ⟨.protectionInvalid, unprotect_of_recv_error (by simp only [recvParams, h1, h2]; rfl), rfl⟩
  · exact ⟨.decodeError, unprotect_of_recv_error (by simp only [recvParams, h1, h2, hopt, hu]; rfl), rfl⟩

/-- what the two identifier checks leave through -/
theorem idsAcceptable_inv {B : Ctx} {isResp : Bool} {u : Unprot}
    (h : idsAcceptable B isResp u = true) :
    (u.kidContext = none ∨ u.kidContext = B.idContext) ∧
    ((u.kid = none ∧ isResp = true) ∨ u.kid = some B.recipientId) := by
  unfold idsAcceptable at h
  simp only [Bool.and_eq_true] at h
  obtain ⟨h1, h2⟩ := h
  constructor
  · cases hc : u.kidContext with
    | none => left; rfl
    | some c => right; rw [hc] at h1; simpa using h1
  · cases hk : u.kid with
    | none => left; rw [hk] at h2; exact ⟨rfl, by simpa using h2⟩
    | some k => right; rw [hk] at h2; simp only [beq_iff_eq] at h2; rw [h2]

/-- **Tampering with the OSCORE option of a response, any bytes.**  Replace the OSCORE option value
`o` of an honest response by ANY other value `opt'` (bytes appended: `01 05` → `01 05 aa`; `00 aa
bb` for the empty option; a re-encoded or rewritten field; a single flipped bit).  Then
unprotection fails with a protection error — with ONE stated exception (a restriction of the
clause, not a defect: RFC 8613 leaves these two fields of a response to the sender — "will not
typically be present" — and neither is in the AAD): `opt'` decodes to a header that carries the
Partial IV field that was sent, no group flag, and differs from the header sent only in that the
recipient's OWN KID and / or KID context are added or removed (`(empty)` → `08 02`, `01 09` →
`09 09 02`, `(empty)` → `10 01 c7`).  Any other KID or KID context value is refused
(`C11_tamper_kid`, `C11_tamper_idcontext`). -/
theorem C11_tamper_response_option (E : AEAD) {S C : Ctx} (hC : C.wf) (hSC : Sends S C)
    {seq : Nat} {m : Msg} {r rc : ReqId} {P : Protected}
    (hk : rc.kid = r.kid) (hp : rc.piv = r.piv) (hrc : rc.wfFor C)
    (hdist : rc.kid ≠ C.recipientId)
    (h : protect E S seq m (some r) = .ok P)
    {o : Bytes} (ho : findOpt 9 P.outer.opts = some o) (howf : o.wf)
    (opts' : List Opt) (opt' : Bytes) (hopt : findOpt 9 opts' = some opt') (hwf' : opt'.wf)
    (hne : opt' ≠ o) :
    (∃ e, unprotect E C (some rc) { P.outer with opts := opts' } = .error e ∧
      e.isProtection = true) ∨
    (∃ u', uncompress opt' = some u' ∧ u' ≠ sentResponseHeader S r seq ∧
      u'.piv = (sentResponseHeader S r seq).piv ∧ u'.group = false ∧
      (u'.kid = none ∨ u'.kid = some C.recipientId) ∧
      (u'.kidContext = none ∨ u'.kidContext = C.idContext)) := by
  -- the option that was sent decodes to the header that was sent
  have hsent : uncompress o = some (sentResponseHeader S r seq) := by
    obtain ⟨_, _, pt, nonce, o0, _, hmode, hP⟩ := protect_response_shape h
    rw [hP] at ho
    simp only [findOpt, beq_self_eq_true, if_true, Option.some.injEq] at ho
    subst ho
    rcases hmode with ⟨hcr, _, hc, _⟩ | ⟨hcr, hseq, _, hc, _⟩
    · simp only [sentResponseHeader, hcr, if_true]
      exact uncompress_of_compress (respUnprot_sendable S (piv := none) (by intro p hp; cases hp)) hc
    · simp only [sentResponseHeader, hcr, Bool.false_eq_true, if_false]
      exact uncompress_of_compress (respUnprot_sendable S (piv := some (shortPiv seq))
        (by intro p hp; cases hp
            exact ⟨(shortPiv_length hseq).1, (shortPiv_length hseq).2, shortPiv_minimal seq⟩)) hc
  cases hu : uncompress opt' with
  | none =>
    left
    exact unprotect_of_uncompress_none E (o := { P.outer with opts := opts' }) hopt hu
  | some u' =>
    by_cases hpiv : u'.piv = (sentResponseHeader S r seq).piv
    · cases hr : recvParams E.tagBytes C (some rc) { P.outer with opts := opts' } with
      | error e =>
        left
        exact ⟨e, unprotect_of_recv_error hr,
          recvParams_error_isProtection hC (by intro x hx; cases hx; exact hrc) (by simp [hopt]) hr⟩
      | ok rp =>
        right
        obtain ⟨option, u, s, _, hopt2, hu2, hids, _, hg, _⟩ := recvParams_ok_inv hr
        simp only at hopt2
        rw [hopt] at hopt2; cases hopt2
        rw [hu] at hu2; cases hu2
        obtain ⟨hctx, hkid⟩ := idsAcceptable_inv hids
        refine ⟨u', rfl, ?_, hpiv, hg, ?_, hctx⟩
        · intro heq
          rw [heq] at hu
          exact hne (uncompress_injective hwf' howf hu hsent)
        · rcases hkid with ⟨hk, _⟩ | hk
          · left; exact hk
          · right; exact hk
    · left
      have := C11_tamper_response_piv_bytes E hC hSC hk hp hrc hdist h opts' opt' hopt P.outer.code
        (by intro u'' hu''; rw [hu] at hu''; cases hu''; exact hpiv)
      exact this

-- ## The outer code -------------------------------------------------------------------------------

/-- **A changed outer code that does not fit is a protection error** (round 4; formerly an
`AssertionError` / a bare `ValueError`).  The outer code travels unprotected.  Whatever it is
changed to: a code that is not a response code where request identifiers are given (2.04 → 0.04),
a response code where none are given, or a request code other than POST / FETCH (POST → PUT) makes
`unprotect` fail with `ProtectionInvalid` before anything else is looked at. -/
theorem C11_outer_code_unfit_rejected (E : AEAD) (B : Ctx) (rid : Option ReqId) (o : Msg)
    (h : rid.isSome ≠ isResponse o.code ∨ (rid = none ∧ ¬ (o.code = 2 ∨ o.code = 5))) :
    unprotect E B rid o = .error .protectionInvalid := by
  apply unprotect_of_recv_error
  by_cases h1 : (rid.isSome != isResponse o.code) = true
  · simp [recvParams, h1]
  · rcases h with h | ⟨hr, hc⟩
    · exact absurd (by simpa using h) h1
    · subst hr
      have hresp : isResponse o.code = false := by simpa using h1
      have h2 : ¬ o.code = 2 := fun h => hc (Or.inl h)
      have h5 : ¬ o.code = 5 := fun h => hc (Or.inr h)
      simp [recvParams, hresp, h2, h5]

/-- **A changed outer code that does fit changes nothing in the message.**  Responses: any other
response code (2.04 ↔ 2.05, …) yields exactly the same result. -/
theorem C11_outer_code_unauthenticated_response (E : AEAD) (C : Ctx) (r : ReqId) (o : Msg)
    (code' : Nat) (hc : isResponse o.code = true) (hc' : isResponse code' = true) :
    unprotect E C (some r) { o with code := code' } = unprotect E C (some r) o := by
  have hsel : ∀ u, selectPiv C (some r) code' u = selectPiv C (some r) o.code u := by
    intro u; unfold selectPiv; cases u.piv <;> rfl
  simp only [unprotect, recvParams, hc, hc', hsel, finishUnprotect, Bool.not_true, Bool.false_and]

/-- Requests: POST ↔ FETCH yields the same message; only the code style remembered for the
response (2.04 / 2.05, itself unauthenticated) follows the outer code. -/
theorem C11_outer_code_unauthenticated_request (E : AEAD) (B : Ctx) (o : Msg) (code' : Nat)
    (hc : o.code = 2 ∨ o.code = 5) (hc' : code' = 2 ∨ code' = 5) :
    unprotect E B none { o with code := code' } =
      (unprotect E B none o).map (fun p => (p.1, { p.2 with style := code' })) := by
  have hr : isResponse o.code = false := isResponse_of_post_fetch hc
  have hr' : isResponse code' = false := isResponse_of_post_fetch hc'
  have hb : (o.code == 2 || o.code == 5) = true := by rcases hc with h | h <;> simp [h]
  have hb' : (code' == 2 || code' == 5) = true := by rcases hc' with h | h <;> simp [h]
  simp only [unprotect, recvParams, hr, hr', hb, hb', Option.isSome_none, bne_self_eq_false,
    Bool.false_eq_true, if_false, Bool.not_false, Bool.not_true, Bool.and_false]
  cases findOpt 9 o.opts with
  | none => rfl
  | some opt =>
    simp only
    cases uncompress opt with
    | none => rfl
    | some u =>
      simp only
      cases hids : idsAcceptable B false u with
      | false => rfl
      | true =>
        simp only [Bool.not_true, Bool.false_eq_true, if_false]
        cases hpv : u.piv with
        | none => simp [selectPiv, hpv, Except.map]
        | some piv =>
          simp only [selectPiv, hpv, hc, hc', if_true]
          cases u.group with
          | true => rfl
          | false =>
            simp only [Bool.false_eq_true, if_false]
            by_cases hlen : o.payload.length < E.tagBytes + 1
            · simp only [hlen, if_true]; rfl
            · simp only [hlen, if_false]
              cases constructNonce B.ivBytes B.commonIv piv B.recipientId with
              | none => rfl
              | some nonce =>
                simp only
                cases E.dec B.recipientKey nonce (aad B.algValue B.recipientId piv) o.payload with
                | none => rfl
                | some pt =>
                  simp only
                  cases parsePlaintext pt with
                  | none => rfl
                  | some inner => rfl

/-- **Stated restriction of the tamper clauses** (not a defect: RFC 8613 leaves the KID context of
a request to the sender, and it is not part of the AAD).  A request whose KID context was stripped
from the OSCORE option — the KID kept — is still accepted by the context it is handed to, and
yields the same message (`unprotected.pop(COSE_KID_CONTEXT, self.id_context)`).  The library's own
dispatch (`get_oscore_context_for`) would not hand such a request to a context that has an ID
context; this is about `unprotect` called directly. -/
theorem C11_request_kid_context_optional (E : AEAD) {A B : Ctx} (hA : A.wf) (hAB : Sends A B)
    {seq : Nat} {m : Msg} {P : Protected} (h : protect E A seq m none = .ok P)
    (opts' : List Opt) (opt' : Bytes) (hopt : findOpt 9 opts' = some opt')
    (hobs : findOpt 6 opts' = findOpt 6 m.opts)
    (hu : uncompress opt' =
      some { piv := some (shortPiv seq), kid := some A.senderId, kidContext := none,
             group := false }) :
    unprotect E B none { P.outer with opts := opts' } = unprotect E B none P.outer := by
  obtain ⟨pt, nonce, hpt, hn, hpay, hobs0, hrp⟩ := recv_request (B := B) hA hAB h
  obtain ⟨hreq, hseq, _⟩ := protect_request_shape h
  obtain ⟨_, _, _, hcode0, _, _, _, _, _, hlen, _⟩ := recvParams_ok_inv hrp
  have hcode : P.outer.code = 2 ∨ P.outer.code = 5 := by
    obtain ⟨_, _, _, _, _, _, _, _, _, hP⟩ := protect_request_shape h
    rw [hP]; exact outerCode_request hreq
  have hn' : constructNonce B.ivBytes B.commonIv (shortPiv seq) B.recipientId = some nonce := by
    rw [← hAB.iv, ← hAB.civ, ← hAB.id, constructNonce_shortPiv hseq]; exact hn
  have hsel : selectPiv B none P.outer.code
      { piv := some (shortPiv seq), kid := some A.senderId, kidContext := none, group := false } =
      .ok { piv := shortPiv seq, gen := B.recipientId, seqno := some (beToNat (shortPiv seq)),
            rid := { kid := B.recipientId, piv := shortPiv seq, canReuse := true,
                     style := P.outer.code } } := by
    simp [selectPiv, hcode]
  have hrp' := recvParams_of_fields (tb := E.tagBytes) (B := B) (rid := none)
    (o := { P.outer with opts := opts' }) (by simpa using hcode0) hopt hu
    (by simp [idsAcceptable, hAB.id]) hsel rfl hlen hn'
  have hd : E.dec B.recipientKey nonce (aad A.algValue A.senderId (shortPiv seq)) P.outer.payload
      = some pt := by rw [hpay, ← hAB.key]; exact E.correct _ _ _ _
  have hd' : E.dec B.recipientKey nonce (aad B.algValue B.recipientId (shortPiv seq))
      P.outer.payload = some pt := by rw [← hAB.alg, ← hAB.id]; exact hd
  rw [unprotect_of_dec_some hrp' hd' (parsePlaintext_buildPlaintext hpt),
    unprotect_of_dec_some hrp hd (parsePlaintext_buildPlaintext hpt)]
  simp [finishUnprotect, hobs, hobs0, hAB.id, beToNat_shortPiv]

/-- **A request without a key ID is refused** (audit F; `C11_request_without_kid_accepted`, which
witnessed the opposite, is withdrawn).  RFC 8613 section 5: 'kid' SHALL be present in requests.
Any request — authentic or not, on any context — whose OSCORE option decodes to a header without
a KID (`09 05 01` → `01 05`, `19 05 01 c7 01` → `11 05 01 c7`) fails with `ProtectionInvalid`
before any cryptography and before the replay window is consulted. -/
theorem C11_request_without_kid_rejected (E : AEAD) (B : Ctx) {o : Msg} {opt : Bytes} {u : Unprot}
    (hopt : findOpt 9 o.opts = some opt) (hu : uncompress opt = some u) (hk : u.kid = none) :
    unprotect E B none o = .error .protectionInvalid := by
  by_cases hr : isResponse o.code = true
  · exact C11_outer_code_unfit_rejected E B none o (Or.inl (by simp [hr]))
  by_cases hc : o.code = 2 ∨ o.code = 5
  · apply unprotect_of_recv_error
    have hr' : isResponse o.code = false := by simpa using hr
    have hb : (o.code == 2 || o.code == 5) = true := by rcases hc with h | h <;> simp [h]
    have hids : idsAcceptable B false u = false := by simp [idsAcceptable, hk]
    simp [recvParams, hr', hb, hopt, hu, hids]
  · exact C11_outer_code_unfit_rejected E B none o (Or.inr ⟨rfl, hc⟩)

/-- **Tampering with the OSCORE option of a request, any bytes.**  Replace the OSCORE option value
`o` of an honest request by ANY other value `opt'` (KID removed, KID or KID context rewritten,
Partial IV changed or re-encoded, bytes appended, a flipped bit) and the outer code by any code.
Then unprotection fails with a protection error — with ONE stated exception: the sender's context
has an ID context and `opt'` is the option that was sent without its KID context field
(`19 05 01 c7 01` → `09 05 01`; see `C11_request_kid_context_optional`). -/
theorem C11_tamper_request_option (E : AEAD) {A B : Ctx} (hA : A.wf) (hB : B.wf) (hAB : Sends A B)
    {seq : Nat} {m : Msg} {P : Protected} (h : protect E A seq m none = .ok P)
    {o : Bytes} (ho : findOpt 9 P.outer.opts = some o) (howf : o.wf)
    (opts' : List Opt) (opt' : Bytes) (hopt : findOpt 9 opts' = some opt') (hwf' : opt'.wf)
    (code' : Nat) (hne : opt' ≠ o) :
    (∃ e, unprotect E B none { P.outer with opts := opts', code := code' } = .error e ∧
      e.isProtection = true) ∨
    (A.idContext.isSome = true ∧
      uncompress opt' = some { reqUnprot A seq with kidContext := none }) := by
  have hsent : uncompress o = some (reqUnprot A seq) := by
    obtain ⟨_, hseq, _, pt, nonce, o0, _, _, hc, hP⟩ := protect_request_shape h
    rw [hP] at ho
    rw [findOpt_outerOpts_9] at ho
    cases ho
    exact uncompress_of_compress (reqUnprot_sendable hA hseq) hc
  cases hu : uncompress opt' with
  | none =>
    left
    exact unprotect_of_uncompress_none E (o := { P.outer with opts := opts', code := code' }) hopt hu
  | some u' =>
    by_cases hpiv : u'.piv = some (shortPiv seq)
    · cases hr : recvParams E.tagBytes B none { P.outer with opts := opts', code := code' } with
      | error e =>
        left
        exact ⟨e, unprotect_of_recv_error hr,
          recvParams_error_isProtection hB (by intro x hx; cases hx) (by simp [hopt]) hr⟩
      | ok rp =>
        right
        obtain ⟨option, u, s, hcode, hopt2, hu2, hids, _, hg, _⟩ := recvParams_ok_inv hr
        simp only at hopt2
        rw [hopt] at hopt2; cases hopt2
        rw [hu] at hu2; cases hu2
        have hresp : isResponse code' = false := by simpa using hcode.symm
        simp only [hresp] at hids
        obtain ⟨hctx, hkid⟩ := idsAcceptable_inv hids
        have hkid' : u'.kid = some A.senderId := by
          rcases hkid with ⟨_, hf⟩ | hk
          · cases hf
          · rw [hk, hAB.id]
        have hneq : u' ≠ reqUnprot A seq := by
          intro heq; rw [heq] at hu
          exact hne (uncompress_injective hwf' howf hu hsent)
        have hcn : u'.kidContext = none ∧ A.idContext.isSome = true := by
          rcases hctx with hc | hc
          · refine ⟨hc, ?_⟩
            cases hi : A.idContext with
            | some c => rfl
            | none =>
              exfalso; apply hneq
              cases u'; simp_all
          · exfalso; apply hneq
            rw [← hAB.idctx] at hc
            cases u'; simp_all
        refine ⟨hcn.2, ?_⟩
        cases u'; simp_all
    · left
      exact C11_tamper_request_piv E hB hAB h opts' opt' hopt code'
        (by intro u'' hu''; rw [hu] at hu''; cases hu''; exact hpiv)

-- ## Non-vacuity: the hypotheses are satisfiable, and the model computes ------------------------

/-- the AEAD laws have a model (the instance the harness runs the real code with) -/
example : AEAD := transparentAead

def exA : Ctx :=
  { algValue := 10, ivBytes := 13, senderId := [1], recipientId := [2, 3], idContext := some [55],
    senderKey := [11, 12], recipientKey := [21, 22],
    commonIv := [0, 1, 2, 3, 4, 5, 6, 7, 8, 9, 10, 11, 12], responsesSendKid := false }
def exB : Ctx :=
  { exA with senderId := [2, 3], recipientId := [1], senderKey := [21, 22], recipientKey := [11, 12] }
/-- GET with Uri-Host, Observe: 0, Uri-Port, Uri-Path, Content-Format and a payload -/
def exMsg : Msg :=
  { code := 1, opts := [(3, [104]), (6, []), (7, [22, 51]), (11, [97, 98]), (12, [50])],
    payload := [1, 2, 3] }
def exResp : Msg := { code := 69, opts := [(12, [0])], payload := [104, 105] }

def okOf {α : Type} : Except Err α → Option α
  | .ok a => some a
  | .error _ => none
def errOf {α : Type} : Except Err α → Option Err
  | .ok _ => none
  | .error e => some e

example : exA.wf :=
  ⟨by decide, by decide, by decide, by decide, by decide, by intro c h; cases h; decide⟩
example : exB.wf :=
  ⟨by decide, by decide, by decide, by decide, by decide, by intro c h; cases h; decide⟩
example : Sends exA exB ∧ Sends exB exA :=
  ⟨⟨rfl, rfl, rfl, rfl, rfl, rfl⟩, ⟨rfl, rfl, rfl, rfl, rfl, rfl⟩⟩
example : (reqUnprot exA 300).sendable := reqUnprot_sendable
  ⟨by decide, by decide, by decide, by decide, by decide, by intro c h; cases h; decide⟩ (by decide)

/-- the protected request: FETCH, only Uri-Host / Observe / OSCORE outside (Uri-Port is dropped
by this implementation), option `1a 012c 01 37 01` = n=2,k,h ‖ PIV 300 ‖ ctx ‖ kid -/
def exProtected : Option Protected := okOf (protect transparentAead exA 300 exMsg none)

example : exProtected.map (fun P => (P.outer.code, P.outer.opts, P.rid, P.seq)) =
    some (5, [(3, [104]), (6, []), (9, [26, 1, 44, 1, 55, 1])],
      { kid := [1], piv := [1, 44], canReuse := false, style := 5 }, 301) := by decide +kernel

/-- round trip on the concrete request: Uri-Host/Uri-Port stay outside, Observe 0 is kept -/
example : (exProtected.bind fun P => okOf (unprotect transparentAead exB none P.outer)) =
    some ({ code := 1, opts := [(11, [97, 98]), (12, [50])], observe := some 0,
            payload := [1, 2, 3] },
          { kid := [1], piv := [1, 44], canReuse := true, style := 5 }) := by decide +kernel

def exRs : ReqId := { kid := [1], piv := [1, 44], canReuse := true, style := 5 }
def exRc : ReqId := { kid := [1], piv := [1, 44], canReuse := false, style := 5 }
def exRx : ReqId := { kid := [1], piv := [1, 45], canReuse := false, style := 5 }
def exFirst : Option Protected := okOf (protect transparentAead exB 7 exResp (some exRs))
def exLater : Option Protected := okOf (protect transparentAead exB 7 exResp (some exRc))

/-- a response reusing the request nonce has an empty OSCORE option and consumes no sequence
number; a later one carries its own Partial IV -/
example :
    exFirst.map (fun P => (P.outer.code, P.outer.opts, P.seq)) = some (69, [(9, [])], 7) ∧
    exLater.map (fun P => (P.outer.code, P.outer.opts, P.seq)) = some (69, [(9, [1, 7])], 8) := by
  decide +kernel

/-- both come back at the client … -/
example :
    (exFirst.bind fun P => okOf (unprotect transparentAead exA (some exRc) P.outer)) =
      some ({ code := 69, opts := [(12, [0])], observe := none, payload := [104, 105] }, exRc) ∧
    (exLater.bind fun P => okOf (unprotect transparentAead exA (some exRc) P.outer)) =
      some ({ code := 69, opts := [(12, [0])], observe := none, payload := [104, 105] }, exRc) := by
  decide +kernel

/-- … but not with the identifiers of request 301 instead of request 300 -/
example :
    (exFirst.bind fun P => errOf (unprotect transparentAead exA (some exRx) P.outer)) =
      some .protectionInvalid ∧
    (exLater.bind fun P => errOf (unprotect transparentAead exA (some exRx) P.outer)) =
      some .protectionInvalid := by decide +kernel

/-- manipulated OSCORE options on the concrete request: PIV 301 instead of 300, wrong KID,
wrong ID context, a lone context-hint flag, a reserved Partial-IV length, the group flag; the KID
removed with and without the KID context (`02 01 2c`, `12 01 2c 01 37`: protection errors since the
audit-F fix); the KID context alone removed (`0a 01 2c 01`: the stated restriction, same message) -/
example :
    (exProtected.bind fun P => errOf (unprotect transparentAead exB none
      { P.outer with opts := [(9, [26, 1, 45, 1, 55, 1])] })) = some .protectionInvalid ∧
    (exProtected.bind fun P => errOf (unprotect transparentAead exB none
      { P.outer with opts := [(9, [26, 1, 44, 1, 55, 9])] })) = some .protectionInvalid ∧
    (exProtected.bind fun P => errOf (unprotect transparentAead exB none
      { P.outer with opts := [(9, [26, 1, 44, 1, 56, 1])] })) = some .protectionInvalid ∧
    (exProtected.bind fun P => errOf (unprotect transparentAead exB none
      { P.outer with opts := [(9, [16])] })) = some .decodeError ∧
    (exProtected.bind fun P => errOf (unprotect transparentAead exB none
      { P.outer with opts := [(9, [14, 0, 0, 0, 0, 1, 44, 1])] })) = some .decodeError ∧
    (exProtected.bind fun P => errOf (unprotect transparentAead exB none
      { P.outer with opts := [(9, [58, 1, 44, 1, 55, 1])] })) = some .decodeError ∧
    (exProtected.bind fun P => errOf (unprotect transparentAead exB none
      { P.outer with opts := [(6, []), (9, [2, 1, 44])] })) = some .protectionInvalid ∧
    (exProtected.bind fun P => errOf (unprotect transparentAead exB none
      { P.outer with opts := [(6, []), (9, [18, 1, 44, 1, 55])] })) = some .protectionInvalid ∧
    (exProtected.bind fun P => okOf (unprotect transparentAead exB none
      { P.outer with opts := [(6, []), (9, [10, 1, 44, 1])] })) =
      (exProtected.bind fun P => okOf (unprotect transparentAead exB none P.outer)) := by
  decide +kernel

/-- the model reproduces the published values of RFC 8613 appendix C.4 (request, client with
empty sender id, sequence number 20): external AAD, Encrypt0 AAD, nonce, OSCORE option — and the
option of C.6 (ID context `37cbf3210017a2d3`) -/
example :
    externalAad 10 [] [0x14] = [0x85, 0x01, 0x81, 0x0a, 0x40, 0x41, 0x14, 0x40] ∧
    aad 10 [] [0x14] = [0x83, 0x68, 0x45, 0x6e, 0x63, 0x72, 0x79, 0x70, 0x74, 0x30, 0x40, 0x48,
      0x85, 0x01, 0x81, 0x0a, 0x40, 0x41, 0x14, 0x40] ∧
    constructNonce 13 [0x46, 0x22, 0xd4, 0xdd, 0x6d, 0x94, 0x41, 0x68, 0xee, 0xfb, 0x54, 0x98, 0x7c]
      [0x14] [] =
      some [0x46, 0x22, 0xd4, 0xdd, 0x6d, 0x94, 0x41, 0x68, 0xee, 0xfb, 0x54, 0x98, 0x68] ∧
    compress { piv := some [0x14], kid := some [], kidContext := none, group := false } =
      some [0x09, 0x14] ∧
    compress { piv := some [0x14], kid := some [],
               kidContext := some [0x37, 0xcb, 0xf3, 0x21, 0x00, 0x17, 0xa2, 0xd3], group := false } =
      some [0x19, 0x14, 0x08, 0x37, 0xcb, 0xf3, 0x21, 0x00, 0x17, 0xa2, 0xd3] := by decide +kernel

/-- the confirmed defects, in the model of the fixed code: a context-hint flag without its length
byte, a reserved Partial-IV length, are decode errors -/
example : uncompress [0x10] = none ∧ uncompress [0x11, 0x01] = none ∧
    uncompress [0x0e, 0, 0, 0, 0, 0, 0, 0x6b] = none ∧
    uncompress [0x19, 0x14, 0x01, 0x37, 0x01] =
      some { piv := some [0x14], kid := some [1], kidContext := some [0x37], group := false } := by
  decide +kernel

/-- the round-4 defects, in the model of the fixed code: bytes behind the announced fields of a
k-less option (`01 05 aa`, `00 aa bb`, KID context followed by junk), a non-empty option without
flags (`00`), a Partial IV with a leading zero byte (`02 00 05`) are decode errors; the same bytes
behind a KID flag are the KID; `01 00` (the number 0) is fine -/
example : uncompress [0x01, 0x05, 0xaa] = none ∧ uncompress [0x00, 0xaa, 0xbb] = none ∧
    uncompress [0x00] = none ∧ uncompress [0x11, 0x05, 0x01, 0x37, 0xaa] = none ∧
    uncompress [0x02, 0x00, 0x05] = none ∧ uncompress [0x0a, 0x00, 0x05, 0x01] = none ∧
    uncompress [0x01, 0x05] = some { piv := some [5], kid := none, kidContext := none, group := false } ∧
    uncompress [0x09, 0x05, 0xaa] =
      some { piv := some [5], kid := some [0xaa], kidContext := none, group := false } ∧
    uncompress [0x01, 0x00] =
      some { piv := some [0], kid := none, kidContext := none, group := false } := by
  decide +kernel

/-- the later response of the example with its Partial IV `01 07` re-encoded as `02 00 07`, with a
byte appended, and the first response's empty option replaced by `00 aa`: protection errors; a
response whose outer code 2.05 (69) became 0.05 (5) or 2.04 (68): protection error / same message;
the request with outer code FETCH (5) changed to 0.07 (7): protection error -/
example :
    (exLater.bind fun P => errOf (unprotect transparentAead exA (some exRc)
      { P.outer with opts := [(9, [2, 0, 7])] })) = some .decodeError ∧
    (exLater.bind fun P => errOf (unprotect transparentAead exA (some exRc)
      { P.outer with opts := [(9, [1, 7, 0xaa])] })) = some .decodeError ∧
    (exFirst.bind fun P => errOf (unprotect transparentAead exA (some exRc)
      { P.outer with opts := [(9, [0, 0xaa])] })) = some .decodeError ∧
    (exLater.bind fun P => errOf (unprotect transparentAead exA (some exRc)
      { P.outer with code := 5 })) = some .protectionInvalid ∧
    (exLater.bind fun P => okOf (unprotect transparentAead exA (some exRc)
      { P.outer with code := 68 })) =
      (exLater.bind fun P => okOf (unprotect transparentAead exA (some exRc) P.outer)) ∧
    (exProtected.bind fun P => errOf (unprotect transparentAead exB none
      { P.outer with code := 7 })) = some .protectionInvalid := by decide +kernel

/-- the hypothesis of the `_partial` ciphertext clauses is satisfiable: a ciphertext with one
flipped bit is not an encryption of anything under the same key, nonce and AAD -/
example : ∀ pt', (tEnc [11, 12] [7] [8] [1, 2, 3]).set 3 13 ≠ transparentAead.enc [11, 12] [7] [8] pt' := by
  intro pt' h
  have hc := transparentAead.correct [11, 12] [7] [8] pt'
  rw [← h] at hc
  have hnone : transparentAead.dec [11, 12] [7] [8] ((tEnc [11, 12] [7] [8] [1, 2, 3]).set 3 13) = none := by
    decide +kernel
  rw [hnone] at hc
  cases hc

/-- … while a re-encryption of another plaintext is a *different* ciphertext that is accepted
(the witness against the unrestricted ciphertext clause) -/
example : tEnc [11, 12] [7] [8] [1, 2, 4] ≠ tEnc [11, 12] [7] [8] [1, 2, 3] ∧
    transparentAead.dec [11, 12] [7] [8] (tEnc [11, 12] [7] [8] [1, 2, 4]) = some [1, 2, 4] := by
  decide +kernel

end Aiocoap.Oscore.Prot
