import Properties.C10
import Proofs.MsgLayer.ShutFlag
/-!
# C18 — shutdown at any moment fails pending work and leaves nothing running

Model: `AiocoapModel/MsgLayer/Model.lean` — `shutdown` is `Context.shutdown()` seen from the
message layer: `TokenManager.shutdown` (stop every incoming request's pipe, fail every outgoing
request with `LibraryShutdown`) followed by `MessageManager.shutdown` (cancel every
retransmission timer *and every pending empty-ACK timer* — the latter is the `fix:` commit for
this property —, mark the manager closed).  What the model cannot exhibit — that cancelling a
handler task really stops it, that no callback raises in the loop — is decided on the real event
loop by the correspondence harness and its oracle (second context included).
-/
namespace Aiocoap.MsgLayer

/-- the state after shutdown: closed, and no exchange, backlog, ACK opportunity or request left -/
structure Shut (s : State) : Prop where
  tok : s.shutTok = true
  msg : s.shutMsg = true
  ex : s.exchanges = []
  bl : s.backlogs = []
  pg : s.piggy = []
  og : s.outgoing = []
  ic : s.incoming = []

/-- **C18 (everything pending fails).** Shutdown, in whatever state, puts `LibraryShutdown` on the
pipe of every outstanding request and observation and stops the pipe of every request being
served (which cancels its handler); afterwards the context is closed with nothing pending. -/
theorem C18_all_fail (s : State) (h : s.shutTok = false) :
    (∀ o ∈ s.outgoing, Out.fail o.req .libraryShutdown ∈ (shutdown s).2) ∧
    (∀ i ∈ s.incoming, Out.stop i.srv ∈ (shutdown s).2) ∧
    sendsOf (shutdown s).2 = [] ∧
    Shut (shutdown s).1 := by
  simp only [shutdown, h, Bool.false_eq_true, ↓reduceIte]
  refine ⟨?_, ?_, ?_, ⟨rfl, rfl, rfl, rfl, rfl, rfl, rfl⟩⟩
  · intro o ho; exact List.mem_append_right _ (List.mem_map.mpr ⟨o, ho, rfl⟩)
  · intro i hi; exact List.mem_append_left _ (List.mem_map.mpr ⟨i, hi, rfl⟩)
  · simp only [sendsOf, List.filterMap_append, List.filterMap_map]
    simp [Function.comp_def]

theorem Shut_of_fields {s s' : State} (h : Shut s) (h1 : s'.shutTok = s.shutTok)
    (h2 : s'.shutMsg = s.shutMsg) (h3 : s'.exchanges = s.exchanges) (h4 : s'.backlogs = s.backlogs)
    (h5 : s'.piggy = s.piggy) (h6 : s'.outgoing = s.outgoing) (h7 : s'.incoming = s.incoming) :
    Shut s' :=
  ⟨h1 ▸ h.tok, h2 ▸ h.msg, h3 ▸ h.ex, h4 ▸ h.bl, h5 ▸ h.pg, h6 ▸ h.og, h7 ▸ h.ic⟩

/-- **C18 (silent afterwards).** Once shut down, *no* later event — a late datagram, a timer of
any kind that might still be in the loop, a response from a handler that was not cancelled in
time, a transport error, a new submission, a second shutdown — makes the context transmit
anything, and it stays shut down. -/
theorem C18_silent_after (s : State) (h : Shut s) (ev : Ev) :
    Shut (handle s ev).1 ∧ sendsOf (handle s ev).2 = [] := by
  cases ev with
  | submit r remote mc ob m => simp [handle, submit, h.tok, sendsOf, h]
  | recv remote mcl w => simp [handle, h.msg, sendsOf, h]
  | respond sv m il => simp [handle, respond, h.ic, sendsOf, h]
  | appCancel r =>
    exact ⟨Shut_of_fields h rfl rfl rfl rfl rfl (by simp [handle, appCancel, dropOutgoing, h.og]) rfl,
      by simp [handle, appCancel, sendsOf]⟩
  | error remote => simp [handle, dispatchError, h.msg, sendsOf, h]
  | fireRetransmit remote mid => simp [handle, fireRetransmit, findExchange, h.ex, sendsOf, h]
  | fireEmptyAck remote token => simp [handle, fireEmptyAck, h.pg, sendsOf, h]
  | fireExpire remote mid =>
    exact ⟨Shut_of_fields h rfl rfl rfl rfl rfl rfl rfl, by simp [handle, fireExpire, sendsOf]⟩
  | shutdown => simp [handle, shutdown, h.tok, sendsOf, h]

/-- … for whole runs: after shutdown nothing is ever sent again, whatever happens. -/
theorem C18_silent_forever (s : State) (h : Shut s) (es : List TEv) :
    Shut (run s es).1 ∧ sendsOf (run s es).2 = [] := by
  induction es generalizing s with
  | nil => exact ⟨h, rfl⟩
  | cons e es ih =>
    simp only [run]
    have h0 : Shut (setNow s e.time) := Shut_of_fields h rfl rfl rfl rfl rfl rfl rfl
    have h1 := C18_silent_after (setNow s e.time) h0 e.ev
    have h2 := ih (step s e).1 h1.1
    refine ⟨h2.1, ?_⟩
    rw [sendsOf_append]
    simp only [step] at h2 ⊢
    rw [h1.2, h2.2]; rfl

/-- **C18 (later submissions fail at once).** A request submitted after shutdown gets
`LibraryShutdown` in the same step and leaves no trace. -/
theorem C18_submit_after_fails_immediately (s : State) (h : Shut s) (r : Nat) (remote : Remote)
    (mc ob : Bool) (m : OutMsg) :
    submit s r remote mc ob m = (s, [.fail r .libraryShutdown]) := by
  simp [submit, h.tok]

/-- **C18 (no live timer left).** After shutdown the only timers of the context still in the loop
are expiries of deduplication entries, whose callback only drops a table entry. -/
theorem C18_only_expiry_timers_left (s : State) (h : Shut s) :
    ∀ t ∈ timers s, ∃ r m, t.2 = Timer.expire r m := by
  intro t ht
  simp only [timers, h.ex, h.pg, List.map_nil, List.nil_append, List.mem_map] at ht
  obtain ⟨x, _, rfl⟩ := ht
  exact ⟨_, _, rfl⟩

/-- **C18 (shutdown at any moment, whole run).** Take any state that is not shut down — in
particular the state after any history whatsoever — shut down at time `t`, and let *anything*
follow (`es` is arbitrary: late datagrams, every timer that was pending, late handler
responses, transport errors, new submissions, further shutdowns).  Over the whole rest of the
run, shutdown step included: every request and observation that was outstanding gets
`LibraryShutdown`, every request being served has its pipe stopped, not a single message is
transmitted, and the context ends shut down with nothing pending.  This is `C18_all_fail`
composed with `C18_silent_forever`; it is the statement the harness samples when it injects
shutdown at every instant of the busy scenarios. -/
theorem C18_shutdown_anywhere (s : State) (h : s.shutTok = false) (t : Nat) (es : List TEv) :
    (∀ o ∈ s.outgoing, Out.fail o.req .libraryShutdown ∈ (run s (⟨t, .shutdown⟩ :: es)).2) ∧
    (∀ i ∈ s.incoming, Out.stop i.srv ∈ (run s (⟨t, .shutdown⟩ :: es)).2) ∧
    sendsOf (run s (⟨t, .shutdown⟩ :: es)).2 = [] ∧
    Shut (run s (⟨t, .shutdown⟩ :: es)).1 := by
  have h0 : (setNow s t).shutTok = false := h
  obtain ⟨hf, hs, hq, hsh⟩ := C18_all_fail (setNow s t) h0
  have hr := C18_silent_forever (shutdown (setNow s t)).1 hsh es
  have hrun : run s (⟨t, .shutdown⟩ :: es) =
      ((run (shutdown (setNow s t)).1 es).1,
        (shutdown (setNow s t)).2 ++ (run (shutdown (setNow s t)).1 es).2) := rfl
  rw [hrun]
  refine ⟨fun o ho => List.mem_append_left _ (hf o ho),
    fun i hi => List.mem_append_left _ (hs i hi), ?_, hr.1⟩
  rw [sendsOf_append, hq, hr.2]; rfl

/-- … and from the very beginning: whatever history `pre` the context went through before (from
any state — the initial one included), if it has not been shut down by then, the same holds for
the requests outstanding at that moment. -/
theorem C18_shutdown_after_any_history (s0 : State) (pre : List TEv)
    (h : (run s0 pre).1.shutTok = false) (t : Nat) (es : List TEv) :
    (∀ o ∈ (run s0 pre).1.outgoing,
        Out.fail o.req .libraryShutdown ∈ (run (run s0 pre).1 (⟨t, .shutdown⟩ :: es)).2) ∧
    (∀ i ∈ (run s0 pre).1.incoming,
        Out.stop i.srv ∈ (run (run s0 pre).1 (⟨t, .shutdown⟩ :: es)).2) ∧
    sendsOf (run (run s0 pre).1 (⟨t, .shutdown⟩ :: es)).2 = [] ∧
    Shut (run (run s0 pre).1 (⟨t, .shutdown⟩ :: es)).1 :=
  C18_shutdown_anywhere _ h t es

/-- **C18 (a second shutdown is a no-op).** `Context.shutdown()` called again on a context that
is shut down changes nothing and reports nothing. -/
theorem C18_shutdown_idempotent (s : State) (h : Shut s) : shutdown s = (s, []) := by
  simp [shutdown, h.tok]

/-- a context is either open for business or completely shut down — there is no state in which the
token manager has shut down and something is still pending -/
def OpenOrShut (s : State) : Prop := s.shutTok = false ∨ Shut s

theorem OpenOrShut_step (s : State) (h : OpenOrShut s) (e : TEv) : OpenOrShut (step s e).1 := by
  rcases h with h | h
  · by_cases hev : e.ev = .shutdown
    · right
      have h0 : (setNow s e.time).shutTok = false := h
      simp only [step, hev, handle]
      exact (C18_all_fail _ h0).2.2.2
    · left
      have := (handle_flags (setNow s e.time) e.ev hev).2
      simp only [step]
      rw [this]; exact h
  · right
    exact (C18_silent_after (setNow s e.time)
      (Shut_of_fields h rfl rfl rfl rfl rfl rfl rfl) e.ev).1

theorem OpenOrShut_run (es : List TEv) : ∀ s : State, OpenOrShut s → OpenOrShut (run s es).1 := by
  induction es with
  | nil => intro s h; exact h
  | cons e es ih => intro s h; exact ih _ (OpenOrShut_step s h e)

/-- **C18 (no half-shut state is reachable).** In every state a context can reach from its
creation, by any history, either the token manager is not shut down or *everything* is: both
flags set, no exchange, backlog, ACK opportunity, outstanding or served request left. -/
theorem C18_open_or_shut (cfg : Cfg) (mid token : Nat) (drawFn : Nat → Nat) (pre : List TEv) :
    OpenOrShut (run (init cfg mid token drawFn) pre).1 :=
  OpenOrShut_run pre _ (Or.inl rfl)

/-- **C18 (the property, without hypotheses).** For every configuration, every history `pre` from
the creation of the context (which may itself contain shutdowns), every time `t` and every
continuation `es`: from the shutdown at `t` on nothing at all is transmitted, the context ends
shut down, and whatever was outstanding or being served at `t` has been failed with
`LibraryShutdown` / stopped by the end of that step. -/
theorem C18_shutdown_at_any_moment (cfg : Cfg) (mid token : Nat) (drawFn : Nat → Nat)
    (pre : List TEv) (t : Nat) (es : List TEv) :
    sendsOf (run (run (init cfg mid token drawFn) pre).1 (⟨t, .shutdown⟩ :: es)).2 = [] ∧
    Shut (run (run (init cfg mid token drawFn) pre).1 (⟨t, .shutdown⟩ :: es)).1 ∧
    (∀ o ∈ (run (init cfg mid token drawFn) pre).1.outgoing, Out.fail o.req .libraryShutdown ∈
      (run (run (init cfg mid token drawFn) pre).1 (⟨t, .shutdown⟩ :: es)).2) ∧
    (∀ i ∈ (run (init cfg mid token drawFn) pre).1.incoming, Out.stop i.srv ∈
      (run (run (init cfg mid token drawFn) pre).1 (⟨t, .shutdown⟩ :: es)).2) := by
  rcases C18_open_or_shut cfg mid token drawFn pre with h | h
  · obtain ⟨h1, h2, h3, h4⟩ := C18_shutdown_anywhere _ h t es
    exact ⟨h3, h4, h1, h2⟩
  · have hr := C18_silent_forever _ h (⟨t, .shutdown⟩ :: es)
    refine ⟨hr.2, hr.1, ?_, ?_⟩
    · intro o ho; rw [h.og] at ho; cases ho
    · intro i hi; rw [h.ic] at hi; cases hi

theorem flagsAgree_step (s : State) (h : s.shutMsg = s.shutTok) (e : TEv) :
    (step s e).1.shutMsg = (step s e).1.shutTok := by
  by_cases hev : e.ev = .shutdown
  · simp only [step, hev, handle, shutdown]
    split
    · exact h
    · rfl
  · have hf := handle_flags (setNow s e.time) e.ev hev
    simp only [step]
    rw [hf.1, hf.2]; exact h

/-- **C18 (the two layers shut down together).** In every state reachable from creation the
message manager is shut down exactly when the token manager is: no history leaves one layer
running on top of (or below) a layer that has gone.  (Model-level: `shutdown` is one atomic step.
In the code `TokenManager.shutdown` reaches `MessageManager.shutdown`'s flag assignments through
plain `await`s of coroutines without a suspension point in between, tokenmanager.py:44-62,
messagemanager.py:78-95; what application callbacks run re-entrantly inside that stretch —
errbacks and stoppers that submit or cancel — is not in the model and is exercised by the
harness's in-shutdown scenario classes.) -/
theorem C18_layers_shut_together (cfg : Cfg) (mid token : Nat) (drawFn : Nat → Nat)
    (pre : List TEv) :
    (run (init cfg mid token drawFn) pre).1.shutMsg = (run (init cfg mid token drawFn) pre).1.shutTok := by
  suffices h : ∀ (es : List TEv) (s : State), s.shutMsg = s.shutTok →
      (run s es).1.shutMsg = (run s es).1.shutTok from h pre _ rfl
  intro es
  induction es with
  | nil => intro s h; exact h
  | cons e es ih => intro s h; exact ih _ (flagsAgree_step s h e)

theorem count_map_inj {α β : Type} [DecidableEq α] [DecidableEq β] (f : α → β)
    (hf : ∀ a b, f a = f b → a = b) (a : α) (l : List α) : (l.map f).count (f a) = l.count a := by
  induction l with
  | nil => rfl
  | cons x xs ih =>
    simp only [List.map_cons, List.count_cons, ih]
    by_cases hx : x = a
    · simp [hx]
    · have : ¬ f x = f a := fun e => hx (hf _ _ e)
      simp [hx, this]

theorem count_one_of_nodup {α : Type} [DecidableEq α] (a : α) (l : List α) (hn : l.Nodup)
    (hm : a ∈ l) : l.count a = 1 := by
  induction l with
  | nil => cases hm
  | cons x xs ih =>
    obtain ⟨hx, hxs⟩ := List.nodup_cons.mp hn
    by_cases e : x = a
    · subst e
      simp [List.count_cons, List.count_eq_zero.mpr hx]
    · have hm' : a ∈ xs := by
        cases hm with
        | head => exact absurd rfl e
        | tail _ h => exact h
      simp [List.count_cons, e, ih hxs hm']

/-- **C18 (each outstanding request fails exactly once in the shutdown step).** When the
outstanding requests have distinct identities, shutdown reports `LibraryShutdown` for each of
them once, not several times. -/
theorem C18_fail_once (s : State) (h : s.shutTok = false)
    (hn : (s.outgoing.map (·.req)).Nodup) (o : OutReq) (ho : o ∈ s.outgoing) :
    (shutdown s).2.count (Out.fail o.req .libraryShutdown) = 1 := by
  simp only [shutdown, h, Bool.false_eq_true, ↓reduceIte, List.count_append]
  have h1 : (s.incoming.map (fun i => Out.stop i.srv)).count (Out.fail o.req .libraryShutdown) = 0 := by
    apply List.count_eq_zero.mpr
    intro hm
    obtain ⟨i, _, hi⟩ := List.mem_map.mp hm
    cases hi
  have h2 : s.outgoing.map (fun x => Out.fail x.req .libraryShutdown) =
      (s.outgoing.map (·.req)).map (fun r => Out.fail r .libraryShutdown) := by
    simp [List.map_map, Function.comp_def]
  rw [h1, h2, count_map_inj (fun r => Out.fail r ErrKind.libraryShutdown)
    (by intro a b hab; cases hab; rfl), Nat.zero_add]
  exact count_one_of_nodup _ _ hn (List.mem_map.mpr ⟨o, ho, rfl⟩)

-- non-vacuity -------------------------------------------------------------------------------

/-- a CON request arrives (empty-ACK timer armed), a request of our own is in flight; shutdown one
tick later; the timers that were pending fire anyway: nothing is sent -/
def c18Run : List TEv :=
  [⟨3, .submit 0 2 false false (c10Resp 0 |> fun m => { m with code := 1, reliability := some true })⟩,
   ⟨5, .recv 1 false (c10Req .con 70)⟩, ⟨6, .shutdown⟩,
   ⟨15, .fireEmptyAck 1 [1]⟩, ⟨23, .fireRetransmit 2 500⟩, ⟨30, .respond 0 (c10Resp 0) true⟩,
   ⟨40, .submit 1 2 false false (c10Resp 0)⟩]

example : ((run (init c10Cfg 500 0 (fun _ => 20)) c18Run).2.map fun o =>
    match o with
    | .send t r w => ("send", t, r, w.mid)
    | .deliver sv r _ => ("deliver", sv, r, 0)
    | .stop sv => ("stop", sv, 0, 0)
    | .response r _ _ => ("response", r, 0, 0)
    | .fail r k => ("fail", r, if k = .libraryShutdown then 1 else 0, 0)) =
    [("send", 3, 2, 500), ("deliver", 0, 1, 0), ("stop", 0, 0, 0), ("fail", 0, 1, 0), ("fail", 1, 1, 0)] := by
  decide

/-- the premises of `C18_shutdown_anywhere` / `C18_fail_once` are met by a busy state: after the
first two events of `c18Run` a request is outstanding, a request is being served, nothing is shut -/
example : (run (init c10Cfg 500 0 (fun _ => 20)) (c18Run.take 2)).1.shutTok = false ∧
    ((run (init c10Cfg 500 0 (fun _ => 20)) (c18Run.take 2)).1.outgoing.map (·.req)).Nodup ∧
    (run (init c10Cfg 500 0 (fun _ => 20)) (c18Run.take 2)).1.outgoing.length = 1 ∧
    (run (init c10Cfg 500 0 (fun _ => 20)) (c18Run.take 2)).1.incoming.length = 1 := by
  decide

end Aiocoap.MsgLayer
