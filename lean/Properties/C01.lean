import Proofs.Codec.Message
import AiocoapModel.Codec.Receive
/-!
# C01 — CoAP datagram codec: lossless round trip, RFC 7252 §3 format, total parsing

Model: `AiocoapModel/Codec/{ExtField,OptionValue,Options,Message}.lean` (the functions the
driver runs: `readExt`, `writeExt`, `utf8Valid`, `formatOf`, `valDecode`, `valEncode`,
`decodeOpts`, `encodeOpts`, `sortOpts`, `decode`, `encode`); declarative specification:
`AiocoapModel/Codec/Rfc7252.lean` (`Datagram`, `OptList`, `ExtField`, `ValSpec`, `Utf8`).

All theorems hold for all inputs: no bound on the number of options, on option numbers, on
value or payload sizes, or on the length of the byte string.  Byte strings are `List Nat` with
`Bytes.wf` (every element < 256); the driver only ever produces such lists.  Only property
theorems and non-vacuity examples live in this file.
-/
namespace Aiocoap.Codec

open Rfc7252

-- extended option delta / length fields ----------------------------------------------------

/-- `_write_extended_field_value` succeeds on every value up to 65804 and
`_read_extended_field_value` reads the value back, whatever follows. -/
theorem C01_ext_roundtrip (v : Nat) (hv : v ≤ 65804) :
    ∃ nib ext, writeExt v = some (nib, ext) ∧ nib ≤ 14 ∧ ext.wf ∧
      ∀ rest, readExt nib (ext ++ rest) = some (v, rest) := by
  obtain ⟨nib, ext, h⟩ := writeExt_some_of_le hv
  have hf := writeExt_extField h
  exact ⟨nib, ext, h, extField_nib_le hf, extField_wf hf, readExt_writeExt h⟩

/-- Reader and writer have the same domain: whatever value the reader can produce from bytes
(in particular 65804 from `e: ff ff`) the writer can write, and beyond it both refuse. -/
theorem C01_ext_domains_agree :
    (∀ nib raw v rest, Bytes.wf raw → readExt nib raw = some (v, rest) → (writeExt v).isSome = true) ∧
    (∀ v, (writeExt v).isSome = true ↔ v ≤ 65804) := by
  refine ⟨?_, writeExt_isSome_iff⟩
  intro nib raw v rest hw h
  obtain ⟨ext, _, hf⟩ := readExt_extField hw h
  exact (writeExt_isSome_iff v).2 (extField_value_le hf)

-- option values ------------------------------------------------------------------------------

/-- value level round trip for every format: a legal value is parsed back from its
serialisation, and the serialisation is the one the RFC reads as that value. -/
theorem C01_value_roundtrip (f : Fmt) (v : OptVal) (h : v.legal f) :
    valDecode f (valEncode v) = .ok v ∧ ValSpec f (valEncode v) v :=
  ⟨valDecode_valEncode h, legal_valSpec h⟩

/-- the value parser computes exactly the RFC reading of the bytes (uint with leading zeros,
Block NUM/M/SZX, UTF-8 strings, opaque), and re-serialisation is canonical: never longer,
byte-identical for strings and opaque values, and stable under a second round. -/
theorem C01_value_canonical (f : Fmt) (b : Bytes) (v : OptVal) (hb : b.wf) :
    (valDecode f b = .ok v ↔ ValSpec f b v) ∧
    (valDecode f b = .ok v → v.legal f ∧ (valEncode v).length ≤ b.length ∧
      valDecode f (valEncode v) = .ok v ∧ ((f = .string ∨ f = .opaque) → valEncode v = b)) := by
  refine ⟨(valSpec_iff_valDecode f b v).symm, ?_⟩
  intro h
  have hs := valDecode_valSpec h
  exact ⟨valSpec_legal hs hb, valSpec_encode_length_le hs hb, valDecode_canonical hb h,
    fun hf => valEncode_valDecode_bytes hf h⟩

/-- the executable UTF-8 check accepts exactly the `UTF8-octets` of RFC 3629 §4 -/
theorem C01_utf8_rfc3629 (b : Bytes) : utf8Valid b = true ↔ Utf8 b := utf8Valid_iff b

-- option order ------------------------------------------------------------------------------

/-- `option_list()` is the stable sort by option number: ordered, a rearrangement of what was
added, repeated options keep their relative order, and an ordered list is unchanged. -/
theorem C01_option_order (l : List Opt) :
    (sortOpts l).Pairwise (fun a b => a.num ≤ b.num) ∧ (sortOpts l).Perm l ∧
    (∀ n, (sortOpts l).filter (fun p => p.num == n) = l.filter (fun p => p.num == n)) ∧
    (l.Pairwise (fun a b => a.num ≤ b.num) → sortOpts l = l) :=
  ⟨sortOpts_sorted l, sortOpts_perm l, sortOpts_stable l, sortOpts_of_sorted⟩

-- option lists -------------------------------------------------------------------------------

/-- option list round trip with delta coding, from any current option number, followed by
nothing or by a payload: the parser returns exactly the options, in order, and the payload. -/
theorem C01_opts_roundtrip (cur : Nat) (os : List Opt) (h : OptsOK cur os) :
    ∃ ob, encodeOpts cur os = some ob ∧ ob.wf ∧ OptList cur ob os ∧
      decodeOpts cur ob = .ok (os, []) ∧
      ∀ payload, decodeOpts cur (ob ++ 0xFF :: payload) = .ok (os, payload) := by
  obtain ⟨ob, henc, hol⟩ := optsOK_encodeOpts h
  refine ⟨ob, henc, optList_wf hol, hol, ?_, fun payload => optList_decodeOpts hol (.inr rfl)⟩
  have := optList_decodeOpts hol (tail := []) (pl := []) (.inl ⟨rfl, rfl⟩)
  simpa using this

-- whole messages -----------------------------------------------------------------------------

/-- **Round trip.** Every well-formed message serialises, and parsing the bytes gives back
every field, with the options in `option_list()` order (stable by number). -/
theorem C01_roundtrip (m : Msg) (h : m.wf) :
    ∃ b, encode m = .ok b ∧ b.wf ∧ decode b = .ok m.canon := by
  obtain ⟨b, henc, hdec⟩ := roundtrip_lax (Msg.wf_lax h)
  exact ⟨b, henc, encode_layout_wf (Msg.wf_lax h) henc, hdec⟩

/-- round trip for messages whose options were added in number order: `decode (encode m) = m` -/
theorem C01_roundtrip_in_order (m : Msg) (h : m.wf)
    (hs : m.opts.Pairwise (fun a b => a.num ≤ b.num)) :
    ∃ b, encode m = .ok b ∧ decode b = .ok m := by
  obtain ⟨b, henc, _, hdec⟩ := C01_roundtrip m h
  refine ⟨b, henc, ?_⟩
  rw [hdec, Msg.canon, sortOpts_of_sorted hs]

/-- **Serialiser output is RFC 7252 §3.** The bytes `encode` produces for a well-formed
message are a datagram of the declarative grammar, and the grammar assigns them the message. -/
theorem C01_encode_is_rfc (m : Msg) (h : m.wf) (b : Bytes) (he : encode m = .ok b) :
    Datagram b m.canon := by
  obtain ⟨ob, hol, henc⟩ := encode_layout (Msg.wf_lax h)
  rw [henc] at he; cases he
  obtain ⟨ht, hc, hm, hk, htw, hpw, _⟩ := h
  have hpp : PayloadPart (if m.payload.length > 0 then 0xFF :: m.payload else []) m.payload := by
    cases hp : m.payload with
    | nil => exact .absent
    | cons x xs =>
      simp only [List.length_cons, Nat.zero_lt_succ, if_true, gt_iff_lt]
      exact .present (by simp) (by rw [← hp]; exact hpw)
  have := Datagram.mk ht hk hc hm rfl htw hol hpp
  simpa [Msg.canon] using this

/-- **RFC-well-formed datagrams are parsed as the RFC says.** -/
theorem C01_rfc_is_parsed (b : Bytes) (m : Msg) (h : Datagram b m) : decode b = .ok m := by
  cases h with
  | @mk t tkl code mid token ob tail payload os ht hk hc hm htok _ hol hpp =>
    have htail : TailOf tail payload := by
      cases hpp with
      | absent => exact .inl ⟨rfl, rfl⟩
      | present _ _ => exact .inr rfl
    have := decode_layout (code := code) (m1 := mid / 256) (m0 := mid % 256) ht
      (by omega : tkl < 16) htok hol htail
    have e : mid / 256 * 256 + mid % 256 = mid := by omega
    rw [e] at this
    simpa using this

/-- the grammar is functional: a byte string is a datagram of at most one message -/
theorem C01_rfc_unambiguous (b : Bytes) (m m' : Msg) (h : Datagram b m) (h' : Datagram b m') :
    m = m' := by
  have := C01_rfc_is_parsed b m h
  rw [C01_rfc_is_parsed b m' h'] at this
  cases this; rfl

/-- **No other exception.** The parser's only failure is `unparsable`
(`error.UnparsableMessage`); in particular a value decoder's `UnicodeDecodeError` never
escapes. -/
theorem C01_no_other_exception (raw : Bytes) (e : ValErr) : decode raw ≠ .error (.escaped e) := by
  intro h
  cases decode_error h

/-- **Totality.** Every byte string is either rejected as unparsable or parsed into a message
that serialises and parses back to itself. -/
theorem C01_total (raw : Bytes) (hw : raw.wf) :
    decode raw = .error .unparsable ∨
    ∃ m b', decode raw = .ok m ∧ encode m = .ok b' ∧ decode b' = .ok m := by
  cases h : decode raw with
  | error e => left; rw [decode_error h]
  | ok m =>
    right
    obtain ⟨hwf, hcanon⟩ := decode_wfTok hw h
    obtain ⟨b', henc, hdec⟩ := roundtrip_lax hwf
    exact ⟨m, b', rfl, henc, by rw [hdec, hcanon]⟩

/-- **What the parser accepts.** A byte string that is parsed is either an RFC 7252 §3 datagram
of exactly the returned message, or falls under one of the three leniencies of the code (each a
"message format error" in the RFC): a payload marker followed by nothing (the rest being an RFC
datagram of the returned message), a token length nibble 9..15, or a token cut short by the end
of the datagram.  All of them still round-trip by `C01_total`. -/
theorem C01_accepted_language (raw : Bytes) (m : Msg) (hw : raw.wf) (h : decode raw = .ok m) :
    Datagram raw m ∨
    (∃ pre, raw = pre ++ [0xFF] ∧ Datagram pre m) ∨
    (∃ vttkl rest, raw = vttkl :: rest ∧ (8 < vttkl % 16 ∨ rest.length < 3 + vttkl % 16)) :=
  decode_accepted hw h

-- the udp6 receive path (socket → dispatch) ---------------------------------------------------

/-- Whatever the buffer size and the datagram's size: the transport dispatches the message that
`Message.decode` reads out of the *whole* datagram, or nothing; never a message read out of a part
of it, and no exception reaches the event loop. -/
theorem C01_udp6_whole_or_nothing (bufsize : Nat) (d : Bytes) :
    udp6ReceiveWith bufsize d = .dropped ∨
    ∃ m, udp6ReceiveWith bufsize d = .dispatched m ∧ decode d = .ok m := by
  unfold udp6ReceiveWith kernelRecvmsg
  by_cases hc : bufsize < d.length
  · left; simp [hc]
  · have ht : d.take bufsize = d := List.take_of_length_le (by omega)
    simp only [hc, decide_false, ht]
    cases h : decode d with
    | ok m => right; exact ⟨m, by simp, rfl⟩
    | error e => left; rw [decode_error h]; simp

/-- **"All byte strings up to a datagram's size"**: for every byte string a UDP datagram can carry
the udp6 transport is transparent — a message is dispatched iff the bytes parse, and it is that
message; only what the parser rejects is dropped. -/
theorem C01_udp6_transparent (d : Bytes) (hl : d.length ≤ maxUdpPayload) :
    udp6Receive d = (match decode d with
                     | .ok m => .dispatched m
                     | .error _ => .dropped) := by
  unfold udp6Receive udp6ReceiveWith kernelRecvmsg
  have hc : ¬ recvBufSize < d.length := by unfold recvBufSize; unfold maxUdpPayload at hl; omega
  have ht : d.take recvBufSize = d := List.take_of_length_le (by omega)
  simp only [hc, decide_false, ht]
  cases h : decode d with
  | ok m => simp
  | error e => rw [decode_error h]; simp

/-- **Every RFC-well-formed datagram that arrives on the udp6 socket is dispatched as the message
the RFC assigns to it** (second sentence of the property, at the transport named by the anchors). -/
theorem C01_udp6_rfc_is_dispatched (d : Bytes) (m : Msg) (h : Datagram d m)
    (hl : d.length ≤ maxUdpPayload) : udp6Receive d = .dispatched m := by
  rw [C01_udp6_transparent d hl, C01_rfc_is_parsed d m h]

-- non-vacuity --------------------------------------------------------------------------------

/-- a message with every format, repeated options, an unknown number, and deltas
12 / 13 / 268 / 269 / 65804 (from 292: 304, 317, 585, 854, 66658) -/
def exampleMsg : Msg :=
  { mtype := 2, code := 69, mid := 0xBEEF, token := [1, 2, 3, 4, 5, 6, 7, 8]
    opts := [⟨11, .str [0x74, 0xC3, 0xA9]⟩, ⟨11, .str []⟩, ⟨4, .opaque [0, 255]⟩,
             ⟨12, .cf 50⟩, ⟨23, .block 5 true 6⟩, ⟨60, .uint 1024⟩, ⟨292, .opaque [9]⟩,
             ⟨304, .opaque []⟩, ⟨317, .opaque [1]⟩, ⟨585, .opaque [2]⟩, ⟨854, .opaque [3]⟩,
             ⟨66658, .opaque [4]⟩, ⟨6, .uint 0⟩]
    payload := [0xFF, 0x00] }

/-- the hypotheses of the round-trip theorems are satisfiable by a non-trivial message -/
example : exampleMsg.wf := by
  have l1 : (natToMinBE 50).length ≤ 65804 :=
    Nat.le_trans (natToMinBE_length_small (by decide)) (by decide)
  have l2 : (natToMinBE (5 * 16 + 8 + 6)).length ≤ 65804 :=
    Nat.le_trans (natToMinBE_length_small (by decide)) (by decide)
  have l3 : (natToMinBE 1024).length ≤ 65804 :=
    Nat.le_trans (natToMinBE_length_small (by decide)) (by decide)
  have l4 : (natToMinBE 0).length ≤ 65804 :=
    Nat.le_trans (natToMinBE_length_small (by decide)) (by decide)
  refine ⟨by decide, by decide, by decide, by decide, by decide, by decide, ?_⟩
  have hs : sortOpts exampleMsg.opts =
      [⟨4, .opaque [0, 255]⟩, ⟨6, .uint 0⟩, ⟨11, .str [0x74, 0xC3, 0xA9]⟩, ⟨11, .str []⟩,
       ⟨12, .cf 50⟩, ⟨23, .block 5 true 6⟩, ⟨60, .uint 1024⟩, ⟨292, .opaque [9]⟩,
       ⟨304, .opaque []⟩, ⟨317, .opaque [1]⟩, ⟨585, .opaque [2]⟩, ⟨854, .opaque [3]⟩,
       ⟨66658, .opaque [4]⟩] := by decide
  rw [hs]
  simp only [OptsOK, OptVal.legal, valEncode]
  simp [formatOf, utf8Valid, isCont, Bytes.wf, l1, l3, l4]
  exact l2

/-- its options are reordered by `option_list()`: 4, 6, 11, 11, 12, 23, 60, 292, … -/
example : (sortOpts exampleMsg.opts).map (·.num) =
    [4, 6, 11, 11, 12, 23, 60, 292, 304, 317, 585, 854, 66658] := by decide

/-- concrete sanity checks of the model: extended-field boundaries -/
example : writeExt 12 = some (12, []) ∧ writeExt 13 = some (13, [0]) ∧
    writeExt 268 = some (13, [255]) ∧ writeExt 269 = some (14, [0, 0]) ∧
    writeExt 65803 = some (14, [255, 254]) ∧ writeExt 65804 = some (14, [255, 255]) ∧
    writeExt 65805 = none ∧ readExt 14 [255, 255, 7] = some (65804, [7]) ∧
    readExt 15 [0, 0] = none ∧ readExt 13 [] = none := by decide

/-- the replay of the first confirmed defect: Uri-Path with invalid UTF-8 is `unparsable`
(before the fix it was an escaping `UnicodeDecodeError`) -/
example : decode [0x40, 0x01, 0x00, 0x01, 0xB1, 0xFF] = .error .unparsable := by
  simp [decode, decodeOpts, readExt, valDecode, formatOf, utf8Valid]

/-- a small datagram is parsed into the expected fields: GET, MID 1, token aa, Uri-Path "a",
payload "hi" -/
example : decode [0x41, 0x01, 0x00, 0x01, 0xAA, 0xB1, 0x61, 0xFF, 0x68, 0x69] =
    .ok { mtype := 0, code := 1, mid := 1, token := [0xAA],
          opts := [⟨11, .str [0x61]⟩], payload := [0x68, 0x69] } := by
  simp [decode, decodeOpts, readExt, valDecode, formatOf, utf8Valid]

/-- … and that datagram is one of the RFC grammar (hypothesis of `C01_rfc_is_parsed`) -/
example : Datagram [0x41, 0x01, 0x00, 0x01, 0xAA, 0xB1, 0x61, 0xFF, 0x68, 0x69]
    { mtype := 0, code := 1, mid := 1, token := [0xAA],
      opts := [⟨11, .str [0x61]⟩], payload := [0x68, 0x69] } := by
  have hopt : OptList 0 [0xB1, 0x61] [⟨11, .str [0x61]⟩] :=
    OptList.cons (prev := 0) (delta := 11) (dn := 11) (len := 1) (ln := 1) (dx := []) (lx := [])
      (value := [0x61]) (rest := []) (.direct (by decide)) (.direct (by decide)) rfl (by decide)
      (.string (.u1 (by decide) .nil)) .nil
  exact Datagram.mk (t := 0) (tkl := 1) (code := 1) (mid := 1) (token := [0xAA])
    (tail := [0xFF, 0x68, 0x69]) (by decide) (by decide) (by decide) (by decide) rfl (by decide)
    hopt (.present (by simp) (by decide))

/-- the two leniencies of the parser are real: TKL 9 and a dangling payload marker are
accepted (and round-trip by `C01_total`), although they are not RFC datagrams -/
example : decode [0x49, 0x01, 0x00, 0x01, 1, 2, 3, 4, 5, 6, 7, 8, 9] =
    .ok { mtype := 0, code := 1, mid := 1, token := [1, 2, 3, 4, 5, 6, 7, 8, 9],
          opts := [], payload := [] } := by
  simp [decode, decodeOpts]

example : decode [0x40, 0x01, 0x00, 0x01, 0xFF] =
    .ok { mtype := 0, code := 1, mid := 1, token := [], opts := [], payload := [] } := by
  simp [decode, decodeOpts]

/-- the receive path on a concrete datagram; and the buffer size matters: with a buffer shorter
than the datagram (what `max_size = 4096` was for a 4097 byte datagram) the same well-formed
datagram is lost -/
example : udp6Receive [0x41, 0x01, 0x00, 0x01, 0xAA, 0xB1, 0x61, 0xFF, 0x68, 0x69] =
    .dispatched { mtype := 0, code := 1, mid := 1, token := [0xAA],
                  opts := [{ num := 11, val := .str [0x61] }], payload := [0x68, 0x69] } := by
  rw [C01_udp6_transparent _ (by decide)]
  simp [decode, decodeOpts, readExt, valDecode, formatOf, utf8Valid]

example : udp6ReceiveWith 9 [0x41, 0x01, 0x00, 0x01, 0xAA, 0xB1, 0x61, 0xFF, 0x68, 0x69] = .dropped := by
  simp [udp6ReceiveWith, kernelRecvmsg]

end Aiocoap.Codec
