import Proofs.MsgLayer.Dedup
/-!
# C04 — duplicate requests are executed at most once and re-answered identically

Model: `AiocoapModel/MsgLayer/Model.lean` — `_recent_messages` = `recent` (entries keyed by
(remote, message id), with the stored reply and the tick at which `call_later(EXCHANGE_LIFETIME,
pop)` fires), `_deduplicate_message` = `isDup`/`recvDup`, `_store_response_for_duplicates` =
`storeReply`.
-/
namespace Aiocoap.MsgLayer

def isDeliver : Out → Bool
  | .deliver _ _ _ => true
  | _ => false

/-- **C04 (a duplicate is never executed).** While an entry for (remote, message id) is in the
table, another request datagram with that id from that endpoint is not handed to the
application, whatever else is in it, whenever it arrives. -/
theorem C04_dup_not_delivered (s : State) (remote : Remote) (mcLocal : Bool) (w : Wire)
    (h : isDup s remote w = true) : ∀ o ∈ (recv s remote mcLocal w).2, isDeliver o = false := by
  simp only [recv, h, ↓reduceIte, recvDup]
  intro o ho
  split at ho
  · split at ho
    · simp only [sendInitially, List.mem_singleton] at ho
      subst ho; rfl
    · cases ho
  · cases ho

/-- **C04 (CON duplicate: the stored ACK again, or nothing).** A confirmable duplicate is
answered by exactly the stored reply — the very `Wire` value that was sent before — or by
nothing when none has been sent yet; the table, exchanges and requests are untouched. -/
theorem C04_con_dup_reply (s : State) (remote : Remote) (mcLocal : Bool) (w : Wire)
    (h : isDup s remote w = true) (hc : w.mtype = .con) :
    (recv s remote mcLocal w).2 =
      match storedReply s remote w.mid with
      | some reply => [.send s.now remote reply]
      | none => [] := by
  simp only [recv, h, ↓reduceIte, recvDup, hc, beq_self_eq_true]
  cases hs : storedReply s remote w.mid <;> simp [sendInitially]

/-- **C04 (NON duplicate: silence).** A non-confirmable duplicate produces no output and changes
nothing. -/
theorem C04_non_dup_silent (s : State) (remote : Remote) (mcLocal : Bool) (w : Wire)
    (h : isDup s remote w = true) (hc : w.mtype ≠ .con) : recv s remote mcLocal w = (s, []) := by
  have : (w.mtype == MType.con) = false := by simpa using hc
  simp [recv, h, recvDup, this]

theorem storedReply_storeReply (s : State) (remote : Remote) (w : Wire)
    (hw : w.mtype = .ack ∨ w.mtype = .rst)
    (hin : s.recent.any (fun r => r.remote == remote && r.mid == w.mid) = true) :
    storedReply (storeReply s remote w) remote w.mid = some w := by
  have hw' : (w.mtype == MType.ack || w.mtype == MType.rst) = true := by
    rcases hw with h | h <;> simp [h]
  simp only [storedReply, storeReply, hw', ↓reduceIte]
  generalize s.recent = l at hin
  induction l with
  | nil => simp at hin
  | cons r rs ih =>
    simp only [List.map_cons, List.find?_cons]
    by_cases hr : (r.remote == remote && r.mid == w.mid) = true
    · simp [hr]
    · simp only [hr, Bool.false_eq_true, ↓reduceIte]
      simp only [List.any_cons, hr, Bool.false_or] at hin
      exact ih hin

/-- **C04 (the stored reply is the acknowledgement that was sent).** When an ACK (piggy-backed
response or empty) or RST for a recorded request goes out, it is what a later duplicate will be
answered with: identical type, code, id, token, options and payload. -/
theorem C04_reply_is_what_was_sent (s : State) (remote : Remote) (w : Wire) (mon : Monitor) (k : Nat)
    (hw : w.mtype = .ack ∨ w.mtype = .rst)
    (hin : s.recent.any (fun r => r.remote == remote && r.mid == w.mid) = true) :
    (sendInitially s remote w mon k).2 = [.send s.now remote w] ∧
    storedReply (sendInitially s remote w mon k).1 remote w.mid = some w := by
  have hnc : (w.mtype == MType.con) = false := by rcases hw with h | h <;> simp [h]
  simp only [sendInitially, hnc, Bool.false_eq_true, ↓reduceIte, true_and]
  exact storedReply_storeReply s remote w hw hin

theorem fireEmptyAck_noDeliver (s : State) (remote : Remote) (token : Token) :
    (fireEmptyAck s remote token).2.filter isDeliver = [] := by
  unfold fireEmptyAck
  split <;> rfl

/-- **C04 (first arrival: recorded and delivered once).** A request (CON or NON) whose
(remote, id) is not in the table is handed to the application exactly once, and from then on
the same (remote, id) counts as duplicate, with the entry expiring `EXCHANGE_LIFETIME` later. -/
theorem C04_first_arrival (s : State) (remote : Remote) (mcLocal : Bool) (w : Wire)
    (hreq : isRequest w.code = true) (ht : w.mtype = .con ∨ w.mtype = .non)
    (hnew : isDup s remote w = false) :
    ((recv s remote mcLocal w).2.filter isDeliver).length = 1 ∧
    HasEntry (recv s remote mcLocal w).1 remote w.mid (s.now + s.cfg.exchangeLifetime) := by
  have hdd : dedupable w = true := by
    rcases ht with h | h <;> simp [dedupable, hreq, h]
  have hna : fitsReply w = false := by
    rcases ht with h | h <;> simp [fitsReply, h]
  have hcn : (w.mtype == MType.con || w.mtype == MType.non) = true := by
    rcases ht with h | h <;> simp [h]
  have hc0 : (w.code == 0) = false := by
    simp only [isRequest, Bool.and_eq_true, decide_eq_true_eq] at hreq
    simp; omega
  constructor
  · simp only [recv, hnew, Bool.false_eq_true, ↓reduceIte, hreq, hdd, hna, recvCode, hc0, Bool.false_and,
      hcn, Bool.and_self, List.nil_append]
    simp only [processRequest, tokenProcessRequest, List.filter_append, fireEmptyAck_noDeliver]
    split <;> simp [List.filter_append, isDeliver, List.filter_cons]
  · have h0 : HasEntry ({ s with recent := s.recent ++
        [(⟨remote, w.mid, none, s.now + s.cfg.exchangeLifetime⟩ : Recent)] } : State) remote w.mid
        (s.now + s.cfg.exchangeLifetime) :=
      ⟨_, List.mem_append_right _ (List.mem_singleton.mpr rfl), rfl, rfl, rfl⟩
    simp only [recv, hnew, Bool.false_eq_true, ↓reduceIte, hdd, hna]
    exact recvCode_HasEntry h0 _ _ _

theorem isDup_of_HasEntry {s : State} {remote : Remote} {w : Wire} {x : Nat}
    (h : HasEntry s remote w.mid x) (hreq : dedupable w = true) : isDup s remote w = true := by
  obtain ⟨r, hr, h1, h2, _⟩ := h
  simp only [isDup, hreq, Bool.true_and, List.any_eq_true]
  exact ⟨r, hr, by simp [h1, h2]⟩

/-- **C04 (remembered for the whole lifetime).** Over any sequence of events that does not
contain the entry's own expiry timer — i.e., on the event loop, everything that happens before
`first arrival + EXCHANGE_LIFETIME` — the entry stays, so every further copy is a duplicate. -/
theorem C04_within_lifetime (s : State) (remote : Remote) (mid x : Nat) (h : HasEntry s remote mid x)
    (es : List TEv) (hno : ∀ e ∈ es, e.ev ≠ .fireExpire remote mid) :
    HasEntry (run s es).1 remote mid x := by
  induction es generalizing s with
  | nil => exact h
  | cons e es ih =>
    simp only [run]
    apply ih
    · unfold step
      exact handle_HasEntry (s := setNow s e.time) (HasEntry_of_recent h rfl) e.ev
        (hno e (List.mem_cons_self))
    · intro e' he'; exact hno e' (List.mem_cons_of_mem _ he')

/-- the expiry timer the event loop holds for an entry is due exactly at the recorded tick -/
theorem C04_expiry_timer (s : State) (remote : Remote) (mid x : Nat) (h : HasEntry s remote mid x) :
    (x, Timer.expire remote mid) ∈ timers s := by
  obtain ⟨r, hr, h1, h2, h3⟩ := h
  simp only [timers, List.mem_append, List.mem_map]
  exact Or.inr ⟨r, hr, by simp [h1, h2, h3]⟩

/-- **C04 (forgotten after the lifetime).** When the expiry timer has fired, (remote, id) is no
longer a duplicate: the next request with it is processed as a new one (`C04_first_arrival`). -/
theorem C04_forgotten_after_expiry (s : State) (remote : Remote) (w : Wire) :
    isDup (fireExpire s remote w.mid).1 remote w = false := by
  simp only [isDup, fireExpire, Bool.and_eq_false_imp]
  intro _
  rw [List.any_eq_false]
  intro r hr
  have := (List.mem_filter.mp hr).2
  cases hb : (r.remote == remote && r.mid == w.mid) <;> simp [hb] at this ⊢

/-- **C04 (endpoints are independent).** Whether a request is a duplicate depends only on the
entries of its own endpoint: the same id from another endpoint is a different request. -/
theorem C04_distinct_remotes_independent (s : State) (remote : Remote) (w : Wire)
    (h : ∀ r ∈ s.recent, r.remote = remote → r.mid ≠ w.mid) : isDup s remote w = false := by
  simp only [isDup, Bool.and_eq_false_imp]
  intro _
  rw [List.any_eq_false]
  intro r hr
  by_cases hrem : r.remote = remote
  · have := h r hr hrem
    simp [hrem, this]
  · simp [hrem]

-- non-vacuity -------------------------------------------------------------------------------

def c04Cfg : Cfg := { exchangeLifetime := 1000, emptyAckDelay := 10 }
def c04Req (t : MType) : Wire := { mtype := t, code := 1, mid := 77, token := [1], obs := none, body := 3 }
def c04Resp : OutMsg :=
  { mtype := none, reliability := none, code := 69, obs := none, body := 9, noResponse := 0, maxRetr := 4 }
/-- CON request, piggy-backed response, duplicate (gets the same ACK again), same id from another
endpoint (new), duplicate after the lifetime (new) -/
def c04Run : List TEv :=
  [⟨5, .recv 1 false (c04Req .con)⟩, ⟨8, .respond 0 c04Resp true⟩, ⟨50, .recv 1 false (c04Req .con)⟩,
   ⟨60, .recv 2 false (c04Req .con)⟩, ⟨1005, .fireExpire 1 77⟩, ⟨1006, .recv 1 false (c04Req .con)⟩]

example : ((run (init c04Cfg 9 0 (fun _ => 20)) c04Run).2.map fun o =>
    match o with
    | .send t r w => (t, r, w.mid, w.code)
    | .deliver sv r _ => (1000000 + sv, r, 0, 0)
    | _ => (0, 0, 0, 0)) =
    [(1000000, 1, 0, 0), (8, 1, 77, 69), (50, 1, 77, 69), (1000001, 2, 0, 0), (1000002, 1, 0, 0)] := by
  decide

end Aiocoap.MsgLayer
