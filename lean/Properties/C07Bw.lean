import AiocoapModel.Observe.Upper
/-!
# C07 — block-wise notifications through the default API never end the observation by themselves

Model: `AiocoapModel/Observe/Upper.lean` (`step`/`run` = the loop of
`BlockwiseRequest._run_observation`, one step per thing the `async for` over the lower observation
yields, with the outcome of fetching the rest of that notification's body).  The lower observation
is the runner + iterator of `Properties/C07.lean` / `Properties/C07Iter.lean`: what it yields is a
freshness-ordered subsequence of the arrivals that contains the last notification accepted, then
its end (`C07_iter_compose`).  The theorems here say what the application's observation is told,
for every such sequence and every outcome of every fetch.
-/
namespace Aiocoap.Observe.Upper

def Out.err? {α : Type} : Out α → Option ErrKind
  | .errback e => some e
  | _ => none

def Out.cb? {α : Type} : Out α → Option α
  | .callback m => some m
  | _ => none

def errbacks {α : Type} (os : List (Out α)) : List ErrKind := os.filterMap Out.err?
def callbacks {α : Type} (os : List (Out α)) : List α := os.filterMap Out.cb?

/-- an event after which the loop is over: the lower iteration ended, or the transport failed
under a block request -/
def LowerEv.ending {α : Type} : LowerEv α → Option ErrKind
  | .item _ (.network k) _ => some (.transport k)
  | .stop => some .observationCancelled
  | .raise k => some (.transport k)
  | _ => none

/-- the application cancels its observation at this event: the fetch succeeded, so there is a
callback, and the callback cancels -/
def LowerEv.appCancels {α : Type} : LowerEv α → Bool
  | .item _ .ok c => c
  | .cancel => true
  | _ => false

/-- the message this event hands to the application, if the loop is still running -/
def LowerEv.fetched {α : Type} : LowerEv α → Option α
  | .item m .ok _ => some m
  | _ => none

variable {α : Type}

theorem run_nil (s : St) : run s ([] : List (LowerEv α)) = (s, []) := rfl

theorem run_cons (s : St) (e : LowerEv α) (es : List (LowerEv α)) :
    run s (e :: es) = ((run (step s e).1 es).1, (step s e).2 ++ (run (step s e).1 es).2) := rfl

theorem run_not_running (s : St) (h : s ≠ .running) (es : List (LowerEv α)) :
    run s es = (s, []) := by
  induction es with
  | nil => rfl
  | cons e es ih =>
    have hs : step s e = (s, []) := by
      cases s with
      | running => exact absurd rfl h
      | ended => rfl
      | cancelled => rfl
    rw [run_cons, hs, ih]
    rfl

theorem run_append (s : St) (a b : List (LowerEv α)) :
    run s (a ++ b) = ((run (run s a).1 b).1, (run s a).2 ++ (run (run s a).1 b).2) := by
  induction a generalizing s with
  | nil => simp [run_nil]
  | cons e a ih => simp only [List.cons_append, run_cons, ih, List.append_assoc]

/-- the events up to and including the first one that ends the loop or at which the application
cancels -/
def live : List (LowerEv α) → List (LowerEv α)
  | [] => []
  | e :: es => if e.ending.isSome || e.appCancels then [e] else e :: live es

theorem step_running (e : LowerEv α) :
    (step .running e).2 = (e.fetched.map Out.callback).toList ++ (e.ending.map Out.errback).toList ∧
    (step .running e).1 =
      if e.ending.isSome then .ended else if e.appCancels then .cancelled else .running := by
  cases e with
  | item m f c =>
    cases f with
    | ok => cases c <;> simp [step, LowerEv.fetched, LowerEv.ending, LowerEv.appCancels]
    | failed => simp [step, LowerEv.fetched, LowerEv.ending, LowerEv.appCancels]
    | network k => simp [step, LowerEv.fetched, LowerEv.ending, LowerEv.appCancels]
  | stop => simp [step, LowerEv.fetched, LowerEv.ending, LowerEv.appCancels]
  | raise k => simp [step, LowerEv.fetched, LowerEv.ending, LowerEv.appCancels]
  | cancel => simp [step, LowerEv.fetched, LowerEv.ending, LowerEv.appCancels]

/-- **C07 (block-wise notifications: what the application is told, exactly).** For every sequence
of things the lower iteration yields and every outcome of every fetch: the application's
observation gets, in order, a callback for every item whose body was fetched (`ok`) and the
termination signal of the first ending event — up to the first event that ends the loop or at which
the application cancels from inside its callback; nothing for an item whose fetch failed with an
error that is no network error (`failed`: ETag changed, unexpected block, error reply carrying a
Block2 option …), and nothing at all afterwards. -/
theorem C07_bw_outputs_exact (es : List (LowerEv α)) :
    outs es = (live es).flatMap (fun e =>
      (e.fetched.map Out.callback).toList ++ (e.ending.map Out.errback).toList) := by
  unfold outs
  induction es with
  | nil => rfl
  | cons e es ih =>
    obtain ⟨h2, h1⟩ := step_running e
    rw [run_cons, h2]
    simp only [live]
    by_cases hend : e.ending.isSome = true
    · rw [h1]
      simp only [hend, ↓reduceIte, Bool.true_or, List.flatMap_cons, List.flatMap_nil, List.append_nil]
      rw [run_not_running .ended (by simp)]
      simp
    · have hend' : e.ending.isSome = false := by simpa using hend
      cases hc : e.appCancels
      · rw [h1]
        simp only [hend', hc, Bool.false_eq_true, ↓reduceIte, Bool.or_self, List.flatMap_cons]
        rw [ih]
      · rw [h1]
        simp only [hend', hc, Bool.false_eq_true, ↓reduceIte, Bool.or_true, List.flatMap_cons,
          List.flatMap_nil, List.append_nil]
        rw [run_not_running .cancelled (by simp)]
        simp

/-- **C07 (a notification whose body cannot be fetched does not end the observation).** The
application's observation is given a termination signal only by an event that ends the lower
iteration (`stop`: final response / not observable → `ObservationCancelled`; `raise`: the
transport's error) or by a network error under a block request — never by a fetch that failed
otherwise; at most one signal, and it is the one of the first such event, provided the application
has not cancelled before. -/
theorem C07_bw_end_only_by_network_or_lower_end (es : List (LowerEv α)) :
    errbacks (outs es) = ((live es).filterMap LowerEv.ending) ∧
    (errbacks (outs es)).length ≤ 1 ∧
    ((∀ e ∈ es, e.ending = none) → errbacks (outs es) = []) := by
  have hmain : errbacks (outs es) = ((live es).filterMap LowerEv.ending) := by
    rw [C07_bw_outputs_exact]
    induction live es with
    | nil => rfl
    | cons e l ih =>
      simp only [List.flatMap_cons, errbacks, List.filterMap_append, List.filterMap_cons] at ih ⊢
      rw [ih]
      cases h1 : e.fetched <;> cases h2 : e.ending <;> simp [Out.err?]
  have hlen : ((live es).filterMap LowerEv.ending).length ≤ 1 := by
    clear hmain
    induction es with
    | nil => simp [live]
    | cons e es ih =>
      simp only [live]
      cases h : e.ending with
      | some k => simp [h]
      | none =>
        cases hc : e.appCancels
        · simpa [h, hc, List.filterMap_cons] using ih
        · simp [h, hc, List.filterMap_cons]
  refine ⟨hmain, by rw [hmain]; exact hlen, ?_⟩
  intro hnone
  rw [hmain]
  have : ∀ l : List (LowerEv α), (∀ e ∈ l, e.ending = none) → (live l).filterMap LowerEv.ending = [] := by
    intro l
    induction l with
    | nil => intro _; rfl
    | cons e l ih =>
      intro h
      have he := h e List.mem_cons_self
      have hl := ih (fun e' he' => h e' (List.mem_cons_of_mem _ he'))
      simp only [live, he, Option.isSome_none, Bool.false_or]
      cases e.appCancels <;> simp [List.filterMap_cons, he, hl]
  exact this es hnone

/-- **C07 (the freshest notification is delivered if its body gets through).** As long as nothing
has ended the loop and the application has not cancelled (`pre`), an item whose body is fetched is
handed to the application — whatever happened to the fetches of the items before it (`failed` ones
included); and it is the last thing handed over until something else arrives.  With
`C07_iter_compose` (the lower iteration yields the last notification the runner accepted, i.e. the
freshest that arrived) this is "the freshest notification that arrives is eventually delivered" for
the default API, under the one condition the client cannot do without: that the server lets the
body through. -/
theorem C07_bw_freshest_delivered (pre : List (LowerEv α)) (m : α) (c : Bool)
    (hpre : ∀ e ∈ pre, e.ending = none ∧ e.appCancels = false) :
    (run .running pre).1 = .running ∧
    outs (pre ++ [.item m .ok c]) = outs pre ++ [.callback m] ∧
    (callbacks (outs (pre ++ [.item m .ok c]))).getLast? = some m := by
  have hrun : (run (α := α) .running pre).1 = .running := by
    clear m c
    induction pre with
    | nil => rfl
    | cons e l ih =>
      obtain ⟨h1, h2⟩ := hpre e List.mem_cons_self
      rw [run_cons]
      have hs : (step .running e).1 = .running := by
        rw [(step_running e).2]
        simp [h1, h2]
      rw [hs]
      exact ih (fun e' he' => hpre e' (List.mem_cons_of_mem _ he'))
  have hout : outs (pre ++ [.item m .ok c]) = outs pre ++ [.callback m] := by
    unfold outs
    rw [run_append, hrun, run_cons, run_nil]
    simp [step]
  refine ⟨hrun, hout, ?_⟩
  rw [hout]
  simp [callbacks, List.filterMap_append, Out.cb?]

/-- **C07 (nothing after the end, nothing after the application's cancel).** Whatever the lower
iteration yields after the loop has ended or the application has cancelled from inside its
callback, the application's observation is told nothing more. -/
theorem C07_bw_nothing_after (pre post : List (LowerEv α))
    (h : (run .running pre).1 ≠ .running) :
    outs (pre ++ post) = outs pre := by
  unfold outs
  rw [run_append, run_not_running _ h]
  simp

/-- **C07 (an observation the application cancels gives up its token, however early).** Whenever the
application's observation is no longer served by the loop — it was cancelled before the loop's task
took its first step (before the first response, during the fetch of its body, right after
`await request.response`), dropped, cancelled later between two items or from inside a callback, or
the loop has ended — `lower_observation.cancel()` has been reached, so that the lower request
withdraws from its pipe at its next event and the token is retired
(`C07_nothing_after_app_cancel`, `C07_joint_end_retires_token`: "later notifications on that token
are rejected"); an observation cancelled early or dropped is told nothing, whatever arrives; and
conversely the lower observation is kept exactly while the loop is running, in which case no
termination signal has been given. -/
theorem C07_bw_cancel_gives_up_lower (b : Start) (es : List (LowerEv α)) :
    (b ≠ .alive → runFrom b es = (.cancelled, []) ∧ lowerGivenUp (runFrom b es).1 = true) ∧
    ((runFrom b es).1 ≠ .running → lowerGivenUp (runFrom b es).1 = true) ∧
    ((runFrom b es).1 = .running → lowerGivenUp (runFrom b es).1 = false ∧ b = .alive ∧
      errbacks (runFrom b es).2 = [] ∧ ∀ e ∈ es, e.ending = none ∧ e.appCancels = false) := by
  refine ⟨?_, ?_, ?_⟩
  · intro hb
    have hs : start b = .cancelled := by cases b <;> simp_all [start]
    simp only [runFrom, hs]
    rw [run_not_running .cancelled (by simp)]
    exact ⟨rfl, rfl⟩
  · intro h
    cases hs : (runFrom b es).1 <;> simp_all [lowerGivenUp]
  · intro h
    have hb : b = .alive := by
      cases b with
      | alive => rfl
      | cancelledEarly =>
        simp only [runFrom, start] at h
        rw [run_not_running .cancelled (by simp)] at h
        cases h
      | collected =>
        simp only [runFrom, start] at h
        rw [run_not_running .cancelled (by simp)] at h
        cases h
    subst hb
    have key : ∀ l : List (LowerEv α), (run .running l).1 = .running →
        ∀ e ∈ l, e.ending = none ∧ e.appCancels = false := by
      intro l
      induction l with
      | nil => intro _ e he; cases he
      | cons e l ih =>
        intro hl
        rw [run_cons] at hl
        have h1 := (step_running e).2
        by_cases hend : e.ending.isSome = true
        · rw [h1] at hl
          simp only [hend, ↓reduceIte] at hl
          rw [run_not_running .ended (by simp)] at hl
          cases hl
        · have hend' : e.ending = none := by
            cases he : e.ending <;> simp_all
          cases hc : e.appCancels
          · rw [h1] at hl
            simp only [hend', Option.isSome_none, Bool.false_eq_true, ↓reduceIte, hc] at hl
            intro e' he'
            rcases List.mem_cons.mp he' with rfl | hm
            · exact ⟨hend', hc⟩
            · exact ih hl e' hm
          · rw [h1] at hl
            simp only [hend', Option.isSome_none, Bool.false_eq_true, ↓reduceIte, hc] at hl
            rw [run_not_running .cancelled (by simp)] at hl
            cases hl
    have hall := key es (by simpa [runFrom, start] using h)
    refine ⟨by rw [h]; rfl, rfl, ?_, hall⟩
    have := (C07_bw_end_only_by_network_or_lower_end es).2.2 (fun e he => (hall e he).1)
    simpa [runFrom, start, outs] using this

-- non-vacuity and sanity --------------------------------------------------------------------------

/-- notification 1 loses its body to an ETag change, 2 gets through, 3 fails on a bad block, the
final response 4 gets through, the lower iteration stops -/
def exLoop : List (LowerEv Nat) :=
  [.item 1 .failed false, .item 2 .ok false, .item 3 .failed false, .item 4 .ok false, .stop,
   .item 5 .ok false]

example : outs exLoop = [.callback 2, .callback 4, .errback .observationCancelled] := by decide
example : live exLoop = exLoop.take 5 := by decide
example : outs ([.item 1 .failed false, .item 2 (.network 2) false, .item 3 .ok false] : List (LowerEv Nat)) =
    [.errback (.transport 2)] := by decide
example : outs ([.item 1 .ok false, .item 2 .ok true, .item 3 .ok false, .stop] : List (LowerEv Nat)) =
    [.callback 1, .callback 2] := by decide
example : ∀ e ∈ ([.item 1 .failed false, .item 2 .ok false, .item 3 .failed false] : List (LowerEv Nat)),
    e.ending = none ∧ e.appCancels = false := by decide
example : (run .running exLoop).1 ≠ .running := by decide
/-- cancelled before the task started: nothing is told, the lower observation is given up; cancelled between two
items: the later ones are not handed over -/
example : runFrom .cancelledEarly exLoop = (.cancelled, []) := by decide
example : lowerGivenUp (runFrom .cancelledEarly ([] : List (LowerEv Nat))).1 = true := by decide
example : runFrom .alive ([.item 1 .ok false, .cancel, .item 2 .ok false] : List (LowerEv Nat)) =
    (.cancelled, [.callback 1]) := by decide
example : lowerGivenUp (runFrom .alive ([.item 1 .ok false, .item 2 .failed false] : List (LowerEv Nat))).1 = false := by
  decide

end Aiocoap.Observe.Upper
