import Proofs.Observe.IterRun
import Properties.C07
/-!
# C07 — the async-iteration interface of an observation (`async for … in request.observation`)

Model: `AiocoapModel/Observe/Iterator.lean` — `ClientObservation._Iterator` with explicit future
identities (`Iter.step`: push, pushErr, the consumer's `__anext__` starting / being resumed / being
cancelled), `__aiter__` (`Iter.openOps`) and the composition with the runner of `Request`
(`Iter.jrun`).  The proofs go through a two-cell machine that the model refines
(`Proofs/Observe/IterSim.lean: step_abs`).  All theorems quantify over every sequence of
operations: any interleaving of what the network feeds in and of what the consumer task does.
-/
namespace Aiocoap.Observe.Iter

variable {α : Type}

theorem final_init_abs (ops : List (Op α)) :
    WF (final init ops) ∧ abs (final init ops) = (arun ainit ops).1 := by
  have := run_abs (init : St α) wf_init ops
  rw [abs_init] at this
  exact ⟨this.1, this.2.1⟩

-- (i) subsequence -------------------------------------------------------------------------------------

/-- **C07 (async iteration yields a subsequence).** Whatever is fed to the iterator and whatever
the consumer task does, in any interleaving: the items that come out of `__anext__` are, in order,
a subsequence of the items pushed — nothing invented, nothing twice, nothing out of order. -/
theorem C07_iter_subsequence (ops : List (Op α)) :
    (items (outs init ops)).Sublist (pushed ops) := by
  rw [outs_init_abs]
  simpa [astored, ainit] using arun_stored (ainit : A α) ops

-- (ii) the latest item is never replaced by the error ----------------------------------------------------

/-- **C07 (an unfetched latest item is only ever replaced by a newer item).** In every reachable
state in which the slot holds an unfetched item `m`: any operation other than a push of a newer item
— in particular `push_err`, and whatever the consumer does — either leaves `m` in the slot or is the
very `__anext__` that hands `m` out. -/
theorem C07_iter_latest_kept (ops : List (Op α)) (m : α)
    (h : (final init ops).get (final init ops).slot = .result m) (o : Op α)
    (ho : ∀ m', o ≠ .push m') :
    (step (final init ops) o).1.get (step (final init ops) o).1.slot = .result m ∨
    (step (final init ops) o).2 = [.item m] := by
  obtain ⟨hwf, _⟩ := final_init_abs ops
  obtain ⟨_, h2, h3⟩ := step_abs (final init ops) hwf o
  have := astep_latest_kept (abs (final init ops)) m (by rw [abs_slot]; exact h) o ho
  rw [← h2, ← h3, abs_slot] at this
  exact this

/-- **C07 (the latest item pushed is not lost).** After every sequence of operations whatsoever the
item pushed last has either been handed out — and then it is the last one handed out — or it is
still in the slot waiting to be fetched. -/
theorem C07_iter_latest_not_lost (ops : List (Op α)) (m : α)
    (h : (pushed ops).getLast? = some m) :
    (final init ops).get (final init ops).slot = .result m ∨
    (items (outs init ops)).getLast? = some m := by
  obtain ⟨_, habs⟩ := final_init_abs ops
  have hw0 : ConsW (ainit : A α) := by intro m0 hc; simp [ainit] at hc
  obtain ⟨hw, hl⟩ := arun_latest (ainit : A α) hw0 [] [] (by simp [astored, ainit]) ops
  rw [List.nil_append, List.nil_append, h, ← outs_init_abs, ← habs] at hl
  rw [← habs] at hw
  have := latest_cases _ hw _ m hl
  rwa [abs_slot] at this

-- (iv) the end comes after all items, and nothing after it -------------------------------------------------

theorem run_inv (ops : List (Op α)) (hwf : wfOps ops = true) :
    AInv (arun (ainit : A α) ops).1 (outs init ops) (pushed ops) (firstErr ops) := by
  have := arun_inv ops (ainit : A α) [] [] none ainv_init (by simpa [okFrom] using hwf)
  simpa [errFrom, ← outs_init_abs] using this

/-- **C07 (nothing is handed out after the end).** When the iterator is fed the way
`ClientObservation` feeds it (items, then at most one error, then nothing), then under every
schedule of the consumer — starting, being resumed, being cancelled at any point, busy for any
length of time — what comes out of `__anext__` (leaving aside the `CancelledError`s thrown into a
cancelled consumer) is: items only, as long as no error was pushed; otherwise items first and
after them nothing but the end (repeated if the consumer asks again). -/
theorem C07_iter_nothing_after_end (ops : List (Op α)) (hwf : wfOps ops = true) :
    match firstErr ops with
    | none => noCancel (outs init ops) = (items (outs init ops)).map .item
    | some e => ∃ j, noCancel (outs init ops) =
        (items (outs init ops)).map .item ++ List.replicate j (endOut e) := by
  have := run_inv ops hwf
  cases h : firstErr ops with
  | none => rw [h] at this; exact this.2.2
  | some e =>
    rw [h] at this
    obtain ⟨_, _, j, hj, _⟩ := this
    exact ⟨j, hj⟩

/-- **C07 (a consumer that keeps iterating obtains the latest notification).** While no error has
been pushed: after any history and any consumer schedule, a consumer that keeps calling
`__anext__` (two more calls suffice) has been handed a subsequence of the items pushed that ends
with the item pushed last — the freshest notification is not lost by the lossy queue — and has seen
no end. -/
theorem C07_iter_latest_obtained (ops : List (Op α)) (hwf : wfOps ops = true)
    (hne : firstErr ops = none) (n : Nat) (hn : 2 ≤ n) :
    let O := outs init ops ++ (pulls n (final init ops)).2
    noCancel O = (items O).map .item ∧ (items O).Sublist (pushed ops) ∧
      (items O).getLast? = (pushed ops).getLast? := by
  intro O
  have hinv := run_inv ops hwf
  rw [hne] at hinv
  obtain ⟨hwfS, habs⟩ := final_init_abs ops
  have hp := (pulls_abs n (final init ops) hwfS).2.2
  rw [habs] at hp
  have h2 := apulls_inv n _ _ _ none hinv
  rw [← hp] at h2
  have hd := apulls_drained n hn _ hinv.1
  obtain ⟨_, ⟨hs, hl⟩, ho⟩ := h2
  rw [hd, List.append_nil] at hs hl
  exact ⟨ho, hs, hl⟩

/-- **C07 (the end is signalled after all items, the latest included).** When an error `e` has
been pushed: after any history and any consumer schedule, a consumer that keeps calling `__anext__`
(three more calls suffice) has been handed — leaving aside `CancelledError`s of cancelled consumer
tasks — a subsequence of the items pushed that ends with the item pushed last, and after it the
end, and nothing else: `StopAsyncIteration` for `NotObservable` / `ObservationCancelled`, the
exception itself for a transport error (`endOut`). -/
theorem C07_iter_end_after_all_items (ops : List (Op α)) (hwf : wfOps ops = true) (e : ErrKind)
    (he : firstErr ops = some e) (n : Nat) (hn : 3 ≤ n) :
    ∃ (its : List α) (j : Nat), noCancel (outs init ops ++ (pulls n (final init ops)).2) =
        its.map .item ++ List.replicate (j + 1) (endOut e) ∧
      its.Sublist (pushed ops) ∧ its.getLast? = (pushed ops).getLast? := by
  have hinv := run_inv ops hwf
  rw [he] at hinv
  obtain ⟨hwfS, habs⟩ := final_init_abs ops
  have hp := (pulls_abs n (final init ops) hwfS).2.2
  rw [habs] at hp
  have h2 := apulls_inv n _ _ _ (some e) hinv
  have hend := apulls_end n hn _ e hinv.1
  rw [← hp] at h2 hend
  obtain ⟨_, ⟨hs, hl⟩, j, hj, hj0⟩ := h2
  have hlast : (outs init ops ++ (pulls n (final init ops)).2).getLast? = some (endOut e) := by
    rw [List.getLast?_append, hend]; rfl
  generalize outs init ops ++ (pulls n (final init ops)).2 = O at *
  have hnc : (noCancel O).getLast? = some (endOut e) :=
    getLast?_filter_of_last _ O _ hlast (by simp)
  cases j with
  | zero =>
    exfalso
    rw [hj, List.replicate_zero, List.append_nil, List.getLast?_map] at hnc
    cases hi : (items O).getLast? with
    | none => rw [hi] at hnc; cases hnc
    | some m =>
      rw [hi] at hnc
      simp only [Option.map_some, Option.some.injEq] at hnc
      exact endOut_ne_item e m hnc.symm
  | succ j =>
    have h0 := hj0 (Nat.succ_pos j)
    rw [h0, List.append_nil] at hs hl
    exact ⟨items O, j, hj, hs, hl⟩

-- (iii) item, then error: item, then stop ---------------------------------------------------------------

theorem wfOps_append (a b : List (Op α)) (ha : wfOps a = true) (hne : firstErr a = none)
    (hb : wfOps b = true) : wfOps (a ++ b) = true := by
  induction a with
  | nil => exact hb
  | cons o a ih =>
    cases o with
    | pushErr e => simp [firstErr] at hne
    | push m => simpa [wfOps] using ih (by simpa [wfOps] using ha) (by simpa [firstErr] using hne)
    | next => simpa [wfOps] using ih (by simpa [wfOps] using ha) (by simpa [firstErr] using hne)
    | wake => simpa [wfOps] using ih (by simpa [wfOps] using ha) (by simpa [firstErr] using hne)
    | cancel => simpa [wfOps] using ih (by simpa [wfOps] using ha) (by simpa [firstErr] using hne)

theorem firstErr_append (a b : List (Op α)) : firstErr (a ++ b) = (firstErr a).or (firstErr b) := by
  induction a with
  | nil => simp [firstErr]
  | cons o a ih => cases o <;> simp [firstErr, ih]

theorem pushed_append (a b : List (Op α)) : pushed (a ++ b) = pushed a ++ pushed b := by
  simp [pushed]

theorem pushed_cons_only (cs : List (Op α)) (h : cs.all Op.isCons = true) : pushed cs = [] := by
  induction cs with
  | nil => rfl
  | cons o cs ih =>
    simp only [List.all_cons, Bool.and_eq_true] at h
    rw [pushed_cons, ih h.2]
    cases o <;> first | rfl | simp [Op.isCons] at h

theorem sublist_of_concat_sublist_concat {β : Type} (l p : List β) (x : β)
    (h : (l ++ [x]).Sublist (p ++ [x])) : l.Sublist p := by
  have := List.reverse_sublist.mpr h
  simp only [List.reverse_append, List.reverse_cons, List.reverse_nil, List.nil_append,
    List.singleton_append, List.cons_sublist_cons] at this
  exact List.reverse_sublist.mp this

/-- **C07 (final response followed by the cancellation signal, under async iteration).** The pair
`observation.callback(m); observation.error(e)` that `Request._run` issues for a terminating
response arrives at the consumer as item `m`, then the end — whatever was fed before, whatever the
consumer was doing at that moment (suspended in `__anext__`, busy elsewhere, not started, cancelled)
and whatever it does afterwards, as long as it keeps iterating: `m` is the last item handed out,
directly followed by the end. -/
theorem C07_iter_item_then_end (pre : List (Op α)) (hpre : wfOps pre = true)
    (hne : firstErr pre = none) (m : α) (e : ErrKind) (cs : List (Op α))
    (hcs : cs.all Op.isCons = true) (n : Nat) (hn : 3 ≤ n) :
    let ops := pre ++ .push m :: .pushErr e :: cs
    ∃ (its : List α) (j : Nat), noCancel (outs init ops ++ (pulls n (final init ops)).2) =
        its.map .item ++ .item m :: List.replicate (j + 1) (endOut e) ∧
      its.Sublist (pushed pre) := by
  intro ops
  have hwf : wfOps ops = true := wfOps_append pre _ hpre hne (by simpa [wfOps] using hcs)
  have he : firstErr ops = some e := by simp [ops, firstErr_append, hne, firstErr]
  have hp : pushed ops = pushed pre ++ [m] := by
    simp [ops, pushed_append, pushed_cons, pushedOf, pushed_cons_only cs hcs]
  obtain ⟨its, j, h1, h2, h3⟩ := C07_iter_end_after_all_items ops hwf e he n hn
  rw [hp] at h2 h3
  rw [List.getLast?_concat] at h3
  obtain ⟨ys, rfl⟩ := List.getLast?_eq_some_iff.mp h3
  refine ⟨ys, j, ?_, sublist_of_concat_sublist_concat _ _ _ h2⟩
  rw [h1]; simp

end Aiocoap.Observe.Iter
