import Proofs.Observe.IterRun
import Proofs.Observe.IterJoint
import Proofs.Observe.IterCancel
import Properties.C07
/-!
# C07 — the async-iteration interface of an observation (`async for … in request.observation`)

Model: `AiocoapModel/Observe/Iterator.lean` — `ClientObservation._Iterator` with explicit future
identities (`Iter.step`: push, pushErr, the consumer's `__anext__` starting / being resumed / being
cancelled), `__aiter__` (`Iter.openOps`) and the composition with the runner of `Request`
(`Iter.jrun`).  The proofs go through a two-cell machine that the model refines
(`Proofs/Observe/IterSim.lean: step_abs`).  All theorems quantify over every sequence of
operations: any interleaving of what the network feeds in and of what the consumer task does.
-/
namespace Aiocoap.Observe.Iter

variable {α : Type}

theorem final_init_abs (ops : List (Op α)) :
    WF (final init ops) ∧ abs (final init ops) = (arun ainit ops).1 := by
  have := run_abs (init : St α) wf_init ops
  rw [abs_init] at this
  exact ⟨this.1, this.2.1⟩

-- (i) subsequence -------------------------------------------------------------------------------------

/-- **C07 (async iteration yields a subsequence).** Whatever is fed to the iterator and whatever
the consumer task does, in any interleaving: the items that come out of `__anext__` are, in order,
a subsequence of the items pushed — nothing invented, nothing twice, nothing out of order. -/
theorem C07_iter_subsequence (ops : List (Op α)) :
    (items (outs init ops)).Sublist (pushed ops) := by
  rw [outs_init_abs]
  simpa [astored, ainit] using arun_stored (ainit : A α) ops

-- (ii) the latest item is never replaced by the error ----------------------------------------------------

/-- **C07 (an unfetched latest item is only ever replaced by a newer item).** In every reachable
state in which the slot holds an unfetched item `m`: any operation other than a push of a newer item
— in particular `push_err`, and whatever the consumer does — either leaves `m` in the slot or is the
very `__anext__` that hands `m` out. -/
theorem C07_iter_latest_kept (ops : List (Op α)) (m : α)
    (h : (final init ops).get (final init ops).slot = .result m) (o : Op α)
    (ho : ∀ m', o ≠ .push m') :
    (step (final init ops) o).1.get (step (final init ops) o).1.slot = .result m ∨
    (step (final init ops) o).2 = [.item m] := by
  obtain ⟨hwf, _⟩ := final_init_abs ops
  obtain ⟨_, h2, h3⟩ := step_abs (final init ops) hwf o
  have := astep_latest_kept (abs (final init ops)) m (by rw [abs_slot]; exact h) o ho
  rw [← h2, ← h3, abs_slot] at this
  exact this

/-- **C07 (the latest item pushed is not lost).** After every sequence of operations whatsoever the
item pushed last has either been handed out — and then it is the last one handed out — or it is
still in the slot waiting to be fetched. -/
theorem C07_iter_latest_not_lost (ops : List (Op α)) (m : α)
    (h : (pushed ops).getLast? = some m) :
    (final init ops).get (final init ops).slot = .result m ∨
    (items (outs init ops)).getLast? = some m := by
  obtain ⟨_, habs⟩ := final_init_abs ops
  have hw0 : ConsW (ainit : A α) := by intro m0 hc; simp [ainit] at hc
  obtain ⟨hw, hl⟩ := arun_latest (ainit : A α) hw0 [] [] (by simp [astored, ainit]) ops
  rw [List.nil_append, List.nil_append, h, ← outs_init_abs, ← habs] at hl
  rw [← habs] at hw
  have := latest_cases _ hw _ m hl
  rwa [abs_slot] at this

-- (iv) the end comes after all items, and nothing after it -------------------------------------------------

theorem run_inv (ops : List (Op α)) (hwf : wfOps ops = true) :
    AInv (arun (ainit : A α) ops).1 (outs init ops) (pushed ops) (firstErr ops) := by
  have := arun_inv ops (ainit : A α) [] [] none ainv_init (by simpa [okFrom] using hwf)
  simpa [errFrom, ← outs_init_abs] using this

/-- **C07 (nothing is handed out after the end).** When the iterator is fed the way
`ClientObservation` feeds it (items, then at most one error, then nothing), then under every
schedule of the consumer — starting, being resumed, being cancelled at any point, busy for any
length of time — what comes out of `__anext__` (leaving aside the `CancelledError`s thrown into a
cancelled consumer) is: items only, as long as no error was pushed; otherwise items first and
after them nothing but the end (repeated if the consumer asks again). -/
theorem C07_iter_nothing_after_end (ops : List (Op α)) (hwf : wfOps ops = true) :
    match firstErr ops with
    | none => noCancel (outs init ops) = (items (outs init ops)).map .item
    | some e => ∃ j, noCancel (outs init ops) =
        (items (outs init ops)).map .item ++ List.replicate j (endOut e) := by
  have := run_inv ops hwf
  cases h : firstErr ops with
  | none => rw [h] at this; exact this.2.2
  | some e =>
    rw [h] at this
    obtain ⟨_, _, j, hj, _⟩ := this
    exact ⟨j, hj⟩

/-- **C07 (a consumer that keeps iterating obtains the latest notification).** While no error has
been pushed: after any history and any consumer schedule, a consumer that keeps calling
`__anext__` (two more calls suffice) has been handed a subsequence of the items pushed that ends
with the item pushed last — the freshest notification is not lost by the lossy queue — and has seen
no end. -/
theorem C07_iter_latest_obtained (ops : List (Op α)) (hwf : wfOps ops = true)
    (hne : firstErr ops = none) (n : Nat) (hn : 2 ≤ n) :
    let O := outs init ops ++ (pulls n (final init ops)).2
    noCancel O = (items O).map .item ∧ (items O).Sublist (pushed ops) ∧
      (items O).getLast? = (pushed ops).getLast? := by
  intro O
  have hinv := run_inv ops hwf
  rw [hne] at hinv
  obtain ⟨hwfS, habs⟩ := final_init_abs ops
  have hp := (pulls_abs n (final init ops) hwfS).2.2
  rw [habs] at hp
  have h2 := apulls_inv n _ _ _ none hinv
  rw [← hp] at h2
  have hd := apulls_drained n hn _ hinv.1
  obtain ⟨_, ⟨hs, hl⟩, ho⟩ := h2
  rw [hd, List.append_nil] at hs hl
  exact ⟨ho, hs, hl⟩

/-- **C07 (the end is signalled after all items, the latest included).** When an error `e` has
been pushed: after any history and any consumer schedule, a consumer that keeps calling `__anext__`
(three more calls suffice) has been handed — leaving aside `CancelledError`s of cancelled consumer
tasks — a subsequence of the items pushed that ends with the item pushed last, and after it the
end, and nothing else: `StopAsyncIteration` for `NotObservable` / `ObservationCancelled`, the
exception itself for a transport error (`endOut`). -/
theorem C07_iter_end_after_all_items (ops : List (Op α)) (hwf : wfOps ops = true) (e : ErrKind)
    (he : firstErr ops = some e) (n : Nat) (hn : 3 ≤ n) :
    ∃ (its : List α) (j : Nat), noCancel (outs init ops ++ (pulls n (final init ops)).2) =
        its.map .item ++ List.replicate (j + 1) (endOut e) ∧
      its.Sublist (pushed ops) ∧ its.getLast? = (pushed ops).getLast? := by
  have hinv := run_inv ops hwf
  rw [he] at hinv
  obtain ⟨hwfS, habs⟩ := final_init_abs ops
  have hp := (pulls_abs n (final init ops) hwfS).2.2
  rw [habs] at hp
  have h2 := apulls_inv n _ _ _ (some e) hinv
  have hend := apulls_end n hn _ e hinv.1
  rw [← hp] at h2 hend
  obtain ⟨_, ⟨hs, hl⟩, j, hj, hj0⟩ := h2
  have hlast : (outs init ops ++ (pulls n (final init ops)).2).getLast? = some (endOut e) := by
    rw [List.getLast?_append, hend]; rfl
  generalize outs init ops ++ (pulls n (final init ops)).2 = O at *
  have hnc : (noCancel O).getLast? = some (endOut e) :=
    getLast?_filter_of_last _ O _ hlast (by simp)
  cases j with
  | zero =>
    exfalso
    rw [hj, List.replicate_zero, List.append_nil, List.getLast?_map] at hnc
    cases hi : (items O).getLast? with
    | none => rw [hi] at hnc; cases hnc
    | some m =>
      rw [hi] at hnc
      simp only [Option.map_some, Option.some.injEq] at hnc
      exact endOut_ne_item e m hnc.symm
  | succ j =>
    have h0 := hj0 (Nat.succ_pos j)
    rw [h0, List.append_nil] at hs hl
    exact ⟨items O, j, hj, hs, hl⟩

-- (iii) item, then error: item, then stop ---------------------------------------------------------------

theorem wfOps_append (a b : List (Op α)) (ha : wfOps a = true) (hne : firstErr a = none)
    (hb : wfOps b = true) : wfOps (a ++ b) = true := by
  induction a with
  | nil => exact hb
  | cons o a ih =>
    cases o with
    | pushErr e => simp [firstErr] at hne
    | push m => simpa [wfOps] using ih (by simpa [wfOps] using ha) (by simpa [firstErr] using hne)
    | next => simpa [wfOps] using ih (by simpa [wfOps] using ha) (by simpa [firstErr] using hne)
    | wake => simpa [wfOps] using ih (by simpa [wfOps] using ha) (by simpa [firstErr] using hne)
    | cancel => simpa [wfOps] using ih (by simpa [wfOps] using ha) (by simpa [firstErr] using hne)

theorem firstErr_append (a b : List (Op α)) : firstErr (a ++ b) = (firstErr a).or (firstErr b) := by
  induction a with
  | nil => simp [firstErr]
  | cons o a ih => cases o <;> simp [firstErr, ih]

theorem pushed_append (a b : List (Op α)) : pushed (a ++ b) = pushed a ++ pushed b := by
  simp [pushed]

theorem pushed_cons_only (cs : List (Op α)) (h : cs.all Op.isCons = true) : pushed cs = [] := by
  induction cs with
  | nil => rfl
  | cons o cs ih =>
    simp only [List.all_cons, Bool.and_eq_true] at h
    rw [pushed_cons, ih h.2]
    cases o <;> first | rfl | simp [Op.isCons] at h

theorem sublist_of_concat_sublist_concat {β : Type} (l p : List β) (x : β)
    (h : (l ++ [x]).Sublist (p ++ [x])) : l.Sublist p := by
  have := List.reverse_sublist.mpr h
  simp only [List.reverse_append, List.reverse_cons, List.reverse_nil, List.nil_append,
    List.singleton_append, List.cons_sublist_cons] at this
  exact List.reverse_sublist.mp this

/-- **C07 (final response followed by the cancellation signal, under async iteration).** The pair
`observation.callback(m); observation.error(e)` that `Request._run` issues for a terminating
response arrives at the consumer as item `m`, then the end — whatever was fed before, whatever the
consumer was doing at that moment (suspended in `__anext__`, busy elsewhere, not started, cancelled)
and whatever it does afterwards, as long as it keeps iterating: `m` is the last item handed out,
directly followed by the end. -/
theorem C07_iter_item_then_end (pre : List (Op α)) (hpre : wfOps pre = true)
    (hne : firstErr pre = none) (m : α) (e : ErrKind) (cs : List (Op α))
    (hcs : cs.all Op.isCons = true) (n : Nat) (hn : 3 ≤ n) :
    let ops := pre ++ .push m :: .pushErr e :: cs
    ∃ (its : List α) (j : Nat), noCancel (outs init ops ++ (pulls n (final init ops)).2) =
        its.map .item ++ .item m :: List.replicate (j + 1) (endOut e) ∧
      its.Sublist (pushed pre) := by
  intro ops
  have hwf : wfOps ops = true := wfOps_append pre _ hpre hne (by simpa [wfOps] using hcs)
  have he : firstErr ops = some e := by simp [ops, firstErr_append, hne, firstErr]
  have hp : pushed ops = pushed pre ++ [m] := by
    simp [ops, pushed_append, pushed_cons, pushedOf, pushed_cons_only cs hcs]
  obtain ⟨its, j, h1, h2, h3⟩ := C07_iter_end_after_all_items ops hwf e he n hn
  rw [hp] at h2 h3
  rw [List.getLast?_concat] at h3
  obtain ⟨ys, rfl⟩ := List.getLast?_eq_some_iff.mp h3
  refine ⟨ys, j, ?_, sublist_of_concat_sublist_concat _ _ _ h2⟩
  rw [h1]; simp

/-- **A wait that was cancelled says nothing about the observation** (the `fix:` for polling consumers: a
`__anext__` bounded by `asyncio.wait_for` that timed out).  The consumer is suspended on the pending future
in the slot and is cancelled: `CancelledError` comes out of that `__anext__` — and the *next* `__anext__`
does not raise anything: it waits again, on a fresh pending future in the slot (so the next `push` /
`push_err` reaches it), and the error kept aside is where it was. -/
theorem C07_iter_wait_after_cancelled_wait (s : St α) (hc : s.cons = .waiting s.slot)
    (hp : s.get s.slot = .pending) (hlt : s.slot < s.futs.length) :
    let s1 := (step s .cancel).1
    let s2 := (step s1 .next).1
    (step s .cancel).2 = [.cancelled] ∧ (step s1 .next).2 = [] ∧
      s2.cons = .waiting s2.slot ∧ s2.get s2.slot = .pending ∧ s2.deferred = s.deferred ∧
      ∀ m : α, (step (step s2 (.push m)).1 .wake).2 = [.item m] := by
  intro s1 s2
  have h1 : step s .cancel = ({ s with futs := s.futs.set s.slot .cancelled, cons := .idle }, [.cancelled]) := by
    simp [step, hc, hp, Fut.done]
  have hs1 : s1 = { s with futs := s.futs.set s.slot .cancelled, cons := .idle } := by
    simp [s1, h1]
  have hg1 : s1.get s1.slot = .cancelled := by
    simp [hs1, St.get, List.getD_eq_getElem?_getD, List.getElem?_set, hlt]
  have h2 : step s1 .next = ({ s1.install .pending with cons := .waiting (s1.install .pending).slot }, []) := by
    have : s1.cons = .idle := by simp [hs1]
    simp only [step, this, hg1]
    simp [St.install, St.get, Fut.done, List.getD_eq_getElem?_getD]
  have hs2 : s2 = { s1.install .pending with cons := .waiting (s1.install .pending).slot } := by
    simp [s2, h2]
  refine ⟨by rw [h1], by rw [h2], by simp [hs2], ?_, by simp [hs2, St.install, hs1], ?_⟩
  · simp [hs2, St.install, St.get, List.getD_eq_getElem?_getD]
  · intro m
    simp [hs2, step, push, St.install, St.get, St.complete, finish, Fut.done, List.getD_eq_getElem?_getD]

/-- **`CancelledError` comes out of `__anext__` only when the consumer was cancelled.**  Whatever is fed to the iterator
and whatever the consumer task does, in any interleaving: the number of `CancelledError`s that come out of `__anext__`
is at most the number of times the consumer task was cancelled.  (The general form of
`C07_iter_wait_after_cancelled_wait`; before the `fix:` for polling consumers it was false: `[next, cancel, next]` gave
two for one cancel.  The other iterator theorems look at the outputs with the `CancelledError`s filtered out — this
one is about them.) -/
theorem C07_iter_cancelled_only_when_cancelled (ops : List (Op α)) :
    cancelledCount (outs init ops) ≤ cancelOps ops := by
  rw [outs_init_abs]
  exact arun_cancelled (ainit : A α) noCancelledWait_init ops

-- (v) composition with the runner of `Request` ----------------------------------------------------------

open Aiocoap.Observe

theorem jop_cons_isCons {o : Op Msg} (h : (JOp.cons o).isCons = true) : o.isCons = true := by
  cases o <;> simp [JOp.isCons, Op.isCons] at h ⊢

theorem ops_wf_after (ds : List Delivery) (h : ∀ d ∈ afterEnd ds, d = .stopInterest)
    (rest : List (Op Msg)) (hrest : rest.all Op.isCons = true) :
    wfOps (opsOfDeliveries ds ++ rest) = true := by
  induction ds with
  | nil => simpa [opsOfDeliveries] using wfOps_of_all_cons rest hrest
  | cons d ds ih =>
    rw [opsOfDeliveries_cons, List.append_assoc]
    cases d with
    | errback k =>
      have hall : ∀ d ∈ ds, d = .stopInterest := by
        simpa [afterEnd, List.dropWhile_cons, Delivery.err?] using h
      have : opsOfDeliveries ds = [] := by
        clear ih h
        induction ds with
        | nil => rfl
        | cons d ds ih =>
          rw [opsOfDeliveries_cons, ih (fun d hd => hall d (List.mem_cons_of_mem _ hd)),
            hall d List.mem_cons_self]
          rfl
      simp [opsOfDelivery, wfOps, this, hrest]
    | callback m =>
      have := ih (by simpa [afterEnd, List.dropWhile_cons, Delivery.err?] using h)
      simpa [opsOfDelivery, wfOps] using this
    | response m =>
      simpa [opsOfDelivery] using ih (by simpa [afterEnd, List.dropWhile_cons, Delivery.err?] using h)
    | responseExc k =>
      simpa [opsOfDelivery] using ih (by simpa [afterEnd, List.dropWhile_cons, Delivery.err?] using h)
    | stopInterest =>
      simpa [opsOfDelivery] using ih (by simpa [afterEnd, List.dropWhile_cons, Delivery.err?] using h)

theorem ops_noerr (ds : List Delivery) (h : errbacks ds = []) :
    firstErr (opsOfDeliveries ds) = none ∧ wfOps (opsOfDeliveries ds) = true := by
  refine ⟨by rw [firstErr_opsOfDeliveries, h]; rfl, ?_⟩
  induction ds with
  | nil => rfl
  | cons d ds ih =>
    rw [opsOfDeliveries_cons]
    cases d with
    | errback k => simp at h
    | callback m => simpa [opsOfDelivery, wfOps] using ih (by simpa using h)
    | response m => simpa [opsOfDelivery] using ih (by simpa using h)
    | responseExc k => simpa [opsOfDelivery] using ih (by simpa using h)
    | stopInterest => simpa [opsOfDelivery] using ih (by simpa using h)

theorem jops_over (cfg : Cfg) (r : ObsState) (hr : Over r) (js : List JOp)
    (hjs : ∀ j ∈ js, j.isCons = true) : (jops cfg r js).all Op.isCons = true := by
  induction js generalizing r with
  | nil => rfl
  | cons j js ih =>
    have hjs' : ∀ j ∈ js, j.isCons = true := fun j hj => hjs j (List.mem_cons_of_mem _ hj)
    cases j with
    | pipe e =>
      obtain ⟨h1, h2⟩ := over_step (cfg := cfg) hr e
      simp only [jops, h2, opsOfDeliveries, List.flatMap_nil, List.nil_append]
      exact ih _ h1 hjs'
    | cons o =>
      simp only [jops, List.all_cons, Bool.and_eq_true]
      exact ⟨jop_cons_isCons (hjs _ List.mem_cons_self), ih r hr hjs'⟩

theorem jops_wf (cfg : Cfg) (r : ObsState) (js : List JOp) (hjs : ∀ j ∈ js, j.isCons = true) :
    wfOps (jops cfg r js) = true := by
  induction js generalizing r with
  | nil => rfl
  | cons j js ih =>
    have hjs' : ∀ j ∈ js, j.isCons = true := fun j hj => hjs j (List.mem_cons_of_mem _ hj)
    cases j with
    | pipe e =>
      simp only [jops]
      rcases step_errbacks cfg r e with h | ⟨k, _, hend⟩
      · obtain ⟨h1, h2⟩ := ops_noerr _ h
        exact wfOps_append _ _ h2 h1 (ih _ hjs')
      · exact ops_wf_after _ (step_afterEnd cfg r e) _ (jops_over cfg _ (Or.inl hend) js hjs')
    | cons o =>
      have ho := jop_cons_isCons (hjs _ List.mem_cons_self)
      simp only [jops]
      cases o <;> first | (simp [Op.isCons] at ho; done) | simpa [wfOps] using ih r hjs'

theorem jops_pushed (cfg : Cfg) (r : ObsState) (js : List JOp) (hjs : ∀ j ∈ js, j.isCons = true) :
    pushed (jops cfg r js) = callbacksOf (deliveries cfg r (events js)) := by
  induction js generalizing r with
  | nil => rfl
  | cons j js ih =>
    have hjs' : ∀ j ∈ js, j.isCons = true := fun j hj => hjs j (List.mem_cons_of_mem _ hj)
    cases j with
    | pipe e =>
      simp only [jops, events, List.filterMap_cons, JOp.event?]
      rw [pushed_append, pushed_opsOfDeliveries, deliveries_cons, callbacksOf_append]
      congr 1
      exact ih _ hjs'
    | cons o =>
      have ho := jop_cons_isCons (hjs _ List.mem_cons_self)
      simp only [jops, events, List.filterMap_cons, JOp.event?]
      rw [pushed_cons]
      have : pushedOf o = [] := by cases o <;> first | rfl | simp [Op.isCons] at ho
      rw [this, List.nil_append]
      exact ih r hjs'

theorem jops_firstErr (cfg : Cfg) (r : ObsState) (js : List JOp) (hjs : ∀ j ∈ js, j.isCons = true) :
    firstErr (jops cfg r js) = (errbacks (deliveries cfg r (events js))).head? := by
  induction js generalizing r with
  | nil => rfl
  | cons j js ih =>
    have hjs' : ∀ j ∈ js, j.isCons = true := fun j hj => hjs j (List.mem_cons_of_mem _ hj)
    cases j with
    | pipe e =>
      simp only [jops, events, List.filterMap_cons, JOp.event?]
      rw [firstErr_append, firstErr_opsOfDeliveries, deliveries_cons, errbacks_append,
        List.head?_append]
      congr 1
      exact ih _ hjs'
    | cons o =>
      have ho := jop_cons_isCons (hjs _ List.mem_cons_self)
      simp only [jops, events, List.filterMap_cons, JOp.event?]
      cases o <;> first | (simp [Op.isCons] at ho; done) | simpa [firstErr, events] using ih r hjs'

theorem outs_feed_only (s : St Msg) (ops : List (Op Msg)) (h : ∀ o ∈ ops, o.isCons = false) :
    (run s ops).2 = [] := by
  induction ops generalizing s with
  | nil => rfl
  | cons o ops ih =>
    have ho := h o List.mem_cons_self
    simp only [run]
    rw [ih _ (fun o' ho' => h o' (List.mem_cons_of_mem _ ho'))]
    cases o <;> first | rfl | simp [Op.isCons] at ho

theorem openOps_feed_only (ds : List Delivery) : ∀ o ∈ openOps ds, o.isCons = false := by
  intro o ho
  simp only [openOps, List.mem_append, List.mem_map, Option.mem_toList] at ho
  rcases ho with ⟨m, _, rfl⟩ | ⟨e, _, rfl⟩ <;> rfl

theorem callbacksOf_sublist_handedOver (ds : List Delivery) :
    (callbacksOf ds).Sublist (handedOver ds) := by
  induction ds with
  | nil => simp [callbacksOf]
  | cons d ds ih =>
    cases d <;> simp [callbacksOf, Delivery.cb?, List.filterMap_cons] <;>
      first | exact ih | exact ih.cons _ | skip
    all_goals exact (List.Sublist.cons _ ih)

theorem getLast?_toList_sublist {β : Type} (l : List β) : l.getLast?.toList.Sublist l := by
  cases h : l.getLast? with
  | none => simp
  | some x =>
    obtain ⟨ys, rfl⟩ := List.getLast?_eq_some_iff.mp h
    simp

/-- what an iterator opened after the events `pre` is fed, when the runner then goes through `js` -/
theorem compose_ops (cfg : Cfg) (pre : List TEvent) (js : List JOp)
    (hjs : ∀ j ∈ js, j.isCons = true) :
    let dsPre := deliveries cfg .awaitingFirst pre
    let ds := deliveries cfg .awaitingFirst (pre ++ events js)
    let ops := openOps dsPre ++ jops cfg (finalState cfg .awaitingFirst pre) js
    wfOps ops = true ∧ firstErr ops = (errbacks ds).head? ∧
    (pushed ops).Sublist (callbacksOf ds) ∧ (pushed ops).getLast? = lastCallback ds := by
  intro dsPre ds ops
  have hds : ds = dsPre ++ deliveries cfg (finalState cfg .awaitingFirst pre) (events js) :=
    deliveries_append cfg _ pre (events js)
  have hpushedOpen : pushed (openOps dsPre) = (callbacksOf dsPre).getLast?.toList := by
    rw [← lastCallback_eq]
    cases h1 : lastCallback dsPre <;> cases h2 : firstErrback dsPre <;>
      simp [openOps, h1, h2, pushed, pushedOf]
  have hfirstOpen : firstErr (openOps dsPre) = (errbacks dsPre).head? := by
    rw [← firstErrback_eq]
    cases h1 : lastCallback dsPre <;> cases h2 : firstErrback dsPre <;>
      simp [openOps, h1, h2, firstErr]
  have hpushed : pushed ops = (callbacksOf dsPre).getLast?.toList ++
      callbacksOf (deliveries cfg (finalState cfg .awaitingFirst pre) (events js)) := by
    rw [pushed_append, hpushedOpen, jops_pushed cfg _ js hjs]
  refine ⟨?_, ?_, ?_, ?_⟩
  · -- well-formed
    cases h2 : firstErrback dsPre with
    | none =>
      apply wfOps_append
      · cases h1 : lastCallback dsPre <;> simp [openOps, h1, h2, wfOps]
      · rw [hfirstOpen, ← firstErrback_eq, h2]
      · exact jops_wf cfg _ js hjs
    | some k =>
      have hne : errbacks dsPre ≠ [] := by
        intro h
        rw [firstErrback_eq, h] at h2
        cases h2
      have hover := errbacks_over cfg .awaitingFirst pre hne
      have hall := jops_over cfg _ hover js hjs
      cases h1 : lastCallback dsPre <;> simp [ops, openOps, h1, h2, wfOps, hall]
  · rw [firstErr_append, hfirstOpen, jops_firstErr cfg _ js hjs, hds, errbacks_append,
      List.head?_append]
  · rw [hpushed, hds, callbacksOf_append]
    exact List.Sublist.append (getLast?_toList_sublist _) (List.Sublist.refl _)
  · rw [hpushed, lastCallback_eq, hds, callbacksOf_append, List.getLast?_append, List.getLast?_append]
    cases h : (callbacksOf dsPre).getLast? <;> simp

/-- **C07 (async iteration over `request.observation`, for every history and every consumer).**
Take any history of pipe events and application calls `pre`, let the application open the iteration
(`__aiter__`) at that point — `pre = []`: from the start; later: as `BlockwiseRequest` does on the
inner request, or an application that was busy with the first response — and let anything happen
afterwards: pipe events (`JOp.pipe`) interleaved in any way with the consumer task calling
`__anext__`, being resumed, being cancelled (`JOp.cons`).  With `ds` the deliveries of the runner
over the whole history:

* what the iteration hands out is a subsequence of what the observation's callbacks got, which is
  a subsequence of the arrivals (and a `fresher`-chain: `C07_only_fresher`);
* if the observation has not ended, a consumer that keeps iterating obtains the last notification
  the runner accepted (`lastCallback`: by `C07_state_is_last_handed_over` the freshest one), sees
  no end, and nothing but items;
* if it has ended with `k` (`errbacks ds = [k]`, where `errbacks ds` is `expectedEnd` by
  `C07_ends_exactly_once`), a consumer that keeps iterating obtains a subsequence of the callbacks'
  messages whose last element is the last message the callbacks got — the final response when a
  response without Observe option ended the observation — followed by the end and nothing else:
  `StopAsyncIteration` for `NotObservable` / `ObservationCancelled`, the network error raised. -/
theorem C07_iter_compose (cfg : Cfg) (pre : List TEvent) (js : List JOp)
    (hjs : ∀ j ∈ js, j.isCons = true) :
    let ds := deliveries cfg .awaitingFirst (pre ++ events js)
    let s0 : St Msg := final init (openOps (deliveries cfg .awaitingFirst pre))
    let r := jrun cfg (finalState cfg .awaitingFirst pre) s0 js
    (items r.2).Sublist (callbacksOf ds) ∧
    (callbacksOf ds).Sublist (arrived (pre ++ events js)) ∧
    (errbacks ds = [] → ∀ n, 2 ≤ n →
      let O := r.2 ++ (pulls n r.1.2).2
      noCancel O = (items O).map .item ∧ (items O).Sublist (callbacksOf ds) ∧
        (items O).getLast? = lastCallback ds) ∧
    (∀ k, errbacks ds = [k] → ∀ n, 3 ≤ n →
      ∃ (its : List Msg) (j : Nat), noCancel (r.2 ++ (pulls n r.1.2).2) =
          its.map .item ++ List.replicate (j + 1) (endOut k) ∧
        its.Sublist (callbacksOf ds) ∧ its.getLast? = lastCallback ds) := by
  intro ds s0 r
  obtain ⟨hwf, hfe, hps, hpl⟩ := compose_ops cfg pre js hjs
  generalize hops : openOps (deliveries cfg .awaitingFirst pre) ++
    jops cfg (finalState cfg .awaitingFirst pre) js = ops at hwf hfe hps hpl
  have hrun : run init ops = (r.1.2, r.2) := by
    rw [← hops, run_append]
    have h0 := outs_feed_only init _ (openOps_feed_only (deliveries cfg .awaitingFirst pre))
    obtain ⟨h1, h2⟩ := jrun_eq cfg (finalState cfg .awaitingFirst pre) s0 js
    rw [h0, List.nil_append]
    show ((run s0 _).1, (run s0 _).2) = _
    rw [← h1]
    have : (run s0 (jops cfg (finalState cfg .awaitingFirst pre) js)).1 = r.1.2 := by
      show _ = (jrun cfg _ s0 js).1.2
      rw [h2]
    rw [this]
  have houts : outs init ops = r.2 := by simp [outs, hrun]
  have hfinal : final init ops = r.1.2 := by simp [final, hrun]
  refine ⟨?_, ?_, ?_, ?_⟩
  · rw [← houts]
    exact (C07_iter_subsequence ops).trans hps
  · exact (callbacksOf_sublist_handedOver ds).trans (C07_subsequence cfg .awaitingFirst _)
  · intro hnone n hn
    have hne : firstErr ops = none := by rw [hfe, hnone]; rfl
    have := C07_iter_latest_obtained ops hwf hne n hn
    simp only [houts, hfinal] at this
    exact ⟨this.1, this.2.1.trans hps, by rw [this.2.2, hpl]⟩
  · intro k hk n hn
    have he : firstErr ops = some k := by rw [hfe, hk]; rfl
    obtain ⟨its, j, h1, h2, h3⟩ := C07_iter_end_after_all_items ops hwf k he n hn
    rw [houts, hfinal] at h1
    exact ⟨its, j, h1, h2.trans hps, by rw [h3, hpl]⟩

-- (v, continued) freshness order of what the iteration hands out ------------------------------------------

/-- `m2` is further ahead than `m1` on the circle of Observe values, counted from `b` -/
def Ahead (b : Nat) (m1 m2 : Msg) : Prop :=
  ∃ v1 v2, m1.notif = some v1 ∧ m2.notif = some v2 ∧ soff b v1 < soff b v2

theorem callbacks_increasing (cfg : Cfg) (b T : Nat) (es : List TEvent) (v0 t0 : Nat)
    (hv0 : v0 < 2 ^ 24) (ho0 : soff b v0 < 2 ^ 23) (ht0 : T ≤ t0)
    (hall : ∀ e ∈ es, ∃ m v, e.ev = .message m false ∧ m.notif = some v ∧ m.cancels = false ∧ v < 2 ^ 24 ∧
      soff b v < 2 ^ 23 ∧ T ≤ e.time ∧ e.time ≤ T + cfg.reset) :
    (∀ m ∈ callbacksOf (deliveries cfg (.observing v0 t0) es),
      ∃ v, m.notif = some v ∧ soff b v0 < soff b v) ∧
    (callbacksOf (deliveries cfg (.observing v0 t0) es)).Pairwise (Ahead b) ∧
    ∃ v1 t1, finalState cfg (.observing v0 t0) es = .observing v1 t1 ∧
      match (callbacksOf (deliveries cfg (.observing v0 t0) es)).getLast? with
      | none => v1 = v0
      | some m => m.notif = some v1 := by
  induction es generalizing v0 t0 with
  | nil => exact ⟨by simp [deliveries_nil, callbacksOf], by simp [deliveries_nil, callbacksOf],
      v0, t0, rfl, by simp [deliveries_nil, callbacksOf]⟩
  | cons e es ih =>
    obtain ⟨m, v, hev, hobs, hcn, hv, ho, htT, ht⟩ := hall e List.mem_cons_self
    have hrest : ∀ e' ∈ es, ∃ m v, e'.ev = .message m false ∧ m.notif = some v ∧ m.cancels = false ∧ v < 2 ^ 24 ∧
        soff b v < 2 ^ 23 ∧ T ≤ e'.time ∧ e'.time ≤ T + cfg.reset :=
      fun e' he' => hall e' (List.mem_cons_of_mem _ he')
    obtain ⟨t, ev⟩ := e
    simp only at hev ht htT
    subst hev
    rw [deliveries_cons, finalState_cons, step_notification cfg v0 t0 t m v false hobs,
      callbacksOf_append]
    have htime : decide (t > t0 + cfg.reset) = false := by simp; omega
    have hfr : fresher cfg.reset v0 t0 v t = true ↔ soff b v0 < soff b v := by
      rw [fresher_eq, htime, Bool.or_false]
      exact serialFresher_soff b v0 v hv0 hv ho0 ho
    by_cases hf : fresher cfg.reset v0 t0 v t = true
    · have hlt := hfr.mp hf
      obtain ⟨h1, h2, v1, t1, h3, h4⟩ := ih v t hv ho (by omega) hrest
      simp only [hf, hcn, ↓reduceIte, Bool.false_eq_true, List.append_nil]
      have hcb : callbacksOf [Delivery.callback m] = [m] := rfl
      rw [hcb]
      refine ⟨?_, ?_, v1, t1, h3, ?_⟩
      · intro m' hm'
        rcases List.mem_append.mp hm' with hm' | hm'
        · simp only [List.mem_singleton] at hm'; subst hm'; exact ⟨v, hobs, hlt⟩
        · obtain ⟨v', hv', hlt'⟩ := h1 m' hm'
          exact ⟨v', hv', by omega⟩
      · rw [List.singleton_append, List.pairwise_cons]
        refine ⟨?_, h2⟩
        intro m' hm'
        obtain ⟨v', hv', hlt'⟩ := h1 m' hm'
        exact ⟨v, v', hobs, hv', hlt'⟩
      · rw [List.getLast?_append]
        cases hl : (callbacksOf (deliveries cfg (.observing v t) es)).getLast? with
        | none => rw [hl] at h4; simpa [h4] using hobs
        | some m' => rw [hl] at h4; simpa using h4
    · have hf' : fresher cfg.reset v0 t0 v t = false := by
        cases h' : fresher cfg.reset v0 t0 v t
        · rfl
        · exact absurd h' hf
      simp only [hf', Bool.false_eq_true, ↓reduceIte, List.append_nil]
      have hcb : callbacksOf ([] : List Delivery) = [] := rfl
      rw [hcb, List.nil_append]
      exact ih v0 t0 hv0 ho0 ht0 hrest

/-- **C07 (what the iteration hands out is freshness-ordered and contains the freshest).** For a
history of notifications (first response included; any order, any duplicates) whose 24-bit Observe
values lie within one half of the number circle counted from some base `b` and which arrive within
the 128 s window — the setting of `C07_freshest_delivered` — iterated over from any point `pre` on
and under any consumer schedule: the items handed out are strictly increasing in freshness
(`Ahead b`); and for a consumer that keeps iterating, the last item it obtains is the freshest
notification that arrived — unless no later notification was fresher than the first response, which
the application has from the response future. -/
theorem C07_iter_compose_freshest (cfg : Cfg) (hobs : cfg.observe = true) (b T : Nat)
    (pre : List TEvent) (js : List JOp) (hjs : ∀ j ∈ js, j.isCons = true)
    (e0 : TEvent) (es : List TEvent) (hes : pre ++ events js = e0 :: es)
    (hall : ∀ e ∈ e0 :: es, ∃ m v, e.ev = .message m false ∧ m.notif = some v ∧ m.cancels = false ∧ v < 2 ^ 24 ∧
      soff b v < 2 ^ 23 ∧ T ≤ e.time ∧ e.time ≤ T + cfg.reset) (n : Nat) (hn : 2 ≤ n) :
    let s0 : St Msg := final init (openOps (deliveries cfg .awaitingFirst pre))
    let r := jrun cfg (finalState cfg .awaitingFirst pre) s0 js
    let O := r.2 ++ (pulls n r.1.2).2
    (items O).Pairwise (Ahead b) ∧
    ∃ v1, (∀ m ∈ arrived (e0 :: es), ∀ v, m.notif = some v → soff b v ≤ soff b v1) ∧
      ((∃ m0 last, e0.ev = .message m0 last ∧ m0.notif = some v1 ∧ items O = []) ∨
       ∃ m, (items O).getLast? = some m ∧ m.notif = some v1) := by
  intro s0 r O
  obtain ⟨m0, v0, hev, hobs0, _, hv0, ho0, hT0, _⟩ := hall e0 List.mem_cons_self
  have hrest : ∀ e ∈ es, ∃ m v, e.ev = .message m false ∧ m.notif = some v ∧ m.cancels = false ∧ v < 2 ^ 24 ∧
      soff b v < 2 ^ 23 ∧ T ≤ e.time ∧ e.time ≤ T + cfg.reset :=
    fun e he => hall e (List.mem_cons_of_mem _ he)
  obtain ⟨t, ev⟩ := e0
  simp only at hev hT0
  subst hev
  -- the runner over the whole history
  have hds : deliveries cfg .awaitingFirst (⟨t, .message m0 false⟩ :: es) =
      .response m0 :: deliveries cfg (.observing v0 t) es := by
    rw [deliveries_cons]; simp [Observe.step, stepFirst, hobs, hobs0]
  have hcbs : callbacksOf (deliveries cfg .awaitingFirst (⟨t, .message m0 false⟩ :: es)) =
      callbacksOf (deliveries cfg (.observing v0 t) es) := by
    rw [hds]; simp [callbacksOf, Delivery.cb?, List.filterMap_cons]
  have herr : errbacks (deliveries cfg .awaitingFirst (⟨t, .message m0 false⟩ :: es)) = [] := by
    have := C07_ends_exactly_once cfg hobs (⟨t, .message m0 false⟩ :: es) (by
      intro e he
      obtain ⟨m, v, h, _⟩ := hall e he
      rw [h]; rfl) (by
      intro e he
      obtain ⟨m, v, h, _, hc, _⟩ := hall e (List.mem_cons_of_mem _ (by simpa using he))
      rw [h]; exact hc)
    rw [this]
    have hterm : ∀ e ∈ (⟨t, .message m0 false⟩ :: es : List TEvent),
        Event.terminating e.ev = false := by
      intro e he
      obtain ⟨m, v, h, hv, _⟩ := hall e he
      rw [h]; simp [Event.terminating, hv]
    have h0 := hterm _ List.mem_cons_self
    simp only [List.map_cons, expectedEnd, h0, Bool.false_eq_true, ↓reduceIte]
    have : (es.map (·.ev)).find? Event.terminating = none := by
      rw [List.find?_eq_none]
      intro ev hev
      obtain ⟨e, he, rfl⟩ := List.mem_map.mp hev
      simpa using hterm e (List.mem_cons_of_mem _ he)
    rw [this]
  obtain ⟨h1, h2, v1, t1, h3, h4⟩ := callbacks_increasing cfg b T es v0 t hv0 ho0 hT0 hrest
  obtain ⟨v1', t1', h3', _, _, hmax⟩ := freshest_observing cfg b T es v0 t hv0 ho0 hT0 hrest
  rw [h3] at h3'
  simp only [ObsState.observing.injEq] at h3'
  obtain ⟨rfl, rfl⟩ := h3'
  obtain ⟨_, _, hrun, _⟩ := C07_iter_compose cfg pre js hjs
  rw [hes] at hrun
  obtain ⟨hO1, hO2, hO3⟩ := hrun herr n hn
  rw [hcbs] at hO2
  rw [lastCallback_eq, hcbs] at hO3
  refine ⟨h2.sublist hO2, v1, ?_, ?_⟩
  · intro m hm v hv
    have harr : arrived (⟨t, .message m0 false⟩ :: es) = m0 :: arrived es := by
      simp [arrived, Event.msg?]
    rw [harr] at hm
    rcases List.mem_cons.mp hm with h | h
    · subst h
      rw [hobs0] at hv; cases hv
      -- the first response is not ahead of the final reference
      cases hl : (callbacksOf (deliveries cfg (.observing v0 t) es)).getLast? with
      | none => rw [hl] at h4; rw [h4]; exact Nat.le_refl _
      | some m' =>
        rw [hl] at h4
        obtain ⟨v', hv', hlt⟩ := h1 m' (List.mem_of_getLast? hl)
        rw [h4] at hv'; cases hv'
        omega
    · exact hmax m h v hv
  · cases hl : (callbacksOf (deliveries cfg (.observing v0 t) es)).getLast? with
    | none =>
      left
      rw [hl] at h4 hO3
      exact ⟨m0, false, rfl, by rw [h4]; exact hobs0, List.getLast?_eq_none_iff.mp hO3⟩
    | some m' =>
      right
      rw [hl] at h4 hO3
      exact ⟨m', hO3, h4⟩

-- non-vacuity and sanity ------------------------------------------------------------------------------

/-- the consumer waits, gets item 1, is busy while 2 and 3 arrive (3 replaces 2) and while the final
pair `push 4; pushErr ObservationCancelled` arrives (4 replaces 3, the error replaces nothing),
then keeps iterating: 1, 4, stop -/
def exOps : List (Op Nat) :=
  [.next, .push 1, .wake, .push 2, .push 3, .push 4, .pushErr .observationCancelled, .next, .next, .next]

example : outs init exOps = [.item 1, .item 4, .stop, .stop] := by decide
example : wfOps exOps = true := by decide
example : firstErr exOps = some .observationCancelled := by decide
example : pushed exOps = [1, 2, 3, 4] := by decide
/-- the slot after `push 4; pushErr`: the item is still there, the error is kept aside -/
example : (final init (exOps.take 7)).get (final init (exOps.take 7)).slot = .result 4 ∧
    (final init (exOps.take 7)).deferred = some .observationCancelled := by decide
/-- the reported defect: item then error while the consumer is not waiting -/
example : outs init ([.push 7, .pushErr .observationCancelled, .next, .next] : List (Op Nat)) =
    [.item 7, .stop] := by decide
/-- a network error is raised, after the latest item -/
example : outs init ([.push 7, .pushErr (.transport 2), .next, .next] : List (Op Nat)) =
    [.item 7, .raise 2] := by decide
example : outs init ([.pushErr .notObservable, .next] : List (Op Nat)) = [.stop] := by decide
/-- wake-up due when the error comes: the suspended consumer still gets the item first -/
example : outs init ([.next, .push 1, .pushErr .observationCancelled, .wake, .next] : List (Op Nat)) =
    [.item 1, .stop] := by decide
/-- consumer suspended on an older future while two newer items and the error arrive -/
example : outs init ([.next, .push 1, .push 2, .push 3, .pushErr (.transport 0), .wake, .next, .next] :
    List (Op Nat)) = [.item 1, .item 3, .raise 0] := by decide
/-- the consumer's wait is cancelled while suspended (a time-out around `__anext__`: the future is
cancelled with it); asking again waits again — the cancelled future is replaced, it said nothing
about the observation (before the repair the second `__anext__` raised `CancelledError` at once) —
and the next notification is handed over; cancelled while a wake-up is due: the item stays -/
example : outs init ([.next, .cancel, .next, .push 5, .wake] : List (Op Nat)) =
    [.cancelled, .item 5] := by decide
example : (init : St Nat).slot < (init : St Nat).futs.length ∧
    (step (init : St Nat) .next).1.cons = .waiting (step (init : St Nat) .next).1.slot := by decide
example : cancelledCount (outs init ([.next, .cancel, .next, .cancel, .cancel, .next, .push 1, .cancel] : List (Op Nat))) = 3 ∧
    cancelOps ([.next, .cancel, .next, .cancel, .cancel, .next, .push 1, .cancel] : List (Op Nat)) = 4 := by decide
example : outs init ([.next, .cancel, .next, .cancel, .next, .pushErr (.transport 1), .wake] : List (Op Nat)) =
    [.cancelled, .cancelled, .raise 1] := by decide
example : outs init ([.next, .push 5, .cancel, .next] : List (Op Nat)) = [.cancelled, .item 5] := by
  decide
/-- three more `__anext__` are needed in the worst case -/
example : (pulls 3 (final init ([.next, .push 1, .push 2, .pushErr .observationCancelled] :
    List (Op Nat)))).2 = [.item 1, .item 2, .stop] := by decide

/-- `__aiter__` on an observation that has already ended (third fixed defect): the last response,
then the end -/
example : outs init (openOps [.response ⟨69, some 5, 0, false⟩, .callback ⟨69, some 6, 1, false⟩,
    .callback ⟨132, none, 2, false⟩, .errback .observationCancelled] ++ [.next, .next]) =
    [.item ⟨132, none, 2, false⟩, .stop] := by decide

/-- runner and iterator: first response, a notification the consumer fetches, two more while it is
busy (one stale), the 4.04 — handed out: 6, then the 4.04, then stop -/
def exJops : List JOp :=
  [.pipe (exN 0 5 0), .cons .next, .pipe (exN 1 6 1), .cons .wake, .pipe (exN 2 7 2), .pipe (exN 3 6 3),
   .pipe ⟨4, .message ⟨132, none, 4, false⟩ true⟩, .cons .next, .cons .next, .pipe (exN 5 9 5), .cons .next]

example : (jrun exCfg .awaitingFirst init exJops).2 =
    [.item ⟨69, some 6, 1, false⟩, .item ⟨132, none, 4, false⟩, .stop, .stop] := by decide
example : ∀ j ∈ exJops, j.isCons = true := by decide
example : errbacks (deliveries exCfg .awaitingFirst (events exJops)) = [.observationCancelled] := by
  decide
example : lastCallback (deliveries exCfg .awaitingFirst (events exJops)) = some ⟨132, none, 4, false⟩ := by
  decide

/-- the hypotheses of `C07_iter_compose_freshest` are met by the wrap-around history `exWrap` of
`Properties/C07.lean` with a lazy consumer -/
def exWrapJops : List JOp := exWrap.map .pipe ++ [.cons .next]
example : [] ++ events exWrapJops = exN 10 (2 ^ 24 - 2) 0 :: exWrap.tail := by decide
example : ∀ j ∈ exWrapJops, j.isCons = true := by decide
example : (jrun exCfg .awaitingFirst init exWrapJops).2 = [.item ⟨69, some 1, 1, false⟩] := by decide

end Aiocoap.Observe.Iter
