import Properties.C12
import AiocoapModel.Oscore.Responses
/-!
# C12 over mixed traffic: protected responses never weaken the replay protection of requests

The theorems of `Properties/C12.lean` quantify over sequences of protected *requests*.  A security
context is used in both roles, so `unprotect` also sees protected responses between the requests;
here the clauses are re-proved for arbitrary interleavings of both (`runMsgs`).
-/
namespace Aiocoap.Oscore

/-- sequence numbers of the *requests* that were accepted, in order -/
def msgsAccepted (c : Ctx) : List Msg → List Nat
  | [] => []
  | m :: ms =>
    let r := stepMsg c m
    (match m with
     | .req a => if r.2 = .accepted then [a.seq] else []
     | .resp _ => []) ++ msgsAccepted r.1 ms

/-- **C12 (responses leave an initialised window alone).** Whatever a response carries and
whether or not it is authentic, unprotecting it does not change an initialised replay window. -/
theorem C12_response_frame (c : Ctx) (w : RW) (hw : c.win = some w) (r : RespArrival) :
    (unprotectResponse c r).1 = c := by
  unfold unprotectResponse
  by_cases ha : r.authentic = true <;> simp [ha, hw]

/-- **C12 (a forged response is inert).** A response that fails authentication changes nothing,
initialised window or not. -/
theorem C12_forged_response_inert (c : Ctx) (r : RespArrival) (h : r.authentic = false) :
    unprotectResponse c r = (c, .protectionInvalid) := by
  simp [unprotectResponse, h]

/-- The only way a response changes the context: it is authentic, carries its own sequence
number, the window is uninitialised and the context does Echo recovery; the window is then
initialised from that number. -/
theorem unprotectResponse_cases (c : Ctx) (r : RespArrival) :
    (unprotectResponse c r).1 = c ∨
    (∃ n, c.win = none ∧ c.echoRecovery.isSome ∧ r.authentic = true ∧ r.seq = some n ∧
      (unprotectResponse c r).1 = { c with win := some (RW.freshlySeen c.size n) }) := by
  unfold unprotectResponse
  by_cases ha : r.authentic = true
  · cases hw : c.win with
    | some w => left; simp [ha]
    | none =>
      cases he : c.echoRecovery with
      | none => left; simp [ha]
      | some e =>
        cases hs : r.seq with
        | none => left; simp [ha]
        | some n => right; exact ⟨n, rfl, by simp, ha, rfl, by simp [ha]⟩
  · left; simp [ha]

theorem stepMsg_wf {c : Ctx} (hc : c.wf) (m : Msg) : (stepMsg c m).1.wf := by
  cases m with
  | req a => exact unprotect_wf hc a
  | resp r =>
    rcases unprotectResponse_cases c r with h | ⟨n, _, _, _, _, h⟩
    · simp only [stepMsg]; rw [h]; exact hc
    · simp only [stepMsg]; rw [h]
      refine ⟨hc.1, ?_⟩
      intro w' hw'
      simp only [Option.some.injEq] at hw'
      subst hw'
      exact ⟨rfl, RW.freshlySeen_wf hc.1⟩

theorem refused_stable_msg {c : Ctx} {n : Nat} (h : Refused c n) (m : Msg) :
    Refused (stepMsg c m).1 n := by
  cases m with
  | req a => exact refused_stable h a
  | resp r =>
    obtain ⟨w, hw, hv⟩ := h
    simp only [stepMsg]
    rw [C12_response_frame c w hw r]
    exact ⟨w, hw, hv⟩

theorem refused_never_accepted_msgs {c : Ctx} {n : Nat} (h : Refused c n) (ms : List Msg) :
    (msgsAccepted c ms).count n = 0 := by
  induction ms generalizing c with
  | nil => simp [msgsAccepted]
  | cons m ms ih =>
    simp only [msgsAccepted, List.count_append]
    rw [ih (refused_stable_msg h m)]
    cases m with
    | resp r => simp
    | req a =>
      by_cases hacc : (stepMsg c (.req a)).2 = .accepted
      · have hne : a.seq ≠ n := by
          intro e; subst e; exact refused_not_accepted h hacc
        simp [hacc, hne]
      · simp [hacc]

/-- **C12 (at most once, mixed traffic).** For every well-formed start state and every
interleaving of protected requests and protected responses (authentic or forged, with or without
sequence numbers of their own), each sender sequence number is accepted for at most one request. -/
theorem C12_at_most_once_mixed (c : Ctx) (hc : c.wf) (ms : List Msg) (n : Nat) :
    (msgsAccepted c ms).count n ≤ 1 := by
  induction ms generalizing c with
  | nil => simp [msgsAccepted]
  | cons m ms ih =>
    simp only [msgsAccepted, List.count_append]
    have ih' := ih _ (stepMsg_wf hc m)
    cases m with
    | resp r => simpa using ih'
    | req a =>
      by_cases hacc : (stepMsg c (.req a)).2 = .accepted
      · by_cases hn : a.seq = n
        · subst hn
          have := refused_never_accepted_msgs (accepted_then_refused hc hacc) ms
          simp only [stepMsg] at hacc this ⊢
          simp [hacc, this]
        · simp [hacc, hn]; omega
      · simp [hacc]; omega

/-- **C12 (uninitialised window, mixed traffic).** While the window is uninitialised a request is
accepted only if it echoes the value issued by this process; besides such a request only an
authentic response carrying its own sequence number (fresh, as it decrypted against a request of
this process) initialises the window, and only in a context that does Echo recovery. -/
theorem C12_uninitialised_mixed (c : Ctx) (hwin : c.win = none) (m : Msg) :
    (∀ a, m = .req a → (stepMsg c m).2 = .accepted → a.echo = c.echoRecovery ∧ c.echoRecovery.isSome) ∧
    ((stepMsg c m).1.win ≠ none →
      (∃ a, m = .req a ∧ a.authentic = true ∧ a.echo = c.echoRecovery ∧ c.echoRecovery.isSome) ∨
      (∃ r n, m = .resp r ∧ r.authentic = true ∧ r.seq = some n ∧ c.echoRecovery.isSome)) := by
  constructor
  · intro a hm hacc
    subst hm
    rcases unprotect_cases c a with h | ⟨w, _, hw, _⟩ | ⟨_, _, he, hs, _⟩
    · exact absurd hacc h.2
    · rw [hwin] at hw; cases hw
    · exact ⟨he, hs⟩
  · intro hne
    cases m with
    | req a =>
      left
      rcases unprotect_cases c a with h | ⟨w, _, hw, _⟩ | ⟨_, ha, he, hs, _⟩
      · simp only [stepMsg] at hne; rw [h.1] at hne; exact absurd hwin hne
      · rw [hwin] at hw; cases hw
      · exact ⟨a, rfl, ha, he, hs⟩
    | resp r =>
      right
      rcases unprotectResponse_cases c r with h | ⟨n, _, hs, ha, hq, _⟩
      · simp only [stepMsg] at hne; rw [h] at hne; exact absurd hwin hne
      · exact ⟨r, n, rfl, ha, hq, hs⟩

-- non-vacuity ----------------------------------------------------------------------------------

/-- requests 5, 6, 7 accepted; a late notification with number 3 (and one with 6) arrives; the
replays of 5, 6, 7 are all refused; 8 is accepted -/
def exampleMixed : List Msg :=
  [.req ⟨5, true, none⟩, .req ⟨6, true, none⟩, .req ⟨7, true, none⟩, .resp ⟨some 3, true⟩, .resp ⟨some 6, true⟩,
   .resp ⟨none, true⟩, .resp ⟨some 9, false⟩,
   .req ⟨5, true, none⟩, .req ⟨6, true, none⟩, .req ⟨7, true, none⟩, .req ⟨8, true, none⟩]

example : msgsAccepted exampleCtx exampleMixed = [5, 6, 7, 8] := by decide
example : (runMsgs { size := 32, win := none, echoRecovery := some 7 }
    [.req ⟨4, true, none⟩, .resp ⟨none, true⟩, .resp ⟨some 10, false⟩, .resp ⟨some 10, true⟩, .req ⟨10, true, none⟩,
     .req ⟨11, true, none⟩]).2 =
    [.replayEcho, .accepted, .protectionInvalid, .accepted, .replayError, .accepted] := by decide

end Aiocoap.Oscore
