import Proofs.Uri.IpText
import Proofs.Uri.Ip4
import Proofs.Uri.NonAscii
/-!
# C16 — CoAP URIs and Uri-* options convert into each other without loss

Model: `AiocoapModel/Uri/*` — byte-level `quote`/`unquote`, `hostportjoin`/`hostportsplit`,
a restatement of `urlsplit`, `setRequestUri` (RFC 7252 §6.4, `Message.set_request_uri`) and
`getRequestUri` (§6.5, `Message.get_request_uri`), both at the level of the URI *text*.
Python's `ipaddress` is an abstract oracle `ip` throughout (assumptions about it are explicit
hypotheses: `Ip6Text`, `IpLaws`).  Only property theorems and non-vacuity examples live here.
-/
namespace Aiocoap.Uri

-- 1. quote: what can come out of a segment ------------------------------------------------

/-- Every byte `quote` emits is in the safe set, `%`, or an upper-case hex digit. -/
theorem C16_quote_only_safe (S : Nat → Bool) (s : Bytes) (hs : s.wf) :
    ∀ c ∈ quote S s, S c = true ∨ c = 37 ∨ (48 ≤ c ∧ c ≤ 57) ∨ (65 ≤ c ∧ c ≤ 70) :=
  fun _ hc => quote_mem hs hc

/-- With the safe sets of `message.py`, the delimiters of the enclosing level never leak out of
a segment: no `/ ? #` from a path segment, no `& #` from a query item, and no
`/ ? # : @ [ ]` from a host name; nor TAB/CR/LF, which the URI splitter would drop. -/
theorem C16_delimiters_never_leak (s : Bytes) (hs : s.wf) :
    (∀ c ∈ quote pathSafe s, c ≠ 47 ∧ c ≠ 63 ∧ c ≠ 35 ∧ isUnsafeWs c = false) ∧
    (∀ c ∈ quote querySafe s, c ≠ 38 ∧ c ≠ 35 ∧ isUnsafeWs c = false) ∧
    (∀ c ∈ quote regNameSafe s, c ≠ 47 ∧ c ≠ 63 ∧ c ≠ 35 ∧ c ≠ 58 ∧ c ≠ 64 ∧ c ≠ 91 ∧ c ≠ 93) := by
  refine ⟨?_, ?_, ?_⟩
  · intro c hc
    have h47 : 47 ∉ quote pathSafe s := pathSafe_not_47 hs
    have := (encodePath_clean (segs := [s]) (by simpa using hs)).2 c
      (by simp [encodePath, hc])
    exact ⟨fun e => h47 (e ▸ hc), this⟩
  · intro c hc
    have h38 : 38 ∉ quote querySafe s := querySafe_not_38 hs
    have := encodeQuery_clean (segs := [s]) (by simpa using hs) c
      (by simpa [encodeQuery, joinWith] using hc)
    exact ⟨fun e => h38 (e ▸ hc), this⟩
  · intro c hc
    have := regName_chars hs c hc
    simp only [isNetlocDelim, Bool.or_eq_false_iff, beq_eq_false_iff_ne, ne_eq] at this
    exact ⟨this.1.1.1, this.1.1.2, this.1.2, this.2.2.1, this.2.2.2.1, this.2.2.2.2.1,
      this.2.2.2.2.2⟩

-- 2. unquote ∘ quote ----------------------------------------------------------------------

/-- Percent-decoding undoes percent-encoding for every byte string and every safe set that
does not contain `%` — in particular for the three safe sets in use. -/
theorem C16_unquote_quote (S : Nat → Bool) (hS : S 37 = false) (s : Bytes) (hs : s.wf) :
    unquote (quote S s) = s :=
  unquote_quote hS hs

theorem C16_unquote_quote_used (s : Bytes) (hs : s.wf) :
    unquote (quote pathSafe s) = s ∧ unquote (quote querySafe s) = s ∧
      unquote (quote regNameSafe s) = s :=
  ⟨unquote_quote pathSafe_37 hs, unquote_quote querySafe_37 hs, unquote_quote regNameSafe_37 hs⟩

-- 3. options → URI → options ---------------------------------------------------------------

/-- Every canonical option set with non-degenerate Uri-Path / Uri-Query lists (any number of
segments over all of UTF-8, empty segments included; only the lists `[""]` are excluded)
composes to a URI text which `set_request_uri` accepts and decomposes to exactly the same
message state: scheme, remote, Uri-Host, Uri-Path, Uri-Query. -/
theorem C16_opts_uri_opts (ip : IpOracle) (r : Resource) (h : r.WF ip) :
    ∃ u, getRequestUri ip (r.toOpts ip) = some u ∧ setRequestUri ip u = .ok (r.toOpts ip) := by
  refine ⟨_, getRequestUri_toOpts h, ?_⟩
  rw [toOpts_eq ip r]
  exact setRequestUri_render h.scheme (toOpts_facts h) h.path h.query

/-- The excluded lists really are degenerate: `[""]` and `[]` compose to the same URI, for
Uri-Path as for Uri-Query (RFC 7252 cannot tell "/" from the empty path either). -/
theorem C16_degenerate_lists_collapse :
    encodePath [[]] = encodePath [] ∧ encodeQuery [[]] = encodeQuery [] := by
  constructor <;> rfl

-- 3b. URI → options → URI ------------------------------------------------------------------

/-- **URI → options → URI, for every accepted text.**  For every byte string `u` that
`set_request_uri` accepts with options `o`, `get_request_uri` composes a text `u'` which is
accepted again, and

* either (`NormalForm`) `u'` decomposes to the same scheme, Uri-Host, Uri-Port, Uri-Path, Uri-Query
  and port — for IP literals to the identical message state — and recomposes to itself,
* or the Uri-Host value `h` spells an IP literal (`coap://%31.2.3.4/`, `coap://%3A%3A01/`: registered
  names whose *decoded* value looks like a dotted quad or an IPv6 text that `_quote_host` lets pass).
  Then (`MovedToRemote`) `u'` has that literal for a host (`coap://1.2.3.4/`, `coap://[::01]/`), so
  it decomposes without Uri-Host; scheme, port, Uri-Path and Uri-Query are the same, the remote is
  the address the option spelled (normalised by `ipaddress`), and from there on nothing moves.

The literal reading "decomposes to the same options" is *false* on the second class and no fix
can make it true: RFC 7252 §6.5 step 4 composes the option value as it stands and §6.4 step 5
never makes a Uri-Host out of an IP literal (second example below).  It is the only such class:
the other one the first version of this theorem excluded (`hbr : BracketLeads u`, a `[` that does
not lead the authority, `coap://a[::1]/`) is rejected since the fix (`C16_literal_is_whole_host`).

`laws` are the assumptions about Python's `ipaddress` (not modelled); none of them says anything
about what a zone identifier contains. -/
theorem C16_uri_opts_uri (ip : IpOracle) (laws : IpLaws ip) (u : Bytes) (hu : u.wf)
    (o : Opts) (hok : setRequestUri ip u = .ok o) :
    (∃ u' o', NormalForm ip o u' o') ∨
    (∃ h u' o', o.uriHost = some h ∧ ¬ NotIpText ip h ∧ MovedToRemote ip o h u' o') :=
  uri_opts_uri_total laws hu hok

/-- The first alternative on its own (this is the former `C16_uri_opts_uri_partial` without its
hypothesis `hbr`): when the Uri-Host value does not spell an IP literal — in particular when
there is no Uri-Host, or it is an IPv6 text whose zone identifier holds a delimiter — the
composed URI decomposes to the same options and is a fixed point. -/
theorem C16_uri_opts_uri_exact (ip : IpOracle) (laws : IpLaws ip) (u : Bytes) (hu : u.wf)
    (o : Opts) (hok : setRequestUri ip u = .ok o)
    (hname : ∀ h, o.uriHost = some h → NotIpText ip h) :
    ∃ u' o', NormalForm ip o u' o' :=
  normalForm_of_accepted laws hu hok hname

/-- **What is composed is URI text** (RFC 3986 §2: unreserved, sub-delims, `: / ? # [ ] @`, `%`
— no blank, control, quote, non-ASCII byte), authority and bracketed literal included: for every
canonical non-degenerate option set, and for the options of every accepted text whatever that
text contained.  This is what the zone-identifier fixes bought: before them `_quote_host` and the
remote of `coap://[::1%a b]/` handed any zone identifier back verbatim. -/
theorem C16_composed_is_uri_text (ip : IpOracle) (laws : IpLaws ip) :
    (∀ r : Resource, r.WF ip →
      ∃ u, getRequestUri ip (r.toOpts ip) = some u ∧ ∀ c ∈ u, isUriChar c = true) ∧
    (∀ u : Bytes, u.wf → ∀ o, setRequestUri ip u = .ok o →
      ∃ u', getRequestUri ip o = some u' ∧ ∀ c ∈ u', isUriChar c = true) := by
  constructor
  · intro r h
    exact ⟨_, getRequestUri_toOpts h,
      render_uriChars h.scheme (toOpts_facts h).uriChars h.path h.query⟩
  · intro u hu o hok
    rcases uri_opts_uri_total laws hu hok with ⟨u', o', hnf⟩ | ⟨h, u', o', _, _, hm⟩
    · exact ⟨u', hnf.composed, hnf.uriText⟩
    · exact ⟨u', hm.composed, hm.uriText⟩

-- 4. distinct resources never collapse ------------------------------------------------------

/-- `get_request_uri` is injective on canonical, non-degenerate option sets. -/
theorem C16_distinct_stay_distinct (ip : IpOracle) (r₁ r₂ : Resource) (h₁ : r₁.WF ip)
    (h₂ : r₂.WF ip) (he : getRequestUri ip (r₁.toOpts ip) = getRequestUri ip (r₂.toOpts ip)) :
    r₁ = r₂ := by
  obtain ⟨u₁, hg₁, hs₁⟩ := C16_opts_uri_opts ip r₁ h₁
  obtain ⟨u₂, hg₂, hs₂⟩ := C16_opts_uri_opts ip r₂ h₂
  rw [hg₁, hg₂] at he
  cases he
  rw [hs₁] at hs₂
  have ho : r₁.toOpts ip = r₂.toOpts ip := by injection hs₂
  -- read the components off the two message states
  have hnl : r₁.netloc ip = r₂.netloc ip := congrArg Opts.hostinfo ho
  have hport : r₁.port = r₂.port := by
    have := portOf_netloc h₁
    rw [hnl, portOf_netloc h₂] at this
    injection this with this
    exact this.symm
  have hhost : r₁.host = r₂.host := by
    have hraw := rawHostname_netloc h₁
    rw [hnl, rawHostname_netloc h₂] at hraw
    have huh : (r₁.toOpts ip).uriHost = (r₂.toOpts ip).uriHost := congrArg Opts.uriHost ho
    have hw₁ := h₁.host
    have hw₂ := h₂.host
    cases hh₁ : r₁.host <;> cases hh₂ : r₂.host <;>
      simp only [Resource.toOpts, hh₁, hh₂, Option.some.injEq, reduceCtorEq, Host.name.injEq,
        Host.ip4.injEq, Host.ip6.injEq] at huh hraw ⊢
    · exact huh
    · exact hraw.symm
    · -- a dotted quad is never a bracketed IPv6 text: the latter contains a colon
      rename_i t₁ t₂
      rw [hh₁] at hw₁; rw [hh₂] at hw₂
      have h58 : 58 ∈ t₁ := hraw ▸ hw₂.colon
      rcases ip4Looking_chars hw₁ 58 h58 with h | h
      · simp [isDigit] at h
      · cases h
    · rename_i t₁ t₂
      rw [hh₁] at hw₁; rw [hh₂] at hw₂
      have h58 : 58 ∈ t₂ := hraw ▸ hw₁.colon
      rcases ip4Looking_chars hw₂ 58 h58 with h | h
      · simp [isDigit] at h
      · cases h
    · exact hraw.symm
  have hsch : r₁.scheme = r₂.scheme := by
    have := congrArg Opts.scheme ho
    rw [toOpts_eq ip r₁, toOpts_eq ip r₂] at this; exact this
  have hpath : r₁.path = r₂.path := by
    have := congrArg Opts.path ho
    rw [toOpts_eq ip r₁, toOpts_eq ip r₂] at this; exact this
  have hquery : r₁.query = r₂.query := by
    have := congrArg Opts.query ho
    rw [toOpts_eq ip r₁, toOpts_eq ip r₂] at this; exact this
  cases r₁; cases r₂
  simp_all

-- 5. host/port strings ----------------------------------------------------------------------

/-- Names (any text without `:`, `@`, `[`; percent-escapes allowed) and IPv4 literals:
`hostportsplit(hostportjoin(host, port)) == (host, port)`; the host comes back lower-cased up
to its first `%`, i.e. unchanged when it was written in lower case. -/
theorem C16_hostport_split_join (e : Bytes) (port : Option Nat) (hne : e ≠ [])
    (h58 : 58 ∉ e) (h64 : 64 ∉ e) (h91 : 91 ∉ e) (hp : ∀ p, port = some p → p ≤ 65535) :
    hostportsplit (hostportjoin e port) = some (some (lowerUntilPct e), port) := by
  rw [hostportjoin_plain port h58]
  unfold hostportsplit hostnameOf
  simp only [portOf_plain port h58 h64 h91 hp, rawHostname_plain port h58 h64 h91, hne, ↓reduceIte]

/-- IPv6 literals with optional zone identifier: joined in brackets, split without them, the
zone keeps its case. -/
theorem C16_hostport_split_join_ip6 (t : Bytes) (port : Option Nat) (h58 : 58 ∈ t)
    (h64 : 64 ∉ t) (h91 : 91 ∉ t) (h93 : 93 ∉ t) (hp : ∀ p, port = some p → p ≤ 65535) :
    hostportjoin t port = [91] ++ t ++ [93] ++ portSuffix port ∧
    hostportsplit (hostportjoin t port) = some (some (lowerUntilPct t), port) := by
  have hne : t ≠ [] := by rintro rfl; cases h58
  rw [hostportjoin_bracket port h58 h91]
  refine ⟨rfl, ?_⟩
  unfold hostportsplit hostnameOf
  simp only [portOf_bracket port h64 h93 hp, rawHostname_bracket port h64 h93, hne, ↓reduceIte]

/-- a port that is not a decimal number in 0..65535 makes `hostportsplit` raise -/
theorem C16_hostport_bad_port (hp : Bytes) (h : rawPort hp ≠ [])
    (hbad : allDigits (rawPort hp) = false ∨ 65535 < decToNat (rawPort hp)) :
    hostportsplit hp = none := by
  unfold hostportsplit portOf
  simp only [h, ↓reduceIte]
  rcases hbad with hb | hb
  · simp [hb]
  · have : ¬ decToNat (rawPort hp) ≤ 65535 := by omega
    simp [this]

-- 6. rejection table ------------------------------------------------------------------------

/-- Whatever the text: a URI that cannot be split is malformed. -/
theorem C16_reject_unsplittable (ip : IpOracle) (u : Bytes) (h : urlsplit ip u = none) :
    setRequestUri ip u = .malformed := by
  simp [setRequestUri, h]

/-- **Any `#` makes a text malformed** — whatever follows it, also nothing (`coap://h/a#`: the
empty fragment identifier, which `urlparse` reports like an absent one, is rejected since the fix
that looks for the `#` in the text). -/
theorem C16_fragment_rejected (ip : IpOracle) (u : Bytes) (h : 35 ∈ u) :
    setRequestUri ip u = .malformed := by
  unfold setRequestUri
  cases urlsplit ip u with
  | none => rfl
  | some p => simp [h]

/-- The table of syntactic defects, in the order the code tests them.  For a text that splits
into `p`: a `#` anywhere (a fragment identifier, possibly empty) → Malformed; else no scheme →
Incomplete; else a non-CoAP scheme → the
text becomes Proxy-Uri; else each of: no host, user info, a bracket in the authority that is not
part of a leading `[literal]` with unreserved zone identifier followed by nothing or `:`, a
path/query/host escape that is not UTF-8, a port that is not a number in 0..65535, an invalid IP
literal → Malformed. -/
theorem C16_rejection_table (ip : IpOracle) (u : Bytes) (p : Parsed) (hsplit : urlsplit ip u = some p) :
    (35 ∈ u → setRequestUri ip u = .malformed) ∧
    (35 ∉ u → p.scheme = [] → setRequestUri ip u = .incomplete) ∧
    (35 ∉ u → p.scheme ≠ [] → p.scheme ∉ coapSchemes → setRequestUri ip u = .proxy) ∧
    (35 ∉ u → p.scheme ∈ coapSchemes →
      (hostnameOf p.netloc = none ∨ hasUserinfo p.netloc = true ∨ literalOk p.netloc = false ∨
        decodePath p.path = none ∨
        decodeQuery p.query = none ∨ portOf p.netloc = none ∨ undecidedHostinfo ip p.netloc = none ∨
        (∃ hn, hostnameOf p.netloc = some hn ∧
          (p.netloc.head? == some 91 || ip4Looking hn) = false ∧ unquoteStrict hn = none)) →
      setRequestUri ip u = .malformed) := by
  refine ⟨C16_fragment_rejected ip u, ?_, ?_, ?_⟩
  · intro hf hs
    unfold setRequestUri
    rw [hsplit]
    simp [hf, fromParsed, hs]
  · intro hf hs hn
    unfold setRequestUri
    rw [hsplit]
    simp [hf, fromParsed, hs, hn]
  · intro hf hs hd
    have hc : coapSchemes.contains p.scheme = true := by simpa using hs
    have hne := coapScheme_ne_nil hs
    unfold setRequestUri
    rw [hsplit]
    simp only [contains_false_of_not_mem hf, Bool.false_eq_true, ↓reduceIte]
    unfold fromParsed
    simp only [↓reduceIte, hne, hc, Bool.not_true, Bool.false_eq_true]
    cases hhn : hostnameOf p.netloc with
    | none => rfl
    | some hn =>
      simp only
      by_cases hu : hasUserinfo p.netloc = true
      · simp [hu]
      · simp only [hu, Bool.false_eq_true, ↓reduceIte]
        by_cases hlo : literalOk p.netloc = true
        · simp only [hlo, Bool.not_true, Bool.false_eq_true, ↓reduceIte]
          cases hpath : decodePath p.path with
          | none => rfl
          | some path =>
            cases hquery : decodeQuery p.query with
            | none => rfl
            | some query =>
              simp only
              cases hport : portOf p.netloc with
              | none => rfl
              | some port =>
                simp only
                cases hund : undecidedHostinfo ip p.netloc with
                | none => rfl
                | some hostinfo =>
                  simp only
                  rcases hd with h | h | h | h | h | h | h | ⟨hn', h1, h2, h3⟩
                  · rw [hhn] at h; cases h
                  · exact absurd h hu
                  · rw [hlo] at h; cases h
                  · rw [hpath] at h; cases h
                  · rw [hquery] at h; cases h
                  · rw [hport] at h; cases h
                  · rw [hund] at h; cases h
                  · rw [hhn] at h1; cases h1
                    rw [if_neg (by simp [h2])]
                    have hhead : (p.netloc.head? == some 91) = false := by
                      simp only [Bool.or_eq_false_iff] at h2; exact h2.1
                    have hb := uriHost_bridge hhn (by simpa using hu) hlo hhead
                    rw [h3] at hb
                    simp only [Option.map_none, Option.map_eq_none_iff] at hb
                    simp [hb]
        · simp [hlo]

/-- Conversely, an accepted text has none of the defects. -/
theorem C16_accepted_has_no_defect (ip : IpOracle) (u : Bytes) (o : Opts)
    (h : setRequestUri ip u = .ok o) :
    ∃ p, urlsplit ip u = some p ∧ 35 ∉ u ∧ p.fragment = [] ∧ p.scheme ∈ coapSchemes ∧
      o.scheme = p.scheme ∧
      (∃ hn, hostnameOf p.netloc = some hn) ∧ hasUserinfo p.netloc = false ∧
      literalOk p.netloc = true ∧
      decodePath p.path = some o.path ∧ decodeQuery p.query = some o.query ∧
      (∃ port, portOf p.netloc = some port) ∧ undecidedHostinfo ip p.netloc = some o.hostinfo ∧
      o.uriPort = none := by
  obtain ⟨p, hsplit, A⟩ := setRequestUri_ok_inv h
  obtain ⟨hn, hhn, _⟩ := A.host
  exact ⟨p, hsplit, setRequestUri_ok_nohash h, (urlsplit_facts hsplit).fragment
    (setRequestUri_ok_nohash h), A.scheme, A.oscheme, ⟨hn, hhn⟩, A.userinfo, A.literal, A.path,
    A.query, A.port, A.hostinfo, A.uriPort⟩

/-- **An IP literal in brackets is the whole host** (new with the fix that rejects
`coap://a[::1]/`, `coap://evil.example[::1]:7/x`, `coap://[::1]x:7/`): when the authority of an
accepted text contains a bracket at all, it reads `[` t `]` rest with no bracket inside `t`,
`rest` empty or starting with `:` (it is then the port, a number: `C16_accepted_has_no_defect`),
and an unreserved zone identifier (`coap://[::1%a b]/` is rejected); the host is that literal —
no Uri-Host option — and it is what the remote is made of. -/
theorem C16_literal_is_whole_host (ip : IpOracle) (u : Bytes) (o : Opts) (p : Parsed)
    (hok : setRequestUri ip u = .ok o) (hsplit : urlsplit ip u = some p)
    (hbr : 91 ∈ p.netloc ∨ 93 ∈ p.netloc) :
    ∃ t rest, p.netloc = [91] ++ t ++ [93] ++ rest ∧ 91 ∉ t ∧ 93 ∉ t ∧
      (rest = [] ∨ rest.head? = some 58) ∧ zoneOk t = true ∧
      o.uriHost = none ∧ hostnameOf p.netloc = some (lowerUntilPct t) := by
  obtain ⟨p', hsplit', A⟩ := setRequestUri_ok_inv hok
  rw [hsplit] at hsplit'
  cases hsplit'
  exact literal_shape (urlsplit_facts hsplit).brackets A hbr

/-- **The IPv4-literal test is RFC 3986's `IPv4address`** (new with the fix that makes
`01.2.3.4` a name): `IsIPv4address` / `decOctet` are written from the grammar of RFC 3986 §3.2.2
(`Proofs/Uri/Ip4.lean`), `ip4Looking` is the model of the test in `set_request_uri`. -/
theorem C16_ip4_literal_is_rfc3986 (h : Bytes) : ip4Looking h = true ↔ IsIPv4address h :=
  ip4Looking_iff h

/-- RFC 7252 §6.4 step 5 on every accepted text: the Uri-Host option is left out exactly when
the host is an IP literal in brackets or an `IPv4address` of RFC 3986; otherwise it is the
percent-decoded, ASCII-lower-cased host name. -/
theorem C16_uri_host_omitted_iff_ip_literal (ip : IpOracle) (u : Bytes) (o : Opts)
    (hok : setRequestUri ip u = .ok o) :
    ∃ p hn, urlsplit ip u = some p ∧ hostnameOf p.netloc = some hn ∧
      (o.uriHost = none ↔ (p.netloc.head? = some 91 ∨ IsIPv4address hn)) ∧
      (o.uriHost ≠ none → ∃ h, unquoteStrict hn = some h ∧ o.uriHost = some (asciiLower h)) := by
  obtain ⟨p, hsplit, A⟩ := setRequestUri_ok_inv hok
  obtain ⟨hn, hhn, hcase⟩ := A.host
  refine ⟨p, hn, hsplit, hhn, ?_, ?_⟩
  · rw [← ip4Looking_iff]
    rcases hcase with ⟨hl, hnone⟩ | ⟨hl, h, _, hsome⟩
    · simp only [Bool.or_eq_true, beq_iff_eq] at hl
      exact ⟨fun _ => hl, fun _ => hnone⟩
    · simp only [Bool.or_eq_false_iff, beq_eq_false_iff_ne, ne_eq] at hl
      constructor
      · intro hnone; rw [hsome] at hnone; cases hnone
      · rintro (h1 | h1)
        · exact absurd h1 hl.1
        · rw [hl.2] at h1; cases h1
  · intro hne
    rcases hcase with ⟨_, hnone⟩ | ⟨_, h, hdec, hsome⟩
    · exact absurd hnone hne
    · exact ⟨h, hdec, hsome⟩

/-- **A host with a non-ASCII character is a registered name** (RFC 3986: `IPv4address` and
`IP-literal` are made of ASCII digits, hex digits, `:`, `.` and an unreserved zone identifier):
whatever the raw, non-ASCII character is — a decimal digit of another script (`coap://١.٢.٣.٤/`,
`coap://10.0.0.१/`), a superscript or circled digit, a letter — an accepted text whose host
contains it always carries a Uri-Host option (and `C16_uri_host_ascii_lower_only` says which). -/
theorem C16_nonascii_host_is_name (ip : IpOracle) (laws : IpLaws ip) (u : Bytes) (o : Opts)
    (hok : setRequestUri ip u = .ok o) (p : Parsed) (hsplit : urlsplit ip u = some p)
    (c : Nat) (hc : c ∈ rawHostname p.netloc) (h128 : 128 ≤ c) : o.uriHost ≠ none :=
  nonascii_host_is_name laws hok hsplit hc h128

/-- **Lower-casing is ASCII lower-casing** (RFC 7252 §6.4 step 5; new with the fix that no longer
takes the Uri-Host from `urllib`'s `.hostname`, whose `str.lower()` turned a raw U+212A KELVIN
SIGN into `k`): the Uri-Host option of an accepted text is the percent-decoded text before the
first `:` of the authority in which exactly the 26 bytes `A`..`Z` are replaced — every other byte,
in particular every byte of a non-ASCII character, raw or escaped, is kept. -/
theorem C16_uri_host_ascii_lower_only (ip : IpOracle) (u : Bytes) (o : Opts)
    (hok : setRequestUri ip u = .ok o) (h : Bytes) (huh : o.uriHost = some h) :
    ∃ p raw, urlsplit ip u = some p ∧ unquoteStrict (before 58 p.netloc) = some raw ∧
      h = raw.map (fun c => if 65 ≤ c ∧ c ≤ 90 then c + 32 else c) := by
  obtain ⟨p, hsplit, A⟩ := setRequestUri_ok_inv hok
  obtain ⟨hn, hhn, hcase⟩ := A.host
  rcases hcase with ⟨_, hnone⟩ | ⟨hlit, h0, hdec, hsome⟩
  · rw [hnone] at huh; cases huh
  · have hhead : (p.netloc.head? == some 91) = false := by
      simp only [Bool.or_eq_false_iff] at hlit; exact hlit.1
    have hb := uriHost_bridge hhn A.userinfo A.literal hhead
    rw [hdec] at hb
    cases hq : unquoteStrict (before 58 p.netloc) with
    | none => rw [hq] at hb; cases hb
    | some raw =>
      rw [hq] at hb
      simp only [Option.map_some, Option.some.injEq] at hb
      refine ⟨p, raw, hsplit, hq, ?_⟩
      rw [hsome] at huh
      injection huh with huh
      rw [← huh, ← hb]
      unfold asciiLower
      apply List.map_congr_left
      intro c _
      simp only [lowerChar, isUpper, Bool.and_eq_true, decide_eq_true_eq]

/-- **The NFKC check of `urlsplit`** (`_checknetloc`): an authority with a character whose
compatibility form holds one of `/ ? # @ :` (U+2100 `a/c`, fullwidth `：` …) makes `urlparse` raise
`ValueError`; `set_request_uri` turns it into the documented `MalformedUrlError`. -/
theorem C16_nfkc_delimiter_rejected (ip : IpOracle) (u : Bytes)
    (h : nfkcBad (splitAuthority u).2.1 = true) : setRequestUri ip u = .malformed := by
  have : urlsplit ip u = none := by
    unfold urlsplit
    simp only [h, ↓reduceIte]
    split <;> rfl
  simp [setRequestUri, this]

/-- A text without any `:` has no scheme: it is never accepted and never taken for a
Proxy-Uri; it is rejected as Incomplete, or as Malformed when it also carries a fragment or
unbalanced brackets. -/
theorem C16_no_colon_rejected (ip : IpOracle) (u : Bytes) (h : 58 ∉ u) :
    setRequestUri ip u = .incomplete ∨ setRequestUri ip u = .malformed := by
  have hs : 58 ∉ sanitise u := by
    intro hm
    unfold sanitise at hm
    exact h ((List.dropWhile_suffix _).subset (List.mem_filter.mp hm).1)
  have hsch : (splitAuthority u).1 = [] := by
    have hno : schemeOk (sanitise u) = false := by
      unfold schemeOk
      rw [contains_false_of_not_mem hs]
      rfl
    unfold splitAuthority splitScheme
    simp only [hno, Bool.false_eq_true, ↓reduceIte]
    split <;> rfl
  unfold setRequestUri
  cases hsp : urlsplit ip u with
  | none => right; rfl
  | some p =>
    have hps : p.scheme = [] := by rw [(urlsplit_facts hsp).scheme_eq, hsch]
    simp only
    by_cases h35 : 35 ∈ u
    · right; simp [h35]
    · left; simp [h35, fromParsed, hps]

-- non-vacuity and sanity examples ---------------------------------------------------------

/-- an oracle that knows one IPv6 address -/
def exIp : IpOracle := { norm6 := fun t => if t = [58, 58, 49] then some t else none }

theorem exIp_laws : IpLaws exIp := by
  refine ⟨?_, ?_, ?_, ?_, ?_⟩ <;> intro x y h <;> simp only [exIp] at h <;> split at h
  · injection h with h; subst h; rename_i hx; subst hx
    exact ⟨by simp [exIp], by decide, by decide, by decide, by decide⟩
  · cases h
  · injection h with h; subst h; rename_i hx; subst hx; decide
  · cases h
  · injection h with h; subst h; rename_i hx; subst hx; decide
  · cases h
  · injection h with h; subst h; rfl
  · cases h
  · injection h with h; rename_i hx; subst hx; decide
  · cases h

/-- an oracle that, like `ipaddress`, takes `::1` with *any* text for a zone identifier -/
def exIpZ : IpOracle := { norm6 := fun t => if before 37 t = [58, 58, 49] then some t else none }

theorem lowerUntilPct_split (s : Bytes) :
    lowerUntilPct s = (before 37 s).map lowerChar ++ dropUntil (· == 37) s := by
  induction s with
  | nil => rfl
  | cons x r ih =>
    simp only [lowerUntilPct, before, takeUntil, dropUntil, beq_iff_eq]
    split
    · simp
    · simp only [List.map_cons, List.cons_append, List.cons.injEq, true_and]
      exact ih

/-- ... and still satisfies every assumption the theorems make about `ipaddress`: none of them
restricts the zone identifier -/
theorem exIpZ_laws : IpLaws exIpZ := by
  have key : ∀ x y, exIpZ.norm6 x = some y → y = x ∧ before 37 x = [58, 58, 49] := by
    intro x y h
    simp only [exIpZ] at h
    split at h
    · rename_i hx; injection h with h; exact ⟨h.symm, hx⟩
    · cases h
  have shape : ∀ x, before 37 x = [58, 58, 49] → x = [58, 58, 49] ++ dropUntil (· == 37) x := by
    intro x hx
    have := takeUntil_append_dropUntil (· == 37) x
    rw [show takeUntil (· == 37) x = before 37 x from rfl, hx] at this
    exact this.symm
  refine ⟨?_, ?_, ?_, ?_, ?_⟩ <;> intro x y h <;> obtain ⟨rfl, hx⟩ := key x y h
  · have hs := shape y hx
    refine ⟨by simp [exIpZ, hx], ?_, ?_, ?_, ?_⟩
    · rw [hs]; simp
    · rw [lowerUntilPct_split, hx]
      exact hs.symm
    · rw [hs]; simp
    · rw [hs]; simp
  · rw [hx]; decide
  · rw [hx]; decide
  · rfl
  · rw [shape y hx]; simp

/-- `::1%a?b` — `ipaddress` (here: `exIpZ`) takes it for an address, `_quote_host` does not: the
zone identifier holds a delimiter.  It is a *name* in the sense of `NameOk`, so
`C16_opts_uri_opts` and `C16_distinct_stay_distinct` cover it: it composes to
`coap://%3A%3A1%25a%3Fb/` and comes back as the same Uri-Host. -/
def exHostile : Bytes := [58, 58, 49, 37, 97, 63, 98]

def exHostileRes : Resource :=
  { scheme := [99,111,97,112], host := .name exHostile, port := none, path := [], query := [] }

example : (exIpZ.norm6 exHostile).isSome = true ∧ passesAsAddress exIpZ exHostile = false ∧
    passesAsAddress exIpZ [58, 58, 49, 37, 97, 98] = true := by decide

example : exHostileRes.WF exIpZ :=
  { scheme := by decide
    host := ⟨by decide, by decide, by decide, by decide, by decide, by decide⟩
    port := by intro p hp; cases hp
    path := ⟨by decide, by decide⟩
    query := ⟨by decide, by decide⟩ }

example : getRequestUri exIpZ (exHostileRes.toOpts exIpZ) = some
    [99,111,97,112,58,47,47,37,51,65,37,51,65,49,37,50,53,97,37,51,70,98,47] := by decide

/-- the new entries of the rejection table on concrete texts: `coap://a[::1]/`,
`coap://[::1]x:7/`, `coap://[::1%a b]/` are malformed, `coap://[::1%ab]/` is not -/
example : setRequestUri exIpZ [99,111,97,112,58,47,47,97,91,58,58,49,93,47] = .malformed := by decide
example : setRequestUri exIpZ [99,111,97,112,58,47,47,91,58,58,49,93,120,58,55,47] = .malformed := by
  decide
example : setRequestUri exIpZ [99,111,97,112,58,47,47,91,58,58,49,37,97,32,98,93,47] = .malformed := by
  decide
example : setRequestUri exIpZ [99,111,97,112,58,47,47,91,58,58,49,37,97,98,93,47]
    = .ok { scheme := [99,111,97,112], hostinfo := [91,58,58,49,37,97,98,93], uriHost := none,
            uriPort := none, path := [], query := [] } := by decide

/-- dec-octet boundaries: `1.2.3.255`, `0.0.0.0` are IPv4 literals; `1.2.3.256`, `01.2.3.4`,
`1.2.3.00`, `1.2.3.0255`, `1.2.3` are names -/
example : ip4Looking [49,46,50,46,51,46,50,53,53] = true ∧ ip4Looking [48,46,48,46,48,46,48] = true ∧
    ip4Looking [49,46,50,46,51,46,50,53,54] = false ∧ ip4Looking [48,49,46,50,46,51,46,52] = false ∧
    ip4Looking [49,46,50,46,51,46,48,48] = false ∧ ip4Looking [49,46,50,46,51,46,48,50,53,53] = false ∧
    ip4Looking [49,46,50,46,51] = false := by decide

/-- `CoAp://H:0080/%7e?` is accepted (host lower-cased, port kept with the remote as written) and
falls under the first alternative of `C16_uri_opts_uri` -/
def exText : Bytes := [67,111,65,112,58,47,47,72,58,48,48,56,48,47,37,55,101,63]

def exTextOpts : Opts :=
  { scheme := [99,111,97,112], hostinfo := [72,58,48,48,56,48], uriHost := some [104],
    uriPort := none, path := [[126]], query := [] }

example : exText.wf ∧ setRequestUri exIp exText = .ok exTextOpts ∧ NotIpText exIp [104] := by
  refine ⟨by decide, ?_, ⟨by decide, by decide⟩⟩
  · simp [setRequestUri, urlsplit, splitAuthority, splitScheme, schemeOk, sanitise, before, after,
      takeUntil, dropUntil, isUnsafeWs, isC0Space, exText, isSchemeChar, isAlpha, isUpper, isLower,
      isDigit, asciiLower, lowerChar, isNetlocDelim, bracketsOk, fromParsed, coapSchemes,
      hostnameOf, rawHostname, hostinfoOf, afterLast, lowerUntilPct, hasUserinfo, beforeLast,
      decodePath, decodeQuery, splitOn, decodeSegs, unquoteStrict, portOf, rawPort, allDigits,
      decToNat, undecidedHostinfo, ip4Looking, utf8Valid, exTextOpts, literalOk, nfkcBad,
      unquote_escape (a := 55) (b := 101) (x := 7) (y := 14) [] (by decide) (by decide), unquote_nil,
      unquote_cons_ne (c := 104) [] (by decide), unquote_cons_ne (c := 72) [] (by decide)]

/-- the second alternative of `C16_uri_opts_uri` is not empty and cannot be merged into the first:
the options of `coap://%31.2.3.4/` (Uri-Host "1.2.3.4", remote `%31.2.3.4`) compose to
`coap://1.2.3.4/`, which decomposes *without* Uri-Host -/
def exIpTextOpts : Opts :=
  { scheme := [99,111,97,112], hostinfo := [37,51,49,46,50,46,51,46,52],
    uriHost := some [49,46,50,46,51,46,52], uriPort := none, path := [], query := [] }

example : ¬ NotIpText exIp [49,46,50,46,51,46,52] := by
  intro h; exact absurd h.1 (by decide)

example : getRequestUri exIp exIpTextOpts = some [99,111,97,112,58,47,47,49,46,50,46,51,46,52,47] ∧
    setRequestUri exIp [99,111,97,112,58,47,47,49,46,50,46,51,46,52,47]
      = .ok { exIpTextOpts with hostinfo := [49,46,50,46,51,46,52], uriHost := none } := by
  constructor <;> decide

/-- `coap://h/a%2Fb//%C3%A5?x&&y=%26` -/
def exName : Resource :=
  { scheme := [99,111,97,112], host := .name [104], port := none,
    path := [[97, 47, 98], [], [195, 165]], query := [[120], [], [121, 61, 38]] }

example : exName.WF exIp :=
  { scheme := by decide
    host := ⟨by decide, by decide, by decide, by decide, by decide, by decide⟩
    port := by intro p hp; cases hp
    path := ⟨by decide, by decide⟩
    query := ⟨by decide, by decide⟩ }

/-- `coaps://[::1]:5684/` -/
def exIp6 : Resource :=
  { scheme := [99,111,97,112,115], host := .ip6 [58, 58, 49], port := some 5684,
    path := [], query := [] }

/-- `coap://1.2.3.4//` -/
def exIp4 : Resource :=
  { scheme := [99,111,97,112], host := .ip4 [49,46,50,46,51,46,52], port := none,
    path := [[], []], query := [] }

example : exIp6.WF exIp :=
  { scheme := by decide
    host := ⟨by decide, by decide, by decide, by decide, by decide, by decide⟩
    port := by intro p hp; cases hp; decide
    path := ⟨by decide, by decide⟩
    query := ⟨by decide, by decide⟩ }

example : exIp4.WF exIp :=
  { scheme := by decide
    host := by show ip4Looking _ = true; decide
    port := by intro p hp; cases hp
    path := ⟨by decide, by decide⟩
    query := ⟨by decide, by decide⟩ }

/-- the model on a concrete input: path `["a/b", "", "å"]`, query `["x", "", "y=&"]` compose to
`coap://h/a%2Fb//%C3%A5?x&&y=%26` -/
example : getRequestUri exIp (exName.toOpts exIp) = some
    [99,111,97,112,58,47,47,104,47,97,37,50,70,98,47,47,37,67,51,37,65,53,63,120,38,38,121,61,37,50,54] := by
  decide

/-- `unquote "%2Fa%" = "/a%"` and the UTF-8 boundaries: U+D7FF is text, a surrogate is not -/
example : unquote [37, 50, 70, 97, 37] = [47, 97, 37] := by
  rw [unquote_escape (x := 2) (y := 15) _ (by decide) (by decide), unquote_cons_ne _ (by decide)]
  rw [unquote.eq_def]
  simp
example : utf8Valid [237, 159, 191] = true ∧ utf8Valid [237, 160, 128] = false ∧
    utf8Valid [244, 143, 191, 191] = true ∧ utf8Valid [244, 144, 128, 128] = false ∧
    utf8Valid [192, 175] = false := by decide

/-- raw non-ASCII hosts: `coap://K/` with U+212A KELVIN SIGN (E2 84 AA) keeps the character,
`coap://١.٢.٣.٤/` (ARABIC-INDIC digits, D9 A1 …) is a name, `coap://℀/` (U+2100, NFKC `a/c`) is
malformed, and so is the empty fragment of `coap://h/a#` -/
example : setRequestUri exIp [99,111,97,112,58,47,47,226,132,170,47]
    = .ok { scheme := [99,111,97,112], hostinfo := [226,132,170], uriHost := some [226,132,170],
            uriPort := none, path := [], query := [] } := by
  have hu : unquote [226,132,170] = [226,132,170] := by
    simp [unquote_cons_ne, unquote_nil]
  have hs : urlsplit exIp [99,111,97,112,58,47,47,226,132,170,47]
      = some { scheme := [99,111,97,112], netloc := [226,132,170], path := [47], query := [],
               fragment := [] } := by decide
  have hb : before 58 [226,132,170] = [226,132,170] := by decide
  simp only [setRequestUri, hs]
  rw [if_neg (by decide)]
  unfold fromParsed
  simp only [hb, unquoteStrict, hu]
  decide
example : ip4Looking [217,161,46,217,162,46,217,163,46,217,164] = false ∧
    nfkcBad [226,132,128] = true ∧ nfkcBad [226,132,170] = false ∧
    nfkcBad [239,188,154] = true := by decide
example : setRequestUri exIp [99,111,97,112,58,47,47,226,132,128,47] = .malformed := by decide
example : setRequestUri exIp [99,111,97,112,58,47,47,104,47,97,35] = .malformed := by decide

/-- the rejection table is not vacuous: `//h/x` has no scheme, `coap://h/#f` has a fragment -/
example : setRequestUri exIp [47, 47, 104, 47, 120] = .incomplete := by decide
example : setRequestUri exIp [99,111,97,112,58,47,47,104,47,35,102] = .malformed := by decide
example : setRequestUri exIp [99,111,97,112,58,47,47,117,64,104,47] = .malformed := by decide

end Aiocoap.Uri
