import Properties.C03
import Properties.C10
/-!
# C03, trace level — the whole life of an unanswered confirmable message

`C03_retransmit`/`C03_gives_up` are single steps; this file chains them: from any state in which
an exchange is in flight, if only its own timers fire (each at its deadline), the datagrams that
go out are exactly the remaining copies at `t0 + (2^j − 1)·T0`, `j = counter+1 … MAX_RETRANSMIT`,
all carrying the identical message, and the last timer closes the exchange.
-/
namespace Aiocoap.MsgLayer

/-- deadlines of the timers still to fire for an exchange with `c` retransmissions done and `n`
copies to go: `t0 + (2^(c+1) − 1)·T0, …` -/
def deadlines (t0 T0 : Nat) : Nat → Nat → List Nat
  | _, 0 => []
  | c, n + 1 => (t0 + (2 ^ (c + 1) - 1) * T0) :: deadlines t0 T0 (c + 1) n

def timerEvents (remote : Remote) (mid : Nat) (ts : List Nat) : List TEv :=
  ts.map fun t => { time := t, ev := .fireRetransmit remote mid }

theorem findExchange_setNow (s : State) (t : Nat) (remote : Remote) (mid : Nat) :
    findExchange (setNow s t) remote mid = findExchange s remote mid := rfl

/-- **C03 (unanswered message, whole trace).** -/
theorem C03_unanswered_trace (n : Nat) :
    ∀ (s : State) (remote : Remote) (mid : Nat) (x : Exchange),
      findExchange s remote mid = some x → ExInv x → x.counter + n = x.maxRetr → s.shutTok = false →
      let copies := deadlines x.t0 x.T0 x.counter n
      let giveUp := x.t0 + (2 ^ (x.maxRetr + 1) - 1) * x.T0
      let r := run s (timerEvents remote mid (copies ++ [giveUp]))
      sendsOf r.2 = copies.map (fun t => (t, remote, x.msg)) ∧
      findExchange r.1 remote mid = none := by
  induction n with
  | zero =>
    intro s remote mid x hx hinv hc hsh
    simp only [deadlines, List.nil_append, timerEvents, List.map_cons, List.map_nil, run, step, handle,
      List.append_nil]
    have hlast : ¬ x.counter < x.maxRetr := by omega
    have hg := C03_gives_up (setNow s (x.t0 + (2 ^ (x.maxRetr + 1) - 1) * x.T0)) remote mid x
      (by rw [findExchange_setNow]; exact hx) hinv hlast hsh
    refine ⟨?_, hg.2.2.1⟩
    simp only [sendsOf, List.filterMap_eq_nil_iff]
    intro o ho
    cases o with
    | send t r w => exact absurd ho (hg.1 t r w)
    | _ => rfl
  | succ n ih =>
    intro s remote mid x hx hinv hc hsh
    have hlt : x.counter < x.maxRetr := by omega
    simp only [deadlines, List.cons_append, timerEvents, List.map_cons, run, step, handle]
    have hfire : x.t0 + (2 ^ (x.counter + 1) - 1) * x.T0 = x.fireAt := hinv.2.1.symm
    have hr := C03_retransmit (setNow s (x.t0 + (2 ^ (x.counter + 1) - 1) * x.T0)) remote mid x
      (by rw [findExchange_setNow]; exact hx) hinv hlt (by simp [setNow, hfire])
    obtain ⟨hout, hfind, hmsg, hcnt, _, hinv'⟩ := hr
    generalize hs' : (fireRetransmit (setNow s (x.t0 + (2 ^ (x.counter + 1) - 1) * x.T0)) remote mid).1 = s' at *
    generalize hx' : x.next (setNow s (x.t0 + (2 ^ (x.counter + 1) - 1) * x.T0)).now = x' at *
    have ht0 : x'.t0 = x.t0 := by rw [← hx']; rfl
    have hT0 : x'.T0 = x.T0 := by rw [← hx']; rfl
    have hmr : x'.maxRetr = x.maxRetr := by rw [← hx']; rfl
    have hsh' : s'.shutTok = false := by
      rw [← hs']
      simp only [fireRetransmit, findExchange_setNow, hx, hlt, ↓reduceIte]
      exact hsh
    have := ih s' remote mid x' hfind hinv' (by rw [hcnt, hmr]; omega) hsh'
    simp only [ht0, hT0, hmr, hcnt, hmsg, timerEvents] at this
    rw [sendsOf_append, hout]
    refine ⟨?_, this.2⟩
    rw [this.1]
    simp [sendsOf]

/-- an unanswered CON with `MAX_RETRANSMIT = 4`, `T0 = 20`, first sent at 5: copies at 25, 65, 145,
305 and give-up at 625 — as computed by the closed form -/
example : deadlines 5 20 0 4 = [25, 65, 145, 305] ∧ 5 + (2 ^ (4 + 1) - 1) * 20 = 625 := by decide

end Aiocoap.MsgLayer
