import Proofs.MsgLayer.Tokens
import Properties.C18
/-!
# C02 — a response reaches exactly the request it answers; every request completes once

Model: `AiocoapModel/MsgLayer/Model.lean` — `outgoing_requests` = `outgoing` (keyed by token and
remote, `none` for a request sent to a multicast address), `process_response`, the monitors and
`dispatch_error`, `TokenManager.request` = `submit`, `next_token` = `nextToken`.  An output
`.response r w final` / `.fail r kind` is an event put on the pipe of client request `r`; the
request's future is completed by the first such event (that step — `Request._run` and the asyncio
future — is exercised by the correspondence harness and its oracle, not modelled).
-/
namespace Aiocoap.MsgLayer

/-- the responses among the outputs -/
def respOf (os : List Out) : List (Nat × Wire × Bool) :=
  os.filterMap fun o => match o with
    | .response r w f => some (r, w, f)
    | _ => none

theorem respOf_of_NoTerm {os : List Out} (h : NoTerm os) : respOf os = [] := by
  simp only [respOf, List.filterMap_eq_nil_iff]
  intro o ho
  have := h o ho
  cases o <;> simp_all [pipeEvent]

theorem respOf_append (a b : List Out) : respOf (a ++ b) = respOf a ++ respOf b := by
  simp [respOf, List.filterMap_append]

/-- **C02 (delivery matches).** A response is put on a request's pipe only if that request is
still in the table under the *same token* and for the *endpoint the datagram came from* (or it was
sent to a multicast address); exactly that datagram is delivered, to exactly one request, marked
final unless the request asked to observe and the response is a successful (2.xx) one carrying an
Observe option. -/
theorem C02_delivery_matches (s : State) (remote : Remote) (w : Wire) (r : Nat) (w' : Wire) (f : Bool)
    (h : (r, w', f) ∈ respOf (processResponse s remote w).2.1) :
    w' = w ∧ respOf (processResponse s remote w).2.1 = [(r, w, f)] ∧
    ∃ o ∈ s.outgoing, o.req = r ∧ o.token = w.token ∧ (o.remote = some remote ∨ o.remote = none) ∧
      f = !(o.observing && w.obs.isSome && isSuccessful w.code) := by
  unfold processResponse at h ⊢
  simp only at h ⊢
  split at h
  · simp [respOf] at h
  · rename_i o hhit
    simp only [respOf, List.filterMap_cons, List.filterMap_nil, List.mem_singleton, Prod.mk.injEq] at h
    obtain ⟨rfl, rfl, rfl⟩ := h
    refine ⟨rfl, by simp [respOf], o, ?_, rfl, ?_⟩
    · split at hhit
      · rename_i o' h1; cases hhit; exact List.mem_of_find?_eq_some h1
      · exact List.mem_of_find?_eq_some hhit
    · split at hhit
      · rename_i o' h1
        cases hhit
        have := List.find?_some h1
        simp only [Bool.and_eq_true, beq_iff_eq] at this
        exact ⟨this.1, Or.inl this.2, rfl⟩
      · have := List.find?_some hhit
        simp only [Bool.and_eq_true, beq_iff_eq] at this
        exact ⟨this.1, Or.inr this.2, rfl⟩

/-- **C02 (unknown token or other endpoint: never delivered).** If no outstanding request has the
response's token towards the datagram's source (nor was sent to multicast with it), nothing is
delivered and nothing changes; the caller then answers a CON with a Reset (`C10_table`). -/
theorem C02_unmatched_never_delivered (s : State) (remote : Remote) (w : Wire)
    (h : ∀ o ∈ s.outgoing, o.token = w.token → o.remote ≠ some remote ∧ o.remote ≠ none) :
    processResponse s remote w = (s, [], false) := by
  unfold processResponse
  have h1 : s.outgoing.find? (fun o => o.token == w.token && o.remote == some remote) = none := by
    rw [List.find?_eq_none]
    intro o ho hp
    simp only [Bool.and_eq_true, beq_iff_eq] at hp
    exact (h o ho hp.1).1 hp.2
  have h2 : s.outgoing.find? (fun o => o.token == w.token && o.remote == none) = none := by
    rw [List.find?_eq_none]
    intro o ho hp
    simp only [Bool.and_eq_true, beq_iff_eq] at hp
    exact (h o ho hp.1).2 hp.2
  simp only [h1, h2]

/-- **C02 (only datagrams deliver responses).** No event other than an arriving datagram ever puts
a response on a request's pipe. -/
theorem C02_responses_only_from_datagrams (s : State) (ev : Ev)
    (h : ∀ remote mcl w, ev ≠ .recv remote mcl w) : respOf (handle s ev).2 = [] := by
  cases ev with
  | recv remote mcl w => exact absurd rfl (h remote mcl w)
  | submit r remote mc ob m =>
    simp only [handle, submit]
    split
    · rfl
    · have hn := sendMessage_Neutral (registerOutgoing s r remote mc ob) remote mc (nextToken s) m false (.req r)
      rcases hsm : sendMessage (registerOutgoing s r remote mc ob) remote mc (nextToken s) m false (.req r)
        with ⟨s2, o, res⟩
      rw [hsm] at hn
      have ho : respOf o = [] := respOf_of_NoTerm hn.nt
      cases res <;> simp [respOf_append, ho] <;> simp [respOf]
  | respond sv m il =>
    simp only [handle, respond]
    split
    · rfl
    · rename_i i _
      have hn := sendMessage_Neutral s i.remote false i.token m i.wasNon (.srv sv)
      split <;> exact respOf_of_NoTerm hn.nt
  | appCancel r => rfl
  | error remote =>
    simp only [handle, dispatchError]
    split
    · rfl
    · simp only [tokenDispatchError]
      split <;> simp [respOf, List.filterMap_append, List.filterMap_map, Function.comp_def]
  | fireRetransmit remote mid =>
    simp only [handle, fireRetransmit]
    split
    · rfl
    · split
      · rfl
      · simp only [tokenDispatchError]
        split <;> simp [respOf, List.filterMap_append, List.filterMap_map, Function.comp_def]
  | fireEmptyAck remote token =>
    simp only [handle, fireEmptyAck]
    split
    · rfl
    · exact respOf_of_NoTerm (sendBare_Neutral _ _ _ _).nt
  | fireExpire remote mid => rfl
  | shutdown =>
    simp only [handle, shutdown]
    split
    · rfl
    · simp [respOf, List.filterMap_append, List.filterMap_map, Function.comp_def]

/-- **C02 (completes at most once).** Over *every* sequence of events — any loss, duplication,
delay and reordering of datagrams, forged responses, Resets, transport errors, cancellations,
shutdown, other requests — a request that is submitted once gets at most one terminal event
(an exception or a final response) on its pipe. -/
theorem C02_complete_at_most_once (cfg : Cfg) (mid token : Nat) (f : Nat → Nat) (es : List TEv)
    (r : Nat) (honce : submitCount r es ≤ 1) :
    termCount r (run (init cfg mid token f) es).2 ≤ 1 := by
  have h := run_Acct r (init cfg mid token f) es
  have h0 : outCount (init cfg mid token f) r = 0 := by simp [outCount, init]
  omega

/-- … and once it has had its terminal event it is gone from the table, so no later datagram can
reach it (`C02_delivery_matches`): terminal events + remaining entries ≤ 1. -/
theorem C02_terminal_retires (cfg : Cfg) (mid token : Nat) (f : Nat → Nat) (es : List TEv)
    (r : Nat) (honce : submitCount r es ≤ 1) :
    termCount r (run (init cfg mid token f) es).2 + outCount (run (init cfg mid token f) es).1 r ≤ 1 := by
  have h := run_Acct r (init cfg mid token f) es
  have h0 : outCount (init cfg mid token f) r = 0 := by simp [outCount, init]
  omega

/-- **C02 (shutdown completes everything).** Shutdown gives every request still in the table its
terminal event (`LibraryShutdown`, an `error.Error`), and leaves the table empty. -/
theorem C02_completed_by_shutdown (s : State) (h : s.shutTok = false) :
    (∀ o ∈ s.outgoing, Out.fail o.req .libraryShutdown ∈ (shutdown s).2) ∧
    (shutdown s).1.outgoing = [] :=
  ⟨(C18_all_fail s h).1, (C18_all_fail s h).2.2.2.og⟩

/-- **C02 (an error fails only that endpoint's requests).** A transport error or a retransmission
time-out for one remote fails exactly the requests outstanding towards that remote. -/
theorem C02_error_fails_only_that_remote (s : State) (remote : Remote) (k : ErrKind) (r : Nat)
    (k' : ErrKind) (h : Out.fail r k' ∈ (tokenDispatchError s remote k).2) :
    k' = k ∧ ∃ o ∈ s.outgoing, o.req = r ∧ o.remote = some remote := by
  unfold tokenDispatchError at h
  split at h
  · cases h
  · simp only [List.mem_append, List.mem_map, List.mem_filter] at h
    rcases h with ⟨o, ⟨ho, hr⟩, he⟩ | ⟨i, _, he⟩
    · cases he
      exact ⟨rfl, o, ho, rfl, by simpa using hr⟩
    · cases he

/-- **C02 (tokens are pairwise different).** In every reachable state, as long as fewer than
2^64 requests have been issued, two different outstanding requests never carry the same token
(to whatever endpoint). -/
theorem C02_tokens_distinct (cfg : Cfg) (mid token : Nat) (f : Nat → Nat) (ht : token < 2 ^ 64)
    (es : List TEv) (hlt : (run (init cfg mid token f) es).1.issued ≤ 2 ^ 64)
    (o1 o2 : OutReq) (h1 : o1 ∈ (run (init cfg mid token f) es).1.outgoing)
    (h2 : o2 ∈ (run (init cfg mid token f) es).1.outgoing) (htok : o1.token = o2.token) : o1 = o2 := by
  have inv := run_TInv (init_TInv cfg mid token f ht) es
  generalize (run (init cfg mid token f) es).1 = s at *
  obtain ⟨hi1, ht1⟩ := inv.tok o1 h1
  obtain ⟨hi2, ht2⟩ := inv.tok o2 h2
  have hmod : (s.tokenCtr0 + o1.idx + 1) % 2 ^ 64 = (s.tokenCtr0 + o2.idx + 1) % 2 ^ 64 :=
    tokenOf_injective (by rw [← ht1, ← ht2, htok])
  have hidx : o1.idx = o2.idx := by omega
  exact map_inj_of_nodup inv.nd h1 h2 hidx

-- non-vacuity ---------------------------------------------------------------------------------

def c02Msg (rel : Bool) : OutMsg :=
  { mtype := none, reliability := some rel, code := 1, obs := none, body := 9, noResponse := 0, maxRetr := 4 }
def c02Resp (tok : Nat) (mid : Nat) (t : MType) : Wire :=
  { mtype := t, code := 69, mid, token := [tok], obs := none, body := 5 }
/-- two requests to different remotes; the answer for request 1 arrives from the wrong endpoint
(refused with RST), then from the right one (delivered), then again (refused: token retired) -/
def c02Run : List TEv :=
  [⟨1, .submit 0 5 false false (c02Msg false)⟩, ⟨2, .submit 1 6 false false (c02Msg false)⟩,
   ⟨3, .recv 5 false (c02Resp 2 900 .con)⟩, ⟨4, .recv 6 false (c02Resp 2 901 .con)⟩,
   ⟨5, .recv 6 false (c02Resp 2 902 .con)⟩]

example : submitCount 1 c02Run ≤ 1 := by decide

/-- what the run puts out, evaluated: both requests go out under tokens [1] and [2]; the response
with token [2] from endpoint 5 (request 1 went to 6) is refused with a Reset and not delivered; the
same from endpoint 6 is delivered as the final result of request 1 and acknowledged; its copy finds
the token retired and gets a Reset — request 1 has exactly one terminal event, request 0 none -/
example :
    ((run (init { exchangeLifetime := 1000, emptyAckDelay := 10 } 500 0 (fun _ => 20)) c02Run).2.map fun o =>
      match o with
      | .send t r w => (0, t, r, w.mid, w.token)
      | .response r w l => (1, r, w.body, if l then 1 else 0, [])
      | .fail r _ => (2, r, 0, 0, [])
      | .deliver sv r _ => (3, sv, r, 0, [])
      | .stop sv => (4, sv, 0, 0, [])) =
    [(0, 1, 5, 500, [1]), (0, 2, 6, 501, [2]), (0, 3, 5, 900, []), (1, 1, 5, 1, []), (0, 4, 6, 901, []),
     (0, 5, 6, 902, [])] ∧
    termCount 1 (run (init { exchangeLifetime := 1000, emptyAckDelay := 10 } 500 0 (fun _ => 20)) c02Run).2 = 1 ∧
    termCount 0 (run (init { exchangeLifetime := 1000, emptyAckDelay := 10 } 500 0 (fun _ => 20)) c02Run).2 = 0 := by
  decide +kernel

end Aiocoap.MsgLayer
