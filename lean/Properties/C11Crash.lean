import Properties.C11
import Proofs.Oscore.ProtPersist
/-!
# C11, "the outer message reveals none of them" over the lives of a process

An AEAD hides its plaintexts only as long as no (key, nonce) pair is used twice: two outer
messages protected under one pair reveal the XOR of the inner codes, options and payloads.  The
nonce of a message that does not answer a request with that request's nonce is built from the
sender id and the number `new_sequence_number` hands out (`C11_protect_uses_own_nonce`,
`C11_no_reuse_takes_own_number`), and for a persisted context that number survives the process:
`AiocoapModel/Oscore/ProtPersist.lean` models `new_sequence_number` / `post_seqnoincrease` /
`_destroy` / `_load` of `FilesystemSecurityContext` over histories in which the process is killed
or stopped after ANY number of protect operations, any number of times (the functions the driver
runs for `C11 H` lines).

(Round 4: a change that called the persistence hook before the number was advanced left the first
number of every chunk — the 1st, 11th, 31st, 71st … after a load — uncovered by `sequence.json`;
killed right there, the next process used it again.  C13 proves the finer statement with crashes
inside `_store`, the replay window and the Echo exchange; the theorems here are what C11's own
crash histories are compared with.)
-/
namespace Aiocoap.Oscore.Prot

/-- **No sequence number twice, over every crash history.**  Start a process on any
`sequence.json` (`next-to-send = d`), with any chunk configuration (start and limit at least 1;
the defaults are 10 and 10000); let it protect, be killed, be stopped and be started again in any
order and any number of times.  The numbers handed out are strictly increasing (and below
`MAX_SEQNO`): none is ever handed out twice, whatever the points at which the process died. -/
theorem C11_crash_history_numbers_increase (c : Chunks) (hs : 1 ≤ c.start) (hl : 1 ≤ c.limit)
    (d : Nat) (es : List SendEv) :
    List.Pairwise (· < ·) (sendRun c (loadSend c d) es).1 ∧
    ∀ n ∈ (sendRun c (loadSend c d) es).1, d ≤ n ∧ n < maxSeqno := by
  obtain ⟨h1, h2⟩ := sendRun_increasing hs hl es (loadSend c d) (loadSend_inv hs d)
  exact ⟨h2, h1⟩

/-- **No (key, nonce) pair twice, over every crash history.**  For an admissible context the
nonces of the messages protected with those numbers are pairwise different — under the one
sender key, no two messages of any two lives of the process share a nonce. -/
theorem C11_crash_history_no_nonce_twice {A : Ctx} (hA : A.wf) (c : Chunks) (hs : 1 ≤ c.start)
    (hl : 1 ≤ c.limit) (d : Nat) (es : List SendEv) :
    List.Pairwise (fun n n' => ownNonce A n ≠ ownNonce A n') (sendRun c (loadSend c d) es).1 ∧
    ∀ n ∈ (sendRun c (loadSend c d) es).1, (ownNonce A n).isSome = true := by
  obtain ⟨hsorted, hb⟩ := C11_crash_history_numbers_increase c hs hl d es
  have hsome : ∀ n, ∃ x, ownNonce A n = some x := fun n =>
    constructNonce_isSome hA.ivLo hA.civ hA.sid (by rw [natToBE_length]; omega)
  refine ⟨?_, ?_⟩
  · apply List.Pairwise.imp_of_mem _ hsorted
    intro a b ha hb' hlt heq
    obtain ⟨x, hx⟩ := hsome a
    have := ownNonce_inj hA (hb a ha).2 (hb b hb').2 hx (by rw [← heq]; exact hx)
    omega
  · intro n _
    obtain ⟨x, hx⟩ := hsome n
    simp [hx]

/-- **`protect` of a request encrypts under the nonce of the number it took.**  (For a response
that may not re-use the request's nonce: `C11_no_reuse_takes_own_number`.) -/
theorem C11_protect_uses_own_nonce (E : AEAD) {A : Ctx} {seq : Nat} {m : Msg} {P : Protected}
    (h : protect E A seq m none = .ok P) :
    ∃ nonce pt, ownNonce A seq = some nonce ∧ seq < maxSeqno ∧ P.seq = seq + 1 ∧
      P.outer.payload = E.enc A.senderKey nonce (aad A.algValue A.senderId (shortPiv seq)) pt := by
  obtain ⟨_, hseq, _, pt, nonce, o, _, hn, _, hP⟩ := protect_request_shape h
  exact ⟨nonce, pt, hn, hseq, by rw [hP], by rw [hP]⟩

-- ## Non-vacuity ----------------------------------------------------------------------------------

def exChunks : Chunks := { start := 10, limit := 10000 }

/-- the first number of a life, then a kill: the file already says 10; killed again after the
11th number of the second life (20): the file says 40; an orderly stop after one more number
writes the exact value -/
example :
    (sendRun exChunks (loadSend exChunks 0) [.take, .kill, .take, .kill]).1 = [0, 10] ∧
    (sendRun exChunks (loadSend exChunks 0)
      ([.take, .kill] ++ List.replicate 11 .take ++ [.kill, .take, .stop, .take])).1 =
      [0] ++ [10, 11, 12, 13, 14, 15, 16, 17, 18, 19, 20] ++ [40, 41] ∧
    (sendRun exChunks (loadSend exChunks 0)
      ([.take, .kill] ++ List.replicate 11 .take ++ [.kill, .take, .stop, .take])).2.disk = 51 := by
  decide +kernel

/-- the last number: 2^40 − 2 is handed out, then the context is exhausted for good -/
example : (sendRun exChunks (loadSend exChunks (maxSeqno - 1)) [.take, .take, .kill, .take]).1 =
    [maxSeqno - 1] := by decide +kernel

end Aiocoap.Oscore.Prot
