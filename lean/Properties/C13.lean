import Proofs.Oscore.PersistSeq
import Proofs.Oscore.PersistStep
/-!
# C13 — OSCORE nonces are never reused across restarts, crashes and exhaustion

Model: `AiocoapModel/Oscore/Persist.lean` (`step`, `run`, `protect`, `recv`, `cleanShutdown`,
`load`, `store` — the functions the driver runs).  A history is any list of events
`load / protect / recv / cleanShutdown / kill`, where `protect`, `recv` and `cleanShutdown`
carry an optional crash point: the process dies inside the operation after `j` of the four
file-system effects of its `_store` (`mkstemp`, write, `fsync`, `replace`).  All theorems
quantify over every history (any length, any interleaving, any crash points, repeated
crash/reload cycles), every chunk configuration, and every start state satisfying the stated
invariant — in particular every directory content with no process running.

Start-state invariants (all hold vacuously when no process is running):
* `InvS s` — a live process's `sequence_number_persisted` is what `sequence.json` holds;
* `InvW cfg s` — a live process with `replay_window_persisted = False` has `"unknown"` on
  disk, a load of the directory would give an uninitialised window or exactly the live one,
  and the live window has the configured size.

Only property theorems and non-vacuity examples live in this file.
-/
namespace Aiocoap.Oscore.Persist
open Aiocoap.Oscore

-- clause 1: no sender sequence number is issued twice -----------------------------------------

/-- **C13 (no reuse).** Over every history — protects, arrivals, clean shutdowns, kills, a
crash after any file-system effect of any store, reloads, in any order and number — the list of
all sequence numbers handed out (across all lifetimes) is strictly increasing; in particular
no number, hence no AEAD nonce under the context's key, is ever issued twice, and within a
lifetime the numbers strictly increase. -/
theorem C13_no_reuse (cfg : Cfg) (s : State) (h : InvS s) (evs : List Ev) :
    (issuedOf (run cfg s evs).2).Pairwise (· < ·) :=
  (run_seq cfg evs s h).2.2.1

/-- … starting from any directory content with no process running (e.g. the empty directory of
a freshly provisioned context); moreover nothing below the persisted `next-to-send` is issued. -/
theorem C13_no_reuse_from_disk (cfg : Cfg) (d : Dir) (evs : List Ev) :
    (issuedOf (run cfg { dir := d, mem := none } evs).2).Pairwise (· < ·) ∧
    ∀ n ∈ issuedOf (run cfg { dir := d, mem := none } evs).2, diskNext d ≤ n := by
  have hI : InvS { dir := d, mem := none } := by intro m hm; cases hm
  obtain ⟨_, _, h3, h4⟩ := run_seq cfg evs _ hI
  exact ⟨h3, fun n hn => (h4 n hn).1⟩

/-- the invariant behind it: at any point of any history, everything issued so far lies below
the number the next process would start from (`sequence.json`'s `next-to-send`, or the live
counter), so a later lifetime cannot collide with an earlier one. -/
theorem C13_issued_below_frontier (cfg : Cfg) (s : State) (h : InvS s) (evs : List Ev) :
    InvS (run cfg s evs).1 ∧
    ∀ n ∈ issuedOf (run cfg s evs).2, n < frontier (run cfg s evs).1 := by
  obtain ⟨h1, _, _, h4⟩ := run_seq cfg evs s h
  exact ⟨h1, fun n hn => (h4 n hn).2.1⟩

-- clause 2: exhaustion ---------------------------------------------------------------------------

/-- **C13 (exhaustion).** At `2^40 − 1` protection is refused and nothing changes — neither the
memory nor the directory. -/
theorem C13_exhaustion (cfg : Cfg) (d : Dir) (m : Mem) (h : m.ssn ≥ 2 ^ 40 - 1) :
    step cfg { dir := d, mem := some m } (.protect none)
      = ({ dir := d, mem := some m }, .exhausted) := by
  have : m.ssn ≥ MAX_SEQNO := h
  simp [step, protect, this]

/-- … and no history ever hands out a number ≥ `2^40 − 1`: the 5-byte partial IV never wraps. -/
theorem C13_issued_below_max (cfg : Cfg) (s : State) (h : InvS s) (evs : List Ev) :
    ∀ n ∈ issuedOf (run cfg s evs).2, n < 2 ^ 40 - 1 :=
  fun n hn => ((run_seq cfg evs s h).2.2.2 n hn).2.2

/-- Progress (so the theorems above are not vacuous): below the limit, with chunk sizes ≥ 1, a
protect that does not crash hands out exactly the live counter. -/
theorem C13_protect_issues (cfg : Cfg) (d : Dir) (m : Mem) (hlt : m.ssn < 2 ^ 40 - 1)
    (hp : m.ssn ≤ m.persisted) (hc : 1 ≤ m.chunk) :
    (step cfg { dir := d, mem := some m } (.protect none)).2 = .issued m.ssn := by
  have : ¬ m.ssn ≥ MAX_SEQNO := by unfold MAX_SEQNO; omega
  simp only [step, protect, this, ↓reduceIte]
  by_cases hst : m.ssn + 1 > m.persisted
  · have ha : ¬ m.ssn + 1 > m.persisted + m.chunk := by omega
    simp [hst, ha]
  · simp [hst]

/-- With chunk sizes ≥ 1 (the defaults are 10 and 10000) the `assert` in `post_seqnoincrease`
never fires in any history, so C13_no_reuse does not depend on assertions being enabled. -/
theorem C13_assert_unreachable (cfg : Cfg) (hs : 1 ≤ cfg.start) (hl : 1 ≤ cfg.limit)
    (s : State) (h : InvA s) (evs : List Ev) : Out.assertion ∉ (run cfg s evs).2 :=
  (run_invA cfg hs hl evs s h).2

-- clause 3: after an unclean stop the replay state is unknown -----------------------------------

/- Full statement of this clause as the property words it:

     "after a crash in a lifetime that accepted ANY request, a load yields an uninitialised window"

   i.e. `(step cfg s ev).2 = .accepted n v` for either `v`.  This is FALSE of the model and of the
   code alike (witness below, `C13_unclean_is_unknown_counterexample`; the same history is
   `corpus/C13/null_window_corner.json`, on which implementation and model agree): a process that
   loaded `{"index": null, "bitfield": null}` (written by a clean shutdown of a process whose
   window was never initialised) has `replay_window_persisted = True` with an uninitialised
   window; Echo recovery initialises the window without calling `_replay_window_changed`, and the
   next chunk store of `post_seqnoincrease` then writes the live window.  A crash after that
   reloads an initialised window — but exactly the dead process's one, so nothing seen before is
   accepted again: that safety consequence is proved at full strength as
   `C13_reaccept_needs_echo`.  What is proved literally is the clause for requests accepted from
   an initialised window (`v = false`), which is every acceptance except Echo recovery itself. -/

/-- **C13 (unclean ⇒ unknown), partial: acceptance by Echo recovery excluded.** Once a lifetime
has accepted a request from its (initialised) replay window, then whatever follows — more
traffic, crashes after any effect, kills, reloads, aborted shutdowns — as long as no clean
shutdown completes, `sequence.json` says `"unknown"`: every load yields an uninitialised window
(which forces Echo recovery). -/
theorem C13_unclean_is_unknown_partial (cfg : Cfg) (s : State) (h : InvW cfg s) (ev : Ev) (n : Nat)
    (hacc : (step cfg s ev).2 = .accepted n false) (evs : List Ev)
    (hnc : ∀ e ∈ evs, completesClean e = false) (echo : Nat) :
    (load cfg (run cfg (step cfg s ev).1 evs).1.dir echo).window = none ∧
    (load cfg (run cfg (step cfg s ev).1 evs).1.dir echo).windowPersisted = false := by
  have hu := run_unknown cfg evs _ (step_struck_unknown cfg s ev h n hacc) hnc
  exact ⟨by rw [load_window]; exact diskWindow_unknown hu.1, load_of_unknown echo hu.1⟩

/-- the witness against the full wording: the third lifetime accepts 9 by Echo recovery, its
eleventh protect stores the live window, it is killed, and the load yields the initialised
window `{index 9, bitfield 1}` (which still refuses 9). -/
theorem C13_unclean_is_unknown_counterexample :
    let cfg : Cfg := { start := 10, limit := 10000, size := 32 }
    let r := run cfg State.fresh
      ([.load 100, .recv ⟨5, true, none⟩ none, .kill, .load 101, .cleanShutdown none, .load 102,
        .recv ⟨9, true, some 102⟩ none] ++ List.replicate 11 (.protect none) ++ [.kill])
    r.2.contains (.accepted 9 true) = true ∧
    (load cfg r.1.dir 103).window = some { size := 32, index := 9, bitfield := 1 } := by
  decide

/-- **C13 (re-acceptance needs Echo).** In every history (crashes anywhere, reloads, clean or
unclean stops), a request number that was accepted is not accepted again unless, in between,
some request was accepted through Echo recovery — i.e. the peer proved freshness to a process
whose window was uninitialised.  (This also covers the one corner where the disk holds an
initialised window after an unclean stop: it is then exactly the dead process's window.) -/
theorem C13_reaccept_needs_echo (cfg : Cfg) (hsz : 0 < cfg.size) (s : State) (h : InvW cfg s)
    (ev : Ev) (n : Nat) (v : Bool) (hacc : (step cfg s ev).2 = .accepted n v) (evs : List Ev)
    (hne : ∀ o ∈ (run cfg (step cfg s ev).1 evs).2, isEchoAccept o = false) :
    n ∉ acceptedOf (run cfg (step cfg s ev).1 evs).2 :=
  run_blocked cfg evs _ (step_invW cfg s ev h) n
    (step_accept cfg hsz s ev h n v hacc).blocked hne

-- clause 4: after a clean stop the window still rejects everything accepted before --------------

/-- **C13 (clean keeps the window).** If no process dies after a request number was accepted
(any number of clean shutdowns and reloads, protects, arrivals — with or without Echo), that
number is never accepted again. -/
theorem C13_clean_keeps_window (cfg : Cfg) (hsz : 0 < cfg.size) (s : State) (h : InvW cfg s)
    (ev : Ev) (n : Nat) (v : Bool) (hacc : (step cfg s ev).2 = .accepted n v) (evs : List Ev)
    (hnc : ∀ e ∈ evs, noCrash e = true) :
    n ∉ acceptedOf (run cfg (step cfg s ev).1 evs).2 :=
  run_refused cfg evs _ (step_invW cfg s ev h) n (step_accept cfg hsz s ev h n v hacc) hnc

/-- `_destroy` persists the exact next number and the exact window: shutting down cleanly and
loading again resumes with the same counter (no numbers wasted) and the same window (a window of
the configured size without stray bits — what every window of a process that keeps its `window`
setting is; `initialize_from_persisted` moves a wider one up, see `RW.fromPersisted`). -/
theorem C13_clean_roundtrip (cfg : Cfg) (d : Dir) (m : Mem)
    (hsize : ∀ w, m.window = some w → w.size = cfg.size ∧ w.bitfield < 2 ^ cfg.size) (echo : Nat) :
    (run cfg { dir := d, mem := some m } [.cleanShutdown none, .load echo]).1.mem =
      some { ssn := m.ssn, persisted := m.ssn, chunk := cfg.start, windowPersisted := true,
             window := m.window, echo := echo } := by
  simp only [run, step, cleanShutdown, store, completes, ↓reduceIte, received, load]
  cases hw : m.window with
  | none => simp [persistWindow]
  | some w =>
    obtain ⟨h1, h2⟩ := hsize w hw
    obtain ⟨sz, i, b⟩ := w
    simp only at h1 h2
    subst h1
    simp [persistWindow, RW.fromPersisted_of_fits h2]

/-- the invariants hold along every history from a directory with no process running -/
theorem C13_invariants_reachable (cfg : Cfg) (d : Dir) (evs : List Ev) :
    InvS (run cfg { dir := d, mem := none } evs).1 ∧
    InvW cfg (run cfg { dir := d, mem := none } evs).1 :=
  ⟨(run_seq cfg evs _ (by intro m hm; cases hm)).1, run_invW cfg evs _ (by intro m hm; cases hm)⟩

-- non-vacuity ---------------------------------------------------------------------------------

def exCfg : Cfg := { start := 10, limit := 10000, size := 32 }

/-- 12 protects from an empty directory: numbers 0..11, stores at 0 (→ 10) and 10 (→ 30) -/
example : (run exCfg State.fresh ([.load 7] ++ List.replicate 12 (.protect none))).1 =
    { dir := { seq := some { nextToSend := 30, received := .window (some (0, 0)) }, temps := [] },
      mem := some { ssn := 12, persisted := 30, chunk := 40, windowPersisted := true,
                    window := some (RW.empty 32), echo := 7 } } := by decide

/-- a crash after `mkstemp`+write of the second store, reload: numbers 0..9 then 10 again is NOT
handed out — the new lifetime starts at the persisted 10 (the crashed protect issued nothing) -/
example : issuedOf (run exCfg State.fresh
    ([.load 7] ++ List.replicate 10 (.protect none) ++ [.protect (some 2), .load 8,
      .protect none, .protect none])).2 = [0, 1, 2, 3, 4, 5, 6, 7, 8, 9, 10, 11] := by decide

/-- … but a crash right after the `replace` skips to 30 -/
example : issuedOf (run exCfg State.fresh
    ([.load 7] ++ List.replicate 10 (.protect none) ++ [.protect (some 4), .load 8,
      .protect none])).2 = [0, 1, 2, 3, 4, 5, 6, 7, 8, 9, 30] := by decide

/-- accept 5, kill, reload: `"unknown"`, the replay of 5 gets an Echo challenge; a clean
shutdown after Echo recovery with 9 persists the window and 5 stays refused -/
example : (run exCfg State.fresh
    [.load 7, .recv ⟨5, true, none⟩ none, .kill, .load 8, .recv ⟨5, true, none⟩ none,
     .recv ⟨9, true, some 8⟩ none, .cleanShutdown none, .load 9, .recv ⟨5, true, none⟩ none,
     .recv ⟨9, true, some 8⟩ none, .recv ⟨10, true, none⟩ none]).2 =
    [.loaded, .accepted 5 false, .killed, .loaded, .refused .replayEcho, .accepted 9 true,
     .shutdown, .loaded, .refused .replayError, .refused .replayError, .accepted 10 false] := by
  decide

/-- exhaustion on a concrete state -/
def exExhausted : State :=
  { dir := { seq := some { nextToSend := 2 ^ 40 + 5, received := Received.unknown }, temps := [] },
    mem := some { ssn := 2 ^ 40 - 1, persisted := 2 ^ 40 + 5, chunk := 20,
                  windowPersisted := false, window := none, echo := 1 } }
example : (step exCfg exExhausted (.protect none)).2 = .exhausted := by decide

/-- the hypotheses of the window theorems are met by a live, non-trivial state -/
example : InvW exCfg (run exCfg State.fresh [.load 7, .recv ⟨5, true, none⟩ none]).1 :=
  (C13_invariants_reachable exCfg _ _).2
example : (step exCfg (run exCfg State.fresh [.load 7]).1 (.recv ⟨5, true, none⟩ none)).2
    = .accepted 5 false := by decide
example : InvA (run exCfg State.fresh [.load 7, .protect none]).1 := by
  intro m hm
  have : (run exCfg State.fresh [.load 7, .protect none]).1.mem
      = some ⟨1, 10, 20, true, some (RW.empty 32), 7⟩ := by decide
  rw [this] at hm; cases hm; decide

end Aiocoap.Oscore.Persist
