import Properties.C14
/-!
# C14 as a refinement: per remote, the confirmable messages form one FIFO queue

`pending s remote` = the message in flight (if any) followed by the held-back ones.  Submitting a
CON appends at the tail (and it is on the wire at once iff the queue was empty); an ACK for the
message in flight removes the head and puts the new head on the wire.  Together with
`C14_one_open` this is the abstract specification "one FIFO queue per endpoint whose head is the
only unacknowledged message".
-/
namespace Aiocoap.MsgLayer

def inFlight (s : State) (remote : Remote) : List Wire :=
  (s.exchanges.filter (fun e => e.remote == remote)).map (·.msg)

def pending (s : State) (remote : Remote) : List Wire :=
  inFlight s remote ++ (backlogOf s remote).map (·.msg)

theorem inFlight_nil_of_no_exchange {s : State} {remote : Remote} (h : remote ∉ exR s) :
    inFlight s remote = [] := by
  simp only [inFlight, List.map_eq_nil_iff, List.filter_eq_nil_iff]
  intro e he hb
  apply h
  simp only [exR, List.mem_map]
  exact ⟨e, he, by simpa using hb⟩

theorem backlogOf_nil_of_no_key {s : State} {remote : Remote} (h : remote ∉ blK s) :
    backlogOf s remote = [] := by
  simp only [backlogOf]
  cases hf : s.backlogs.find? (fun b => b.1 == remote) with
  | none => rfl
  | some b =>
    exfalso; apply h
    have hb : (b.1 == remote) = true :=
      List.find?_some (p := fun (b : Remote × List Queued) => b.1 == remote) hf
    simp only [blK, List.mem_map]
    exact ⟨b, List.mem_of_find?_eq_some hf, by simpa using hb⟩

/-- **C14 (queue: push).** Handing a confirmable message for `remote` to the message layer
appends it at the tail of that remote's queue; it goes on the wire in that step exactly when the
queue was empty, and other remotes' queues are untouched. -/
theorem C14_queue_push (s : State) (hs : Inv s) (remote : Remote) (w : Wire) (mon : Monitor) (k : Nat)
    (hc : w.mtype = .con) :
    pending (dispatchOut s remote w mon k).1 remote = pending s remote ++ [w] ∧
    ((dispatchOut s remote w mon k).2 = [.send s.now remote w] ↔ pending s remote = []) ∧
    ((dispatchOut s remote w mon k).2 = [] ↔ pending s remote ≠ []) := by
  by_cases hbusy : hasExchange s remote = true
  · -- busy: appended to the backlog
    obtain ⟨ho, hex, hbl, _⟩ := C14_held_back s hs remote w mon k hc hbusy
    have hne : pending s remote ≠ [] := by
      obtain ⟨e, he, her⟩ := List.mem_map.mp ((hasExchange_iff s remote).mp hbusy)
      have : e.msg ∈ inFlight s remote := by
        simp only [inFlight, List.mem_map, List.mem_filter]
        exact ⟨e, ⟨he, by simp [her]⟩, rfl⟩
      intro hnil
      simp only [pending, List.append_eq_nil_iff] at hnil
      rw [hnil.1] at this; cases this
    refine ⟨?_, ?_, ?_⟩
    · simp only [pending, inFlight, hex, hbl, List.map_append, List.map_cons, List.map_nil,
        List.append_assoc]
    · rw [ho]; simp [hne]
    · rw [ho]; simp [hne]
  · -- idle: first transmission now
    have hnb : hasExchange s remote = false := by simpa using hbusy
    have hnex : remote ∉ exR s := fun h => hbusy ((hasExchange_iff s remote).mpr h)
    have hnbl : remote ∉ blK s := fun h => hnex ((hs.n.iff remote).mp h)
    have hbk : hasBacklog s remote = false := by
      cases hb : hasBacklog s remote with
      | false => rfl
      | true => exact absurd ((hasBacklog_iff s remote).mp hb) hnbl
    have hp : pending s remote = [] := by
      simp [pending, inFlight_nil_of_no_exchange hnex, backlogOf_nil_of_no_key hnbl]
    have hout : (dispatchOut s remote w mon k).2 = [.send s.now remote w] :=
      C14_others_undelayed s remote w mon k (Or.inr hbk)
    refine ⟨?_, ?_, ?_⟩
    · rw [hp]
      simp only [dispatchOut, hc, hbk, beq_self_eq_true, Bool.and_false, Bool.false_eq_true, ↓reduceIte,
        sendInitially, pending, List.nil_append]
      have h1 : inFlight (storeReply (addExchange s remote w mon k) remote w) remote = [w] := by
        simp only [inFlight, storeReply_exchanges, addExchange, List.filter_append, List.map_append]
        have : (s.exchanges.filter (fun e => e.remote == remote)) = [] := by
          simp only [List.filter_eq_nil_iff]
          intro e he hb
          apply hnex
          simp only [exR, List.mem_map]
          exact ⟨e, he, by simpa using hb⟩
        simp [this]
      have h2 : backlogOf (storeReply (addExchange s remote w mon k) remote w) remote = [] := by
        simp only [backlogOf, storeReply_backlogs, addExchange, hbk, Bool.false_eq_true, ↓reduceIte,
          List.find?_append]
        have : s.backlogs.find? (fun b => b.1 == remote) = none := by
          rw [List.find?_eq_none]
          intro b hb hp'
          apply hnbl
          simp only [blK, List.mem_map]
          exact ⟨b, hb, by simpa using hp'⟩
        simp [this]
      rw [h1, h2]; rfl
    · rw [hout, hp]; simp
    · rw [hout, hp]; simp

theorem filter_key_eq_singleton {α β} [DecidableEq β] {f : α → β} {l : List α} (h : (l.map f).Nodup)
    {e : α} (he : e ∈ l) : l.filter (fun x => f x == f e) = [e] := by
  induction l with
  | nil => cases he
  | cons a as ih =>
    simp only [List.map_cons, List.nodup_cons, List.mem_map, not_exists, not_and] at h
    rcases List.mem_cons.mp he with rfl | he'
    · have : as.filter (fun x => f x == f e) = [] := by
        simp only [List.filter_eq_nil_iff, beq_iff_eq]
        intro x hx hfe
        exact h.1 x hx hfe
      simp [this]
    · have hne : f a ≠ f e := fun hfe => h.1 e he' hfe.symm
      simp [hne, ih h.2 he']

/-- **C14 (queue: pop).** When the message in flight to `remote` is acknowledged and the next
held-back message is confirmable, the queue loses exactly its head and the new head is put on the
wire in that same step (nothing else is). -/
theorem C14_queue_pop (s : State) (hs : Inv s) (remote : Remote) (w : Wire) (e : Exchange)
    (he : findExchange s remote w.mid = some e) (hack : w.mtype = .ack)
    (q : Queued) (rest : List Queued) (hq : backlogOf s remote = q :: rest) (hqc : q.msg.mtype = .con) :
    pending s remote = e.msg :: q.msg :: rest.map (·.msg) ∧
    (removeExchange s remote w).2 = [.send s.now remote q.msg] ∧
    pending (removeExchange s remote w).1 remote = q.msg :: rest.map (·.msg) := by
  have hmem : e ∈ s.exchanges := List.mem_of_find?_eq_some he
  have hkey : e.remote = remote := by
    have := List.find?_some he
    simp only [Bool.and_eq_true, beq_iff_eq] at this
    exact this.1
  have hfl : inFlight s remote = [e.msg] := by
    have := filter_key_eq_singleton (f := Exchange.remote) hs.n.exNodup hmem
    rw [hkey] at this
    simp [inFlight, this]
  obtain ⟨hout, hbl, x, hx, hxr, hxm, _, _⟩ := C14_release_head s hs remote w e he hack q rest hq hqc
  refine ⟨by simp [pending, hfl, hq], hout, ?_⟩
  -- after the step the state still satisfies the one-exchange-per-remote invariant
  have hs' : NInv (removeExchange s remote w).1 := removeExchange_NInv hs.n remote w
  have hfl' : inFlight (removeExchange s remote w).1 remote = [x.msg] := by
    have := filter_key_eq_singleton (f := Exchange.remote) hs'.exNodup hx
    rw [hxr] at this
    simp [inFlight, this]
  simp [pending, hfl', hbl, hxm]

/-- Not vacuous: in the C14 example run the queue for remote 0 is [100, 101, 102] after the three
submissions, and [102] is what is left behind 101 after the ACK for 100. -/
example : (pending (run (init exCfg 7 0 (fun _ => 50)) (exRun.take 3)).1 0).map (·.body) = [100, 101, 102] := by
  decide
example : (pending (run (init exCfg 7 0 (fun _ => 50)) exRun).1 0).map (·.body) = [101, 102] := by
  decide

end Aiocoap.MsgLayer
