import Proofs.MsgLayer.Dedup
/-!
# C10 — message-layer reactions follow the RFC 7252 type rules

Model: `AiocoapModel/MsgLayer/Model.lean` — `dispatch_message` = `recv` (`recvCode` is its
type/code table, applied to non-duplicates after exchange removal), `_process_request`,
`send_message` = `sendMessage`, the empty-ACK timer = `fireEmptyAck`.  The reaction table is
stated outright (`expectedReply`) and proved for **every** state, message and flag.
-/
namespace Aiocoap.MsgLayer

def bare (t : MType) (mid : Nat) : Wire :=
  { mtype := t, code := 0, mid, token := [], obs := none, body := 0 }

/-- the datagrams among the outputs -/
def sendsOf (os : List Out) : List (Nat × Remote × Wire) :=
  os.filterMap fun o => match o with
    | .send t r w => some (t, r, w)
    | _ => none

/-- the message ID of the not yet acknowledged CON request on `(remote, token)`, if any -/
def pendingMid (s : State) (remote : Remote) (token : Token) : Option Nat :=
  (s.piggy.find? (fun p => p.remote == remote && p.token == token)).map (·.mid)

/-- RFC 7252 §4: the message-level reply to an incoming (non-duplicate) message.
`matched` = the token manager knows a request this response answers;
`mcLocal` = it was received on a multicast address;
`superseded` = the message ID of an earlier confirmable request on the same token from the same
endpoint that is still waiting for its acknowledgement (`pendingMid`). -/
def expectedReply (w : Wire) (matched mcLocal : Bool) (superseded : Option Nat) : Option Wire :=
  if w.code = 0 then
    (if w.mtype = .con then some (bare .rst w.mid) else none)       -- ping → RST; rest ignored
  else if isResponse w.code ∧ w.mtype = .con then
    (if matched then some (bare .ack w.mid)                          -- matched CON response → ACK
     else if mcLocal then none else some (bare .rst w.mid))          -- unmatched → RST unless multicast
  else if isRequest w.code ∧ (w.mtype = .con ∨ w.mtype = .non) then
    superseded.map (bare .ack)                                       -- a request: answered later; the
                                                                     -- request it replaces is ACKed now
  else none                                                          -- NON/ACK responses, misfits

theorem sendsOf_append (a b : List Out) : sendsOf (a ++ b) = sendsOf a ++ sendsOf b := by
  simp [sendsOf, List.filterMap_append]

theorem sendsOf_sendBare (s : State) (remote : Remote) (t : MType) (mid : Nat) :
    sendsOf (sendBare s remote t mid).2 = [(s.now, remote, bare t mid)] := by
  simp [sendBare, sendInitially, sendsOf, bare]

theorem sendsOf_processResponse (s : State) (remote : Remote) (w : Wire) :
    sendsOf (processResponse s remote w).2.1 = [] := by
  unfold processResponse
  simp only
  split <;> simp [sendsOf]

theorem sendsOf_tokenProcessRequest (s : State) (remote : Remote) (w : Wire) :
    sendsOf (tokenProcessRequest s remote w).2 = [] := by
  unfold tokenProcessRequest
  simp only
  split <;> simp [sendsOf]

theorem sendsOf_fireEmptyAck (s : State) (remote : Remote) (token : Token) :
    sendsOf (fireEmptyAck s remote token).2 =
      match pendingMid s remote token with
      | some mid => [(s.now, remote, bare .ack mid)]
      | none => [] := by
  unfold fireEmptyAck pendingMid
  split
  · rename_i h; simp [h, sendsOf]
  · rename_i p h
    simp only [h, Option.map_some]
    simpa [dropPiggy] using sendsOf_sendBare (dropPiggy s remote token) remote .ack p.mid

/-- what `_process_request` sends: the empty ACK of the request it supersedes, nothing else -/
theorem sendsOf_processRequest (s : State) (remote : Remote) (w : Wire) :
    sendsOf (processRequest s remote w).2 =
      match pendingMid s remote w.token with
      | some mid => [(s.now, remote, bare .ack mid)]
      | none => [] := by
  unfold processRequest
  simp only [sendsOf_append, sendsOf_tokenProcessRequest, List.append_nil]
  exact sendsOf_fireEmptyAck s remote w.token

theorem processResponse_now (s : State) (remote : Remote) (w : Wire) :
    (processResponse s remote w).1.now = s.now := by
  unfold processResponse
  simp only
  split
  · rfl
  · split <;> rfl

/-- **C10 (reaction table).** For every state and every incoming message, the datagrams sent in
reaction by the type/code table are exactly what RFC 7252 §4 prescribes: an empty CON (ping) gets
a RST with its id; a confirmable response gets an empty ACK if it matches a pending request and
otherwise a RST — unless it arrived on a multicast address; a request gets no message-level reply
yet (it is answered later) — but if it supersedes an earlier confirmable request on its token that
is still unacknowledged, that one gets its empty ACK now; everything else (NON and ACK responses
matched or not, empty NON/ACK/RST, RST-typed responses, request codes on ACK/RST, codes of the
reserved and signalling classes) gets no message-level reply. -/
theorem C10_table (s : State) (remote : Remote) (mcLocal : Bool) (w : Wire) :
    sendsOf (recvCode s remote mcLocal w).2 =
      match expectedReply w (processResponse s remote w).2.2 mcLocal (pendingMid s remote w.token) with
      | some r => [(s.now, remote, r)]
      | none => [] := by
  unfold recvCode expectedReply
  by_cases h0 : w.code = 0
  · have hr : isRequest w.code = false := by simp [isRequest, h0]
    by_cases hc : w.mtype = .con
    · simp [h0, hc, sendsOf_sendBare]
    · have : (w.mtype == MType.con) = false := by simpa using hc
      simp only [h0, beq_self_eq_true, this, Bool.and_false, Bool.false_eq_true, ↓reduceIte,
        Bool.true_and, hc]
      split
      · simp [sendsOf]
      · simp [isRequest, isResponse, sendsOf]
  · have h0' : (w.code == 0) = false := by simpa using h0
    simp only [h0', Bool.false_and, Bool.false_eq_true, ↓reduceIte, h0]
    by_cases hreq : (isRequest w.code && (w.mtype == .con || w.mtype == .non)) = true
    · have hnr : isResponse w.code = false := by
        simp only [isRequest, isResponse, Bool.and_eq_true, decide_eq_true_eq] at hreq ⊢
        simp; omega
      have hreq' : isRequest w.code = true ∧ (w.mtype = .con ∨ w.mtype = .non) := by
        simpa using hreq
      have hnc : ¬ (isResponse w.code = true ∧ w.mtype = .con) := by simp [hnr]
      rw [if_pos hreq, sendsOf_processRequest, if_neg hnc, if_pos hreq']
      cases pendingMid s remote w.token <;> rfl
    · have hreq' : ¬ (isRequest w.code = true ∧ (w.mtype = .con ∨ w.mtype = .non)) := by
        simpa using hreq
      rw [if_neg hreq']
      simp only [hreq, Bool.false_eq_true, ↓reduceIte]
      by_cases hresp : (isResponse w.code && (w.mtype == .con || w.mtype == .non || w.mtype == .ack)) = true
      · simp only [hresp, ↓reduceIte]
        have hir : isResponse w.code = true := by simp only [Bool.and_eq_true] at hresp; exact hresp.1
        by_cases hc : w.mtype = .con
        · simp only [hir, hc, and_self, ↓reduceIte, beq_self_eq_true]
          cases hm : (processResponse s remote w).2.2
          · cases mcLocal
            · simp [sendsOf_sendBare, processResponse_now]
            · simp [sendsOf_processResponse]
          · simp [sendsOf_append, sendsOf_sendBare, sendsOf_processResponse, processResponse_now]
        · have : (w.mtype == MType.con) = false := by simpa using hc
          simp only [this, Bool.false_and, Bool.false_eq_true, ↓reduceIte, hc, and_false]
          split <;> simp [sendsOf_processResponse]
      · simp only [hresp, Bool.false_eq_true, ↓reduceIte]
        have : ¬ (isResponse w.code = true ∧ w.mtype = .con) := by
          intro ⟨h1, h2⟩; simp [h1, h2] at hresp
        simp [this, sendsOf]

/-- the type/code table does nothing for a misfit -/
theorem recvCode_misfit (s : State) (remote : Remote) (mcLocal : Bool) (w : Wire)
    (h1 : ¬ (w.code = 0 ∧ w.mtype ≠ .non))
    (h2 : ¬ (isRequest w.code = true ∧ (w.mtype = .con ∨ w.mtype = .non)))
    (h3 : ¬ (isResponse w.code = true ∧ w.mtype ≠ .rst)) :
    recvCode s remote mcLocal w = (s, []) := by
  unfold recvCode
  have e1 : (w.code == 0 && w.mtype == MType.con) = false := by
    cases hc : (w.code == 0 && w.mtype == MType.con)
    · rfl
    · simp only [Bool.and_eq_true, beq_iff_eq] at hc; exact absurd ⟨hc.1, by simp [hc.2]⟩ h1
  have e2 : (w.code == 0 && (w.mtype == MType.ack || w.mtype == MType.rst)) = false := by
    cases hc : (w.code == 0 && (w.mtype == MType.ack || w.mtype == MType.rst))
    · rfl
    · simp only [Bool.and_eq_true, beq_iff_eq, Bool.or_eq_true] at hc
      exact absurd ⟨hc.1, by rcases hc.2 with h | h <;> simp [h]⟩ h1
  have e3 : (isRequest w.code && (w.mtype == MType.con || w.mtype == MType.non)) = false := by
    cases hc : (isRequest w.code && (w.mtype == MType.con || w.mtype == MType.non))
    · rfl
    · simp only [Bool.and_eq_true, beq_iff_eq, Bool.or_eq_true] at hc; exact absurd hc h2
  have e4 : (isResponse w.code && (w.mtype == MType.con || w.mtype == MType.non || w.mtype == MType.ack)) = false := by
    cases hc : (isResponse w.code && (w.mtype == MType.con || w.mtype == MType.non || w.mtype == MType.ack))
    · rfl
    · simp only [Bool.and_eq_true, beq_iff_eq, Bool.or_eq_true] at hc
      exact absurd ⟨hc.1, by rcases hc.2 with (h | h) | h <;> simp [h]⟩ h3
  simp [e1, e2, e3, e4]

/-- **C10 (misfits are ignored).** A message whose code and type do not fit — a code of the
reserved/signalling classes, a request code on an ACK or RST, a response code on a RST, an empty
NON — changes nothing and produces nothing, whatever the state: it is not entered into the
duplicate table, it ends no exchange even when it carries the message ID of one (so it neither
stops a retransmission nor fails a request), and it is not passed on.  This is the whole of
`dispatch_message` (`recv`), not only its type/code table. -/
theorem C10_misfits_ignored (s : State) (remote : Remote) (mcLocal : Bool) (w : Wire)
    (h1 : ¬ (w.code = 0 ∧ w.mtype ≠ .non))
    (h2 : ¬ (isRequest w.code = true ∧ (w.mtype = .con ∨ w.mtype = .non)))
    (h3 : ¬ (isResponse w.code = true ∧ w.mtype ≠ .rst)) :
    recv s remote mcLocal w = (s, []) := by
  have hd : dedupable w = false := by
    cases hc : dedupable w
    · rfl
    · simp only [dedupable, Bool.and_eq_true, beq_iff_eq, Bool.or_eq_true] at hc; exact absurd hc h2
  have hf : fitsReply w = false := by
    cases hc : fitsReply w
    · rfl
    · simp only [fitsReply, Bool.or_eq_true, Bool.and_eq_true, beq_iff_eq] at hc
      rcases hc with ⟨ht, h0⟩ | ⟨ht, hr⟩
      · exact absurd ⟨h0, by rcases ht with h | h <;> simp [h]⟩ h1
      · exact absurd ⟨hr, by simp [ht]⟩ h3
  simp only [recv, isDup, hd, Bool.false_and, Bool.false_eq_true, ↓reduceIte, hf, List.nil_append]
  exact recvCode_misfit s remote mcLocal w h1 h2 h3


-- requests: acknowledged exactly once ---------------------------------------------------------

def piggyCount (s : State) (remote : Remote) (token : Token) : Nat :=
  (s.piggy.filter (fun p => p.remote == remote && p.token == token)).length

theorem fireEmptyAck_piggy_eq (s : State) (remote : Remote) (token : Token) :
    (fireEmptyAck s remote token).1.piggy =
      s.piggy.filter (fun p => !(p.remote == remote && p.token == token)) := by
  unfold fireEmptyAck
  split
  · rename_i hn
    symm
    rw [List.filter_eq_self]
    intro x hx
    have := List.find?_eq_none.mp hn x hx
    cases hb : (x.remote == remote && x.token == token)
    · rfl
    · rw [hb] at this; exact absurd rfl this
  · simp [sendBare, sendInitially, storeReply, dropPiggy]

theorem fireEmptyAck_now (s : State) (remote : Remote) (token : Token) :
    (fireEmptyAck s remote token).1.now = s.now ∧ (fireEmptyAck s remote token).1.cfg = s.cfg := by
  unfold fireEmptyAck
  split
  · exact ⟨rfl, rfl⟩
  · simp [sendBare, sendInitially, storeReply, dropPiggy]

theorem tokenProcessRequest_piggy (s : State) (remote : Remote) (w : Wire) :
    (tokenProcessRequest s remote w).1.piggy = s.piggy := by
  unfold tokenProcessRequest
  simp only
  split <;> rfl

/-- **C10 (a CON request opens exactly one ACK opportunity; a superseded one is acknowledged).**
Processing a request sends nothing but the empty ACK — under the *old* message ID — of an earlier
confirmable request on the same token that was still waiting for its acknowledgement
(`pendingMid`); a confirmable request then leaves exactly one pending opportunity for
(remote, token): its own message id, to be used within `EMPTY_ACK_DELAY`.  A NON request opens
none, and leaves none behind under its token: its response cannot leave as somebody else's ACK. -/
theorem C10_request_opportunity (s : State) (remote : Remote) (w : Wire) :
    sendsOf (processRequest s remote w).2 =
      (match pendingMid s remote w.token with
       | some mid => [(s.now, remote, bare .ack mid)]
       | none => []) ∧
    (w.mtype = .con →
      piggyCount (processRequest s remote w).1 remote w.token = 1 ∧
      (processRequest s remote w).1.piggy.find? (fun p => p.remote == remote && p.token == w.token)
        = some ⟨remote, w.token, w.mid, s.now + s.cfg.emptyAckDelay⟩) ∧
    (w.mtype ≠ .con →
      (processRequest s remote w).1.piggy =
        s.piggy.filter (fun p => !(p.remote == remote && p.token == w.token)) ∧
      piggyCount (processRequest s remote w).1 remote w.token = 0) := by
  refine ⟨sendsOf_processRequest s remote w, ?_, ?_⟩
  · intro hc
    have hp : (processRequest s remote w).1.piggy =
        s.piggy.filter (fun p => !(p.remote == remote && p.token == w.token)) ++
          [⟨remote, w.token, w.mid, s.now + s.cfg.emptyAckDelay⟩] := by
      unfold processRequest
      simp only [hc, beq_self_eq_true, ↓reduceIte, tokenProcessRequest_piggy, fireEmptyAck_piggy_eq,
        (fireEmptyAck_now s remote w.token).1, (fireEmptyAck_now s remote w.token).2]
    rw [piggyCount, hp]
    constructor
    · rw [List.filter_append, List.filter_filter]
      simp
    · rw [List.find?_append]
      have : (s.piggy.filter (fun p => !(p.remote == remote && p.token == w.token))).find?
          (fun p => p.remote == remote && p.token == w.token) = none := by
        rw [List.find?_eq_none]
        intro x hx
        have := (List.mem_filter.mp hx).2
        intro hp; simp [hp] at this
      rw [this]
      simp [List.find?_cons]
  · intro hc
    have : (w.mtype == MType.con) = false := by simpa using hc
    have hp : (processRequest s remote w).1.piggy =
        s.piggy.filter (fun p => !(p.remote == remote && p.token == w.token)) := by
      unfold processRequest
      simp only [this, Bool.false_eq_true, ↓reduceIte, tokenProcessRequest_piggy, fireEmptyAck_piggy_eq]
    refine ⟨hp, ?_⟩
    rw [piggyCount, hp, List.filter_filter]
    simp

theorem findPiggy_dropPiggy (s : State) (remote : Remote) (token : Token) (m : OutMsg) :
    findPiggy (dropPiggy s remote token) remote token m = none := by
  unfold findPiggy dropPiggy
  split
  · rw [List.find?_eq_none]
    intro x hx
    have := (List.mem_filter.mp hx).2
    intro hp; simp [hp] at this
  · rfl

theorem sendInitially_piggy (s : State) (r : Remote) (w : Wire) (m : Monitor) (k : Nat) :
    (sendInitially s r w m k).1.piggy = s.piggy := by
  unfold sendInitially storeReply
  dsimp only
  split <;> split <;> rfl

/-- **C10 (piggy-backed response).** A response that finds the opportunity of its request
(same remote and token) is sent as the ACK — type ACK, the *request's* message id, the request's
token — in that step, and the opportunity is consumed: the timer will find nothing. -/
theorem C10_piggyback (s : State) (remote : Remote) (token : Token) (m : OutMsg) (wasNon : Bool)
    (mon : Monitor) (p : Piggy) (hp : findPiggy s remote token m = some p) (hs : suppressed m = false) :
    sendsOf (sendMessage s remote false token m wasNon mon).2.1 =
      [(s.now, remote, { mtype := .ack, code := m.code, mid := p.mid, token, obs := m.obs, body := m.body })] ∧
    findPiggy (sendMessage s remote false token m wasNon mon).1 remote token m = none := by
  simp only [sendMessage, hp, hs, Bool.false_eq_true, ↓reduceIte, dispatchOut, Bool.false_and,
    Bool.false_eq_true]
  have e : ((MType.ack == MType.con) && hasBacklog (dropPiggy s remote token) remote) = false := by simp
  simp only [e, Bool.false_eq_true, ↓reduceIte]
  constructor
  · simp [sendInitially, sendsOf, dropPiggy]
  · have h1 := findPiggy_dropPiggy s remote token m
    unfold findPiggy at h1 ⊢
    rw [sendInitially_piggy]
    exact h1

/-- **C10 (empty ACK after EMPTY_ACK_DELAY).** When the opportunity's timer fires and the
opportunity is still there, an empty ACK with the request's message id goes out and the
opportunity is consumed; when it is gone (a response was piggy-backed), nothing happens. -/
theorem C10_empty_ack_timer (s : State) (remote : Remote) (token : Token) :
    (∀ p, s.piggy.find? (fun p => p.remote == remote && p.token == token) = some p →
      sendsOf (fireEmptyAck s remote token).2 = [(s.now, remote, bare .ack p.mid)] ∧
      piggyCount (fireEmptyAck s remote token).1 remote token = 0) ∧
    (s.piggy.find? (fun p => p.remote == remote && p.token == token) = none →
      fireEmptyAck s remote token = (s, [])) := by
  constructor
  · intro p hp
    simp only [fireEmptyAck, hp]
    refine ⟨by simpa [dropPiggy] using sendsOf_sendBare (dropPiggy s remote token) remote .ack p.mid, ?_⟩
    simp only [piggyCount, sendBare, sendInitially_piggy, dropPiggy, List.filter_filter]
    simp
  · intro hn; simp [fireEmptyAck, hn]

/-- **C10 (separate response).** A response that finds no opportunity (the empty ACK is out, or
the request was NON) is sent under a *fresh* message id — the manager's next one — with the
request's token; by default NON to a NON request and CON otherwise.  It is never typed ACK. -/
theorem C10_separate_response (s : State) (remote : Remote) (token : Token) (m : OutMsg)
    (wasNon : Bool) (mon : Monitor) (hp : findPiggy s remote token m = none)
    (hs : suppressed m = false) (hb : hasBacklog s remote = false) :
    sendsOf (sendMessage s remote false token m wasNon mon).2.1 =
      [(s.now, remote, { mtype := chooseType s false wasNon m, code := m.code, mid := s.nextMid, token,
                         obs := m.obs, body := m.body })] ∧
    (m.mtype = none → m.reliability = none → s.shutMsg = false →
      chooseType s false wasNon m = if wasNon then .non else .con) := by
  constructor
  · have hb' : hasBacklog (takeMid s).2 remote = false := hb
    simp only [sendMessage, hp, hs, Bool.false_eq_true, ↓reduceIte, Bool.and_false, dispatchOut, hb']
    simp [sendInitially, sendsOf, takeMid]
  · intro h1 h2 h3
    simp [chooseType, h1, h2, h3]

/-- **C10 (No-Response).** A response suppressed by the No-Response option is not sent: with a
pending opportunity only the empty ACK (request's message id) goes out; without one nothing is
sent and nothing changes. -/
theorem C10_no_response (s : State) (remote : Remote) (mc : Bool) (token : Token) (m : OutMsg)
    (wasNon : Bool) (mon : Monitor) (hs : suppressed m = true) :
    (∀ p, findPiggy s remote token m = some p →
      sendsOf (sendMessage s remote mc token m wasNon mon).2.1 = [(s.now, remote, bare .ack p.mid)]) ∧
    (findPiggy s remote token m = none →
      sendMessage s remote mc token m wasNon mon = (s, [], .suppressed)) := by
  constructor
  · intro p hp
    simp only [sendMessage, hp, hs, ↓reduceIte]
    simp [sendInitially, sendsOf, dropPiggy, bare]
  · intro hn
    simp [sendMessage, hn, hs]

/-- **C10 (never CON to multicast).** Whatever is handed to `send_message` for a multicast
destination, no confirmable message goes on the wire (an explicit CON is refused instead). -/
theorem C10_never_con_to_multicast (s : State) (remote : Remote) (token : Token) (m : OutMsg)
    (wasNon : Bool) (mon : Monitor) :
    ∀ x ∈ sendsOf (sendMessage s remote true token m wasNon mon).2.1, x.2.2.mtype ≠ .con := by
  unfold sendMessage
  split
  · split
    · simp [sendInitially, sendsOf]
    · simp only [dispatchOut]
      have e : ((MType.ack == MType.con) && hasBacklog (dropPiggy s remote token) remote) = false := by simp
      simp [e, sendInitially, sendsOf]
  · split
    · simp [sendsOf]
    · dsimp only
      split
      · simp [sendsOf]
      · rename_i hcm
        have hne : chooseType s true wasNon m ≠ .con := by
          intro hc; simp [hc] at hcm
        have hne' : (chooseType s true wasNon m == MType.con) = false := by simpa using hne
        simp only [dispatchOut, hne', Bool.false_and, Bool.false_eq_true, ↓reduceIte]
        simp only [sendInitially, hne', Bool.false_eq_true, ↓reduceIte, sendsOf, List.filterMap_cons,
          List.filterMap_nil, List.mem_singleton]
        intro x hx; subst hx; exact hne

-- non-vacuity -------------------------------------------------------------------------------

def c10Cfg : Cfg := { exchangeLifetime := 1000, emptyAckDelay := 10 }
def c10Req (t : MType) (mid : Nat) : Wire := { mtype := t, code := 1, mid, token := [1], obs := none, body := 3 }
def c10Resp (nr : Nat) : OutMsg :=
  { mtype := none, reliability := none, code := 69, obs := none, body := 9, noResponse := nr, maxRetr := 4 }
/-- fast handler → piggy-back; slow handler → empty ACK then separate CON with a fresh id; ping → RST;
unknown CON response → RST; NON request → NON response; No-Response=2 suppresses the 2.05 -/
def c10Run : List TEv :=
  [⟨5, .recv 1 false (c10Req .con 70)⟩, ⟨8, .respond 0 (c10Resp 0) true⟩,
   ⟨20, .recv 1 false (c10Req .con 71)⟩, ⟨30, .fireEmptyAck 1 [1]⟩, ⟨40, .respond 1 (c10Resp 0) true⟩,
   ⟨50, .recv 1 false { mtype := .con, code := 0, mid := 72, token := [], obs := none, body := 0 }⟩,
   ⟨60, .recv 1 false { mtype := .con, code := 69, mid := 73, token := [9], obs := none, body := 0 }⟩,
   ⟨70, .recv 1 false (c10Req .non 74)⟩, ⟨75, .respond 2 (c10Resp 0) true⟩,
   ⟨80, .recv 1 false (c10Req .non 75)⟩, ⟨85, .respond 3 (c10Resp 2) true⟩]

example : ((sendsOf (run (init c10Cfg 500 0 (fun _ => 20)) c10Run).2).map fun x =>
    (x.1, x.2.2.mtype, x.2.2.code, x.2.2.mid)) =
    [(8, .ack, 69, 70), (30, .ack, 0, 71), (40, .con, 69, 500), (50, .rst, 0, 72), (60, .rst, 0, 73),
     (75, .non, 69, 501)] := by decide
example : suppressed (c10Resp 2) = true ∧ suppressed (c10Resp 8) = false := by decide

end Aiocoap.MsgLayer
