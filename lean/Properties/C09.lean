import Proofs.Render.Schedule
import Proofs.Render.Compose
import Proofs.Render.NoLeak
import Proofs.Render.Tcp
/-!
# C09 — every request gets exactly one final response reflecting the handler outcome

Model: `AiocoapModel/Render/Pipe.lean` (the two `Pipe`s of a request with their callbacks,
`_add_event`, `_end`, `_unregister_on_event`, `error_to_message`) and
`AiocoapModel/Render/Render.lean` (`Context._render_to_pipe`, `Site.render_to_pipe`,
`Resource.render`, `run_driving_pipe`, and the table of requests of a context driven by
`deliver` / `complete` / `stop` inputs in any order).  The handler outcome is an input.

`run (Sys.init site) ins` is what the driver executes; every theorem below is about it (or about
`MsgLayer.respond`, which the message-layer driver executes) for **all** sites, requests, handler
outcomes and schedules `ins`.
-/
namespace Aiocoap.Render

/-- **The outcome table of the property text, stated outright.**  `none`: nothing is ever sent
(the handler never returns). -/
def expectedFinal (site : Option Site) (req : Request) : Option Resp :=
  match site with
  | none => some { code := 132, payload := notAServerDiag, noResponse := none }      -- 4.04
  | some s =>
    match s.resources.lookup req.path with
    | none => some { code := 132, payload := [], noResponse := none }                -- 4.04
    | some r =>
      if req.code = 0 ∨ 32 ≤ req.code then
        some { code := 133, payload := notRecognizedDiag, noResponse := none }       -- 4.05
      else
      match r.lookup req.code with
      | none => some { code := 133, payload := notAllowedDiag, noResponse := none }  -- 4.05
      | some (.returns (some c) p nr) =>
        -- a message whose code is no response code (a request code, 0.00, 7.xx, …) answers
        -- nothing: it is as unusable as a value that is no message, bare 5.00
        if 64 ≤ c ∧ c < 192 then some { code := c, payload := p, noResponse := nr <|> req.noResponse }
        else some { code := 160, payload := [], noResponse := none }
      | some (.returns none p nr) =>
        -- "Content" for GET/FETCH, "Deleted" for DELETE, "Changed" for anything else
        some { code := (if req.code = 1 then 69 else if req.code = 5 then 69
                        else if req.code = 4 then 66 else 68),
               payload := p, noResponse := nr <|> req.noResponse }
      | some (.raisesRenderable c d) =>
        -- "a raised renderable error is sent with its own code and diagnostic payload"; one whose
        -- rendering is no response is a failing error renderer
        if 64 ≤ c ∧ c < 192 then some { code := c, payload := d, noResponse := none }
        else some { code := 160, payload := [], noResponse := none }
      | some (.raisesOther _) => some { code := 160, payload := [], noResponse := none }
      | some (.returnsNonMessage _) => some { code := 160, payload := [], noResponse := none }
      | some (.rendererFails _ _) => some { code := 160, payload := [], noResponse := none }
      | some .raisesCancelled => some { code := 160, payload := [], noResponse := none }
      | some .neverReturns => none

/-- the model's rendering path (`contextRender` → `siteRender` → `resourceRender`, the exception
turned into a message by `excToMessage`) computes the table -/
theorem isResponseCode_iff (c : Nat) : isResponseCode c = true ↔ (64 ≤ c ∧ c < 192) := by
  simp [isResponseCode]

theorem defaultCode_response (c : Nat) : isResponseCode (defaultCode c) = true := by
  unfold defaultCode
  split
  · rfl
  · split <;> rfl

theorem finalOfRes_contextRender (site : Option Site) (req : Request) :
    finalOfRes (contextRender site req) = expectedFinal site req := by
  unfold contextRender expectedFinal
  cases site with
  | none => rfl
  | some s =>
    simp only [siteRender]
    cases hl : s.resources.lookup req.path with
    | none => rfl
    | some r =>
      simp only [resourceRender]
      by_cases hc : req.code = 0 ∨ 32 ≤ req.code
      · have : isRequestCode req.code = false := by
          simp only [isRequestCode, Bool.and_eq_false_iff, decide_eq_false_iff_not]; omega
        simp only [this, Bool.not_false, ↓reduceIte, hc, finalOfRes]
        rfl
      · have : isRequestCode req.code = true := by
          simp only [isRequestCode, Bool.and_eq_true, decide_eq_true_eq]; omega
        simp only [this, Bool.not_true, Bool.false_eq_true, ↓reduceIte, hc]
        cases hm : r.lookup req.code with
        | none => rfl
        | some o =>
          cases o with
          | returns c p nr =>
            cases c with
            | some c =>
              simp only [finalOfRes, Option.getD_some]
              by_cases hr : isResponseCode c = true
              · have hr' := (isResponseCode_iff c).1 hr
                simp only [hr, ↓reduceIte, hr', and_self]
                cases nr <;> rfl
              · have hr' : ¬ (64 ≤ c ∧ c < 192) := fun h => hr ((isResponseCode_iff c).2 h)
                simp only [hr, ↓reduceIte, hr']
                rfl
            | none =>
              have hd : (if req.code = 1 then 69 else if req.code = 5 then 69
                  else if req.code = 4 then 66 else 68) = defaultCode req.code := by
                unfold defaultCode
                by_cases h1 : req.code = 1
                · simp [h1]
                · by_cases h5 : req.code = 5
                  · simp [h5]
                  · simp [h1, h5]
              simp only [finalOfRes, Option.getD_none, hd, defaultCode_response, ↓reduceIte]
              cases nr <;> rfl
          | raisesRenderable c d =>
            simp only [finalOfRes, excToMessage]
            by_cases hr : isResponseCode c = true
            · have hr' := (isResponseCode_iff c).1 hr
              simp only [hr, ↓reduceIte, hr', and_self]
            · have hr' : ¬ (64 ≤ c ∧ c < 192) := fun h => hr ((isResponseCode_iff c).2 h)
              simp only [hr, ↓reduceIte, hr']
              rfl
          | raisesOther t => rfl
          | returnsNonMessage t => rfl
          | rendererFails b t => cases b <;> rfl
          | raisesCancelled => rfl
          | neverReturns => rfl

/-- **C09 (at most one).**  Whatever the site, the handler outcomes and the schedule — any
interleaving of deliveries, completions and losses of interest, repeated or out of order — at
most one final response is ever handed to the message layer for a request. -/
theorem C09_at_most_one (site : Option Site) (ins : List In) (i : Nat) :
    (finalsOf i (run (Sys.init site) ins).2).length ≤ 1 := by
  have := run_budget (init_good site) ins i
  have := budget_le_one (Sys.init site) i
  omega

/-- from a state that has not seen request `i` yet -/
theorem exactly_core (s0 : Sys) (g0 : SysGood s0) (i : Nat) (req : Request) (mid post : List In)
    (hnone : s0.entries i = none) (hmid : ∀ a ∈ mid, a ≠ .complete i ∧ a ≠ .stop i) :
    finalsOf i (run s0 (.deliver i req :: (mid ++ .complete i :: post))).2 =
      (expectedFinal s0.site req).toList.map (fun m => (req.token, m)) := by
  have hq : ∀ a ∈ mid, Quiet i a := by
    intro a ha
    by_cases hid : a.id = i
    · right
      cases a with
      | deliver id r => simp only [In.id] at hid; subst hid; exact ⟨r, rfl⟩
      | complete id => simp only [In.id] at hid; subst hid; exact absurd rfl (hmid _ ha).1
      | stop id => simp only [In.id] at hid; subst hid; exact absurd rfl (hmid _ ha).2
    · exact Or.inl hid
  let e0 : Entry := { req, res := contextRender s0.site req, st := .start, finished := false }
  have hd : step s0 (.deliver i req) = (s0.set i e0, []) := by simp [step, hnone, e0]
  have g1 : SysGood (s0.set i e0) := by have := step_good g0 (.deliver i req); rwa [hd] at this
  have h2 := run_quiet (e := e0) mid hq (s0.set i e0) (set_entries_self _ _ _)
  have g2 : SysGood (run (s0.set i e0) mid).1 := run_good g1 mid
  rw [show run s0 (.deliver i req :: (mid ++ .complete i :: post)) =
        ((run (s0.set i e0) (mid ++ .complete i :: post)).1,
         [] ++ (run (s0.set i e0) (mid ++ .complete i :: post)).2) by simp [run, hd]]
  rw [List.nil_append, run_append, finalsOf_append, h2.2, List.nil_append]
  generalize (run (s0.set i e0) mid).1 = s2 at h2 g2
  by_cases hp : e0.res = .pending
  · rw [run_pending (.complete i :: post) i s2 g2 ⟨e0, h2.1, hp⟩]
    have : expectedFinal s0.site req = none := by
      rw [← finalOfRes_contextRender]
      have : contextRender s0.site req = .pending := hp
      rw [this]; rfl
    simp [this]
  · have hstep : step s2 (.complete i) =
        (s2.set i { e0 with st := (runDriving e0.res .start).1, finished := true },
         tag i e0 (runDriving e0.res .start).2) := by
      simp only [step, h2.1]
      have : (e0.finished || e0.res == Res.pending) = false := by
        simp only [Bool.or_eq_false_iff, beq_eq_false_iff_ne, ne_eq]
        exact ⟨rfl, hp⟩
      simp [this, e0]
    have hrd := runDriving_start e0.res
    have hst : (runDriving e0.res .start).1 = .done := by rw [hrd.1]; simp [hp]
    have g3 := step_good g2 (.complete i)
    rw [hstep] at g3
    have hb : budget (s2.set i { e0 with st := (runDriving e0.res .start).1, finished := true }) i = 0 := by
      simp [budget, set_entries_self, hst, start_ne_done.symm]
    simp only [run, finalsOf_append, hstep]
    rw [run_spent g3 post i hb, List.append_nil, finalsOf_tag]
    simp only [↓reduceIte]
    rw [hrd.2]
    show (finalOfRes (contextRender s0.site req)).toList.map _ = _
    rw [finalOfRes_contextRender]

theorem run_site (l : List In) : ∀ s : Sys, (run s l).1.site = s.site := by
  induction l with
  | nil => intro s; rfl
  | cons a as ih => intro s; simp [run, ih, step_site]

/-- **C09 (exactly one, and it is the tabled one, with the request's token).**  Request number
`i` is delivered, other requests are delivered, complete, fail or are dropped in any interleaving
(`pre`, `mid`), the handler of `i` completes, and anything at all happens afterwards (`post`,
including further completions and stops of `i` itself): the final responses of `i` over the whole
schedule are exactly the one response of the outcome table, carrying the token of the request —
none if and only if the handler never returns. -/
theorem C09_exactly_one_as_tabled (site : Option Site) (i : Nat) (req : Request)
    (pre mid post : List In)
    (hpre : ∀ a ∈ pre, a.id ≠ i)
    (hmid : ∀ a ∈ mid, a ≠ .complete i ∧ a ≠ .stop i) :
    finalsOf i (run (Sys.init site) (pre ++ .deliver i req :: (mid ++ .complete i :: post))).2 =
      (expectedFinal site req).toList.map (fun m => (req.token, m)) := by
  have h0 := run_absent pre hpre (Sys.init site)
  have g0 : SysGood (run (Sys.init site) pre).1 := run_good (init_good site) pre
  have hnone : (run (Sys.init site) pre).1.entries i = none := by simpa [Sys.init] using h0.1
  rw [run_append, finalsOf_append, h0.2, List.nil_append,
    exactly_core _ g0 i req mid post hnone hmid, run_site]
  rfl

/-- **C09 (outcome table, bare form).**  The schedule consisting of nothing but the delivery and
the completion. -/
theorem C09_outcome_table (site : Option Site) (i : Nat) (req : Request) :
    finalsOf i (run (Sys.init site) [.deliver i req, .complete i]).2 =
      (expectedFinal site req).toList.map (fun m => (req.token, m)) :=
  C09_exactly_one_as_tabled site i req [] [] [] (by simp) (by simp)

/-- **C09 (nothing but final responses is ever sent, and only the tabled one).**  Every message
the rendering side hands to the message layer in any schedule is a final response, so together
with `C09_exactly_one_as_tabled` the tabled response is the *only* message a request causes. -/
theorem C09_all_sends_final (site : Option Site) (ins : List In) :
    ∀ o ∈ (run (Sys.init site) ins).2, ∀ m l, o.eff = .send m l → l = true :=
  run_sends_final (init_good site) ins

/-- **C09 (nothing but responses is ever sent).**  Whatever the handlers return or raise — a
message with a request code, with code 0.00, with a signalling code; an error renderer producing
such a message — every message the rendering side hands to the token interface in any schedule
carries a response code (classes 2 to 5): nothing a handler does makes the server send a request
or an empty message of its own on the client's token. -/
theorem C09_sends_are_responses (site : Option Site) (ins : List In) :
    ∀ o ∈ (run (Sys.init site) ins).2, ∀ m l, o.eff = .send m l → 64 ≤ m.code ∧ m.code < 192 :=
  fun o ho m l h => (isResponseCode_iff m.code).1 (run_sends_response (init_good site) ins o ho m l h)

/-- **C09 (bare 5.00, nothing of the exception leaks).**  When the handler reached by the
request raises a non-renderable exception (also `CancelledError`), returns something that is not a
message or a message whose code is no response code, or raises a renderable error whose renderer
raises, returns `None` or renders to something that is no response, the response of the table is
5.00 with an EMPTY payload and no options — the same for every exception text, every returned
value or payload, every method and every site. -/
theorem C09_bare_500 (s : Site) (req : Request) (r : Resource) (o : Outcome)
    (hpath : s.resources.lookup req.path = some r)
    (hcode : 1 ≤ req.code ∧ req.code < 32)
    (hmeth : r.lookup req.code = some o)
    (hfail : (∃ t, o = .raisesOther t) ∨ (∃ t, o = .returnsNonMessage t) ∨
             (∃ b t, o = .rendererFails b t) ∨ o = .raisesCancelled ∨
             (∃ c p nr, o = .returns (some c) p nr ∧ ¬ (64 ≤ c ∧ c < 192)) ∨
             (∃ c d, o = .raisesRenderable c d ∧ ¬ (64 ≤ c ∧ c < 192)))
    (i : Nat) (pre mid post : List In)
    (hpre : ∀ a ∈ pre, a.id ≠ i) (hmid : ∀ a ∈ mid, a ≠ .complete i ∧ a ≠ .stop i) :
    finalsOf i (run (Sys.init (some s)) (pre ++ .deliver i req :: (mid ++ .complete i :: post))).2 =
      [(req.token, { code := 160, payload := [], noResponse := none })] := by
  rw [C09_exactly_one_as_tabled _ _ _ _ _ _ hpre hmid]
  have hc : ¬ (req.code = 0 ∨ 32 ≤ req.code) := by omega
  simp only [expectedFinal, hpath, hc, ↓reduceIte, hmeth]
  rcases hfail with ⟨t, rfl⟩ | ⟨t, rfl⟩ | ⟨b, t, rfl⟩ | rfl | ⟨c, p, nr, rfl, hn⟩ | ⟨c, d, rfl, hn⟩
  · rfl
  · rfl
  · rfl
  · rfl
  · simp only [hn, ↓reduceIte]; rfl
  · simp only [hn, ↓reduceIte]; rfl

/-- **C09 (no exception text leaks — non-interference).**  Replace every exception text, every
wrongly returned value and every failing renderer's text in the site by the empty text: the
outputs of every schedule — every message handed to the message layer with its payload, every
log record kind, every clean-up — stay exactly the same.  Nothing observable depends on them. -/
theorem C09_no_text_leak (site : Option Site) (ins : List In) :
    (run (Sys.init (site.map Site.eraseText)) ins).2 = (run (Sys.init site) ins).2 :=
  run_Sim ins (init_good site) (init_Sim site)

/-- **C09 (unknown path → 4.04).** -/
theorem C09_unknown_path_404 (s : Site) (req : Request)
    (hpath : s.resources.lookup req.path = none)
    (i : Nat) (pre mid post : List In)
    (hpre : ∀ a ∈ pre, a.id ≠ i) (hmid : ∀ a ∈ mid, a ≠ .complete i ∧ a ≠ .stop i) :
    finalsOf i (run (Sys.init (some s)) (pre ++ .deliver i req :: (mid ++ .complete i :: post))).2 =
      [(req.token, { code := 132, payload := [], noResponse := none })] := by
  rw [C09_exactly_one_as_tabled _ _ _ _ _ _ hpre hmid]
  simp [expectedFinal, hpath]

/-- **C09 (unimplemented method → 4.05).**  For every request code, assigned or not. -/
theorem C09_unimplemented_405 (s : Site) (req : Request) (r : Resource)
    (hpath : s.resources.lookup req.path = some r)
    (hmeth : r.lookup req.code = none)
    (i : Nat) (pre mid post : List In)
    (hpre : ∀ a ∈ pre, a.id ≠ i) (hmid : ∀ a ∈ mid, a ≠ .complete i ∧ a ≠ .stop i) :
    ∃ diag, finalsOf i (run (Sys.init (some s))
        (pre ++ .deliver i req :: (mid ++ .complete i :: post))).2 =
      [(req.token, { code := 133, payload := diag, noResponse := none })] := by
  rw [C09_exactly_one_as_tabled _ _ _ _ _ _ hpre hmid]
  simp only [expectedFinal, hpath, hmeth]
  split
  · exact ⟨_, rfl⟩
  · exact ⟨_, rfl⟩

/-- **C09 (no site → 4.04).** -/
theorem C09_no_site_404 (req : Request)
    (i : Nat) (pre mid post : List In)
    (hpre : ∀ a ∈ pre, a.id ≠ i) (hmid : ∀ a ∈ mid, a ≠ .complete i ∧ a ≠ .stop i) :
    finalsOf i (run (Sys.init none) (pre ++ .deliver i req :: (mid ++ .complete i :: post))).2 =
      [(req.token, { code := 132, payload := notAServerDiag, noResponse := none })] := by
  rw [C09_exactly_one_as_tabled _ _ _ _ _ _ hpre hmid]
  rfl

/-- **C09 (default success codes).**  A handler message without a code gets 2.05 for GET and
FETCH, 2.02 for DELETE, 2.04 for POST, PUT, PATCH, iPATCH and every other request code; a code the
handler set is never replaced. -/
theorem C09_default_codes (req : Request) (p : Payload) (nr : Option Nat) (c : Nat) :
    (∀ r, r.lookup req.code = some (.returns none p nr) → isRequestCode req.code = true →
       ∃ m, resourceRender req r = .responds m ∧
         m.code = (if req.code = 1 ∨ req.code = 5 then 69 else if req.code = 4 then 66 else 68)) ∧
    (∀ r, r.lookup req.code = some (.returns (some c) p nr) → isRequestCode req.code = true →
       ∃ m, resourceRender req r = .responds m ∧ m.code = c) := by
  constructor
  · intro r hr hq
    simp only [resourceRender, hq, Bool.not_true, Bool.false_eq_true, ↓reduceIte, hr]
    exact ⟨_, rfl, rfl⟩
  · intro r hr hq
    simp only [resourceRender, hq, Bool.not_true, Bool.false_eq_true, ↓reduceIte, hr]
    exact ⟨_, rfl, rfl⟩

/-- **C09 (the request's token).**  In every schedule every effect of a request — the final
response in particular — is labelled with the token of the request that was delivered under that
number. -/
theorem C09_token (site : Option Site) (ins : List In) :
    ∀ o ∈ (run (Sys.init site) ins).2,
      ∃ req, firstDeliver ins o.id = some req ∧ o.token = req.token := by
  intro o ho
  have := run_token ins (Sys.init site) o ho
  simpa [Sys.init] using this

/-- **C09 (No-Response propagation).**  A returned message that carries a No-Response value of
its own keeps it; one that has none gets the request's; responses built from exceptions carry
none (they are never suppressed). -/
theorem C09_no_response_propagation (req : Request) (r : Resource) (c : Option Nat) (p : Payload)
    (nr : Option Nat) (hq : isRequestCode req.code = true)
    (hr : r.lookup req.code = some (.returns c p nr)) :
    (∃ m, resourceRender req r = .responds m ∧ m.payload = p ∧
      m.noResponse = (nr <|> req.noResponse)) ∧
    ∀ e, (excToMessage e).1.noResponse = none := by
  constructor
  · simp only [resourceRender, hq, Bool.not_true, Bool.false_eq_true, ↓reduceIte, hr]
    refine ⟨_, rfl, rfl, ?_⟩
    cases nr <;> rfl
  · intro e
    cases e with
    | renderable c d => simp only [excToMessage]; split <;> rfl
    | rendererRaises t => rfl
    | rendererNone => rfl
    | other t => rfl

/-- **C09 (isolation, one step).**  A step for request `a.id` — whatever it is: a failing
completion, a loss of interest, a delivery — leaves the whole state of every other request `j`
(both pipes, its registration, its pending outcome) untouched and produces no output for it. -/
theorem C09_isolation_step (s : Sys) (a : In) (j : Nat) (h : a.id ≠ j) :
    (step s a).1.entries j = s.entries j ∧ ∀ o ∈ (step s a).2, o.id ≠ j :=
  ⟨step_entries_other s a h, fun o ho => by rw [step_outs_id s a o ho]; exact h⟩

/-- **C09 (isolation, all interleavings; also: no effect on later requests).**  For every
schedule, what happens to request `j` — every effect: messages sent, log records, clean-up — and
its final state are those of the sub-schedule of the inputs naming `j`, run alone.  Requests in
flight at the same time and requests that come later are therefore unaffected by anything another
request does. -/
theorem C09_isolation (site : Option Site) (ins : List In) (j : Nat) :
    (run (Sys.init site) ins).2.filter (fun o => o.id = j) =
      (run (Sys.init site) (ins.filter (fun a => a.id = j))).2 ∧
    (run (Sys.init site) ins).1.entries j =
      (run (Sys.init site) (ins.filter (fun a => a.id = j))).1.entries j :=
  run_project j ins _ _ rfl rfl

/-- **C09 (terminal-event discipline).**  In every schedule: the converter of the inner pipe is
never called with the tombstone (the code path that would fabricate a second 5.00), and the
token manager's callback never sees an exception event. -/
theorem C09_no_stray_terminal (site : Option Site) (ins : List In) :
    ∀ o ∈ (run (Sys.init site) ins).2, o.eff ≠ .strayTombstone ∧ o.eff ≠ .log .tmGotError :=
  run_no_stray (init_good site) ins

/-- **C09 (pipes end together).**  In every schedule every request is either fully wired
(nothing sent yet) or fully torn down (both pipes ended, entry removed, task cancellation
requested); there is no half-open state in which a second terminal event could get through. -/
theorem C09_two_states (site : Option Site) (ins : List In) (i : Nat) (e : Entry)
    (h : (run (Sys.init site) ins).1.entries i = some e) :
    (e.st = .start ∧ e.finished = false) ∨ e.st = .done :=
  ((run_good (init_good site) ins) i e h).1

/-- **C09_one_final** (the name used in DESIGN.md §6): at most one final response in every
schedule, and exactly the tabled one with the request's token once the handler has completed. -/
theorem C09_one_final (site : Option Site) (i : Nat) (req : Request) (pre mid post : List In)
    (hpre : ∀ a ∈ pre, a.id ≠ i) (hmid : ∀ a ∈ mid, a ≠ .complete i ∧ a ≠ .stop i) :
    (∀ ins j, (finalsOf j (run (Sys.init site) ins).2).length ≤ 1) ∧
    finalsOf i (run (Sys.init site) (pre ++ .deliver i req :: (mid ++ .complete i :: post))).2 =
      (expectedFinal site req).toList.map (fun m => (req.token, m)) :=
  ⟨fun ins j => C09_at_most_one site ins j, C09_exactly_one_as_tabled site i req pre mid post hpre hmid⟩

-- composition with the message layer ---------------------------------------------------------

open MsgLayer in
/-- the message-layer view of a response the rendering side puts on the pipe: the application set
neither a type nor an Observe option; `body` is the opaque identity of payload and options -/
def toOutMsg (m : Resp) (body maxRetr : Nat) (reliability : Option Bool) : MsgLayer.OutMsg :=
  { mtype := none, reliability, code := m.code, obs := none, body,
    noResponse := m.noResponse.getD 0, maxRetr }

open MsgLayer in
/-- **C09 (composition: the final response on the wire).**  `Eff.send m true` of request `sv` is
the message-layer event `respond sv … isLast = true`.  In every message-layer state in which the
request is still in the table:
* when No-Response suppresses the response, **no datagram with a response code** leaves (at most
  the bare ACK that uses up the piggy-back opportunity of a CON request);
* otherwise the response leaves as **exactly one** message carrying the request's token, to the
  request's remote, with `m`'s code and body — on the wire at once, or queued behind the exchange
  in flight to that remote (NSTART = 1, C14) from where it is sent unchanged;
* afterwards the request is gone from the table, so that anything put on the pipe later is
  discarded without any output. -/
theorem C09_compose_final (s : State) (sv : Nat) (i : InReq) (m : Resp) (body maxRetr : Nat)
    (rel : Option Bool) (hi : s.incoming.find? (fun x => x.srv == sv) = some i) :
    let om := toOutMsg m body maxRetr rel
    let r := respond s sv om true
    (suppressed om = true → r.2 = [] ∨ ∃ mid, r.2 = [.send s.now i.remote (emptyAck mid)]) ∧
    (suppressed om = false →
      ∃ w, (w.code = m.code ∧ w.token = i.token ∧ w.body = body ∧ w.obs = none) ∧
        (r.2 = [.send s.now i.remote w] ∨
         (r.2 = [] ∧ ∃ b ∈ r.1.backlogs, b.1 = i.remote ∧ ∃ qd ∈ b.2, qd.msg = w))) ∧
    (∀ m' l, respond r.1 sv m' l = (r.1, [])) := by
  intro om r
  have hr : r = (dropIncoming (sendMessage s i.remote false i.token om i.wasNon (.srv sv)).1 sv,
                 (sendMessage s i.remote false i.token om i.wasNon (.srv sv)).2.1) := by
    simp [r, respond, hi]
  have hout := sendMessage_response_out s i.remote i.token om i.wasNon (.srv sv)
  refine ⟨?_, ?_, ?_⟩
  · intro hs; rw [hr]; exact hout.1 hs
  · intro hs
    obtain ⟨w, hc, hw⟩ := hout.2 hs
    refine ⟨w, hc, ?_⟩
    rw [hr]
    rcases hw with hw | ⟨hw, hb⟩
    · exact Or.inl hw
    · exact Or.inr ⟨hw, hb⟩
  · intro m' l
    have : r.1.incoming.find? (fun x => x.srv == sv) = none := by
      rw [hr]; exact find_dropIncoming _ sv
    simp [respond, this]

open MsgLayer in
/-- **C09 (composition: delivery).**  `process_request` of the message layer hands a request to
the rendering side under the next free number and enters it in the table with the token and
remote of the datagram; so the final response of `C09_compose_final` carries the token of the
datagram that caused the request (in every reachable message-layer state — `SrvFresh` is an
invariant, `run_SrvFresh`). -/
theorem C09_compose_deliver (s : State) (remote : Remote) (w : Wire) (hf : SrvFresh s) :
    let r := tokenProcessRequest s remote w
    (∃ pre, r.2 = pre ++ [.deliver s.nextSrv remote w]) ∧
    r.1.incoming.find? (fun x => x.srv == s.nextSrv) =
      some { token := w.token, remote, srv := s.nextSrv, wasNon := w.mtype == .non } ∧
    SrvFresh r.1 := by
  intro r
  refine ⟨?_, ?_, tokenProcessRequest_SrvFresh hf remote w⟩
  · simp only [r, tokenProcessRequest]
    split <;> exact ⟨_, rfl⟩
  · have hnot : ∀ (l : List InReq), (∀ x ∈ l, x.srv < s.nextSrv) →
        (l ++ [({ token := w.token, remote, srv := s.nextSrv, wasNon := w.mtype == .non } : InReq)]).find?
          (fun x => x.srv == s.nextSrv) =
        some { token := w.token, remote, srv := s.nextSrv, wasNon := w.mtype == .non } := by
      intro l hl
      rw [List.find?_append]
      have : l.find? (fun x => x.srv == s.nextSrv) = none := by
        simp only [List.find?_eq_none, beq_iff_eq]
        intro x hx; have := hl x hx; omega
      simp [this]
    simp only [r, tokenProcessRequest]
    split
    · rename_i i _
      exact hnot _ (fun x hx => hf x ((dropIncoming_IFrame s i.srv).inc.subset hx))
    · exact hnot _ hf

open MsgLayer in
/-- `SrvFresh` holds in every reachable state of the message-layer model -/
theorem C09_compose_reachable (cfg : Cfg) (mid token : Nat) (f : Nat → Nat) (es : List TEv) :
    SrvFresh (MsgLayer.run (MsgLayer.init cfg mid token f) es).1 :=
  run_SrvFresh (init_SrvFresh cfg mid token f) es

open MsgLayer in
/-- **C09 (composition: only requests are rendered).**  The type/code table of the message
layer hands a message to `process_request` only if its code is a request code, so
`Resource.render`'s "not a request" branch is dead behind the UDP stack. -/
theorem C09_compose_only_requests (s : State) (remote : Remote) (mcLocal : Bool) (w : Wire)
    (sv : Nat) (rem : Remote) (w' : Wire)
    (h : Out.deliver sv rem w' ∈ (recvCode s remote mcLocal w).2) :
    isRequestCode w.code = true ∧ w' = w := by
  unfold recvCode at h
  split at h
  · simp [sendBare, sendInitially] at h
  · split at h
    · simp at h
    · split at h
      · rename_i hq
        simp only [Bool.and_eq_true] at hq
        refine ⟨by simpa [isRequestCode, isRequest] using hq.1, ?_⟩
        unfold processRequest at h
        simp only [List.mem_append] at h
        rcases h with h | h
        · unfold fireEmptyAck at h
          split at h <;> simp [sendBare, sendInitially] at h
        · unfold tokenProcessRequest at h
          simp only at h
          split at h <;> simp at h <;> exact h.2.2
      · split at h
        · dsimp only at h
          unfold processResponse at h
          simp only at h
          repeat' (split at h)
          all_goals simp [sendBare, sendInitially] at h
        · simp at h

-- composition with the TCP token interface ---------------------------------------------------

/-- **C09 (composition: the final response over CoAP-over-TCP).**  `Eff.send m true` of a request
with token `token` behind a TCP (TLS) server is `_TCPPooling.send_message` of that message
(`tcpSend`, the function the driver runs in `tcp` mode).  For every response code, every token a
request can carry (up to 8 bytes) and every payload (below 4 GiB):
* when the No-Response value the response carries has the bit of the response's class set,
  **nothing** is written to the connection;
* otherwise `transport.write` is called **exactly once**, with **one** complete RFC 8323 frame
  (`Tcp.Rfc8323.Message`: Len nibble / extended length by the 13 / 269 / 65805 rule for the length of
  the payload marker plus payload, TKL, code, token, payload) of the message that carries the
  request's token, the response's code, the response's payload and no option — whatever the
  length, there is no length at which the handler's outcome is replaced by anything else. -/
theorem C09_compose_tcp_final (token : Bytes) (m : Resp)
    (hcode : 64 ≤ m.code ∧ m.code < 192) (htok : token.length ≤ 8)
    (hlen : m.payload.length < 4294967296) :
    (((m.noResponse.getD 0).testBit (m.code / 32 - 1) = true → tcpSend token m = []) ∧
     ((m.noResponse.getD 0).testBit (m.code / 32 - 1) = false →
        ∃ b, tcpSend token m = [.write b] ∧
          Tcp.Rfc8323.Message b { code := m.code, token, opts := [], payload := m.payload })) :=
  tcpSend_final token m hcode htok hlen

/-- … and what a schedule sends meets the hypotheses on the code (`C09_sends_are_responses`) and
carries the token of its request (`C09_token`): every final response of every schedule leaves as
at most one frame. -/
theorem C09_compose_tcp_run (site : Option Site) (ins : List In) :
    ∀ o ∈ (run (Sys.init site) ins).2, ∀ m l, o.eff = .send m l →
      o.token.length ≤ 8 → m.payload.length < 4294967296 →
      tcpSend o.token m = [] ∨ ∃ b, tcpSend o.token m = [.write b] ∧
        Tcp.Rfc8323.Message b { code := m.code, token := o.token, opts := [], payload := m.payload } := by
  intro o ho m l h htok hlen
  have hc := C09_sends_are_responses site ins o ho m l h
  have := C09_compose_tcp_final o.token m hc htok hlen
  cases hb : (m.noResponse.getD 0).testBit (m.code / 32 - 1)
  · exact Or.inr (this.2 hb)
  · exact Or.inl (this.1 hb)

-- non-vacuity and sanity examples -------------------------------------------------------------

def exSite : Site :=
  { resources := [(["a"], [(1, .returns none [104, 105] none), (3, .raisesOther [115, 101, 99]),
                           (2, .raisesRenderable 128 [100]), (4, .neverReturns)]),
                  (["b", "c"], [(1, .returnsNonMessage [120])])] }

def exReq (code : Nat) (path : List String) (tok : Nat) : Request :=
  { code, path, token := [tok], noResponse := none }

/-- two requests interleaved, the first failing: each gets exactly its own response -/
example :
    (run (Sys.init (some exSite))
      [.deliver 0 (exReq 3 ["a"] 7), .deliver 1 (exReq 1 ["a"] 8), .complete 0, .stop 0,
       .complete 1, .complete 0]).2.filterMap (fun o => match o.eff with
          | .send m l => some (o.id, o.token, m.code, m.payload, l) | _ => none) =
      [(0, [7], 160, [], true), (1, [8], 69, [104, 105], true)] := by decide

/-- loss of interest before the handler ends: nothing is sent, a late result is only logged -/
example :
    (run (Sys.init (some exSite))
      [.deliver 0 (exReq 3 ["a"] 7), .stop 0, .complete 0]).2.map (·.eff) =
      [.unregister, .cancelTask, .log .discarded] := by decide

/-- erasing the texts changes the site (the statement of `C09_no_text_leak` is not vacuous) -/
example : (exSite.eraseText.resources.lookup ["a"]).bind (·.lookup 3) = some (.raisesOther []) ∧
    (exSite.resources.lookup ["a"]).bind (·.lookup 3) = some (.raisesOther [115, 101, 99]) := by decide

example : expectedFinal (some exSite) (exReq 2 ["a"] 1) = some ⟨128, [100], none⟩ := by decide
example : expectedFinal (some exSite) (exReq 5 ["a"] 1) =
    some ⟨133, notAllowedDiag, none⟩ := by decide
example : expectedFinal (some exSite) (exReq 1 ["zz"] 1) = some ⟨132, [], none⟩ := by decide
example : expectedFinal (some exSite) (exReq 4 ["a"] 1) = none := by decide
/-- the hypotheses of `C09_exactly_one_as_tabled` are met by a non-trivial schedule -/
example : (∀ a ∈ [In.deliver 5 (exReq 1 ["a"] 1), .complete 5], a.id ≠ 0) ∧
    (∀ a ∈ [In.deliver 6 (exReq 1 ["b", "c"] 2), .complete 6, .stop 5, .deliver 0 (exReq 1 [] 9)],
      a ≠ .complete 0 ∧ a ≠ .stop 0) := by decide


open MsgLayer in
/-- composition on a concrete state: a CON GET is received, rendered to 2.05 and the response is
piggy-backed on the ACK with the request's token and message id -/
example :
    let s1 := (MsgLayer.step (MsgLayer.init ⟨1000, 100⟩ 10 20 (fun _ => 50))
                ⟨5, .recv 3 false ⟨.con, 1, 77, [9], none, 0⟩⟩).1
    s1.incoming.find? (fun x => x.srv == 0) = some ⟨[9], 3, 0, false⟩ ∧
    (MsgLayer.respond s1 0 (toOutMsg ⟨69, [1], none⟩ 42 4 none) true).2 =
      [.send 5 3 ⟨.ack, 69, 77, [9], none, 42⟩] := by decide

open MsgLayer in
/-- … and a NON request whose No-Response value 2 suppresses the 2.xx class: 0 datagrams -/
example :
    let s1 := (MsgLayer.step (MsgLayer.init ⟨1000, 100⟩ 10 20 (fun _ => 50))
                ⟨5, .recv 3 false ⟨.non, 1, 77, [9], none, 0⟩⟩).1
    (MsgLayer.respond s1 0 (toOutMsg ⟨69, [1], some 2⟩ 42 4 none) true).2 = [] ∧
    (MsgLayer.respond s1 0 (toOutMsg ⟨160, [], none⟩ 42 4 none) true).2 =
      [.send 5 3 ⟨.non, 160, 10, [9], none, 42⟩] := by decide

/-- over TCP: a 2.05 with a 12 byte payload — a body of 13 bytes, the first length of the 8 bit
form — is written as one frame `d1 00 45 <token> ff <payload>`; with No-Response 2 nothing is;
a bare 5.00 to a request with an empty token is the two bytes `00 a0` -/
example :
    tcpSend [1] ⟨69, List.replicate 12 120, none⟩ =
      [.write ([209, 0, 69, 1, 255] ++ List.replicate 12 120)] ∧
    tcpSend [] ⟨160, [], none⟩ = [.write [0, 160]] := by decide

example : tcpSend [1] ⟨69, List.replicate 12 120, some 2⟩ = [] :=
  (C09_compose_tcp_final [1] ⟨69, List.replicate 12 120, some 2⟩ (by decide) (by decide)
    (by decide)).1 (by decide)

end Aiocoap.Render
